// verifgen regenerates /verif/coq/Gen/*.v from the current working tree of /repo.
// It links the tree (build tag "verif") and prints Coq definitions from live values;
// go/ast is used only where the thing needed is an order of statements.
package main

import (
	"bytes"
	"fmt"
	"os"
	"path/filepath"
)

var outDir string

func writeIfChanged(name string, content []byte) {
	p := filepath.Join(outDir, name)
	old, err := os.ReadFile(p)
	if err == nil && bytes.Equal(old, content) {
		return
	}
	if err := os.WriteFile(p, content, 0644); err != nil {
		fmt.Fprintln(os.Stderr, "write:", err)
		os.Exit(2)
	}
	fmt.Println("regenerated", name)
}

func coqBytes(b []byte) string {
	var sb bytes.Buffer
	sb.WriteString("[")
	for i, c := range b {
		if i > 0 {
			sb.WriteString(";")
		}
		fmt.Fprintf(&sb, "%d", c)
	}
	sb.WriteString("]")
	return sb.String()
}

func coqString(s string) string {
	var sb bytes.Buffer
	sb.WriteString("\"")
	for _, c := range []byte(s) {
		if c == '"' {
			sb.WriteString("\"\"")
		} else {
			sb.WriteByte(c)
		}
	}
	sb.WriteString("\"")
	return sb.String()
}

func main() {
	if len(os.Args) < 3 {
		fmt.Fprintln(os.Stderr, "usage: verifgen <repo> <outdir>")
		os.Exit(2)
	}
	repo := os.Args[1]
	outDir = os.Args[2]
	if err := os.MkdirAll(outDir, 0755); err != nil {
		panic(err)
	}
	genRotation()
	genBaked()
	genSszPrograms(repo)
	genTables()
	genSkeletons(repo)
}
