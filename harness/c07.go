package main

import (
	"crypto/ed25519"
	"encoding/json"
	"fmt"
	"sort"
	"strings"
	"sync"
	"time"

	"github.com/lidofinance/dc4bc/client/api/dto"
	ctypes "github.com/lidofinance/dc4bc/client/types"
	"github.com/lidofinance/dc4bc/fsm/types/requests"
	"github.com/lidofinance/dc4bc/storage"
)

func init() {
	scenarios["c07"] = scenarioC07
}

// ---------------------------------------------------------------------------------------------
// a closed system: n real nodes, each with its own outbox; the harness is the bulletin board
// (one global log, every node consumes it in order) and the participants' airgapped machines
// (synthetic threshold keys, partial signatures made with kyber).

type synSys struct {
	w      *World
	round  string
	nodes  []*NodeEnv
	sent   []int // messages of node i's outbox already on the board
	log    []storage.Message
	off    []int // next log index node i consumes
	items  [][]Item
	class  [][]string
	before []string
	known  []map[string]*ctypes.Operation
}

func (s *synSys) sigDesc(m storage.Message) string {
	if len(m.Signature) == 0 {
		return "none"
	}
	for _, u := range append(append([]string{}, s.w.Users...), "stranger", "mallory") {
		if kp := s.w.Keys[u]; kp != nil && ed25519.Verify(kp.Pub, m.Data, m.Signature) {
			return fmt.Sprintf("by %d %d", tok.TokB(kp.Pub), tok.TokB(m.Data))
		}
	}
	return "junk"
}

func (s *synSys) post(m storage.Message) {
	m.Offset = uint64(len(s.log))
	s.log = append(s.log, m)
}

// forward: what node i has sent since the last call goes onto the board
func (s *synSys) forward(i int) {
	msgs, err := s.nodes[i].Board.GetMessages(0)
	if err != nil {
		panic(err)
	}
	for _, m := range msgs[s.sent[i]:] {
		s.post(m)
	}
	s.sent[i] = len(msgs)
}

func (s *synSys) apply(i int, it Item) {
	s.before[i] = ""
	s.items[i] = append(s.items[i], it)
	s.class[i] = append(s.class[i], applyItem(s.nodes[i], it))
}

// deliverAll: every node consumes the board up to its end (broadcasts triggered on the way are
// forwarded at once when eager, otherwise kept back until flush)
func (s *synSys) deliverAll(eager bool) {
	for progress := true; progress; {
		progress = false
		for i := range s.nodes {
			for s.off[i] < len(s.log) {
				m := s.log[s.off[i]]
				s.off[i]++
				if m.RecipientAddr == "" || m.RecipientAddr == s.w.Users[i] {
					s.apply(i, mkItem(m, s.sigDesc(m), NOWMARK, "deliver"))
					if eager {
						s.forward(i)
					}
				}
				progress = true
			}
		}
	}
}

func (s *synSys) pendingSigning(i int, batch string) *ctypes.Operation {
	ops, err := s.nodes[i].OpRepo.GetOperations()
	if err != nil {
		return nil
	}
	for _, o := range ops {
		if string(o.Type) != "state_signing_await_partial_signs" {
			continue
		}
		var p struct{ BatchID string }
		json.Unmarshal(o.Payload, &p)
		if p.BatchID == batch {
			return o
		}
	}
	return nil
}

// answer: participant i answers its pending request for the batch through its node (the result
// operation a machine would produce, partial signatures made with its share)
func (s *synSys) answer(i int, batch string, tasks []requests.SigningTask, at time.Time) bool {
	o := s.pendingSigning(i, batch)
	if o == nil {
		return false
	}
	msgs, err := requests.TasksToMessages(tasks)
	if err != nil {
		panic(err)
	}
	var signs []requests.PartialSign
	for _, t := range msgs {
		signs = append(signs, requests.PartialSign{MessageID: t.MessageID, Sign: s.w.KS.Partial(i, t.Payload)})
		s.w.KS.Full(t.Payload)
	}
	req := requests.SigningProposalBatchPartialSignRequests{BatchID: batch, ParticipantId: i, PartialSigns: signs, CreatedAt: at}
	data, _ := json.Marshal(req)
	d := &dto.OperationDTO{ID: o.ID, Type: string(o.Type), Payload: o.Payload, CreatedAt: o.CreatedAt, DkgID: o.DKGIdentifier,
		Event: "event_signing_partial_sign_received",
		ResultMsgs: []storage.Message{{Event: "event_signing_partial_sign_received", Data: data, DkgRoundID: o.DKGIdentifier}}}
	s.known[i][o.ID] = o
	s.apply(i, resultItem(d, s.known[i], "answer"))
	s.forward(i)
	return true
}

func (s *synSys) close() {
	for _, n := range s.nodes {
		n.Close()
	}
}

func (s *synSys) fork(c *Ctx) *synSys {
	f := &synSys{w: s.w, round: s.round, log: append([]storage.Message{}, s.log...)}
	for i, n := range s.nodes {
		f.nodes = append(f.nodes, n.Fork(newEnvDir(c)))
		f.sent = append(f.sent, s.sent[i])
		f.off = append(f.off, s.off[i])
		f.items = append(f.items, append([]Item{}, s.items[i]...))
		f.class = append(f.class, append([]string{}, s.class[i]...))
		f.before = append(f.before, "")
		k := map[string]*ctypes.Operation{}
		for a, b := range s.known[i] {
			k[a] = b
		}
		f.known = append(f.known, k)
	}
	return f
}

// newSynSys: n nodes that have gone through the key generation (synthetic participants)
func newSynSys(c *Ctx, w *World, round string) *synSys {
	s := &synSys{w: w, round: round}
	for i, u := range w.Users {
		s.nodes = append(s.nodes, NewNodeEnv(newEnvDir(c), u))
		s.sent = append(s.sent, 0)
		s.off = append(s.off, 0)
		s.items = append(s.items, nil)
		s.class = append(s.class, nil)
		s.before = append(s.before, "")
		s.known = append(s.known, map[string]*ctypes.Operation{})
		// the key generation as node i sees it
		for _, it := range w.Honest(round, u) {
			if it.Label == "start" {
				break
			}
			s.apply(i, it)
		}
		_ = i
	}
	return s
}

type c07Event struct {
	Kind  string // P | A
	Who   int
	Batch int
}

func (e c07Event) String() string {
	if e.Kind == "P" {
		return fmt.Sprintf("P%d", e.Batch)
	}
	return fmt.Sprintf("A%d.%d", e.Who, e.Batch)
}

type c07Batch struct {
	ID    string
	Tasks []requests.SigningTask
	By    int
	At    time.Time
}

type c07Result struct {
	order    []c07Event
	inputs   []string
	obs      []string
	failures []Failure
}

func c07Batches(w *World, nb int, lateFrom int) []c07Batch {
	var out []c07Batch
	for b := 0; b < nb; b++ {
		id := fmt.Sprintf("batch-%d", b+1)
		at := T(int64(200 + 100*b))
		if lateFrom >= 0 && b >= lateFrom {
			// proposed (and answered) in the second week after the key generation
			at = T(NOWMARK + 8*86400 + int64(100*b))
		}
		out = append(out, c07Batch{ID: id, By: (b + 1) % w.N, At: at,
			Tasks: []requests.SigningTask{{MessageID: id + "-m1", File: "f1", Payload: []byte("payload-1")}, {MessageID: id + "-m2", File: "f2", Payload: []byte("payload-2")}}})
	}
	return out
}

// runOrder: the events of `order` happen one after the other on a copy of the system; between
// two events every node consumes the whole board
func c07RunOrder(c *Ctx, base *synSys, batches []c07Batch, order []c07Event, eager bool, label string) c07Result {
	s := base.fork(c)
	defer s.close()
	res := c07Result{order: order}
	w := s.w
	answered := map[int]map[int]bool{}
	proposed := map[int]bool{}
	for _, ev := range order {
		s.deliverAll(eager)
		b := batches[ev.Batch]
		switch ev.Kind {
		case "P":
			it := w.Msg(s.round, "event_signing_start", requests.SigningBatchProposalStartRequest{BatchID: b.ID, ParticipantId: b.By, CreatedAt: b.At, SigningTasks: b.Tasks}, w.Users[b.By], "", w.Users[b.By], NOWMARK, "start")
			s.post(it.In.Msg)
			proposed[ev.Batch] = true
		case "A":
			if s.answer(ev.Who, b.ID, b.Tasks, b.At.Add(50*time.Second)) {
				if answered[ev.Batch] == nil {
					answered[ev.Batch] = map[int]bool{}
				}
				answered[ev.Batch][ev.Who] = true
			}
		}
	}
	s.deliverAll(eager)
	for i := range s.nodes {
		s.forward(i)
	}
	s.deliverAll(true)
	var names []string
	for _, e := range order {
		names = append(names, e.String())
	}
	rep := func(extra map[string]interface{}) map[string]interface{} {
		m := map[string]interface{}{"n": w.N, "t": w.T, "order": strings.Join(names, " "), "eager_broadcasts": eager, "variant": label}
		for k, v := range extra {
			m[k] = v
		}
		return m
	}
	// oracle: every batch with at least t correct answers is stored, valid, on every node
	allDone := true
	for bi, b := range batches {
		if !proposed[bi] {
			continue
		}
		if len(answered[bi]) < w.T {
			if len(answered[bi]) > 0 || s.anyPending(b.ID) {
				allDone = false
			}
			continue
		}
		msgs, _ := requests.TasksToMessages(b.Tasks)
		for i, n := range s.nodes {
			stored := storedSigs(n, s.round, b.ID)
			for _, m := range msgs {
				want := string(w.KS.Full(m.Payload))
				ok := false
				for _, sg := range stored[m.MessageID] {
					if string(sg) == want {
						ok = true
					}
				}
				if !ok {
					res.failures = append(res.failures, Failure{Property: "C07", Kind: "batch-not-reconstructed", Signature: map[string]interface{}{"kind": "batch-not-reconstructed"},
						What:   fmt.Sprintf("%d participants answered %s correctly, but node %d stores no valid signature for message %s", len(answered[bi]), b.ID, i, m.MessageID),
						Replay: rep(map[string]interface{}{"batch": b.ID, "node": i, "message": m.MessageID, "answered_by": fmt.Sprint(keysOf(answered[bi]))})})
				}
			}
		}
	}
	if allDone {
		for i, n := range s.nodes {
			if st := roundProj(n.Snapshot(), s.round); !strings.Contains(st, "stage_signing_idle") {
				res.failures = append(res.failures, Failure{Property: "C07", Kind: "not-idle-after-batches", Signature: map[string]interface{}{"kind": "not-idle-after-batches"},
					What: fmt.Sprintf("every proposed batch got its answers, but node %d is not back in stage_signing_idle", i), Replay: rep(map[string]interface{}{"node": i})})
			}
		}
	}
	// the per-node histories for the node model
	for i, n := range s.nodes {
		its := s.items[i]
		after := n.Snapshot()
		// the model needs the snapshot before the last input: replay is not possible on the live
		// node, so the case compares classes and the final state only (before = "-")
		res.inputs = append(res.inputs, "final "+caseLine(n.User, its))
		res.obs = append(res.obs, fmt.Sprintf("node %s || - || %s", strings.Join(s.class[i], ","), after))
	}
	return res
}

func (s *synSys) anyPending(batch string) bool {
	for i := range s.nodes {
		if s.pendingSigning(i, batch) != nil {
			return true
		}
	}
	return false
}

func keysOf(m map[int]bool) []int {
	var l []int
	for k := range m {
		l = append(l, k)
	}
	sort.Ints(l)
	return l
}

func storedSigs(n *NodeEnv, round, batch string) map[string][][]byte {
	out := map[string][][]byte{}
	bz, _ := n.St.Get("signatures_" + round)
	if bz == nil {
		return out
	}
	var st map[string]map[string][]struct {
		Signature []byte
		Username  string
	}
	if err := json.Unmarshal(bz, &st); err != nil {
		return out
	}
	for id, entries := range st[batch] {
		for _, e := range entries {
			out[id] = append(out[id], e.Signature)
		}
	}
	return out
}

// all orders of the events in which a batch's proposal precedes its answers and proposals keep
// their order
func c07Orders(evs []c07Event) [][]c07Event {
	var out [][]c07Event
	var rec func(done []c07Event, left []c07Event)
	rec = func(done []c07Event, left []c07Event) {
		if len(left) == 0 {
			out = append(out, append([]c07Event{}, done...))
			return
		}
		for k, e := range left {
			ok := true
			for _, o := range left {
				if o.Kind == "P" && (o.Batch < e.Batch || (e.Kind == "A" && o.Batch == e.Batch)) && !(o == e) {
					ok = false
				}
			}
			if !ok {
				continue
			}
			rest := append(append([]c07Event{}, left[:k]...), left[k+1:]...)
			rec(append(done, e), rest)
		}
	}
	rec(nil, evs)
	return out
}

func scenarioC07(c *Ctx) {
	c07LateError(c)
	type cfg struct {
		n, t, nb int
		slow     []int // participants that answer batch 1 (index 0) possibly late; others answer every batch
		late     int   // first batch proposed in the second week (-1: none)
		sample   int   // 0: all orders
		eager    bool
	}
	cfgs := []cfg{
		{3, 2, 2, nil, -1, 0, true}, // exhaustive: every order of 2 proposals and 6 answers
		{3, 2, 2, nil, 1, 40, true}, // second batch in the second week
		{3, 2, 2, nil, 0, 20, false},
		{3, 3, 2, nil, 1, 30, true},
		{4, 3, 2, nil, -1, 40, false},
	}
	if !c.Quick() {
		cfgs = append(cfgs, cfg{3, 2, 3, nil, 2, 400, true}, cfg{3, 2, 2, nil, 1, 0, false}, cfg{4, 2, 2, nil, 1, 300, true}, cfg{5, 3, 2, nil, 0, 300, false}, cfg{2, 2, 3, nil, 1, 200, true})
	}
	total := 0
	for ci, cf := range cfgs {
		w := NewWorld(cf.n, cf.t, 1)
		round := fmt.Sprintf("round-c07-%d", ci)
		base := newSynSys(c, w, round)
		batches := c07Batches(w, cf.nb, cf.late)
		var evs []c07Event
		for b := 0; b < cf.nb; b++ {
			evs = append(evs, c07Event{"P", 0, b})
			for i := 0; i < cf.n; i++ {
				evs = append(evs, c07Event{"A", i, b})
			}
		}
		var orders [][]c07Event
		if cf.sample == 0 || cf.n*cf.nb <= 6 {
			orders = c07Orders(evs)
			if cf.sample > 0 && len(orders) > cf.sample {
				c.Rng.Shuffle(len(orders), func(a, b int) { orders[a], orders[b] = orders[b], orders[a] })
				orders = orders[:cf.sample]
			}
		} else {
			// random linear extensions
			for k := 0; k < cf.sample; k++ {
				left := append([]c07Event{}, evs...)
				var done []c07Event
				for len(left) > 0 {
					var cand []int
					for x, e := range left {
						ok := true
						for _, o := range left {
							if o.Kind == "P" && o != e && (o.Batch < e.Batch || (e.Kind == "A" && o.Batch == e.Batch)) {
								ok = false
							}
						}
						if ok {
							cand = append(cand, x)
						}
					}
					x := cand[c.Rng.Intn(len(cand))]
					done = append(done, left[x])
					left = append(left[:x], left[x+1:]...)
				}
				orders = append(orders, done)
			}
		}
		if c.Quick() && cf.sample == 0 && len(orders) > 260 {
			// the exhaustive set is large: quick keeps the orders in which participants 0 and 1 of
			// the first batch answer in index order (they are interchangeable)
			var kept [][]c07Event
			for _, o := range orders {
				p0, p1 := -1, -1
				for x, e := range o {
					if e.Kind == "A" && e.Batch == 0 && e.Who == 0 {
						p0 = x
					}
					if e.Kind == "A" && e.Batch == 0 && e.Who == 1 {
						p1 = x
					}
				}
				if p0 < p1 {
					kept = append(kept, o)
				}
			}
			orders = kept
		}
		results := make([]c07Result, len(orders))
		var wg sync.WaitGroup
		sem := make(chan struct{}, 14)
		for k := range orders {
			wg.Add(1)
			sem <- struct{}{}
			go func(k int) {
				defer wg.Done()
				defer func() { <-sem }()
				results[k] = c07RunOrder(c, base, batches, orders[k], cf.eager, fmt.Sprintf("n=%d t=%d batches=%d late-from=%d", cf.n, cf.t, cf.nb, cf.late))
			}(k)
		}
		wg.Wait()
		base.close()
		for _, r := range results {
			for i := range r.inputs {
				c.Case(fmt.Sprintf("system-n%d-t%d", cf.n, cf.t), true, r.inputs[i], r.obs[i])
			}
			for _, f := range r.failures {
				c.Fail(f)
			}
		}
		total += len(orders)
		c.Notes[fmt.Sprintf("orders_n%d_t%d_b%d_late%d_eager%v", cf.n, cf.t, cf.nb, cf.late, cf.eager)] = len(orders)
	}
	c.Notes["orders_total"] = total
	c07Real(c)
}

// c07Real: real airgapped machines; one participant is slower than the quorum
func c07Real(c *Ctx) {
	type cfg struct{ n, t int }
	cfgs := []cfg{{3, 2}}
	if !c.Quick() {
		cfgs = []cfg{{3, 2}, {3, 3}, {4, 3}, {5, 2}}
	}
	for ci, cf := range cfgs {
		cl := NewCluster(newEnvDir(c), cf.n, cf.t, fmt.Sprintf("c07-%d", ci))
		cl.Propose(0)
		cl.RunToQuiescence(func(cands []int) int { return c.Rng.Intn(len(cands)) }, nil)
		slow := cf.n - 1
		batchOf := func(o *ctypes.Operation) string {
			var p struct{ BatchID string }
			json.Unmarshal(o.Payload, &p)
			return p.BatchID
		}
		// run: deliver everything, participants answer the operations `allowed` lets them
		run := func(allowed func(i int, batch string) bool) {
			for guard := 0; guard < 2000; guard++ {
				progressed := false
				for i := range cl.Nodes {
					for cl.Deliver(i) {
						progressed = true
					}
				}
				for i := range cl.Nodes {
					for _, o := range cl.Pending(i) {
						if string(o.Type) == "state_signing_await_partial_signs" && allowed(i, batchOf(o)) {
							if _, err := cl.Answer(i, o); err == nil {
								progressed = true
							}
						}
					}
				}
				if !progressed {
					return
				}
			}
		}
		mk := func(id string) []requests.SigningTask {
			return []requests.SigningTask{{MessageID: id + "-a", File: "a", Payload: []byte("document a of " + id)}, {MessageID: id + "-b", File: "b", Payload: []byte("document b of " + id)}}
		}
		t1, t2, t3 := mk("real-1"), mk("real-2"), mk("real-3")
		cl.ProposeBatch(0, "real-1", t1)
		run(func(i int, b string) bool { return i != slow || cf.t == cf.n }) // the quorum answers; the slow one not yet (unless needed)
		cl.ProposeBatch(1%cf.n, "real-2", t2)
		run(func(i int, b string) bool { return b == "real-1" }) // the slow participant answers the finished batch while the next one waits
		run(func(i int, b string) bool { return true })
		cl.ProposeBatch(slow, "real-3", t3)
		run(func(i int, b string) bool { return i >= cf.n-cf.t }) // another quorum (the last t participants)
		var gk []byte
		if krs, err := cl.Machines[0].GetBLSKeyrings(); err == nil && krs[cl.Round] != nil {
			gk, _ = krs[cl.Round].PubPoly.Commit().MarshalBinary()
		}
		for i := range cl.Nodes {
			for b, tasks := range map[string][]requests.SigningTask{"real-1": t1, "real-2": t2, "real-3": t3} {
				got := cl.StoredSignatures(i, b)
				for _, tk := range tasks {
					valid := false
					for _, sg := range got[tk.MessageID] {
						if len(sg) > 0 && prysmVerifyBytes(gk, tk.Payload, sg) {
							valid = true
						}
					}
					if !valid {
						c.Fail(Failure{Property: "C07", Kind: "batch-not-reconstructed", Signature: map[string]interface{}{"kind": "batch-not-reconstructed"},
							What:   fmt.Sprintf("real machines (n=%d, t=%d, participant %d slow): node %d stores no valid signature for %s of %s", cf.n, cf.t, slow, i, tk.MessageID, b),
							Replay: map[string]interface{}{"n": cf.n, "t": cf.t, "slow": slow, "batch": b, "node": i}})
					}
				}
			}
			if st := cl.RoundState(i); !strings.Contains(st, "stage_signing_idle") {
				c.Fail(Failure{Property: "C07", Kind: "not-idle-after-batches", Signature: map[string]interface{}{"kind": "not-idle-after-batches"},
					What: fmt.Sprintf("real machines: node %d is not back in stage_signing_idle after three batches", i), Replay: map[string]interface{}{"n": cf.n, "t": cf.t, "node": i}})
			}
		}
		c.Case("real-cluster", true, "skip real-cluster", "skip real-cluster")
		cl.Close()
	}
}
