package main

import (
	"fmt"
	"os"
	"path/filepath"
	"strings"

	"github.com/lidofinance/dc4bc/storage"
)

func init() { scenarios["c18mut"] = scenarioC18Mut }

// scenarioC18Mut: structure-aware mutation of every genuine board message of a ceremony (and of a
// reinitialisation message): at every position of the honest history the NEXT genuine message is
// mutated at every JSON path (null, [], "", -1, deleted, [null], ...), signed again by its genuine
// sender and handled by a real node. Whatever the node answers it must not crash, a refusal must
// leave its durable state untouched, and every round it holds must stay decodable. Every case is
// also evaluated on the node model.
func scenarioC18Mut(c *Ctx) {
	w := NewWorld(3, 2, 1)
	me := w.Users[0]
	round := "round-c18m"
	h := w.Honest(round, me)
	var cases []HistCase
	check := func(label string, pos int) func(o RunObs) {
		return func(o RunObs) {
			last := o.Classes[len(o.Classes)-1]
			rep := map[string]interface{}{"position": pos, "input": label}
			if last == "panic" {
				c.Fail(Failure{Property: "C18", Kind: "node-panic", Signature: map[string]interface{}{"kind": "node-panic", "input": label},
					What: "a board message crashes the node: " + label, Replay: rep})
			}
			if last == "err" && o.Before != o.After {
				rep["before"], rep["after"] = o.Before, o.After
				c.Fail(Failure{Property: "C18", Kind: "rejected-input-changed-state", Signature: map[string]interface{}{"kind": "rejected-input-changed-state", "input": label},
					What: fmt.Sprintf("a rejected board message (%s) changed the node's durable state", label), Replay: rep})
			}
			if strings.Contains(o.After, "undecodable") {
				rep["after"] = o.After
				c.Fail(Failure{Property: "C18", Kind: "undecodable-round-persisted", Signature: map[string]interface{}{"kind": "undecodable-round-persisted"},
					What: fmt.Sprintf("after the board message %s (answered %q) the node holds a round that cannot be decoded any more", label, last), Replay: rep})
			}
		}
	}
	total := 0
	for k := 0; k < len(h); k++ {
		g := h[k].In.Msg
		muts := jsonPathMutations(g.Data, !c.Quick())
		if c.Quick() && len(muts) > 60 { // the opening proposal has many paths: a deterministic sample
			var keep []jsonMut
			for i, m := range muts {
				if i%(len(muts)/60+1) == 0 {
					keep = append(keep, m)
				}
			}
			muts = keep
		}
		for _, mu := range muts {
			label := fmt.Sprintf("%s[%s]", g.Event, mu.Label)
			it := w.RawMsg(round, g.Event, mu.Data, g.SenderAddr, g.RecipientAddr, g.SenderAddr, NOWMARK, label)
			items := append(append([]Item{}, h[:k]...), it)
			cases = append(cases, HistCase{Kind: "mut-" + g.Event, User: me, Items: items, PrefixKey: fmt.Sprintf("%s/%d", round, k), Check: check(label, k)})
			total++
		}
	}
	// the reinitialisation message of a finished key generation, on a fresh node
	roundOld := "round-c18m-old"
	body := w.ReDKGOf(dkgPart(w.Honest(roundOld, me)))
	base := w.ReinitItem(roundOld, body, nil, "reinit-genuine")
	rmuts := jsonPathMutations(base.In.Msg.Data, !c.Quick())
	step := 1
	if c.Quick() && len(rmuts) > 120 {
		step = len(rmuts)/120 + 1
	}
	for i, mu := range rmuts {
		if i%step != 0 {
			continue
		}
		label := "reinit_dkg[" + mu.Label + "]"
		it := w.ReinitItem("carrier-c18m", nil, mu.Data, label)
		cases = append(cases, HistCase{Kind: "mut-reinit_dkg", User: me, Items: []Item{it}, PrefixKey: "reinit-fresh", Check: check(label, 0)})
		total++
	}
	runCases(c, cases)
	if lf, err := os.Create(filepath.Join(c.OutDir, "labels.txt")); err == nil { // case index -> mutation, for replays
		for _, hc := range cases {
			fmt.Fprintln(lf, hc.Items[len(hc.Items)-1].Label)
		}
		lf.Close()
	}
	c.Notes["mutants"] = total
	_ = storage.Message{}
}
