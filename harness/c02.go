package main

import (
	ctypes "github.com/lidofinance/dc4bc/client/types"
	"github.com/lidofinance/dc4bc/fsm/types/requests"
	"bytes"
	"fmt"
	"strings"

	"github.com/corestario/kyber/pairing"
	"github.com/corestario/kyber/pairing/bls12381"
	"github.com/corestario/kyber/sign/tbls"
)

func init() {
	scenarios["c02"] = scenarioC02
}

func scenarioC02(c *Ctx) {
	fail := func(kind, what string, rep map[string]interface{}) {
		c.Fail(Failure{Property: "C02", Kind: kind, Signature: map[string]interface{}{"kind": kind}, What: what, Replay: rep})
	}
	// (A) the round FSM under deviating key announcements (other key, other polynomial, any position):
	// exhaustive exploration, every edge compared with the model
	for _, cf := range [][2]int{{2, 2}, {3, 2}} {
		n, t := cf[0], cf[1]
		exploreFrom(initialDump("round-1"), alphabet(n, t, true, "dkg"), 100000, func(srcProj string, src []byte, ev Ev, o StepObs) {
			if !strings.HasPrefix(ev.Kind, "master") {
				return
			}
			c.Case("fsm/"+ev.Kind+"/"+o.Class, o.Class == "ok", "fsm "+srcProj+" | "+ev.Line(), o.Line())
			if o.Class != "ok" {
				return
			}
			bd, ad := decodeDump(src), decodeDump(o.DumpOut)
			after := abstractOf(ad)
			rep := map[string]interface{}{"dump": srcProj, "event": ev.Line(), "observed": o.Line()}
			keys := map[string]bool{}
			for _, k := range after.Master {
				if k != "" {
					keys[k] = true
				}
			}
			cancelled := isCancelledDkg(after.State) // by error, or by timeout for a late announcement
			if len(keys) > 1 && !cancelled {
				fail("different-keys-not-cancelled", "two different announced group keys did not cancel the round", rep)
			}
			if req, ok := ev.Req.val.(requests.DKGProposalMasterKeyConfirmationRequest); ok && bd.Payload.DKGProposalPayload != nil {
				prev := bd.Payload.DKGProposalPayload.PubPolyBz
				if len(prev) > 0 && !bytes.Equal(prev, req.PubPolyBz) && !cancelled {
					fail("different-polynomials-not-cancelled", "an announcement carrying a public polynomial different from the one already announced did not cancel the round", rep)
				}
			}
		})
	}
	// (B) a storage fault on one airgapped machine exactly when it has to store its key share: the round
	// must not become signing-ready while that machine holds no share
	{
		cl := NewCluster(newEnvDir(c), 3, 2, "c02-fault")
		cl.Propose(0)
		closed := false
		cl.RunToQuiescence(func(cands []int) int { return 0 }, func(i int, o *ctypes.Operation) bool {
			if i == 0 && string(o.Type) == "state_dkg_master_key_await_confirmations" && !closed {
				cl.Machines[0].VerifClose()
				closed = true
			}
			return true
		})
		ready := false
		for i := range cl.Nodes {
			if strings.Contains(cl.RoundState(i), "stage_signing_idle") {
				ready = true
			}
		}
		cl.Machines[0] = openMachine(cl.MDirs[0], cl.Password, "", false)
		krs, _ := cl.Machines[0].GetBLSKeyrings()
		if ready && krs[cl.Round] == nil {
			fail("ready-without-share", "the round became signing-ready although one airgapped machine failed to store its key share", map[string]interface{}{"fault": "database closed before the master-key operation of machine 0"})
		}
		c.Case("storage-fault", true, "skip c02-fault", "skip c02-fault")
		cl.Close()
	}
	type cfg struct{ n, t int }
	cfgs := []cfg{{2, 2}, {3, 2}, {4, 3}, {5, 2}}
	orders := 2
	if !c.Quick() {
		cfgs = []cfg{{2, 2}, {3, 2}, {3, 3}, {4, 2}, {4, 3}, {5, 3}, {6, 4}}
		orders = 4
	}
	suite := bls12381.NewBLS12381Suite(nil).(pairing.Suite)
	for ci, cf := range cfgs {
		for o := 0; o < orders; o++ {
			cl := NewCluster(newEnvDir(c), cf.n, cf.t, fmt.Sprintf("c02-%d-%d", ci, o))
			cl.Propose(0)
			ord := o
			cl.RunToQuiescence(func(cands []int) int {
				if ord == 0 {
					return 0
				}
				return c.Rng.Intn(len(cands))
			}, nil)
			rep := map[string]interface{}{"n": cf.n, "t": cf.t, "order": o}
			// dealers' secret polynomials (hook), shares and public polynomials of all machines
			var dealers [][]string
			var polyRef [][]byte
			var sbDealers strings.Builder
			ready := true
			for i, m := range cl.Machines {
				inst := m.VerifDKGInstance(cl.Round)
				if inst == nil || inst.VerifInstance() == nil {
					ready = false
					break
				}
				var cs []string
				for _, co := range inst.VerifInstance().GetDealer().PrivatePoly().Coefficients() {
					cs = append(cs, scalarDec(co))
				}
				if len(cs) != cf.t {
					fail("dealer-degree", fmt.Sprintf("dealer %d's secret polynomial has %d coefficients, threshold is %d", i, len(cs), cf.t), rep)
				}
				dealers = append(dealers, cs)
				sbDealers.WriteString(" " + strings.Join(cs, " "))
			}
			if !ready {
				fail("ceremony-failed", "a fault-free key generation did not finish", rep)
				cl.Close()
				continue
			}
			var masterRef []byte
			for i, m := range cl.Machines {
				krs, err := m.GetBLSKeyrings()
				if err != nil || krs[cl.Round] == nil {
					fail("no-keyring", fmt.Sprintf("machine %d holds no key share after a completed round", i), rep)
					continue
				}
				kr := krs[cl.Round]
				_, commits := kr.PubPoly.Info()
				if len(commits) != cf.t {
					fail("poly-degree", fmt.Sprintf("the public polynomial has %d commitments, threshold is %d", len(commits), cf.t), rep)
				}
				var cbz [][]byte
				for _, cm := range commits {
					b, _ := cm.MarshalBinary()
					cbz = append(cbz, b)
				}
				if polyRef == nil {
					polyRef = cbz
				} else {
					for k := range cbz {
						if k >= len(polyRef) || !bytes.Equal(cbz[k], polyRef[k]) {
							fail("polynomials-differ", fmt.Sprintf("machines 0 and %d hold different public polynomials", i), rep)
							break
						}
					}
				}
				// the share lies on the public polynomial
				if kr.Share.I != i {
					fail("share-index", fmt.Sprintf("machine %d holds the share with index %d", i, kr.Share.I), rep)
				}
				lhs := suite.G1().Point().Mul(kr.Share.V, nil)
				if !lhs.Equal(kr.PubPoly.Eval(kr.Share.I).V) {
					fail("share-off-polynomial", fmt.Sprintf("machine %d's share does not lie on the public polynomial", i), rep)
				}
				// model: share = sum of the dealers' polynomials at i+1
				secret := suite.G1().Scalar().Zero()
				for _, mm := range cl.Machines {
					secret = suite.G1().Scalar().Add(secret, mm.VerifDKGInstance(cl.Round).VerifInstance().GetDealer().PrivatePoly().Secret())
				}
				c.Case(fmt.Sprintf("pedersen-n%d-t%d", cf.n, cf.t), true, fmt.Sprintf("ped %d %d%s | %d", cf.n, cf.t, sbDealers.String(), i),
					fmt.Sprintf("ped share=%s secret=%s", scalarDec(kr.Share.V), scalarDec(secret)))
				if !suite.G1().Point().Mul(secret, nil).Equal(kr.PubPoly.Commit()) {
					fail("constant-term", "the public polynomial's constant term is not the commitment of the sum of the dealers' secrets", rep)
				}
				// what the hot node retains
				mk, _ := kr.PubPoly.Commit().MarshalBinary()
				if masterRef == nil {
					masterRef = mk
				}
				pbz, _ := kr.PubPolyBytes()
				st := cl.Nodes[i].Snapshot()
				if !strings.Contains(st, fmt.Sprintf(" %d ", tok.TokB(pbz))) {
					fail("node-polynomial", fmt.Sprintf("hot node %d does not retain the public polynomial its airgapped machine holds", i), rep)
				}
				if !strings.Contains(roundProj(st, cl.Round), "stage_signing_idle") {
					fail("not-ready", fmt.Sprintf("hot node %d is not signing-ready after a fault-free ceremony", i), rep)
				}
				if !strings.Contains(st, fmt.Sprintf(" %d ", tok.TokB(mk))) {
					fail("node-master-key", fmt.Sprintf("hot node %d does not record the group key as announced key", i), rep)
				}
			}
			// t-1 shares cannot sign: recovery with t-1 partial signatures is refused
			krs0, _ := cl.Machines[0].GetBLSKeyrings()
			if kr := krs0[cl.Round]; kr != nil {
				msg := []byte("some message")
				var sigs [][]byte
				for i := 0; i < cf.t-1; i++ {
					k, _ := cl.Machines[i].GetBLSKeyrings()
					sg, _ := tbls.Sign(suite, k[cl.Round].Share, msg)
					sigs = append(sigs, sg)
				}
				if _, err := tbls.Recover(suite, kr.PubPoly, msg, sigs, cf.t, cf.n); err == nil {
					fail("t-minus-one-signs", "t-1 shares were combined into a signature", rep)
				}
			}
			cl.Close()
		}
	}
}
