package main

import (
	"encoding/json"
	"fmt"
	"os"
	"path/filepath"
	"sort"
	"strings"
	"sync"

	"github.com/syndtr/goleveldb/leveldb"
	"github.com/syndtr/goleveldb/leveldb/opt"

	"github.com/lidofinance/dc4bc/airgapped"
	ctypes "github.com/lidofinance/dc4bc/client/types"
	"github.com/lidofinance/dc4bc/fsm/types/requests"
)

func init() {
	scenarios["c18air"] = scenarioC18Air
}

// ---- structure-aware mutation of genuine operation files ----

type opMut struct {
	Label string
	Op    ctypes.Operation
}

func mutatePayload(label string, o ctypes.Operation, f func(v interface{}) interface{}) opMut {
	var v interface{}
	if err := json.Unmarshal(o.Payload, &v); err != nil {
		return opMut{label + "(undecodable-genuine)", o}
	}
	bz, _ := json.Marshal(f(v))
	m := o
	m.Payload = bz
	return opMut{label, m}
}

func firstObj(v interface{}) map[string]interface{} {
	switch x := v.(type) {
	case []interface{}:
		for _, e := range x {
			if m, ok := e.(map[string]interface{}); ok {
				return m
			}
		}
	case map[string]interface{}:
		return x
	}
	return nil
}

func lastObj(v interface{}) map[string]interface{} {
	if x, ok := v.([]interface{}); ok {
		for k := len(x) - 1; k >= 0; k-- {
			if m, ok := x[k].(map[string]interface{}); ok {
				return m
			}
		}
	}
	return firstObj(v)
}

func opMutations(o ctypes.Operation, thorough bool) []opMut {
	var out []opMut
	add := func(m opMut) { out = append(out, m) }
	raw := func(label string, payload string) {
		m := o
		m.Payload = []byte(payload)
		add(opMut{label, m})
	}
	raw("payload-empty", "")
	raw("payload-truncated-json", string(o.Payload[:len(o.Payload)/2]))
	raw("payload-null", "null")
	raw("payload-empty-array", "[]")
	raw("payload-null-entry", "[null]")
	raw("payload-number", "7")
	raw("payload-empty-object", "{}")
	raw("payload-array-of-empty-objects", "[{},{}]")
	byteFields := []string{"DkgPubKey", "DkgCommit", "DkgDeal", "DkgResponse", "SrcPayload"}
	for _, which := range []string{"first", "last"} {
		pick := firstObj
		if which == "last" {
			pick = lastObj
		}
		// field deletion / type confusion / integers
		add(mutatePayload(which+"-delete-id", o, func(v interface{}) interface{} {
			if m := pick(v); m != nil {
				delete(m, "ParticipantId")
			}
			return v
		}))
		add(mutatePayload(which+"-delete-username", o, func(v interface{}) interface{} {
			if m := pick(v); m != nil {
				delete(m, "Username")
			}
			return v
		}))
		add(mutatePayload(which+"-id-as-string", o, func(v interface{}) interface{} {
			if m := pick(v); m != nil {
				m["ParticipantId"] = "one"
			}
			return v
		}))
		add(mutatePayload(which+"-negative-id", o, func(v interface{}) interface{} {
			if m := pick(v); m != nil {
				m["ParticipantId"] = -1
			}
			return v
		}))
		add(mutatePayload(which+"-huge-id", o, func(v interface{}) interface{} {
			if m := pick(v); m != nil {
				m["ParticipantId"] = 9007199254740993
			}
			return v
		}))
		add(mutatePayload(which+"-threshold-negative", o, func(v interface{}) interface{} {
			if m := pick(v); m != nil {
				if _, ok := m["Threshold"]; ok {
					m["Threshold"] = -2
				}
			}
			return v
		}))
		add(mutatePayload(which+"-threshold-huge", o, func(v interface{}) interface{} {
			if m := pick(v); m != nil {
				if _, ok := m["Threshold"]; ok {
					m["Threshold"] = 1000000
				}
			}
			return v
		}))
		for _, bf := range byteFields {
			bf := bf
			has := false
			var probe interface{}
			json.Unmarshal(o.Payload, &probe)
			if m := pick(probe); m != nil {
				_, has = m[bf]
			}
			if !has {
				continue
			}
			add(mutatePayload(which+"-"+bf+"-deleted", o, func(v interface{}) interface{} {
				if m := pick(v); m != nil {
					delete(m, bf)
				}
				return v
			}))
			add(mutatePayload(which+"-"+bf+"-number", o, func(v interface{}) interface{} {
				if m := pick(v); m != nil {
					m[bf] = 12
				}
				return v
			}))
			add(mutatePayload(which+"-"+bf+"-9-bytes", o, func(v interface{}) interface{} {
				if m := pick(v); m != nil {
					m[bf] = []byte("123456789")
				}
				return v
			}))
			add(mutatePayload(which+"-"+bf+"-empty", o, func(v interface{}) interface{} {
				if m := pick(v); m != nil {
					m[bf] = []byte{}
				}
				return v
			}))
			add(mutatePayload(which+"-"+bf+"-invalid-point", o, func(v interface{}) interface{} {
				if m := pick(v); m != nil {
					bad := make([]byte, 48)
					for k := range bad {
						bad[k] = 0xff
					}
					if bf == "DkgCommit" {
						inner, _ := json.Marshal([][]byte{bad, bad})
						m[bf] = inner
					} else {
						m[bf] = bad
					}
				}
				return v
			}))
			add(mutatePayload(which+"-"+bf+"-cut-by-one", o, func(v interface{}) interface{} {
				if m := pick(v); m != nil {
					if s, ok := m[bf].(string); ok && len(s) > 8 {
						var bz []byte
						q, _ := json.Marshal(s)
						json.Unmarshal(q, &bz)
						if len(bz) > 1 {
							m[bf] = bz[:len(bz)-1]
						}
					}
				}
				return v
			}))
			add(mutatePayload(which+"-"+bf+"-json-null-inside", o, func(v interface{}) interface{} {
				if m := pick(v); m != nil {
					m[bf] = []byte("[null]")
				}
				return v
			}))
		}
	}
	// oversized array
	add(mutatePayload("entries-times-40", o, func(v interface{}) interface{} {
		if x, ok := v.([]interface{}); ok && len(x) > 0 {
			var big []interface{}
			for k := 0; k < 40; k++ {
				big = append(big, x...)
			}
			return big
		}
		return v
	}))
	add(mutatePayload("entries-reversed", o, func(v interface{}) interface{} {
		if x, ok := v.([]interface{}); ok {
			for a, b := 0, len(x)-1; a < b; a, b = a+1, b-1 {
				x[a], x[b] = x[b], x[a]
			}
		}
		return v
	}))
	add(mutatePayload("one-entry-only", o, func(v interface{}) interface{} {
		if x, ok := v.([]interface{}); ok && len(x) > 1 {
			return x[:1]
		}
		return v
	}))
	// the operation envelope
	env := func(label string, f func(m *ctypes.Operation)) {
		m := o
		f(&m)
		add(opMut{label, m})
	}
	env("type-unknown", func(m *ctypes.Operation) { m.Type = "state_bogus" })
	env("type-empty", func(m *ctypes.Operation) { m.Type = "" })
	for _, ty := range []string{opCommits, opDeals, opResponses, opMaster, "state_signing_await_partial_signs", "reinit_dkg", "state_sig_proposal_await_participants_confirmations"} {
		if ty != string(o.Type) {
			ty := ty
			env("type-of-"+ty, func(m *ctypes.Operation) { m.Type = ctypes.OperationType(ty) })
		}
	}
	env("round-id-two-characters", func(m *ctypes.Operation) { m.DKGIdentifier = "ab" })
	env("round-id-with-slash", func(m *ctypes.Operation) { m.DKGIdentifier = "ab/cd-" + m.DKGIdentifier })
	env("round-id-dot-dot-slash", func(m *ctypes.Operation) { m.DKGIdentifier = "../" + m.DKGIdentifier })
	add(mutatePayload("batch-id-with-slash", o, func(v interface{}) interface{} {
		if m, ok := v.(map[string]interface{}); ok {
			if _, has := m["BatchID"]; has {
				m["BatchID"] = "2021/03/../../x"
			}
		}
		return v
	}))
	env("round-id-empty", func(m *ctypes.Operation) { m.DKGIdentifier = "" })
	env("round-id-unknown", func(m *ctypes.Operation) { m.DKGIdentifier = "0123456789abcdef0123456789abcdef" })
	env("operation-id-short", func(m *ctypes.Operation) { m.ID = "x" })
	env("operation-id-with-slash", func(m *ctypes.Operation) { m.ID = "a/b" + m.ID })
	env("operation-id-dot-dot-slash", func(m *ctypes.Operation) { m.ID = "../" + m.ID })
	env("operation-id-empty", func(m *ctypes.Operation) { m.ID = "" })
	_ = thorough
	return out
}

// ---- durable state of a machine ----
func dbSnapshot(dir string) string {
	db, err := leveldb.OpenFile(dir, &opt.Options{ReadOnly: true})
	if err != nil {
		return "unreadable: " + err.Error()
	}
	defer db.Close()
	it := db.NewIterator(nil, nil)
	defer it.Release()
	var l []string
	for it.Next() {
		if strings.HasPrefix(string(it.Key()), "bls_keyring") {
			// re-encrypted (fresh nonce) whenever the log is replayed: presence only
			l = append(l, fmt.Sprintf("%x=<keyring>", it.Key()))
			continue
		}
		l = append(l, fmt.Sprintf("%x=%x", it.Key(), it.Value()))
	}
	sort.Strings(l)
	return strings.Join(l, "\n")
}

type airProbe struct {
	dir string
	am  *airgapped.Machine
}

// probe: a machine reopened on a copy of the victim's database, volatile state rebuilt by
// replaying its operation log (what a restarted machine does)
func newAirProbe(cl *Cluster, victim int, dir string, logged bool) (*airProbe, error) {
	os.RemoveAll(dir)
	os.MkdirAll(dir, 0755)
	copyDir(filepath.Join(cl.MDirs[victim], "db"), filepath.Join(dir, "db"))
	os.MkdirAll(filepath.Join(dir, "results"), 0755)
	am, err := airgapped.NewMachine(filepath.Join(dir, "db"))
	if err != nil {
		return nil, err
	}
	am.SetEncryptionKey(cl.Password)
	if err := am.InitKeys(); err != nil {
		return nil, err
	}
	am.SetResultFolder(filepath.Join(dir, "results"))
	if logged {
		if err := am.ReplayOperationsLog(cl.Round); err != nil {
			return nil, err
		}
	}
	return &airProbe{dir: dir, am: am}, nil
}

func (p *airProbe) close() {
	p.am.VerifClose()
	os.RemoveAll(p.dir)
}

// feed: "crash" | "rejected" | "error-result" | "ok"
func (p *airProbe) feed(o ctypes.Operation) (class string, event string) {
	defer func() {
		if r := recover(); r != nil {
			class, event = "crash", fmt.Sprint(r)
		}
	}()
	path, err := p.am.ProcessOperation(o, true)
	if err != nil {
		return "rejected", ""
	}
	bz, err := os.ReadFile(path)
	if err != nil {
		return "rejected", ""
	}
	var res ctypes.Operation
	json.Unmarshal(bz, &res)
	os.Remove(path)
	if strings.Contains(string(res.Event), "error") || strings.Contains(string(res.Event), "decline") {
		return "error-result", string(res.Event)
	}
	return "ok", string(res.Event)
}

type airCase struct {
	step   string
	label  string
	class  string
	detail string
	before string
	after  string
	next   string // class of the genuine operation fed afterwards
	had    bool   // the machine had a DKG instance for the operation's round before
}

func scenarioC18Air(c *Ctx) {
	type cfg struct{ n, t int }
	cfgs := []cfg{{3, 2}}
	if !c.Quick() {
		cfgs = []cfg{{3, 2}, {2, 2}, {4, 3}}
	}
	total := 0
	kinds := map[string]int{}
	for ci, cf := range cfgs {
		cl := NewCluster(newEnvDir(c), cf.n, cf.t, fmt.Sprintf("c18air-%d", ci))
		cl.Propose(0)
		victim := 1 % cf.n
		step := 0
		var all []airCase
		signed := false
		handle := func(i int, o *ctypes.Operation) (bool, error) {
			if string(o.Type) == "state_sig_proposal_await_participants_confirmations" {
				_, err := cl.Answer(i, o)
				return true, err
			}
			if i != victim {
				_, err := answerViaFile(cl, i, o)
				return true, err
			}
			// before the victim answers: every mutation of this operation on its own probe
			muts := opMutations(*o, !c.Quick())
			res := make([]airCase, len(muts))
			var wg sync.WaitGroup
			sem := make(chan struct{}, 12)
			cl.Machines[victim].VerifClose() // the database is copied while closed
			for k := range muts {
				wg.Add(1)
				sem <- struct{}{}
				go func(k int) {
					defer wg.Done()
					defer func() { <-sem }()
					ac := airCase{step: string(o.Type), label: muts[k].Label}
					dir := filepath.Join(cl.Dir, fmt.Sprintf("probe-%d-%d", step, k))
					open := func() (*airProbe, error) { return newAirProbe(cl, victim, dir, step > 0) }
					p, err := open()
					if err != nil {
						ac.class, ac.detail = "probe-failed", err.Error()
						res[k] = ac
						return
					}
					ac.had = p.am.VerifDKGInstance(muts[k].Op.DKGIdentifier) != nil
					ac.class, ac.detail = p.feed(muts[k].Op)
					p.am.VerifClose()
					if ac.class == "rejected" {
						// nothing durable may have changed
						ac.before = dbSnapshot(filepath.Join(cl.MDirs[victim], "db"))
						ac.after = dbSnapshot(filepath.Join(dir, "db"))
					}
					if ac.class != "crash" {
						// the same process goes on: the genuine operation must still be carried out
						p.am, err = airgapped.NewMachine(filepath.Join(dir, "db"))
						if err == nil {
							p.am.VerifClose()
						}
					}
					os.RemoveAll(dir)
					// the genuine operation after the refused one, in ONE process
					if ac.class == "rejected" || (ac.class == "error-result" && !ac.had) {
						p2, err := open()
						if err != nil {
							ac.next = "probe-failed"
						} else {
							p2.feed(muts[k].Op)
							ac.next, _ = p2.feed(*o)
							p2.close()
						}
					}
					res[k] = ac
				}(k)
			}
			wg.Wait()
			cl.Machines[victim] = reopen(cl, victim)
			if step > 0 {
				cl.Machines[victim].ReplayOperationsLog(cl.Round)
			}
			all = append(all, res...)
			step++
			_, err := answerViaFile(cl, i, o)
			return true, err
		}
		cl.RunToQuiescenceWith(func(cands []int) int { return 0 }, handle)
		if !signed {
			signed = true
			cl.ProposeBatch(0, "c18-batch", []requests.SigningTask{{MessageID: "d1", File: "f", Payload: []byte("document")}})
			cl.RunToQuiescenceWith(func(cands []int) int { return 0 }, handle)
		}
		ready := true
		for i := range cl.Nodes {
			if !strings.Contains(cl.RoundState(i), "stage_signing_idle") {
				ready = false
			}
		}
		if !ready {
			c.Fail(Failure{Property: "C18", Kind: "ceremony-failed", Signature: map[string]interface{}{"kind": "ceremony-failed"}, What: "the ceremony around the hostile operation files did not finish", Replay: map[string]interface{}{"n": cf.n, "t": cf.t}})
		}
		for _, ac := range all {
			total++
			kinds[ac.class]++
			rep := map[string]interface{}{"n": cf.n, "t": cf.t, "operation": ac.step, "mutation": ac.label}
			switch ac.class {
			case "crash":
				c.Fail(Failure{Property: "C18", Kind: "machine-crash", Signature: map[string]interface{}{"kind": "machine-crash", "operation": ac.step, "mutation": ac.label},
					What: fmt.Sprintf("the airgapped machine crashes on a %s operation file with %s: %s", ac.step, ac.label, firstLine(ac.detail)), Replay: rep})
			case "probe-failed":
				c.Fail(Failure{Property: "C18", Kind: "probe-failed", Signature: map[string]interface{}{"kind": "probe-failed"}, What: "harness: " + ac.detail, Replay: rep})
			case "error-result":
				// the machine had no instance for the round, so the failed operation created nothing it
				// could legitimately keep: the genuine operation must still be carried out
				if !ac.had && ac.next != "ok" {
					c.Fail(Failure{Property: "C18", Kind: "refused-operation-has-effect", Signature: map[string]interface{}{"kind": "refused-operation-has-effect", "operation": ac.step, "mutation": ac.label},
						What:   fmt.Sprintf("a %s operation file with %s is answered with an error although the machine has no instance for the round, and afterwards the genuine operation is no longer carried out (%s)", ac.step, ac.label, ac.next),
						Replay: rep})
				}
			case "rejected":
				if ac.before != ac.after {
					c.Fail(Failure{Property: "C18", Kind: "rejected-operation-changed-database", Signature: map[string]interface{}{"kind": "rejected-operation-changed-database", "operation": ac.step, "mutation": ac.label},
						What: fmt.Sprintf("a rejected %s operation file (%s) changed the machine's database", ac.step, ac.label), Replay: rep})
				}
				// an operation that was not carried out must not affect the genuine one
				if ac.next != "ok" {
					c.Fail(Failure{Property: "C18", Kind: "refused-operation-has-effect", Signature: map[string]interface{}{"kind": "refused-operation-has-effect", "operation": ac.step, "mutation": ac.label},
						What:   fmt.Sprintf("after a refused %s operation file (%s: %s) the genuine operation no longer succeeds (%s)", ac.step, ac.label, ac.class, ac.next),
						Replay: rep})
				}
			}
			// the model: which class an operation file falls into, given whether the machine had an
			// instance for its round and whether the handler found anything wrong
			kind := "later"
			if strings.Contains(ac.label, "type-of-") || strings.Contains(ac.label, "type-unknown") || strings.Contains(ac.label, "type-empty") {
				kind = "" // another handler (or none) is entered: outside this classification
			} else if ac.step == opCommits {
				kind = "commits"
			} else if ac.step == "state_signing_await_partial_signs" {
				kind = "signing"
			}
			if kind != "" && ac.class != "crash" && ac.class != "probe-failed" {
				okFlag := 0
				if ac.class == "ok" {
					okFlag = 1
				}
				c.Case("air-"+ac.class, true, fmt.Sprintf("c18air %s %s %d", kind, b2s(ac.had), okFlag), "c18air "+ac.class)
			} else {
				c.Case("air-other", false, "skip "+ac.class, "skip "+ac.class)
			}
		}
		if ci == 0 && ready {
			total += c18AirReinit(c, cl, fmt.Sprintf("c18air-%d", ci), victim)
		}
		cl.Close()
	}
	c.Notes["operation_files"] = total
	c.Notes["classes"] = kinds
	c18FileNames(c)
}

// c18FileNames: Operation.Filename against its model (Node/FileName.v) on hostile identifiers - path
// separators, "..", NUL, backslashes, non-ASCII and invalid UTF-8, cut in the middle of a rune by the
// five-byte limit - for every operation type; and the oracle the theorem states: no byte of the name is
// anything but a letter, a digit, '.', '_' or '-'
func c18FileNames(c *Ctx) {
	types := map[string]string{"invite": "state_sig_proposal_await_participants_confirmations", "commits": opCommits, "deals": opDeals,
		"responses": opResponses, "master": opMaster, "sign": "state_signing_await_partial_signs", "collected": "state_signing_partial_signs_collected",
		"reinit": "reinit_dkg", "unknown": "no_such_operation/../type"}
	kindsOrder := []string{"invite", "commits", "deals", "responses", "master", "sign", "collected", "reinit", "unknown"}
	pool := [][]byte{[]byte(""), []byte("a"), []byte("round"), []byte("../../etc/passwd"), []byte("/abs"), []byte("a/b"), []byte("a\\b"), {0, 1, 2}, []byte("é"), []byte("ab\xc3\xa9cd"),
		[]byte("abcd\xc3\xa9"), []byte("\xff\xfe\xfd"), []byte("\xe2\x82"), []byte("日本語のラウンド"), []byte("\xf0\x9f\x98\x80x"), []byte("\xed\xa0\x80"), []byte("\xc0\xaf"), []byte("a b\tc\nd"),
		[]byte("UPPER.lower-0_9"), []byte("dcd7312b48e3d899b1855d61ce49745827fce4b1d30291c2637c088af1ab2097")}
	n := 60
	if !c.Quick() {
		n = 600
	}
	hexOr := func(b []byte) string {
		if len(b) == 0 {
			return "-"
		}
		return fmt.Sprintf("%x", b)
	}
	for i := 0; i < n; i++ {
		kind := kindsOrder[i%len(kindsOrder)]
		pick := func() []byte {
			if c.Rng.Intn(4) == 0 {
				b := make([]byte, c.Rng.Intn(9))
				c.Rng.Read(b)
				return b
			}
			return pool[c.Rng.Intn(len(pool))]
		}
		round, id, batch := pick(), pick(), pick()
		o := ctypes.Operation{ID: string(id), Type: ctypes.OperationType(types[kind]), DKGIdentifier: string(round)}
		batchField := "none"
		if kind == "sign" {
			if c.Rng.Intn(5) == 0 {
				o.Payload = []byte(`{"BatchID":`) // does not decode: no batch part in the name
			} else {
				o.Payload, _ = json.Marshal(map[string]interface{}{"BatchID": string(batch)})
				var p struct{ BatchID string }
				json.Unmarshal(o.Payload, &p) // what Filename will see (JSON replaces invalid UTF-8)
				batchField = hexOr([]byte(p.BatchID))
			}
		}
		name := o.Filename()
		for _, b := range []byte(name) {
			ok := (b >= 'a' && b <= 'z') || (b >= 'A' && b <= 'Z') || (b >= '0' && b <= '9') || b == '.' || b == '_' || b == '-'
			if !ok {
				c.Fail(Failure{Property: "C18", Kind: "file-name-escapes", Signature: map[string]interface{}{"kind": "file-name-escapes"},
					What:   fmt.Sprintf("the file name of an operation contains the byte 0x%02x (identifiers from the board reach the file system unsanitised)", b),
					Replay: map[string]interface{}{"type": types[kind], "round_hex": hexOr(round), "id_hex": hexOr(id), "batch": batchField, "name_hex": fmt.Sprintf("%x", name)}})
				break
			}
		}
		c.Case("file-name", true, fmt.Sprintf("filename %s %s %s %s", kind, hexOr(round), hexOr(id), batchField), "filename "+fmt.Sprintf("%x", name))
	}
}

func firstLine(s string) string {
	if i := strings.Index(s, "\n"); i >= 0 {
		return s[:i]
	}
	if len(s) > 160 {
		return s[:160]
	}
	return s
}

// c18AirReinit: the finished round is reinitialised on fresh nodes and machines; before the victim's
// machine answers the genuine reinit operation, copies of it whose OUTER round identifier is not the
// round of the operations it embeds are fed to probes of that machine: such a file is refused, and a
// refused file leaves the database as it was (in particular no key share of the embedded round).
func c18AirReinit(c *Ctx, A *Cluster, tag string, victim int) int {
	B, _, err := startReinit(c, A, tag, false, false)
	if err != nil {
		c.Fail(Failure{Property: "C18", Kind: "probe-failed", Signature: map[string]interface{}{"kind": "probe-failed"}, What: "harness: " + err.Error(), Replay: map[string]interface{}{"step": "reinit"}})
		if B != nil {
			B.Close()
		}
		return 0
	}
	defer B.Close()
	n := 0
	handle := func(i int, o *ctypes.Operation) (bool, error) {
		if i != victim || string(o.Type) != "reinit_dkg" {
			_, err := B.Answer(i, o)
			return true, err
		}
		B.Machines[victim].VerifClose()
		for _, mu := range []struct{ label, id string }{
			{"outer-round-shortened", o.DKGIdentifier[:4]},
			{"outer-round-extended", o.DKGIdentifier + "x"},
			{"outer-round-empty", ""},
		} {
			n++
			bad := *o
			bad.DKGIdentifier = mu.id
			dir := filepath.Join(B.Dir, "probe-reinit-"+mu.label)
			rep := map[string]interface{}{"operation": "reinit_dkg", "mutation": mu.label}
			p, err := newAirProbe(B, victim, dir, false)
			if err != nil {
				c.Fail(Failure{Property: "C18", Kind: "probe-failed", Signature: map[string]interface{}{"kind": "probe-failed"}, What: "harness: " + err.Error(), Replay: rep})
				continue
			}
			class, detail := p.feed(bad)
			stored := false
			if krs, err := p.am.GetBLSKeyrings(); err == nil && krs[B.Round] != nil {
				stored = true
			}
			p.am.VerifClose()
			before, after := dbSnapshot(filepath.Join(B.MDirs[victim], "db")), dbSnapshot(filepath.Join(dir, "db"))
			os.RemoveAll(dir)
			switch {
			case class == "crash":
				c.Fail(Failure{Property: "C18", Kind: "machine-crash", Signature: map[string]interface{}{"kind": "machine-crash", "operation": "reinit_dkg", "mutation": mu.label},
					What: "the airgapped machine crashes on a reinit_dkg operation file with " + mu.label + ": " + firstLine(detail), Replay: rep})
			case class == "rejected" && before != after:
				c.Fail(Failure{Property: "C18", Kind: "rejected-operation-changed-database", Signature: map[string]interface{}{"kind": "rejected-operation-changed-database", "operation": "reinit_dkg", "mutation": mu.label},
					What: "a rejected reinit_dkg operation file (" + mu.label + ") changed the machine's database", Replay: rep})
			}
			// the model (Air/Reinit.v): the embedded operations name round 7, the file names round 8
			var inner []ctypes.Operation
			json.Unmarshal(o.Payload, &inner)
			var desc []string
			for _, io := range inner {
				kind := map[string]string{opCommits: "commits", opDeals: "deals", opResponses: "responses", opMaster: "master"}[string(io.Type)]
				if kind == "" || !io.Event.IsEmpty() {
					continue // not carried out by the handler (an invitation, an operation that has its answer)
				}
				desc = append(desc, kind+" 7 1")
			}
			obs := "airreinit refused shares="
			if class == "ok" {
				obs = "airreinit processed shares="
			}
			if stored {
				obs += "7"
			}
			c.Case("air-reinit-"+class, true, fmt.Sprintf("airreinit 8 %d %s", len(desc), strings.Join(desc, " ")), obs)
		}
		B.Machines[victim] = reopen(B, victim)
		_, err := B.Answer(i, o)
		return true, err
	}
	B.RunToQuiescenceWith(func(cands []int) int { return 0 }, handle)
	for i := range B.Nodes {
		if !strings.Contains(B.RoundState(i), "stage_signing_idle") {
			c.Fail(Failure{Property: "C18", Kind: "ceremony-failed", Signature: map[string]interface{}{"kind": "ceremony-failed"}, What: "the reinitialisation around the hostile reinit operation files did not finish", Replay: map[string]interface{}{"node": i}})
			break
		}
	}
	return n
}
