package main

import (
	"fmt"

	"github.com/lidofinance/dc4bc/fsm/types/requests"
	"github.com/lidofinance/dc4bc/storage"
)

func init() {
	scenarios["c09"] = scenarioC09
}

// sigMutants returns variants of a genuine message that must NOT be acted upon (C09).
func sigMutants(w *World, it Item) []Item {
	m := it.In.Msg
	var out []Item
	mk := func(label string, f func(m *storage.Message) string) {
		mm := m
		mm.Data = append([]byte{}, m.Data...)
		mm.Signature = append([]byte{}, m.Signature...)
		desc := f(&mm)
		out = append(out, mkItem(mm, desc, it.In.Now, "mut-"+label))
	}
	// signature bit flip / truncation / empty
	mk("sig-flip", func(mm *storage.Message) string { mm.Signature[7] ^= 0x20; return "junk" })
	mk("sig-trunc", func(mm *storage.Message) string { mm.Signature = mm.Signature[:40]; return "junk" })
	mk("sig-empty", func(mm *storage.Message) string { mm.Signature = nil; return "none" })
	// payload altered, signature kept (signature now covers other bytes)
	mk("data-byte", func(mm *storage.Message) string {
		orig := append([]byte{}, mm.Data...)
		// change a digit inside the JSON so that it still decodes
		for i := len(mm.Data) - 1; i >= 0; i-- {
			if mm.Data[i] >= '0' && mm.Data[i] <= '8' {
				mm.Data[i]++
				break
			}
		}
		_, d := w.sign(mm.SenderAddr, orig)
		return d
	})
	mk("data-append", func(mm *storage.Message) string {
		orig := append([]byte{}, mm.Data...)
		mm.Data = append(mm.Data, ' ')
		_, d := w.sign(mm.SenderAddr, orig)
		return d
	})
	// sender renamed (signature by the original author)
	others := []string{}
	for _, u := range w.Users {
		if u != m.SenderAddr {
			others = append(others, u)
		}
	}
	mk("sender-other", func(mm *storage.Message) string {
		_, d := w.sign(mm.SenderAddr, mm.Data)
		mm.SenderAddr = others[0]
		return d
	})
	mk("sender-stranger", func(mm *storage.Message) string {
		_, d := w.sign(mm.SenderAddr, mm.Data)
		mm.SenderAddr = "stranger"
		return d
	})
	mk("sender-empty", func(mm *storage.Message) string {
		_, d := w.sign(mm.SenderAddr, mm.Data)
		mm.SenderAddr = ""
		return d
	})
	// re-signed with another participant's key / a fresh key
	mk("resigned-other", func(mm *storage.Message) string {
		s, d := w.sign(others[len(others)-1], mm.Data)
		mm.Signature = s
		return d
	})
	mk("resigned-stranger", func(mm *storage.Message) string {
		s, d := w.sign("stranger", mm.Data)
		mm.Signature = s
		return d
	})
	return out
}

// c09WriteFaults: a write fault (the state store returns an error) at every durable write of the
// handler of a reinit message - the one handler that switches signature verification off while it
// runs. Whatever write fails, verification must be back on afterwards: a message with a stranger's
// signature is refused without effect.
func c09WriteFaults(c *Ctx) {
	w := NewWorld(3, 2, 1)
	me := w.Users[0]
	live := "round-c09-fault-live"
	hLive := w.Honest(live, me)[:2]
	old := "round-c09-fault-old"
	body := w.ReDKGOf(dkgPart(w.Honest(old, me)))
	reinit := w.ReinitItem(old, body, nil, "reinit-ok")
	forged := w.forgedConfirm(live, "forged-after-faulty-reinit")
	ref := NewNodeEnv(newEnvDir(c), me)
	for _, it := range hLive {
		applyItem(ref, it)
	}
	ref.Ctl.record, ref.Ctl.log = true, nil
	applyItem(ref, reinit)
	n := len(ref.Ctl.log)
	ref.Ctl.record = false
	ref.Close()
	for k := 0; k < n; k++ {
		e := NewNodeEnv(newEnvDir(c), me)
		for _, it := range hLive {
			applyItem(e, it)
		}
		e.Ctl.faultArmed, e.Ctl.faultAfter = true, k
		cls := applyItem(e, reinit)
		e.Ctl.faultArmed = false
		before := e.Snapshot()
		cls2 := applyItem(e, forged)
		after := e.Snapshot()
		e.Close()
		c.Case("write-fault", false, "skip write-fault", "skip write-fault")
		if cls2 != "err" || before != after {
			c.Fail(Failure{Property: "C09", Kind: "forged-accepted-after-faulty-reinit", Signature: map[string]interface{}{"kind": "forged-accepted-after-faulty-reinit"},
				What:   fmt.Sprintf("after a reinit_dkg message whose durable write %d of %d failed (handler: %s) a message with a stranger's signature was accepted (class %s)", k+1, n, cls, cls2),
				Replay: map[string]interface{}{"failed_write": k, "writes": n, "reinit_class": cls, "before": before, "after": after}})
		}
	}
}

func scenarioC09(c *Ctx) {
	defer c09WriteFaults(c)
	type cfg struct{ n, t int }
	cfgs := []cfg{{3, 2}}
	if !c.Quick() {
		cfgs = []cfg{{3, 2}, {4, 3}, {2, 2}}
	}
	var cases []HistCase
	for ci, cf := range cfgs {
		w := NewWorld(cf.n, cf.t, ci+1)
		round := fmt.Sprintf("round-c09-%d", ci)
		me := w.Users[0]
		h := w.Honest(round, me)
		// a broadcast of reconstructed signatures by another node, at the end
		cases = append(cases, HistCase{Kind: "honest", User: me, Items: h})
		for k := 1; k < len(h); k++ { // k = 0 is the opening proposal (exempt by the statement)
			for _, mut := range sigMutants(w, h[k]) {
				items := append(append([]Item{}, h[:k]...), mut)
				label, pos, ev := mut.Label, k, h[k].In.Msg.Event
				cases = append(cases, HistCase{Kind: label, User: me, Items: items, PrefixKey: fmt.Sprintf("%s/%d", round, k), Check: func(o RunObs) {
					last := o.Classes[len(o.Classes)-1]
					if last != "err" || o.Before != o.After {
						c.Fail(Failure{Property: "C09", Kind: "acted-on-bad-signature",
							Signature: map[string]interface{}{"kind": "acted-on-bad-signature", "mutation": label},
							What:      fmt.Sprintf("a %s message with an invalid signature (%s) was not refused without effect (class %s)", ev, label, last),
							Replay:    map[string]interface{}{"n": cf.n, "t": cf.t, "position": pos, "event": ev, "mutation": label, "before": o.Before, "after": o.After}})
					}
				}})
			}
		}
	}
	// an opening proposal is exempt from the signature check because it OPENS a round: posted for a
	// round that exists (live, finished, or cancelled - final states included) it must be refused
	// without effect, or a stranger could replace the registered keys
	{
		w := NewWorld(3, 2, 1)
		me := w.Users[0]
		round := "round-c09-reopen"
		h := w.Honest(round, me)
		var evil []*requests.SignatureProposalParticipantsEntry
		for i, u := range w.Users {
			evil = append(evil, &requests.SignatureProposalParticipantsEntry{Username: u, PubKey: userKey("stranger").Pub, DkgPubKey: []byte(fmt.Sprintf("dkgpubkey--%d", i))})
		}
		reopen := func(label string) Item {
			return w.Msg(round, "event_sig_proposal_init", requests.SignatureProposalParticipantsListRequest{Participants: evil, SigningThreshold: 2, CreatedAt: T(5)}, "stranger", "", "stranger", NOWMARK, label)
		}
		check := func(pos string) func(o RunObs) {
			return func(o RunObs) {
				// (a round cancelled during key generation absorbs every later message: answered without
				// an error, and without any effect)
				if last := o.Classes[len(o.Classes)-1]; last == "panic" || o.Before != o.After {
					c.Fail(Failure{Property: "C09", Kind: "existing-round-reopened", Signature: map[string]interface{}{"kind": "existing-round-reopened"},
						What:   fmt.Sprintf("an opening proposal by a stranger for a round that already exists (%s) had an effect (class %s)", pos, last),
						Replay: map[string]interface{}{"position": pos, "before": o.Before, "after": o.After}})
				}
			}
		}
		for k := 1; k <= len(h); k++ {
			if c.Quick() && k%3 != 1 && k != len(h) {
				continue
			}
			items := append(append([]Item{}, h[:k]...), reopen("reopen"))
			cases = append(cases, HistCase{Kind: "reopen-live", User: me, Items: items, PrefixKey: fmt.Sprintf("%s/%d", round, k), Check: check(fmt.Sprintf("after %d messages", k))})
		}
		// cancelled rounds: declined by a participant; cancelled by an error report during key generation
		declined := append(append([]Item{}, h[:2]...), w.Msg(round, "event_sig_proposal_decline_by_participant", requests.SignatureProposalParticipantRequest{ParticipantId: 1, CreatedAt: T(11)}, w.Users[1], "", w.Users[1], NOWMARK, "decline"))
		cases = append(cases, HistCase{Kind: "reopen-declined", User: me, Items: append(declined, reopen("reopen")), Check: check("cancelled by a decline")})
		failed := append(append([]Item{}, h[:5]...), w.Msg(round, "event_dkg_commit_confirm_canceled_by_error", requests.DKGProposalConfirmationErrorRequest{ParticipantId: 1, Error: requests.NewFSMError(fmt.Errorf("boom")), CreatedAt: T(21)}, w.Users[1], "", w.Users[1], NOWMARK, "commit-error"))
		cases = append(cases, HistCase{Kind: "reopen-failed", User: me, Items: append(failed, reopen("reopen")), Check: check("cancelled by an error report")})
	}
	// messages for a round nobody has opened, with a stranger's / no signature, for every event
	w0 := NewWorld(3, 2, 1)
	for _, ev := range append(append([]string{}, publicEvents...), "signature_reconstructed", "signature_reconstruction_failed", "event_bogus") {
		if ev == "event_sig_proposal_init" {
			continue
		}
		for _, signer := range []string{"stranger", ""} {
			data := []byte(`[{"File":"f","BatchID":"b","MessageID":"m","SrcPayload":"cGF5bG9hZC0x","Signature":"QUJD"}]`)
			if ev != "signature_reconstructed" {
				data = []byte(`{"ParticipantId":0,"CreatedAt":"2023-11-14T22:13:30Z"}`)
			}
			it := w0.RawMsg("round-never-opened", ev, data, w0.Users[1], "", signer, NOWMARK, "unknown-round-"+ev)
			ev := ev
			cases = append(cases, HistCase{Kind: "unknown-round", User: w0.Users[0], Items: []Item{it}, Check: func(o RunObs) {
				if o.Classes[0] != "err" || o.Before != o.After {
					c.Fail(Failure{Property: "C09", Kind: "acted-on-bad-signature", Signature: map[string]interface{}{"kind": "acted-on-bad-signature", "mutation": "unknown-round"},
						What: "a " + ev + " message for a round nobody opened, without a valid signature, had an effect", Replay: map[string]interface{}{"event": ev, "before": o.Before, "after": o.After}})
				}
			}})
		}
	}
	cases = append(cases, reinitCases(c, w0, "C09")...)
	runCases(c, cases)
	c.Notes["histories"] = len(cases)
}
