package main

import (
	"context"
	"crypto/ed25519"
	"crypto/sha256"
	"encoding/json"
	"errors"
	"fmt"
	"os"
	"path/filepath"
	"sort"
	"strings"
	"time"

	"github.com/corestario/kyber/pairing"
	"github.com/corestario/kyber/pairing/bls12381"
	"github.com/corestario/kyber/share"
	"github.com/corestario/kyber/sign/bls"
	"github.com/corestario/kyber/sign/tbls"

	"github.com/lidofinance/dc4bc/client/api/dto"
	"github.com/lidofinance/dc4bc/client/config"
	"github.com/lidofinance/dc4bc/client/modules/keystore"
	"github.com/lidofinance/dc4bc/client/modules/state"
	oprepo "github.com/lidofinance/dc4bc/client/repositories/operation"
	sigrepo "github.com/lidofinance/dc4bc/client/repositories/signature"
	"github.com/lidofinance/dc4bc/client/services"
	"github.com/lidofinance/dc4bc/client/services/fsmservice"
	"github.com/lidofinance/dc4bc/client/services/node"
	opservice "github.com/lidofinance/dc4bc/client/services/operation"
	sigservice "github.com/lidofinance/dc4bc/client/services/signature"
	ctypes "github.com/lidofinance/dc4bc/client/types"
	"github.com/lidofinance/dc4bc/dkg"
	"github.com/lidofinance/dc4bc/fsm/state_machines"
	fsmtypes "github.com/lidofinance/dc4bc/fsm/types"
	"github.com/lidofinance/dc4bc/fsm/types/requests"
	"github.com/lidofinance/dc4bc/fsm/types/responses"
	"github.com/lidofinance/dc4bc/storage"
	"github.com/lidofinance/dc4bc/storage/file_storage"
)

const topic = "vtopic"

type quietLogger struct{}

func (quietLogger) Log(string, ...interface{}) {}

type memKeyStore struct{ kp *keystore.KeyPair }

func (m memKeyStore) PutKeys(string, *keystore.KeyPair) error            { return nil }
func (m memKeyStore) LoadKeys(string, string) (*keystore.KeyPair, error) { return m.kp, nil }

func userKey(name string) *keystore.KeyPair {
	seed := sha256.Sum256([]byte("verif-key-" + name))
	priv := ed25519.NewKeyFromSeed(seed[:])
	return &keystore.KeyPair{Pub: priv.Public().(ed25519.PublicKey), Priv: priv}
}

// Register binds a byte string to a chosen token number (symbolic crypto values).
func (in *Interner) Register(s string, t int) {
	in.mu.Lock()
	defer in.mu.Unlock()
	in.m[s] = t
}

// ---- symbolic threshold crypto: real kyber values with structured token numbers ----
type KeySet struct {
	K      int
	T, N   int
	Suite  pairing.Suite
	Pri    *share.PriPoly
	Pub    *share.PubPoly
	Shares []*share.PriShare
	PolyBz []byte
}

func NewKeySet(K, t, n int) *KeySet {
	suite := bls12381.NewBLS12381Suite(nil).(pairing.Suite)
	seedBz := sha256.Sum256([]byte(fmt.Sprintf("verif-keyset-%d-%d-%d", K, t, n)))
	seedSuite := bls12381.NewBLS12381Suite(seedBz[:])
	pri := share.NewPriPoly(suite.G1(), t, nil, seedSuite.RandomStream())
	pub := pri.Commit(suite.G1().Point().Base())
	ks := &KeySet{K: K, T: t, N: n, Suite: suite, Pri: pri, Pub: pub, Shares: pri.Shares(n)}
	kr := &dkg.BLSKeyring{PubPoly: pub}
	bz, err := kr.PubPolyBytes()
	if err != nil {
		panic(err)
	}
	ks.PolyBz = bz
	tok.Register(string(bz), 3000000+K)
	return ks
}

// Partial returns participant i's partial signature over payload and registers its token.
func (ks *KeySet) Partial(i int, payload []byte) []byte {
	sg, err := tbls.Sign(ks.Suite, ks.Shares[i], payload)
	if err != nil {
		panic(err)
	}
	P := tok.TokB(payload)
	if P >= 1000 {
		panic("payload token too large for the symbolic encoding")
	}
	tok.Register(string(sg), 1000000+100000*ks.K+1000*i+P)
	return sg
}

// Full returns the group signature over payload and registers its token.
func (ks *KeySet) Full(payload []byte) []byte {
	sg, err := bls.Sign(ks.Suite, ks.Pri.Secret(), payload)
	if err != nil {
		panic(err)
	}
	tok.Register(string(sg), 2000000+100000*ks.K+tok.TokB(payload))
	return sg
}

// ---- fault injection: the process "dies" (panics) right before its (k+1)-th durable write ----
type crashCtl struct {
	armed     bool
	remaining int
	log       []string // labels of the durable writes seen while recording
	record    bool
	// a write FAULT instead of a death: the (faultAfter+1)-th durable write returns an error once
	faultArmed bool
	faultAfter int
}

type crashSignal struct{}

func (c *crashCtl) hit(label string) error {
	if c.record {
		c.log = append(c.log, label)
	}
	if c.faultArmed {
		if c.faultAfter == 0 {
			c.faultArmed = false
			return errors.New("injected write fault: " + label)
		}
		c.faultAfter--
	}
	if c.armed {
		if c.remaining == 0 {
			c.armed = false
			panic(crashSignal{})
		}
		c.remaining--
	}
	return nil
}

type crashState struct {
	state.State
	ctl *crashCtl
}

func keyLabel(key string) string {
	switch {
	case strings.HasSuffix(key, "_fsm_state"):
		return "Set fsm_state"
	case strings.HasSuffix(key, "_deleted_operations"):
		return "Set deleted_operations"
	case strings.HasSuffix(key, "_operations"):
		return "Set operations"
	case strings.HasPrefix(key, "signatures_"):
		return "Set signatures"
	}
	return "Set " + key
}

func (s crashState) Set(key string, value []byte) error {
	if err := s.ctl.hit(keyLabel(key)); err != nil {
		return err
	}
	return s.State.Set(key, value)
}

type crashBoard struct {
	storage.Storage
	ctl *crashCtl
}

func (b crashBoard) Send(msgs ...storage.Message) error {
	for i := range msgs {
		if err := b.ctl.hit("Send"); err != nil {
			return err
		}
		if err := b.Storage.Send(msgs[i]); err != nil {
			return err
		}
	}
	return nil
}

// ---- a real node on real LevelDB state and a real file board ----
type NodeEnv struct {
	Dir    string
	User   string
	KP     *keystore.KeyPair
	St     state.State
	Board  storage.Storage
	Node   node.NodeService
	Rounds map[string]bool
	nopen  int
	Ctl    *crashCtl
	OpRepo *oprepo.BaseOperationRepo

	sharedBoard storage.Storage
	states      []*state.LevelDBState // every LevelDB handle opened for this node (closed by Close)
	SP          *services.ServiceProvider
}

func NewNodeEnv(base, user string) *NodeEnv {
	e := &NodeEnv{Dir: base, User: user, KP: userKey(user), Rounds: map[string]bool{}}
	if err := os.MkdirAll(base, 0755); err != nil {
		panic(err)
	}
	e.open(filepath.Join(base, "state"))
	return e
}

func (e *NodeEnv) open(stateDir string) {
	st, err := state.NewLevelDBState(stateDir, topic)
	if err != nil {
		panic(err)
	}
	board, err := file_storage.NewFileStorage(filepath.Join(e.Dir, "board"), filepath.Join(e.Dir, "board.lock"))
	if err != nil {
		panic(err)
	}
	e.St, e.Board = st, board
	e.states = append(e.states, st)
	if e.Ctl == nil {
		e.Ctl = &crashCtl{}
	}
	e.Node = e.buildNode(crashState{st, e.Ctl}, crashBoard{board, e.Ctl})
}

// RestartInPlace: new service objects (volatile state lost) over the same durable state.
func (e *NodeEnv) RestartInPlace() {
	e.Ctl.armed = false
	e.Node = e.buildNode(crashState{e.St, e.Ctl}, crashBoard{e.Board, e.Ctl})
}

// applyCrashMsg handles m but dies before durable write k+1; then the process is restarted.
func (e *NodeEnv) applyCrashMsg(m storage.Message, k int) {
	e.Rounds[m.DkgRoundID] = true
	e.Ctl.armed, e.Ctl.remaining = true, k
	func() {
		defer func() {
			if r := recover(); r != nil {
				if _, ok := r.(crashSignal); !ok {
					panic(r)
				}
			}
		}()
		e.Node.ProcessMessage(m)
	}()
	e.RestartInPlace()
}

func (e *NodeEnv) buildNode(st state.State, board storage.Storage) node.NodeService {
	sp := services.ServiceProvider{}
	sp.SetLogger(quietLogger{})
	sp.SetState(st)
	sp.SetStorage(board)
	sp.SetKeyStore(memKeyStore{e.KP})
	sp.SetFSMService(fsmservice.NewFSMService(st, board, topic))
	or, err := oprepo.NewOperationRepo(st, topic)
	if err != nil {
		panic(err)
	}
	e.OpRepo = or
	sp.SetOperationService(opservice.NewOperationService(or))
	sp.SetSignatureService(sigservice.NewSignatureService(sigrepo.NewSignatureRepo(st)))
	n, err := node.NewNode(context.Background(), &config.Config{Username: e.User}, &sp)
	if err != nil {
		panic(err)
	}
	e.SP = &sp
	return n
}

// PollNode returns a node service bound to ctx (for running the real Poll loop).
func (e *NodeEnv) PollNode(ctx context.Context) node.NodeService {
	sp := services.ServiceProvider{}
	sp.SetLogger(quietLogger{})
	cst, cbd := crashState{e.St, e.Ctl}, crashBoard{e.Board, e.Ctl}
	sp.SetState(cst)
	sp.SetStorage(cbd)
	sp.SetKeyStore(memKeyStore{e.KP})
	sp.SetFSMService(fsmservice.NewFSMService(cst, cbd, topic))
	or, err := oprepo.NewOperationRepo(cst, topic)
	if err != nil {
		panic(err)
	}
	sp.SetOperationService(opservice.NewOperationService(or))
	sp.SetSignatureService(sigservice.NewSignatureService(sigrepo.NewSignatureRepo(cst)))
	n, err := node.NewNode(ctx, &config.Config{Username: e.User}, &sp)
	if err != nil {
		panic(err)
	}
	return n
}

// applyCrashResult submits an operation result but dies before durable write k+1; then restarts.
func (e *NodeEnv) applyCrashResult(d *dto.OperationDTO, k int) {
	e.Ctl.armed, e.Ctl.remaining = true, k
	func() {
		defer func() {
			if r := recover(); r != nil {
				if _, ok := r.(crashSignal); !ok {
					panic(r)
				}
			}
		}()
		e.Node.ProcessOperation(d)
	}()
	e.RestartInPlace()
}

// BoardShared re-points the node at a shared board file (cluster scenarios); idempotent.
func (e *NodeEnv) BoardShared(file, lock string) storage.Storage {
	if e.sharedBoard == nil {
		b, err := file_storage.NewFileStorage(file, lock)
		if err != nil {
			panic(err)
		}
		e.sharedBoard = b
		e.Board = b
		e.Node = e.buildNode(crashState{e.St, e.Ctl}, crashBoard{b, e.Ctl})
	}
	return e.sharedBoard
}

// Restart simulates a process restart on a crash image of the state directory.
func (e *NodeEnv) Restart() {
	e.nopen++
	img := filepath.Join(e.Dir, fmt.Sprintf("state-img-%d", e.nopen))
	// a clean stop: the old handle is closed first (no background compaction while the image is taken)
	if len(e.states) > 0 {
		e.states[len(e.states)-1].VerifClose()
	}
	copyDir(filepath.Join(e.Dir, stateDirName(e.nopen-1)), img)
	st, err := state.NewLevelDBState(img, topic)
	if err != nil {
		panic(err)
	}
	e.St = st
	e.states = append(e.states, st)
	e.Node = e.buildNode(crashState{st, e.Ctl}, crashBoard{e.Board, e.Ctl})
}

// Fork opens a new node on a copy (crash image) of this node's current state and board.
func (e *NodeEnv) Fork(dir string) *NodeEnv {
	f := &NodeEnv{Dir: dir, User: e.User, KP: e.KP, Rounds: map[string]bool{}}
	for r := range e.Rounds {
		f.Rounds[r] = true
	}
	copyDir(filepath.Join(e.Dir, stateDirName(e.nopen)), filepath.Join(dir, "state"))
	if bz, err := os.ReadFile(filepath.Join(e.Dir, "board")); err == nil {
		if err := os.WriteFile(filepath.Join(dir, "board"), bz, 0644); err != nil {
			panic(err)
		}
	}
	f.open(filepath.Join(dir, "state"))
	return f
}

func stateDirName(k int) string {
	if k == 0 {
		return "state"
	}
	return fmt.Sprintf("state-img-%d", k)
}

// copyDir takes a crash image of a (possibly live) LevelDB directory. A background compaction
// may remove a table file between the listing and the read: the copy is then retried.
func copyDir(src, dst string) {
	for attempt := 0; ; attempt++ {
		if tryCopyDir(src, dst) {
			return
		}
		if attempt > 20 {
			panic("copyDir: directory keeps changing: " + src)
		}
		os.RemoveAll(dst)
		time.Sleep(5 * time.Millisecond)
	}
}

func tryCopyDir(src, dst string) bool {
	if err := os.MkdirAll(dst, 0755); err != nil {
		panic(err)
	}
	ents, err := os.ReadDir(src)
	if err != nil {
		panic(err)
	}
	// size and modification time of every file before the copy: a file that LevelDB's background
	// compaction is still WRITING while it is copied (a table file caught half-written next to a
	// manifest that already names it gave "bad magic number" on reopening - an image no crash produces)
	// makes the copy start over
	type stamp struct {
		size int64
		mod  time.Time
	}
	stamps := map[string]stamp{}
	for _, en := range ents {
		if fi, err := en.Info(); err == nil {
			stamps[en.Name()] = stamp{fi.Size(), fi.ModTime()}
		}
	}
	for _, en := range ents {
		if en.Name() == "LOCK" {
			continue
		}
		bz, err := os.ReadFile(filepath.Join(src, en.Name()))
		if err != nil {
			if os.IsNotExist(err) {
				return false
			}
			panic(err)
		}
		if err := os.WriteFile(filepath.Join(dst, en.Name()), bz, 0644); err != nil {
			panic(err)
		}
	}
	// the listing must still be valid (no file added or removed meanwhile)
	ents2, err := os.ReadDir(src)
	if err != nil {
		panic(err)
	}
	if len(ents2) != len(ents) {
		return false
	}
	for i := range ents {
		if ents[i].Name() != ents2[i].Name() {
			return false
		}
		fi, err := ents2[i].Info()
		if err != nil {
			return false
		}
		if st, ok := stamps[ents[i].Name()]; ok && (st.size != fi.Size() || !st.mod.Equal(fi.ModTime())) {
			return false
		}
	}
	return true
}

func (e *NodeEnv) Close() {
	for _, st := range e.states {
		st.VerifClose()
	}
	e.states = nil
	if e.Board != nil {
		e.Board.Close()
	}
	if e.sharedBoard != nil && e.sharedBoard != e.Board {
		e.sharedBoard.Close()
	}
	os.RemoveAll(e.Dir)
}

// ---- projection of the durable state ----
func opPayloadProj(typ string, payload []byte) string {
	dec := func(v interface{}) bool { return json.Unmarshal(payload, v) == nil }
	switch typ {
	case "state_sig_proposal_await_participants_confirmations":
		var r responses.SignatureProposalParticipantInvitationsResponse
		if dec(&r) {
			return projResp(r)
		}
	case "state_dkg_commits_await_confirmations":
		var r responses.DKGProposalPubKeysParticipantResponse
		if dec(&r) {
			return projResp(r)
		}
	case "state_dkg_deals_await_confirmations":
		var r responses.DKGProposalCommitParticipantResponse
		if dec(&r) {
			return projResp(r)
		}
	case "state_dkg_responses_await_confirmations":
		var r responses.DKGProposalDealParticipantResponse
		if dec(&r) {
			return projResp(r)
		}
	case "state_dkg_master_key_await_confirmations":
		var r responses.DKGProposalResponseParticipantResponse
		if dec(&r) {
			return projResp(r)
		}
	case "state_signing_await_partial_signs":
		var r responses.SigningPartialSignsParticipantInvitationsResponse
		if dec(&r) {
			return projResp(r)
		}
	case "reinit_dkg":
		var ops []*ctypes.Operation
		if dec(&ops) {
			var sb strings.Builder
			fmt.Fprintf(&sb, "reinit %d", len(ops))
			for _, o := range ops {
				fmt.Fprintf(&sb, " %d %s %s", tok.Tok(o.DKGIdentifier), stateStr(string(o.Type)), opPayloadProj(string(o.Type), o.Payload))
			}
			return sb.String()
		}
	}
	return fmt.Sprintf("undecodable-%d", tok.TokB(payload))
}

func projOp(o *ctypes.Operation) string {
	return fmt.Sprintf("%d %s %s x%d", tok.Tok(o.DKGIdentifier), stateStr(string(o.Type)), opPayloadProj(string(o.Type), o.Payload), tok.TokB(o.ExtraData))
}

func projOpMap(bz []byte) string {
	m := map[string]*ctypes.Operation{}
	if len(bz) > 0 {
		if err := json.Unmarshal(bz, &m); err != nil {
			return "ops-undecodable"
		}
	}
	var l []string
	for _, o := range m {
		l = append(l, projOp(o))
	}
	sort.Strings(l)
	return fmt.Sprintf("%d [%s]", len(l), strings.Join(l, " , "))
}

func projRsig(s fsmtypes.ReconstructedSignature) string {
	return fmt.Sprintf("%d %d %d %d %d %d %d", tok.Tok(s.File), tok.Tok(s.BatchID), tok.Tok(s.MessageID), tok.TokB(s.SrcPayload), tok.TokB(s.Signature), tok.Tok(s.Username), tok.Tok(s.DKGRoundID))
}

func projSigStore(bz []byte) string {
	if bz == nil {
		return "-"
	}
	var st sigrepo.SignaturesStorage
	if err := json.Unmarshal(bz, &st); err != nil {
		return "sigs-undecodable"
	}
	var batches []string
	for b, msgs := range st {
		var ms []string
		for id, entries := range msgs {
			var es []string
			for _, en := range entries {
				es = append(es, projRsig(en))
			}
			// entries keep insertion order (a slice)
			ms = append(ms, fmt.Sprintf("%08d m%d (%s)", tok.Tok(id), tok.Tok(id), strings.Join(es, " ; ")))
		}
		sort.Strings(ms)
		for i := range ms {
			ms[i] = ms[i][9:]
		}
		batches = append(batches, fmt.Sprintf("%08d b%d {%s}", tok.Tok(b), tok.Tok(b), strings.Join(ms, " ")))
	}
	sort.Strings(batches)
	for i := range batches {
		batches[i] = batches[i][9:]
	}
	return strings.Join(batches, " ")
}

func (e *NodeEnv) Snapshot() string {
	var sb strings.Builder
	// rounds
	bz, _ := e.St.Get(topic + "_fsm_state")
	rounds := map[string][]byte{}
	if len(bz) > 0 {
		if err := json.Unmarshal(bz, &rounds); err != nil {
			panic(err)
		}
	}
	var rl []string
	for id, d := range rounds {
		var fd state_machines.FSMDump
		if err := json.Unmarshal(d, &fd); err != nil {
			rl = append(rl, fmt.Sprintf("%08d r%d undecodable", tok.Tok(id), tok.Tok(id)))
			continue
		}
		rl = append(rl, fmt.Sprintf("%08d r%d %s", tok.Tok(id), tok.Tok(id), projDump(string(fd.State), &fd)))
	}
	sort.Strings(rl)
	for i := range rl {
		rl[i] = rl[i][9:]
	}
	fmt.Fprintf(&sb, "ROUNDS %d [%s]", len(rl), strings.Join(rl, " , "))
	ob, _ := e.St.Get(topic + "_operations")
	db, _ := e.St.Get(topic + "_deleted_operations")
	fmt.Fprintf(&sb, " OPS %s DEL %s", projOpMap(ob), projOpMap(db))
	// what the API offers: the repository's own view (pool minus tombstones)
	vis, verr := e.OpRepo.GetOperations()
	if verr != nil {
		sb.WriteString(" VIS error")
	} else {
		var l []string
		for _, o := range vis {
			l = append(l, projOp(o))
		}
		sort.Strings(l)
		fmt.Fprintf(&sb, " VIS %d [%s]", len(l), strings.Join(l, " , "))
	}
	// signatures of every round id the scenario has used
	var rs []string
	for r := range e.Rounds {
		rs = append(rs, r)
	}
	sort.Slice(rs, func(i, j int) bool { return tok.Tok(rs[i]) < tok.Tok(rs[j]) })
	sb.WriteString(" SIGS")
	for _, r := range rs {
		sbz, _ := e.St.Get("signatures_" + r)
		if sbz != nil {
			fmt.Fprintf(&sb, " r%d<%s>", tok.Tok(r), projSigStore(sbz))
		}
	}
	// the board (only this node writes to it in these scenarios)
	msgs, err := e.Board.GetMessages(0)
	if err != nil {
		panic(err)
	}
	fmt.Fprintf(&sb, " BOARD %d", len(msgs))
	for _, m := range msgs {
		sb.WriteString(" [" + e.projOut(m) + "]")
	}
	return sb.String()
}

func (e *NodeEnv) projOut(m storage.Message) string {
	sigOK := 0
	if ed25519.Verify(e.KP.Pub, m.Data, m.Signature) {
		sigOK = 1
	}
	body := fmt.Sprintf("d%d", tok.TokB(m.Data))
	if m.Event == "signature_reconstructed" {
		var l []fsmtypes.ReconstructedSignature
		if json.Unmarshal(m.Data, &l) == nil {
			var es []string
			for _, s := range l {
				// the entries of a broadcast name the round by the identifier kept INSIDE the dump, which
				// InitDump trims; every receiver overwrites it with the message's own round identifier.
				// Compared up to that trimming.
				if strings.TrimSpace(s.DKGRoundID) == strings.TrimSpace(m.DkgRoundID) {
					s.DKGRoundID = m.DkgRoundID
				}
				es = append(es, projRsig(s))
			}
			sort.Strings(es)
			body = "sigs(" + strings.Join(es, " ; ") + ")"
		}
	}
	return fmt.Sprintf("%d %s %d %d signed%d %s", tok.Tok(m.DkgRoundID), stateStr(m.Event), tok.Tok(m.SenderAddr), tok.Tok(m.RecipientAddr), sigOK, body)
}

// ---- inputs ----
type NInput struct {
	Kind    string // msg | reinit | result | restart
	Msg     storage.Message
	SigDesc string // none | junk | by <key> <data>
	Now     int64
	Result  *dto.OperationDTO
	Label   string
	CrashK  int
}

func sigDescOf(m storage.Message, users []string) string {
	if len(m.Signature) == 0 {
		return "none"
	}
	// the harness only produces signatures made with user keys (over some data it knows) or junk
	return "junk"
}

func reqLineFromValue(v interface{}) string {
	switch r := v.(type) {
	case requests.SignatureProposalParticipantsListRequest:
		var ps []PartSpec
		for _, p := range r.Participants {
			if p == nil { // `[null]`: no participant to describe; the request is refused as a whole
				return "bad"
			}
			ps = append(ps, PartSpec{p.Username, string(p.PubKey), string(p.DkgPubKey)})
		}
		return reqList(ps, r.SigningThreshold, r.CreatedAt).line
	case requests.SignatureProposalParticipantRequest:
		return reqPart(r.ParticipantId, r.CreatedAt).line
	case requests.DefaultRequest:
		return reqDefault(r.CreatedAt).line
	case requests.DKGProposalCommitConfirmationRequest:
		return reqData(0, r.ParticipantId, string(r.Commit), r.CreatedAt).line
	case requests.DKGProposalDealConfirmationRequest:
		return reqData(1, r.ParticipantId, string(r.Deal), r.CreatedAt).line
	case requests.DKGProposalResponseConfirmationRequest:
		return reqData(2, r.ParticipantId, string(r.Response), r.CreatedAt).line
	case requests.DKGProposalMasterKeyConfirmationRequest:
		return reqMaster(r.ParticipantId, string(r.MasterKey), string(r.PubPolyBz), r.CreatedAt).line
	case requests.DKGProposalConfirmationErrorRequest:
		var e *string
		if r.Error != nil {
			e = &r.Error.ErrorMsg
		}
		return reqError(r.ParticipantId, e, r.CreatedAt).line
	case requests.SignatureProposalConfirmationErrorRequest:
		var e *string
		if r.Error != nil {
			e = &r.Error.ErrorMsg
		}
		return reqSigError(r.ParticipantId, e, r.CreatedAt, r.BatchID).line
	case requests.SigningBatchProposalStartRequest:
		return reqStart(r.BatchID, r.ParticipantId, r.CreatedAt, r.SigningTasks).line
	case requests.SigningProposalBatchPartialSignRequests:
		return reqPartial(r.BatchID, r.ParticipantId, r.PartialSigns, r.CreatedAt).line
	case error:
		return "bad"
	}
	return "bad"
}

// msgLine renders a board message for the model: decoded views are obtained with the
// implementation's own decoders (FSMRequestFromMessage, json, TasksToMessages).
func msgLine(m storage.Message, sigDesc string) string {
	var sb strings.Builder
	fmt.Fprintf(&sb, "msg %d %s %d %s %d %d", tok.Tok(m.DkgRoundID), stateStr(m.Event), tok.TokB(m.Data), sigDesc, tok.Tok(m.SenderAddr), tok.Tok(m.RecipientAddr))
	// tasks
	tasksDone := false
	if m.Event == "event_signing_start" {
		var prop requests.SigningBatchProposalStartRequest
		if json.Unmarshal(m.Data, &prop) == nil {
			if msgs, err := safeTasksToMessages(prop.SigningTasks); err == nil {
				fmt.Fprintf(&sb, " tasks %d", len(msgs))
				for _, x := range msgs {
					fmt.Fprintf(&sb, " %d %d %d", tok.Tok(x.MessageID), tok.Tok(x.File), tok.TokB(x.Payload))
				}
				tasksDone = true
			}
		}
	}
	if !tasksDone {
		sb.WriteString(" notasks")
	}
	switch m.Event {
	case "signature_reconstructed":
		var l []fsmtypes.ReconstructedSignature
		if err := json.Unmarshal(m.Data, &l); err != nil {
			sb.WriteString(" sigsbad")
		} else {
			fmt.Fprintf(&sb, " sigs %d", len(l))
			for _, s := range l {
				fmt.Fprintf(&sb, " %d %d %d %d %d", tok.Tok(s.File), tok.Tok(s.BatchID), tok.Tok(s.MessageID), tok.TokB(s.SrcPayload), tok.TokB(s.Signature))
			}
		}
	default:
		v, err := ctypes.FSMRequestFromMessage(m)
		if err != nil {
			sb.WriteString(" invalid")
		} else {
			sb.WriteString(" fsm " + reqLineFromValue(v))
		}
	}
	return sb.String()
}

func safeTasksToMessages(t []requests.SigningTask) (r []requests.MessageToSign, err error) {
	defer func() {
		if x := recover(); x != nil {
			err = fmt.Errorf("panic: %v", x)
		}
	}()
	return requests.TasksToMessages(t)
}

// applyMsg feeds one board message to the node, as Poll does for a message addressed to it.
func (e *NodeEnv) applyMsg(m storage.Message) (class string) {
	defer func() {
		if r := recover(); r != nil {
			class = "panic"
		}
	}()
	e.Rounds[m.DkgRoundID] = true
	if err := e.Node.ProcessMessage(m); err != nil {
		return "err"
	}
	return "ok"
}

func (e *NodeEnv) applyResult(o *dto.OperationDTO) (class string) {
	defer func() {
		if r := recover(); r != nil {
			class = "panic"
		}
	}()
	if err := e.Node.ProcessOperation(o); err != nil {
		return "err"
	}
	return "ok"
}
