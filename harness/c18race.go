package main

// C18 (no process-terminating fault): a state reset requested over the local API while the poller
// reads the board.  ResetFSMState tells the storage which messages to ignore; GetMessages looks every
// board entry up in the same lists.  An unguarded collision of the two is not a panic but a runtime
// abort ("fatal error: concurrent map read and map write") that no recover() catches, so the racing
// part runs in a child process (this binary re-executed) and the parent looks at how it ended.

import (
	"encoding/json"
	"fmt"
	"os"
	"os/exec"
	"path/filepath"
	"strings"
	"time"

	"github.com/lidofinance/dc4bc/client/api/dto"
	"github.com/lidofinance/dc4bc/client/services/fsmservice"
	"github.com/lidofinance/dc4bc/storage"
	"github.com/lidofinance/dc4bc/storage/file_storage"
)

const c18RaceEnv = "VERIF_C18RACE_CHILD"

func init() {
	if dir := os.Getenv(c18RaceEnv); dir != "" {
		c18RaceChild(dir)
		os.Exit(0)
	}
	scenarios["c18race"] = scenarioC18Race
}

type nullState struct{}

func (nullState) Get(string) ([]byte, error)        { return nil, nil }
func (nullState) Set(string, []byte) error          { return nil }
func (nullState) Delete(string) error               { return nil }
func (nullState) Reset(string) (string, error)      { return "new-state", nil }
func (nullState) SaveOffset(uint64) error           { return nil }
func (nullState) LoadOffset() (uint64, error)       { return 0, nil }
func (nullState) GetOrError(string) ([]byte, error) { return nil, nil }

func c18RaceChild(dir string) {
	secs := 2
	fmt.Sscan(os.Getenv(c18RaceEnv+"_SECS"), &secs)
	boardPath := filepath.Join(dir, "board")
	f, err := os.Create(boardPath)
	if err != nil {
		panic(err)
	}
	ids := make([]string, 0, 3000)
	for i := 0; i < 3000; i++ {
		m := storage.Message{ID: fmt.Sprintf("message-%d", i), DkgRoundID: "round", Offset: uint64(i), Event: "event", SenderAddr: "somebody", RecipientAddr: "somebody-else"}
		line, _ := json.Marshal(m)
		f.Write(append(line, '\n'))
		ids = append(ids, m.ID)
	}
	f.Close()
	stg, err := file_storage.NewFileStorage(boardPath, filepath.Join(dir, "lock"))
	if err != nil {
		panic(err)
	}
	svc := fsmservice.NewFSMService(nullState{}, stg, "topic")
	stop := time.Now().Add(time.Duration(secs) * time.Second)
	done := make(chan struct{})
	go func() { // the poller: Poll does exactly this call once per tick
		defer close(done)
		for time.Now().Before(stop) {
			if _, err := stg.GetMessages(0); err != nil {
				panic(err)
			}
		}
	}()
	for time.Now().Before(stop) { // the operator's reset requests (handlers.ResetState)
		if _, err := svc.ResetFSMState(&dto.ResetStateDTO{Messages: ids}); err != nil {
			panic(err)
		}
	}
	<-done
	fmt.Println("CHILD-SURVIVED")
}

func scenarioC18Race(c *Ctx) {
	secs := 2
	if !c.Quick() {
		secs = 10
	}
	dir := newEnvDir(c)
	os.MkdirAll(dir, 0755)
	defer os.RemoveAll(dir)
	cmd := exec.Command(os.Args[0])
	cmd.Env = append(os.Environ(), c18RaceEnv+"="+dir, fmt.Sprintf("%s_SECS=%d", c18RaceEnv, secs))
	out, err := cmd.CombinedOutput()
	text := string(out)
	c.Case("reset-while-polling", false, "skip reset-while-polling", "skip reset-while-polling")
	c.Notes["seconds_of_overlap"] = secs
	if err == nil && strings.Contains(text, "CHILD-SURVIVED") {
		return
	}
	first := text
	if i := strings.Index(text, "fatal error:"); i >= 0 {
		first = firstLine(text[i:])
	} else if len(first) > 600 {
		first = first[:600]
	}
	c.Fail(Failure{Property: "C18", Kind: "process-terminated", Signature: map[string]interface{}{"kind": "process-terminated", "pair": "reset-state || poll"},
		What:   fmt.Sprintf("a state reset requested while the poller reads the board terminates the process (%v): %s", err, first),
		Replay: map[string]interface{}{"board_entries": 3000, "seconds": secs, "child_output": first}})
}
