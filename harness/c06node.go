package main

import (
	"encoding/hex"
	"fmt"
	"strings"

	"github.com/lidofinance/dc4bc/client/api/dto"
	"github.com/lidofinance/dc4bc/fsm/types/requests"
)

func init() { scenarios["c06node"] = scenarioC06Node }

// scenarioC06Node: "when more than n-t participants report failure the batch is cancelled, and in
// either case the round returns to idle and accepts the next proposal" - at the node, through its own
// API: after a reconstructed batch and after a cancelled one (with and without a straggler of the
// cancelled batch) the operator asks the node to propose the next batch; the node must post the
// proposal and every node must accept it.
func scenarioC06Node(c *Ctx) {
	fail := func(kind, what string, rep map[string]interface{}) {
		c.Fail(Failure{Property: "C06", Kind: kind, Signature: map[string]interface{}{"kind": kind}, What: what, Replay: rep})
	}
	type cfg struct{ n, t int }
	cfgs := []cfg{{3, 2}}
	if !c.Quick() {
		cfgs = []cfg{{3, 2}, {4, 3}, {2, 2}, {4, 2}}
	}
	runs := 0
	for ci, cf := range cfgs {
		w := NewWorld(cf.n, cf.t, ci+1)
		me := w.Users[0]
		roundBytes := []byte(fmt.Sprintf("round-c06n-%d", ci))
		round := hex.EncodeToString(roundBytes) // the API addresses a round by the bytes its identifier is the hex of
		h := w.Honest(round, me)
		ready := dkgPart(h) // ... up to signing-ready
		for _, variant := range []string{"after-reconstructed-batch", "after-cancelled-batch", "after-cancelled-batch-and-straggler"} {
			runs++
			e := NewNodeEnv(newEnvDir(c), me)
			var items []Item
			if variant == "after-reconstructed-batch" {
				items = h
			} else {
				items = append([]Item{}, ready...)
				tasks := w.Tasks("batch-X")
				items = append(items, w.Msg(round, "event_signing_start", requests.SigningBatchProposalStartRequest{BatchID: "batch-X", ParticipantId: 1, CreatedAt: T(300), SigningTasks: tasks}, w.Users[1], "", w.Users[1], NOWMARK, "start-X"))
				for i := 0; i < cf.n-cf.t+1; i++ {
					items = append(items, w.Msg(round, "event_signing_partial_sign_error_received", requests.SignatureProposalConfirmationErrorRequest{Error: requests.NewFSMError(fmt.Errorf("cannot sign")), ParticipantId: i, CreatedAt: T(310)}, w.Users[i], "", w.Users[i], NOWMARK, "sign-error"))
				}
				if variant == "after-cancelled-batch-and-straggler" && cf.n-cf.t+1 < cf.n {
					last := cf.n - 1
					items = append(items, w.Msg(round, "event_signing_partial_sign_received", w.PartialReq("batch-X", last, tasks), w.Users[last], "", w.Users[last], NOWMARK, "straggler"))
				}
			}
			for _, it := range items {
				applyItem(e, it)
			}
			stored := roundProj(e.Snapshot(), round)
			before, _ := e.Board.GetMessages(0)
			rep := map[string]interface{}{"n": cf.n, "t": cf.t, "history": variant, "stored_round": firstWord(stored)}
			err := e.Node.ProposeSignMessages(&dto.ProposeSignBatchMessagesDTO{DkgID: roundBytes, Data: map[string][]byte{"next.txt": []byte("the next document")}})
			after, _ := e.Board.GetMessages(0)
			switch {
			case err != nil:
				rep["error"] = err.Error()
				fail("next-proposal-refused", fmt.Sprintf("%s the node refuses to post the next proposal: %v", variant, err), rep)
			case len(after) != len(before)+1 || after[len(after)-1].Event != "event_signing_start":
				fail("next-proposal-not-posted", variant+": ProposeSignMessages returned no error but posted no proposal", rep)
			default:
				if cl := e.applyMsg(after[len(after)-1]); cl != "ok" || !strings.Contains(roundProj(e.Snapshot(), round), "state_signing_await_partial_signs") {
					rep["class"] = cl
					fail("next-proposal-not-accepted", variant+": the proposal the node posted itself is not accepted by the round", rep)
				}
			}
			e.Close()
		}
	}
	// a proposal that names no message at all (a task without payload over an empty range) can never
	// be answered - every participant's empty list of partial signatures is refused and nobody has a
	// failure to report: it must be refused, or the round never returns to idle
	{
		w := NewWorld(3, 2, 8)
		me := w.Users[0]
		round := "round-c06-empty-batch"
		ready := dkgPart(w.Honest(round, me))
		empty := w.RawMsg(round, "event_signing_start", []byte(`{"BatchID":"batch-empty","ParticipantId":1,"CreatedAt":"2023-11-14T22:18:20Z","SigningTasks":[{"MessageID":"r","File":"","Payload":null,"RangeStart":5,"RangeEnd":5}]}`), w.Users[1], "", w.Users[1], NOWMARK, "proposal-without-messages")
		items := append(append([]Item{}, ready...), empty)
		runCases(c, []HistCase{{Kind: "empty-batch", User: me, Items: items, Check: func(o RunObs) {
			if last := o.Classes[len(o.Classes)-1]; last != "err" || o.Before != o.After {
				fail("proposal-without-messages-accepted", "a proposal whose tasks name no message at all is accepted: the batch can never be answered and the round never returns to idle (answered "+last+")",
					map[string]interface{}{"after": roundProj(o.After, round)})
			}
		}}})
	}
	// "never counting one participant twice": a contribution counts for the participant that DELIVERED
	// it - every other participant posts, validly signed by itself, the proposal / the partial
	// signature that names the awaited one; the node must refuse it
	{
		w := NewWorld(3, 2, 7)
		me := w.Users[0]
		round := "round-c06-speaks"
		report := func(kind string, sig map[string]interface{}, what string, rep map[string]interface{}) {
			sig["kind"] = "contribution-not-delivered-by-its-participant"
			c.Fail(Failure{Property: "C06", Kind: sig["kind"].(string), Signature: sig, What: "a signing contribution was taken from somebody else: " + what, Replay: rep})
		}
		var cases []HistCase
		for _, hc := range speaksForCases(w, me, round, w.Honest(round, me), "-c06", report) {
			if strings.HasPrefix(hc.Items[len(hc.Items)-1].In.Msg.Event, "event_signing") {
				cases = append(cases, hc)
			}
		}
		runCases(c, cases)
		c.Notes["speaks_for_cases"] = len(cases)
	}
	c.Case("next-proposal", true, fmt.Sprintf("skip c06node %d", runs), fmt.Sprintf("skip c06node %d", runs))
	c.Notes["next_proposal_runs"] = runs
}

func firstWord(s string) string {
	f := strings.Fields(s)
	if len(f) > 1 {
		return f[1]
	}
	return s
}
