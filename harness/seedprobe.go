package main

import (
	"bytes"
	"fmt"
	"log"
	"os"
	"path/filepath"
	"regexp"
	"strings"
	"sync"

	"github.com/lidofinance/dc4bc/airgapped"
)

var seedProbeMu sync.Mutex

// ownMnemonicProbe: a machine started on an EMPTY database generates its seed itself and prints the
// mnemonic the operator is told to write down. A second machine given that mnemonic (SetBaseSeed,
// the recovery path) must end up with the same seed and the same long-term key pair; so must the
// first machine when it is reopened. Returns a description of what differs ("" when all agree).
func ownMnemonicProbe(dir string) (string, error) {
	seedProbeMu.Lock()
	defer seedProbeMu.Unlock()
	os.RemoveAll(dir)
	if err := os.MkdirAll(dir, 0755); err != nil {
		return "", err
	}
	defer os.RemoveAll(dir)
	var buf bytes.Buffer
	old := log.Writer()
	log.SetOutput(&buf)
	a, err := airgapped.NewMachine(filepath.Join(dir, "a"))
	log.SetOutput(old)
	if err != nil {
		return "", err
	}
	m := regexp.MustCompile(`Write down your mnemonic:\s+([a-z ]+)`).FindStringSubmatch(buf.String())
	if m == nil {
		a.VerifClose()
		return "", fmt.Errorf("the machine did not print a mnemonic: %q", buf.String())
	}
	mnemonic := strings.TrimSpace(m[1])
	a.SetEncryptionKey([]byte("pw"))
	if err := a.InitKeys(); err != nil {
		return "", err
	}
	seedA, pubA := a.VerifBaseSeed(), a.GetPubKey().String()
	a.VerifClose()
	// the same machine reopened
	a2, err := airgapped.NewMachine(filepath.Join(dir, "a"))
	if err != nil {
		return "", err
	}
	a2.SetEncryptionKey([]byte("pw"))
	if err := a2.InitKeys(); err != nil {
		return "", err
	}
	seedA2, pubA2 := a2.VerifBaseSeed(), a2.GetPubKey().String()
	a2.VerifClose()
	// a fresh machine restored from the written-down mnemonic
	log.SetOutput(&bytes.Buffer{})
	b, err := airgapped.NewMachine(filepath.Join(dir, "b"))
	log.SetOutput(old)
	if err != nil {
		return "", err
	}
	log.SetOutput(&bytes.Buffer{})
	err = b.SetBaseSeed(mnemonic)
	log.SetOutput(old)
	if err != nil {
		b.VerifClose()
		return "the printed mnemonic is refused by SetBaseSeed: " + err.Error(), nil
	}
	b.SetEncryptionKey([]byte("pw"))
	if err := b.GenerateKeys(); err != nil {
		return "", err
	}
	seedB, pubB := b.VerifBaseSeed(), b.GetPubKey().String()
	// the restored machine stopped and started again (between `set_seed` and the reinit operation, say)
	restarted := ""
	b.VerifClose()
	b, err = airgapped.NewMachine(filepath.Join(dir, "b"))
	if err != nil {
		return "", err
	}
	b.SetEncryptionKey([]byte("pw"))
	if err := b.InitKeys(); err != nil {
		restarted = "the restored machine cannot load its keys after a restart: " + err.Error()
	} else if !bytes.Equal(seedB, b.VerifBaseSeed()) {
		restarted = "a machine restored from a mnemonic comes back from a restart with ANOTHER seed than the one it was given"
	} else if pubB != b.GetPubKey().String() {
		restarted = "a machine restored from a mnemonic comes back from a restart with another long-term key"
	}
	// the same words, spaced differently (as an operator may type them): refused, or the same seed
	spaced := ""
	for _, variant := range []string{strings.Replace(mnemonic, " ", "  ", 1), strings.Replace(mnemonic, " ", "\t", 1), mnemonic + "\r", "  " + mnemonic + " \n"} {
		log.SetOutput(&bytes.Buffer{})
		err := b.SetBaseSeed(variant)
		log.SetOutput(old)
		if err == nil && !bytes.Equal(b.VerifBaseSeed(), seedA) {
			spaced = fmt.Sprintf("the same mnemonic words spaced differently (%q...) are accepted and give another seed", variant[:12])
		}
	}
	b.VerifClose()
	if spaced != "" {
		return spaced, nil
	}
	switch {
	case restarted != "":
		return restarted, nil
	case !bytes.Equal(seedA, seedA2) || pubA != pubA2:
		return "the reopened machine has another seed or long-term key than before", nil
	case !bytes.Equal(seedA, seedB):
		return "a machine restored from the mnemonic another machine printed at its first start has a different seed", nil
	case pubA != pubB:
		return "a machine restored from the printed mnemonic has a different long-term key", nil
	}
	return "", nil
}

func runOwnMnemonicProbe(c *Ctx, prop string) {
	n := 2
	if !c.Quick() {
		n = 6
	}
	for k := 0; k < n; k++ {
		what, err := ownMnemonicProbe(filepath.Join(newEnvDir(c), fmt.Sprintf("seedprobe-%d", k)))
		if err != nil {
			c.Fail(Failure{Property: prop, Kind: "probe-failed", Signature: map[string]interface{}{"kind": "probe-failed"}, What: "harness: " + err.Error(), Replay: map[string]interface{}{}})
			continue
		}
		if what != "" {
			c.Fail(Failure{Property: prop, Kind: "mnemonic-does-not-reproduce-machine", Signature: map[string]interface{}{"kind": "mnemonic-does-not-reproduce-machine"},
				What: what, Replay: map[string]interface{}{"steps": "NewMachine on an empty database (prints the mnemonic); NewMachine on another empty database + SetBaseSeed(mnemonic) + GenerateKeys; compare seeds and public keys"}})
		}
	}
	c.Case("own-mnemonic", true, fmt.Sprintf("skip seedprobe %d", n), fmt.Sprintf("skip seedprobe %d", n))
	c.Notes["own_mnemonic_probes"] = n
}

func init() {
	scenarios["c12seed"] = func(c *Ctx) { runOwnMnemonicProbe(c, "C12") }
	scenarios["c20seed"] = func(c *Ctx) { runOwnMnemonicProbe(c, "C20") }
}
