package main

import (
	"time"
	"crypto/ed25519"
	"crypto/sha256"
	"encoding/hex"
	"encoding/json"
	"fmt"
	"os"
	"path/filepath"
	"sort"

	"github.com/tyler-smith/go-bip39"

	"github.com/lidofinance/dc4bc/airgapped"
	"github.com/lidofinance/dc4bc/client/api/dto"
	ctypes "github.com/lidofinance/dc4bc/client/types"
	"github.com/lidofinance/dc4bc/fsm/types/requests"
	"github.com/lidofinance/dc4bc/storage"
)

// Cluster: n real hot nodes (LevelDB state each) on one real file board, each with its real
// airgapped machine.  Delivery and answering are driven step by step by the caller.
type Cluster struct {
	Dir      string
	N, T     int
	Users    []string
	Nodes    []*NodeEnv
	Machines []*airgapped.Machine
	MDirs    []string
	Mnemonic []string
	Offsets  []uint64
	Round    string
	Log      [][]storage.Message // per node: the messages it has been fed (in order)
	Password []byte
}

func mnemonicFor(i int, tag string) string {
	h := sha256.Sum256([]byte(fmt.Sprintf("verif-mnemonic-%s-%d", tag, i)))
	m, err := bip39.NewMnemonic(h[:])
	if err != nil {
		panic(err)
	}
	return m
}

func openMachine(dir string, password []byte, mnemonic string, fresh bool) *airgapped.Machine {
	os.MkdirAll(filepath.Join(dir, "results"), 0755)
	am, err := airgapped.NewMachine(filepath.Join(dir, "db"))
	if err != nil {
		panic(err)
	}
	am.SetEncryptionKey(password)
	if fresh && mnemonic != "" {
		if err := am.SetBaseSeed(mnemonic); err != nil {
			panic(err)
		}
	}
	if err := am.InitKeys(); err != nil {
		panic(err)
	}
	am.SetResultFolder(filepath.Join(dir, "results"))
	return am
}

func NewCluster(base string, n, t int, tag string) *Cluster {
	cl := &Cluster{Dir: base, N: n, T: t, Password: []byte("correct horse")}
	os.MkdirAll(base, 0755)
	for i := 0; i < n; i++ {
		u := fmt.Sprintf("user%d", i)
		cl.Users = append(cl.Users, u)
		ne := NewNodeEnv(filepath.Join(base, fmt.Sprintf("node-%d", i)), u)
		// all nodes share one board file
		ne.Board.Close()
		cl.Nodes = append(cl.Nodes, ne)
		md := filepath.Join(base, fmt.Sprintf("airgapped-%d", i))
		mn := mnemonicFor(i, tag)
		cl.MDirs = append(cl.MDirs, md)
		cl.Mnemonic = append(cl.Mnemonic, mn)
		cl.Machines = append(cl.Machines, openMachine(md, cl.Password, mn, true))
	}
	cl.Offsets = make([]uint64, n)
	cl.Log = make([][]storage.Message, n)
	return cl
}

// NewClusterIdx: participants are the machines idx[0], idx[1], ... of the tag's family (machine k
// always has the same mnemonic and user name), in this order
func NewClusterIdx(base string, t int, tag string, idx []int) *Cluster {
	cl := &Cluster{Dir: base, N: len(idx), T: t, Password: []byte("correct horse")}
	os.MkdirAll(base, 0755)
	for k, i := range idx {
		u := fmt.Sprintf("user%d", i)
		cl.Users = append(cl.Users, u)
		ne := NewNodeEnv(filepath.Join(base, fmt.Sprintf("node-%d", k)), u)
		ne.Board.Close()
		cl.Nodes = append(cl.Nodes, ne)
		md := filepath.Join(base, fmt.Sprintf("airgapped-%d", k))
		mn := mnemonicFor(i, tag)
		cl.MDirs = append(cl.MDirs, md)
		cl.Mnemonic = append(cl.Mnemonic, mn)
		cl.Machines = append(cl.Machines, openMachine(md, cl.Password, mn, true))
	}
	cl.Offsets = make([]uint64, len(idx))
	cl.Log = make([][]storage.Message, len(idx))
	return cl
}

func (cl *Cluster) Close() {
	for _, m := range cl.Machines {
		m.VerifClose()
	}
	os.RemoveAll(cl.Dir)
}

// Propose posts the opening proposal (as StartDKG does: round id = sha256 of the payload).
func (cl *Cluster) Propose(now int64) string {
	var ps []*requests.SignatureProposalParticipantsEntry
	for i, u := range cl.Users {
		pk, err := cl.Machines[i].GetPubKey().MarshalBinary()
		if err != nil {
			panic(err)
		}
		ps = append(ps, &requests.SignatureProposalParticipantsEntry{Username: u, PubKey: cl.Nodes[i].KP.Pub, DkgPubKey: pk})
	}
	payload, _ := json.Marshal(requests.SignatureProposalParticipantsListRequest{Participants: ps, SigningThreshold: cl.T, CreatedAt: time.Now()})
	id := sha256.Sum256(payload)
	cl.Round = hex.EncodeToString(id[:])
	m := storage.Message{DkgRoundID: cl.Round, Event: "event_sig_proposal_init", Data: payload, SenderAddr: cl.Users[0]}
	m.Signature = ed25519.Sign(cl.Nodes[0].KP.Priv, payload)
	if err := cl.board().Send(m); err != nil {
		panic(err)
	}
	for _, n := range cl.Nodes {
		n.Rounds[cl.Round] = true
	}
	return cl.Round
}

func (cl *Cluster) board() storage.Storage { return cl.boardOf(0) }
func (cl *Cluster) boardOf(i int) storage.Storage {
	return cl.Nodes[i].BoardShared(filepath.Join(cl.Dir, "board"), filepath.Join(cl.Dir, "board.lock"))
}

// Deliver: node i consumes its next board message (as one iteration of the Poll loop body).
func (cl *Cluster) Deliver(i int) bool {
	msgs, err := cl.boardOf(i).GetMessages(cl.Offsets[i])
	if err != nil {
		panic(err)
	}
	if len(msgs) == 0 {
		return false
	}
	m := msgs[0]
	if m.RecipientAddr == "" || m.RecipientAddr == cl.Users[i] {
		cl.Log[i] = append(cl.Log[i], m)
		cl.Nodes[i].applyMsg(m)
	}
	cl.Offsets[i] = m.Offset + 1
	return true
}

func (cl *Cluster) Pending(i int) []*ctypes.Operation {
	ops, err := cl.Nodes[i].OpRepo.GetOperations()
	if err != nil {
		panic(err)
	}
	var out []*ctypes.Operation
	for _, o := range ops {
		out = append(out, o)
	}
	sort.Slice(out, func(a, b int) bool { return out[a].CreatedAt.Before(out[b].CreatedAt) || (out[a].CreatedAt.Equal(out[b].CreatedAt) && out[a].ID < out[b].ID) })
	return out
}

// Answer: participant i answers one pending operation with its airgapped machine (or approves
// the invitation); returns the result operation.
func (cl *Cluster) Answer(i int, o *ctypes.Operation) (*ctypes.Operation, error) {
	if string(o.Type) == "state_sig_proposal_await_participants_confirmations" {
		return nil, cl.Nodes[i].Node.ApproveParticipation(&dto.OperationIdDTO{OperationID: o.ID})
	}
	res, err := cl.Machines[i].GetOperationResult(*o)
	if err != nil {
		return nil, err
	}
	return &res, cl.Nodes[i].Node.ProcessOperation(&dto.OperationDTO{ID: res.ID, Type: string(res.Type), Payload: res.Payload, ResultMsgs: res.ResultMsgs,
		CreatedAt: res.CreatedAt, DkgID: res.DKGIdentifier, To: res.To, Event: res.Event, ExtraData: res.ExtraData})
}

// RunToQuiescence: deliver and answer until nothing moves; pick chooses the next node among the
// candidates (for seeded orders). answerers: which participants answer operations.
func (cl *Cluster) RunToQuiescence(pick func(cands []int) int, answers func(i int, o *ctypes.Operation) bool) {
	for guard := 0; guard < 10000; guard++ {
		var cands []int
		for i := range cl.Nodes {
			msgs, _ := cl.boardOf(i).GetMessages(cl.Offsets[i])
			if len(msgs) > 0 {
				cands = append(cands, i)
			}
		}
		progressed := false
		if len(cands) > 0 {
			cl.Deliver(cands[pick(cands)])
			progressed = true
		}
		for i := range cl.Nodes {
			for _, o := range cl.Pending(i) {
				if answers == nil || answers(i, o) {
					if _, err := cl.Answer(i, o); err == nil {
						progressed = true
					}
					break
				}
			}
		}
		if !progressed {
			return
		}
	}
	panic("cluster did not quiesce")
}

func (cl *Cluster) RoundState(i int) string {
	s := cl.Nodes[i].Snapshot()
	return roundProj(s, cl.Round)
}

// ProposeBatch posts a signing proposal by participant `by`.
// boardTasksJSON writes a task list the way a proposer's client may put it on the board: every
// field spelled out (also an empty payload, also range fields next to a payload), independently of
// how the implementation's own struct marshals. A nil payload is JSON null.
func boardTasksJSON(tasks []requests.SigningTask) []byte {
	var l []map[string]interface{}
	for _, t := range tasks {
		m := map[string]interface{}{"MessageID": t.MessageID, "File": t.File, "RangeStart": t.RangeStart, "RangeEnd": t.RangeEnd}
		if t.Payload != nil {
			m["Payload"] = t.Payload
		} else {
			m["Payload"] = nil
		}
		l = append(l, m)
	}
	bz, _ := json.Marshal(l)
	return bz
}

func (cl *Cluster) ProposeBatch(by int, batch string, tasks []requests.SigningTask) {
	data, _ := json.Marshal(map[string]interface{}{"BatchID": batch, "ParticipantId": by, "CreatedAt": time.Now(), "SigningTasks": json.RawMessage(boardTasksJSON(tasks))})
	m := storage.Message{DkgRoundID: cl.Round, Event: "event_signing_start", Data: data, SenderAddr: cl.Users[by]}
	m.Signature = ed25519.Sign(cl.Nodes[by].KP.Priv, data)
	if err := cl.boardOf(by).Send(m); err != nil {
		panic(err)
	}
}

// StoredSignatures: message id -> the signature values node i stores for the batch
func (cl *Cluster) StoredSignatures(i int, batch string) map[string][][]byte {
	out := map[string][][]byte{}
	bz, _ := cl.Nodes[i].St.Get("signatures_" + cl.Round)
	if bz == nil {
		return out
	}
	var st map[string]map[string][]struct {
		Signature []byte
		Username  string
	}
	if err := json.Unmarshal(bz, &st); err != nil {
		panic(err)
	}
	for id, entries := range st[batch] {
		for _, e := range entries {
			out[id] = append(out[id], e.Signature)
		}
	}
	return out
}

// RunToQuiescenceWith: like RunToQuiescence, the callback performs the answer itself.
func (cl *Cluster) RunToQuiescenceWith(pick func(cands []int) int, answer func(i int, o *ctypes.Operation) (bool, error)) {
	for guard := 0; guard < 10000; guard++ {
		var cands []int
		for i := range cl.Nodes {
			msgs, _ := cl.boardOf(i).GetMessages(cl.Offsets[i])
			if len(msgs) > 0 {
				cands = append(cands, i)
			}
		}
		progressed := false
		if len(cands) > 0 {
			cl.Deliver(cands[pick(cands)])
			progressed = true
		}
		for i := range cl.Nodes {
			for _, o := range cl.Pending(i) {
				done, err := answer(i, o)
				if done && err == nil {
					progressed = true
				}
				break
			}
		}
		if !progressed {
			return
		}
	}
	panic("cluster did not quiesce")
}
