package main

import (
	"fmt"
	"net/http"
	"net/http/httptest"
	"strings"

	"github.com/labstack/echo/v4"

	cs "github.com/lidofinance/dc4bc/client/api/http_api/context_service"
	"github.com/lidofinance/dc4bc/client/api/http_api/router"
)

func init() {
	scenarios["c18api"] = scenarioC18Api
}

// the node's local HTTP API, driven in-process through the project's own router and handlers

func apiOf(e *NodeEnv) *echo.Echo {
	srv := echo.New()
	srv.HideBanner = true
	srv.Use(func(next echo.HandlerFunc) echo.HandlerFunc {
		return func(ctx echo.Context) error { return next(cs.New(ctx)) }
	})
	router.SetRouter(srv, nil, e.Node, e.SP)
	return srv
}

func apiSnapshot(e *NodeEnv) string {
	off, _ := e.St.LoadOffset()
	return fmt.Sprintf("OFFSET %d %s", off, e.Snapshot())
}

var hostileBodies = []struct{ label, body string }{
	{"empty", ""},
	{"truncated", `{"ID":`},
	{"null", `null`},
	{"array", `[1,2,3]`},
	{"empty-object", `{}`},
	{"number", `7`},
	{"string", `"abc"`},
	{"type-confusion", `{"ID":7,"Type":[],"Payload":{},"dkgID":5,"data":7,"offset":"x","operationID":{},"Payload2":1,"range_start":"a","messages":7}`},
	{"negative-numbers", `{"offset":-1,"range_start":-5,"range_end":-1,"threshold":-2}`},
	{"huge-numbers", `{"offset":18446744073709551616,"range_start":9223372036854775807,"range_end":9223372036854775807,"threshold":99999999999999999999}`},
	{"unknown-ids", `{"ID":"0123456789abcdef0123456789abcdef","operationID":"0123456789abcdef0123456789abcdef","Type":"state_bogus","DKGIdentifier":"0123456789abcdef0123456789abcdef","Event":"event_bogus","dkgID":"MDEyMzQ1Njc4OWFiY2RlZjAxMjM0NTY3ODlhYmNkZWY=","data":"QUJD","Payload":"e30=","dkg_id":"0123456789abcdef0123456789abcdef"}`},
	{"short-ids", `{"ID":"x","operationID":"x","DKGIdentifier":"ab","dkgID":"YWI=","dkg_id":"ab","id":"a","dkg_round_id":"b","event":"e","data":"QQ==","signature":"QQ==","sender":"s"}`},
	{"null-fields", `{"ID":null,"Type":null,"Payload":null,"ResultMsgs":null,"dkgID":null,"data":null,"messages":null,"participants":null,"Messages":null}`},
	{"null-entries", `{"ResultMsgs":[null],"messages":[null],"participants":[null],"data":{"a":null},"ID":"0123456789abcdef0123456789abcdef","Type":"t","DKGIdentifier":"0123456789abcdef0123456789abcdef","Event":"e","dkg_id":"0123456789abcdef0123456789abcdef","threshold":2}`},
	{"long-strings", `{"ID":"` + strings.Repeat("a", 700) + `","dkgID":"` + strings.Repeat("QUJD", 400) + `","operationID":"` + strings.Repeat("b", 700) + `"}`},
	{"start-dkg-junk-payload", `{"Payload":"bm90IGpzb24="}`},
	{"start-dkg-empty-list", `{"Payload":"eyJQYXJ0aWNpcGFudHMiOltdLCJTaWduaW5nVGhyZXNob2xkIjowfQ=="}`},
	{"baked-range-unknown-round", `{"dkgID":"MDEyMzQ1Njc4OWFiY2RlZjAxMjM0NTY3ODlhYmNkZWY=","range_start":0,"range_end":3}`},
	{"baked-range-reversed", `{"dkgID":"MDEyMzQ1Njc4OWFiY2RlZjAxMjM0NTY3ODlhYmNkZWY=","range_start":9,"range_end":3}`},
	{"reinit-empty", `{"dkg_id":"0123456789abcdef0123456789abcdef","threshold":2,"participants":[],"messages":[]}`},
	{"reset-state-junk", `{"new_state_dbdsn":"/nonexistent/\u0000/x","use_offset":true,"messages":["x","-1","99999999999999999999"]}`},
}

var apiPosts = []string{"/sendMessage", "/handleProcessedOperationJSON", "/startDKG", "/proposeSignMessage", "/proposeSignBatchMessages",
	"/proposeSignBakedMessages", "/approveDKGParticipation", "/reinitDKG", "/saveOffset", "/resetState"}
var apiGets = []string{"/getUsername", "/getPubKey", "/getOperations", "/getSignatures", "/getBatches", "/getSignatureByID", "/getOperation",
	"/getOffset", "/getFSMDump", "/getFSMList"}
var hostileQueries = []string{"", "?dkgID=", "?dkgID=ab", "?dkgID=" + "0123456789abcdef0123456789abcdef", "?operationID=x", "?operationID=" + "0123456789abcdef0123456789abcdef",
	"?id=%00&dkgID=%ff%fe", "?batchID=" + "0123456789abcdef0123456789abcdef" + "&dkgID=" + "0123456789abcdef0123456789abcdef", "?dkgID=" + strings.Repeat("a", 600)}

func scenarioC18Api(c *Ctx) {
	w := NewWorld(3, 2, 1)
	me := w.Users[0]
	round := "round-c18api"
	h := w.Honest(round, me)
	positions := []int{0, 7, len(h)}
	if !c.Quick() {
		positions = []int{0, 1, 4, 7, 10, 13, 16, 17, len(h)}
	}
	requestsMade, panics, rejected, accepted := 0, 0, 0, 0
	for _, k := range positions {
		base := NewNodeEnv(newEnvDir(c), me)
		for _, it := range h[:k] {
			applyItem(base, it)
		}
		// saveOffset and resetState legitimately change state when their body is well-formed: each request runs on a fork
		do := func(method, path, body, label string) {
			e := base.Fork(newEnvDir(c))
			defer e.Close()
			srv := apiOf(e)
			before := apiSnapshot(e)
			req := httptest.NewRequest(method, path, strings.NewReader(body))
			if method == http.MethodPost {
				req.Header.Set("Content-Type", "application/json")
			}
			rec := httptest.NewRecorder()
			panicked := ""
			func() {
				defer func() {
					if r := recover(); r != nil {
						panicked = fmt.Sprint(r)
					}
				}()
				srv.ServeHTTP(rec, req)
			}()
			requestsMade++
			after := apiSnapshot(e)
			rep := map[string]interface{}{"after_messages": k, "method": method, "path": path, "body": label}
			switch {
			case panicked != "":
				panics++
				// net/http recovers a handler panic (the connection is dropped, the process lives); it
				// must still not leave anything behind
				if before != after {
					c.Fail(Failure{Property: "C18", Kind: "api-panic-changed-state", Signature: map[string]interface{}{"kind": "api-panic-changed-state", "path": path, "body": label},
						What: fmt.Sprintf("%s %s with a %s body panics in the handler (%s) after changing durable state", method, path, label, firstLine(panicked)), Replay: rep})
				}
				c.Notes["api_handler_panic "+path+" "+label] = firstLine(panicked)
			case rec.Code >= 400:
				rejected++
				if before != after {
					c.Fail(Failure{Property: "C18", Kind: "rejected-api-request-changed-state", Signature: map[string]interface{}{"kind": "rejected-api-request-changed-state", "path": path, "body": label},
						What: fmt.Sprintf("%s %s with a %s body is rejected (status %d) but changed the node's durable state", method, path, label, rec.Code), Replay: rep})
				}
			default:
				accepted++
				if method == http.MethodPost {
					key := "accepted_post " + path
					if before != after {
						key += " (acted: board / state changed)"
					}
					n, _ := c.Notes[key].(int)
					c.Notes[key] = n + 1
				}
			}
		}
		for _, p := range apiPosts {
			for _, b := range hostileBodies {
				do(http.MethodPost, p, b.body, b.label)
			}
		}
		for _, p := range apiGets {
			for _, q := range hostileQueries {
				do(http.MethodGet, p+q, "", "query "+q)
			}
		}
		base.Close()
	}
	c.Case("api", true, fmt.Sprintf("skip c18api %d requests", requestsMade), fmt.Sprintf("skip c18api %d requests", requestsMade))
	c.Notes["api_requests"] = requestsMade
	c.Notes["api_rejected"] = rejected
	c.Notes["api_accepted"] = accepted
	c.Notes["api_handler_panics"] = panics
}
