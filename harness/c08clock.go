package main

import (
	"fmt"
	"strings"
	"time"

	"github.com/lidofinance/dc4bc/fsm/types/requests"
)

// fsmRunDated drives one honest ceremony (key generation, one signing batch) through the real FSM,
// every request dated relative to `base`, reloading the round from its dump before every event as
// the node does. Returns, per step, the class and the state reached.
func fsmRunDated(base time.Time, n, t int) []string {
	at := func(sec int) time.Time { return base.Add(time.Duration(sec) * time.Second) }
	bz := initialDump("round-dated")
	var trace []string
	apply := func(name string, r Req) {
		o := doOnDump(bz, Ev{name, r, "dated"})
		st := "-"
		if o.Class == "ok" && o.DumpOut != nil {
			bz = o.DumpOut
			st = string(decodeDump(bz).State)
		}
		trace = append(trace, fmt.Sprintf("%s:%s:%s", name, o.Class, st))
	}
	apply("event_sig_proposal_init", reqList(participants(n), t, at(0)))
	for i := 0; i < n; i++ {
		apply("event_sig_proposal_confirm_by_participant", reqPart(i, at(10)))
	}
	apply("event_dkg_init_process", reqDefault(at(20)))
	for k := 0; k < 3; k++ {
		for i := 0; i < n; i++ {
			apply(dkgConfirmEv[k], reqData(k, i, fmt.Sprintf("data%d-%d", k, i), at(30+k)))
		}
	}
	for i := 0; i < n; i++ {
		apply(dkgConfirmEv[3], reqMaster(i, "masterkey-A", "pubpoly-A", at(40)))
	}
	apply("event_signing_init", reqDefault(at(50)))
	tasks := []requests.SigningTask{{MessageID: "msg-1", File: "f1", Payload: []byte("payload-1")}}
	apply("event_signing_start", reqStart("batch-A", 0, at(60), tasks))
	for i := 0; i < t; i++ {
		apply("event_signing_partial_sign_received", reqPartial("batch-A", i, []requests.PartialSign{{MessageID: "msg-1", Sign: []byte(fmt.Sprintf("psig-%d", i))}}, at(70)))
	}
	return trace
}

// c08Clock: a round's state is a function of the board log - not of WHEN the log is applied. The same
// honest history, with every timestamp moved as a whole to the year 2001, to the present and to the
// year 2101, must take the round through the same states (a node that replays an old log, or lags
// behind by weeks, must agree with the nodes that followed it live).
func c08Clock(c *Ctx) {
	type cfg struct{ n, t int }
	cfgs := []cfg{{3, 2}}
	if !c.Quick() {
		cfgs = []cfg{{3, 2}, {2, 2}, {4, 3}}
	}
	bases := map[string]time.Time{
		"2001":         time.Date(2001, 1, 1, 0, 0, 0, 0, time.UTC),
		"now":          time.Now().UTC(),
		"2101":         time.Date(2101, 1, 1, 0, 0, 0, 0, time.UTC),
		"ten-days-ago": time.Now().UTC().Add(-10 * 24 * time.Hour),
	}
	for _, cf := range cfgs {
		ref := fsmRunDated(bases["now"], cf.n, cf.t)
		for _, name := range []string{"2001", "ten-days-ago", "2101"} {
			got := fsmRunDated(bases[name], cf.n, cf.t)
			if strings.Join(got, " ") != strings.Join(ref, " ") {
				first := 0
				for first < len(ref) && first < len(got) && ref[first] == got[first] {
					first++
				}
				c.Fail(Failure{Property: "C08", Kind: "outcome-depends-on-wall-clock", Signature: map[string]interface{}{"kind": "outcome-depends-on-wall-clock"},
					What:   fmt.Sprintf("the same honest history takes the round through other states when all its timestamps are moved to %s (first difference at step %d)", name, first),
					Replay: map[string]interface{}{"n": cf.n, "t": cf.t, "dated_now": ref, "dated_" + name: got}})
			}
		}
		last := ref[len(ref)-1]
		if !strings.Contains(last, ":ok:") {
			c.Fail(Failure{Property: "C08", Kind: "probe-failed", Signature: map[string]interface{}{"kind": "probe-failed"}, What: "harness: the dated honest run does not complete: " + last, Replay: map[string]interface{}{}})
		}
	}
	c.Case("dated-runs", true, fmt.Sprintf("skip c08clock %d", len(cfgs)), fmt.Sprintf("skip c08clock %d", len(cfgs)))
	c.Notes["dated_runs"] = len(cfgs) * 4
}
