package main

import (
	"bytes"
	"context"
	"fmt"
	"github.com/lidofinance/dc4bc/client/modules/state"
	"os"
	"path/filepath"
	"sort"
	"strings"
	"time"

	"github.com/lidofinance/dc4bc/client/api/dto"
	ctypes "github.com/lidofinance/dc4bc/client/types"
	"github.com/lidofinance/dc4bc/fsm/fsm"
	"github.com/lidofinance/dc4bc/storage"
)

func init() {
	scenarios["c13"] = scenarioC13
}

func sectionOf(snapshot, from, to string) string {
	i := strings.Index(snapshot, from)
	if i < 0 {
		return ""
	}
	rest := snapshot[i:]
	if to == "" {
		return rest
	}
	j := strings.Index(rest, to)
	if j < 0 {
		return rest
	}
	return rest[:j]
}

func scenarioC13(c *Ctx) {
	c13Run(c, NewWorld(3, 2, 1), 0, "round-c13", true, false)
	if !c.Quick() {
		// every observer, further sizes, and a second crash while the message is handled again
		c13Run(c, NewWorld(3, 2, 1), 0, "round-c13-d", false, true)
		c13Run(c, NewWorld(3, 2, 1), 1, "round-c13-o1", false, false)
		c13Run(c, NewWorld(3, 2, 1), 2, "round-c13-o2", false, true)
		c13Run(c, NewWorld(4, 3, 2), 0, "round-c13-n4", false, false)
		c13Run(c, NewWorld(2, 2, 3), 1, "round-c13-n2", false, true)
	}
}

func c13Run(c *Ctx, w *World, meIdx int, round string, doPoll bool, double bool) {
	me := w.Users[meIdx]
	h := w.Honest(round, me)
	fail := func(kind string, sig map[string]interface{}, what string, rep map[string]interface{}) {
		sig["kind"] = kind
		c.Fail(Failure{Property: "C13", Kind: kind, Signature: sig, What: what, Replay: rep})
	}
	// crash-free reference, recording the durable writes of every message
	ref := NewNodeEnv(newEnvDir(c), me)
	var writes [][]string
	for _, it := range h {
		ref.Ctl.record, ref.Ctl.log = true, nil
		applyItem(ref, it)
		writes = append(writes, append([]string{}, ref.Ctl.log...))
	}
	ref.Ctl.record = false
	final := ref.Snapshot()
	ref.Close()
	refRound, refOps, refSigs := roundProj(final, round), sectionOf(final, " VIS ", " SIGS"), sectionOf(final, " SIGS", " BOARD ")
	var cases []HistCase
	total := 0
	for i := range h {
		for k := 0; k < len(writes[i]); k++ {
			items := append(append([]Item{}, h[:i]...), crashItem(h[i], k))
			if double {
				// killed again while the message is handled for the second time
				items = append(items, crashItem(h[i], (k+1)%len(writes[i])))
			}
			items = append(items, h[i:]...) // the message is delivered again after the restart, then the rest
			after, before := "start of handling", writes[i][k]
			if k > 0 {
				after = writes[i][k-1]
			}
			if double {
				// two kills: the history is identified by the crash point that falls between the two
				// writes of the round and of the operation pool, if one of them does
				k2 := (k + 1) % len(writes[i])
				a2, b2 := "start of handling", writes[i][k2]
				if k2 > 0 {
					a2 = writes[i][k2-1]
				}
				if a2 == "Set fsm_state" && b2 == "Set operations" {
					after, before = a2, b2
				}
			}
			ev, pos, kk := h[i].In.Msg.Event, i, k
			total++
			cases = append(cases, HistCase{Kind: "crash/" + after + "/" + before, User: me, Items: items, Check: func(o RunObs) {
				got := o.After
				rep := map[string]interface{}{"message_index": pos, "event": ev, "crash_after_durable_writes": kk, "after": after, "before": before}
				if roundProj(got, round) != refRound || sectionOf(got, " SIGS", " BOARD ") != refSigs {
					fail("crash-changes-outcome", map[string]interface{}{"after": after, "before": before},
						fmt.Sprintf("a crash after '%s' and before '%s' while handling %s changes the round's final state", after, before, ev), rep)
				} else if sectionOf(got, " VIS ", " SIGS") != refOps {
					fail("crash-loses-operation", map[string]interface{}{"after": after, "before": before},
						fmt.Sprintf("a crash after '%s' and before '%s' while handling %s: the operation is not offered after the restart", after, before, ev), rep)
				}
			}})
		}
	}
	// clean stop/start at every message boundary
	for i := 1; i < len(h); i++ {
		items := append(append([]Item{}, h[:i]...), restartItem())
		items = append(items, h[i:]...)
		pos := i
		cases = append(cases, HistCase{Kind: "clean-restart", User: me, Items: items, Check: func(o RunObs) {
			if roundProj(o.After, round) != refRound || sectionOf(o.After, " VIS ", " SIGS") != refOps || sectionOf(o.After, " SIGS", " BOARD ") != refSigs {
				fail("restart-changes-outcome", map[string]interface{}{}, "a clean stop/start between two messages changes the outcome (lost operations or state)", map[string]interface{}{"before_message": pos})
			}
		}})
	}
	// crash points inside the handling of an operation result (local API)
	probe := NewNodeEnv(newEnvDir(c), me)
	known := map[string]*ctypes.Operation{}
	for _, it := range h[:4] {
		applyItem(probe, it)
	}
	ops := pendingOps(probe)
	probe.Close()
	if len(ops) > 0 {
		o := ops[len(ops)-1]
		known[o.ID] = o
		ev := resultEventFor(string(o.Type))
		d := &dto.OperationDTO{ID: o.ID, Type: string(o.Type), Payload: o.Payload, CreatedAt: o.CreatedAt, DkgID: o.DKGIdentifier, Event: fsm.Event(ev),
			ResultMsgs: []storage.Message{{Event: ev, Data: []byte(`{"ParticipantId":0,"answer":"one"}`), DkgRoundID: o.DKGIdentifier},
				{Event: ev, Data: []byte(`{"ParticipantId":0,"answer":"two"}`), DkgRoundID: o.DKGIdentifier}}}
		res := resultItem(d, known, "result")
		opProj := projOp(o)
		for k := 0; k <= 4; k++ {
			items := append(append([]Item{}, h[:4]...), crashResultItem(res, k))
			kk := k
			total++
			cases = append(cases, HistCase{Kind: "crash-result", User: me, Items: items, PrefixKey: "result-crash-" + round, Check: func(ob RunObs) {
				posted := strings.Count(sectionOf(ob.After, " BOARD ", ""), "[") - strings.Count(sectionOf(ob.Before, " BOARD ", ""), "[")
				stillPending := strings.Contains(sectionOf(ob.After, " VIS ", " SIGS"), opProj)
				if posted < len(d.ResultMsgs) && !stillPending {
					fail("crash-loses-operation", map[string]interface{}{"handler": "executeOperation", "after_durable_writes": kk},
						fmt.Sprintf("a crash after %d durable writes of an operation result: only %d of %d messages reached the board and the operation is no longer pending", kk, posted, len(d.ResultMsgs)),
						map[string]interface{}{"crash_after_durable_writes": kk, "before": ob.Before, "after": ob.After})
				}
			}})
		}
	}
	runCases(c, cases)

	// starting the process on an existing state directory changes nothing durable - the saved board
	// offset included (a node that forgot it would handle the whole board again)
	for _, k := range []int{1, 5, len(h)} {
		e := NewNodeEnv(newEnvDir(c), me)
		for _, it := range h[:k] {
			applyItem(e, it)
		}
		if err := e.St.SaveOffset(uint64(k)); err != nil {
			panic(err)
		}
		snap1 := e.Snapshot()
		e.Restart()
		off, err := e.St.LoadOffset()
		snap2 := e.Snapshot()
		e.Close()
		c.Case("restart-offset", true, "skip restart-offset", "skip restart-offset")
		if err != nil || off != uint64(k) || snap1 != snap2 {
			fail("restart-changes-durable-state", map[string]interface{}{},
				fmt.Sprintf("after a restart on its state directory the node resumes from offset %d, it had saved %d (or its rounds/operations changed)", off, k),
				map[string]interface{}{"saved_offset": k, "offset_after_restart": off, "before": snap1, "after": snap2})
		}
	}

	// a process killed in the middle of a state write leaves a torn last record in the store's journal:
	// the node must start on it (the torn write is simply not there), without manual repair
	for _, cut := range []int64{1, 100, 40000, 70000} {
		e := NewNodeEnv(newEnvDir(c), me)
		for _, it := range h[:6] {
			applyItem(e, it)
		}
		e.St.SaveOffset(6)
		// the write in flight when the process dies: larger than a journal block, as the stored rounds
		// of a key generation are - it reaches the file in several writes
		e.St.Set("write_in_flight", bytes.Repeat([]byte("x"), 100000))
		dir := filepath.Join(newEnvDir(c), "torn-image")
		copyDir(filepath.Join(e.Dir, stateDirName(e.nopen)), dir) // what is on disk when the process dies
		e.Close()
		logs, _ := filepath.Glob(filepath.Join(dir, "*.log"))
		c.Case("torn-journal", true, "skip torn-journal", "skip torn-journal")
		if len(logs) == 0 {
			continue
		}
		sort.Strings(logs)
		j := logs[len(logs)-1]
		if os.Getenv("C13_DEBUG") != "" {
			fi, _ := os.Stat(j)
			fmt.Fprintln(os.Stderr, "torn journal:", logs, fi.Size(), cut)
		}
		if fi, err := os.Stat(j); err == nil && fi.Size() > cut {
			os.Truncate(j, fi.Size()-cut)
		}
		st, err := state.NewLevelDBState(dir, topic)
		if err != nil {
			fail("torn-write-blocks-restart", map[string]interface{}{},
				fmt.Sprintf("after a state write torn %d bytes before its end the node cannot be started on its state directory: %v", cut, err),
				map[string]interface{}{"bytes_missing": cut, "error": err.Error()})
			continue
		}
		if off, err := st.LoadOffset(); err != nil || off != 6 {
			fail("torn-write-blocks-restart", map[string]interface{}{}, fmt.Sprintf("after a torn state write the saved offset is %d (%v), it was 6", off, err), map[string]interface{}{"bytes_missing": cut})
		}
		st.VerifClose()
		os.RemoveAll(dir)
	}

	// the real Poll loop: the node is killed while handling the first message of the board; after the
	// restart the loop must fetch that message again (offset saved only after handling)
	if !doPoll {
		return
	}
	for _, k := range []int{0, 1} {
		e := NewNodeEnv(newEnvDir(c), me)
		e.Rounds[round] = true
		if err := e.Board.Send(h[0].In.Msg); err != nil {
			panic(err)
		}
		runPoll := func(armK int) {
			ctx, cancel := context.WithCancel(context.Background())
			pe := e.PollNode(ctx)
			if armK >= 0 {
				e.Ctl.armed, e.Ctl.remaining = true, armK
			}
			done := make(chan struct{})
			go func() {
				defer close(done)
				defer func() {
					if r := recover(); r != nil {
						if _, ok := r.(crashSignal); !ok {
							panic(r)
						}
					}
				}()
				pe.Poll()
			}()
			// the crash run ends by itself; the uncrashed run is stopped once the message has been
			// applied (or after a generous deadline: a slow machine must not look like a lost message)
			deadline := time.After(25 * time.Second)
			tick := time.NewTicker(200 * time.Millisecond)
		wait:
			for {
				select {
				case <-done: // crashed
					break wait
				case <-deadline:
					break wait
				case <-tick.C:
					if armK < 0 {
						if strings.Contains(e.Snapshot(), "state_sig_proposal_await_participants_confirmations") {
							time.Sleep(300 * time.Millisecond) // let the loop save its offset
							break wait
						}
					}
				}
			}
			tick.Stop()
			cancel()
			<-done
			e.Ctl.armed = false
		}
		runPoll(k)
		runPoll(-1)
		snap := e.Snapshot()
		e.Close()
		c.Case("poll-crash", true, "skip poll-crash", "skip poll-crash")
		if !strings.Contains(snap, "state_sig_proposal_await_participants_confirmations") {
			fail("crash-loses-message", map[string]interface{}{"handler": "Poll"},
				fmt.Sprintf("the node was killed after %d durable writes while the Poll loop handled a message; after the restart the message is never applied", k),
				map[string]interface{}{"crash_after_durable_writes": k, "snapshot": snap})
		}
	}
	c.Notes["crash_points"] = total
	c.Notes["messages"] = len(h)
}
