package main

import (
	"fmt"
	"strings"
)

func init() {
	scenarios["c13"] = scenarioC13
}

func sectionOf(snapshot, from, to string) string {
	i := strings.Index(snapshot, from)
	if i < 0 {
		return ""
	}
	rest := snapshot[i:]
	if to == "" {
		return rest
	}
	j := strings.Index(rest, to)
	if j < 0 {
		return rest
	}
	return rest[:j]
}

func scenarioC13(c *Ctx) {
	w := NewWorld(3, 2, 1)
	me := w.Users[0]
	round := "round-c13"
	h := w.Honest(round, me)
	fail := func(kind string, sig map[string]interface{}, what string, rep map[string]interface{}) {
		sig["kind"] = kind
		c.Fail(Failure{Property: "C13", Kind: kind, Signature: sig, What: what, Replay: rep})
	}
	// crash-free reference, recording the durable writes of every message
	ref := NewNodeEnv(newEnvDir(c), me)
	var writes [][]string
	for _, it := range h {
		ref.Ctl.record, ref.Ctl.log = true, nil
		applyItem(ref, it)
		writes = append(writes, append([]string{}, ref.Ctl.log...))
	}
	ref.Ctl.record = false
	final := ref.Snapshot()
	ref.Close()
	refRound, refOps, refSigs := roundProj(final, round), sectionOf(final, " OPS ", " DEL "), sectionOf(final, " SIGS", " BOARD ")
	var cases []HistCase
	total := 0
	for i := range h {
		for k := 0; k < len(writes[i]); k++ {
			items := append(append([]Item{}, h[:i]...), crashItem(h[i], k))
			items = append(items, h[i:]...) // the message is delivered again after the restart, then the rest
			after, before := "start of handling", writes[i][k]
			if k > 0 {
				after = writes[i][k-1]
			}
			ev, pos, kk := h[i].In.Msg.Event, i, k
			total++
			cases = append(cases, HistCase{Kind: "crash/" + after + "/" + before, User: me, Items: items, Check: func(o RunObs) {
				got := o.After
				rep := map[string]interface{}{"message_index": pos, "event": ev, "crash_after_durable_writes": kk, "after": after, "before": before}
				if roundProj(got, round) != refRound || sectionOf(got, " SIGS", " BOARD ") != refSigs {
					fail("crash-changes-outcome", map[string]interface{}{"after": after, "before": before},
						fmt.Sprintf("a crash after '%s' and before '%s' while handling %s changes the round's final state", after, before, ev), rep)
				} else if sectionOf(got, " OPS ", " DEL ") != refOps {
					fail("crash-loses-operation", map[string]interface{}{"after": after, "before": before},
						fmt.Sprintf("a crash after '%s' and before '%s' while handling %s: the operation is not offered after the restart", after, before, ev), rep)
				}
			}})
		}
	}
	// clean stop/start at every message boundary
	for i := 1; i < len(h); i++ {
		items := append(append([]Item{}, h[:i]...), restartItem())
		items = append(items, h[i:]...)
		pos := i
		cases = append(cases, HistCase{Kind: "clean-restart", User: me, Items: items, Check: func(o RunObs) {
			if roundProj(o.After, round) != refRound || sectionOf(o.After, " OPS ", " DEL ") != refOps || sectionOf(o.After, " SIGS", " BOARD ") != refSigs {
				fail("restart-changes-outcome", map[string]interface{}{}, "a clean stop/start between two messages changes the outcome (lost operations or state)", map[string]interface{}{"before_message": pos})
			}
		}})
	}
	runCases(c, cases)
	c.Notes["crash_points"] = total
	c.Notes["messages"] = len(h)
}
