package main

import (
	"encoding/json"
	"fmt"
	"github.com/lidofinance/dc4bc/client/api/dto"
	"strings"

	ctypes "github.com/lidofinance/dc4bc/client/types"
	"github.com/lidofinance/dc4bc/fsm/types/requests"
	"github.com/lidofinance/dc4bc/storage"
)

// ReinitItem builds a reinit_dkg board message carrying `body` (nil = undecodable payload).
func (w *World) ReinitItem(carrierRound string, body *ctypes.ReDKG, rawBody []byte, label string) Item {
	data := rawBody
	if body != nil {
		var err error
		if data, err = json.Marshal(body); err != nil {
			panic(err)
		}
	}
	m := storage.Message{DkgRoundID: carrierRound, Event: "reinit_dkg", Data: data, SenderAddr: "stranger"}
	var sb strings.Builder
	fmt.Fprintf(&sb, "now %d reinit", NOWMARK)
	var dec ctypes.ReDKG
	if err := json.Unmarshal(data, &dec); err != nil {
		sb.WriteString(" bad")
	} else {
		hash, _ := ctypes.CalcStartReInitDKGMessageHash(data)
		idTok := tok.Tok(dec.DKGID)
		if strings.TrimSpace(dec.DKGID) == "" { // a blank identifier is no identifier (token 0)
			idTok = 0
		}
		fmt.Fprintf(&sb, " ok %d %d %d", idTok, tok.TokB(hash), len(dec.Participants))
		for _, p := range dec.Participants {
			fmt.Fprintf(&sb, " %d %d", tok.Tok(p.Name), tok.TokB(p.NewCommPubKey))
		}
		fmt.Fprintf(&sb, " %d", len(dec.Messages))
		for _, em := range dec.Messages {
			// embedded messages are processed with verification off: their signatures are irrelevant
			sb.WriteString(" " + msgLine(em, embeddedSigDesc(w, em)))
		}
	}
	return Item{In: NInput{Kind: "msg", Msg: m, SigDesc: "none", Now: NOWMARK, Label: label}, Line: sb.String(), Label: label}
}

func embeddedSigDesc(w *World, m storage.Message) string {
	if len(m.Signature) == 0 {
		return "none"
	}
	if kp, ok := w.Keys[m.SenderAddr]; ok && m.Verify(kp.Pub) {
		return fmt.Sprintf("by %d %d", tok.TokB(kp.Pub), tok.TokB(m.Data))
	}
	return "junk"
}

// ReDKGOf builds the reinit body from a log of board messages (as GenerateReDKGMessage does)
// with fresh communication keys "newkey-<user>".
func (w *World) ReDKGOf(log []Item) *ctypes.ReDKG {
	var msgs []storage.Message
	for i, it := range log {
		m := it.In.Msg
		m.Offset = uint64(i)
		m.ID = fmt.Sprintf("id-%d", i)
		msgs = append(msgs, m)
	}
	newKeys := map[string][]byte{}
	for _, u := range w.Users {
		newKeys[u] = w.NewKey(u).Pub
	}
	r, err := ctypes.GenerateReDKGMessage(msgs, newKeys)
	if err != nil {
		panic(err)
	}
	return r
}

func (w *World) NewKey(user string) *keystoreKP {
	k := userKey("new-" + user)
	return &keystoreKP{Pub: k.Pub, Priv: k.Priv}
}

type keystoreKP struct {
	Pub  []byte
	Priv []byte
}

// DkgLog is the part of an honest history before signing (what a reinit replays).
func dkgPart(h []Item) []Item {
	var out []Item
	for _, it := range h {
		if it.In.Msg.Event == "event_signing_start" {
			break
		}
		out = append(out, it)
	}
	return out
}

// forged confirmation in user1's name with a stranger's signature
func (w *World) forgedConfirm(round string, label string) Item {
	return w.Msg(round, "event_sig_proposal_confirm_by_participant", requests.SignatureProposalParticipantRequest{ParticipantId: 1, CreatedAt: T(10)}, w.Users[1], "", "stranger", NOWMARK, label)
}

// reinitCases: histories around reinit_dkg. The check function of each case reports under `prop`.
func reinitCases(c *Ctx, w *World, prop string) []HistCase {
	me := w.Users[0]
	var cases []HistCase
	fail := func(kind, what string, o RunObs) {
		c.Fail(Failure{Property: prop, Kind: kind, Signature: map[string]interface{}{"kind": kind}, What: what,
			Replay: map[string]interface{}{"classes": strings.Join(o.Classes, ","), "before": o.Before, "after": o.After}})
	}
	roundOld := "round-reinit-old"
	hOld := w.Honest(roundOld, me)
	body := w.ReDKGOf(dkgPart(hOld))
	// an open round R2 in which user1 has not yet confirmed
	round2 := "round-reinit-live"
	h2 := w.Honest(round2, me)[:2] // proposal + user0's confirmation
	unchangedRefused := func(kind, what string) func(o RunObs) {
		return func(o RunObs) {
			if o.Classes[len(o.Classes)-1] != "err" || o.Before != o.After {
				fail(kind, what, o)
			}
		}
	}
	// (c) a reinit that fails after verification was switched off, then a forged message
	failing := &ctypes.ReDKG{DKGID: "", Threshold: 2}
	items := append(append([]Item{}, h2...), w.ReinitItem("carrier-1", failing, nil, "reinit-failing"), w.forgedConfirm(round2, "forged-after-failed-reinit"))
	cases = append(cases, HistCase{Kind: "reinit-failing-then-forged", User: me, Items: items,
		Check: unchangedRefused("forged-accepted-after-reinit", "after a failed reinit_dkg a message with a stranger's signature was accepted")})
	items = append(append([]Item{}, h2...), w.ReinitItem("carrier-2", nil, []byte(`{"dkg_id":`), "reinit-undecodable"), w.forgedConfirm(round2, "forged-after-bad-reinit"))
	cases = append(cases, HistCase{Kind: "reinit-bad-then-forged", User: me, Items: items,
		Check: unchangedRefused("forged-accepted-after-reinit", "after an undecodable reinit_dkg a message with a stranger's signature was accepted")})
	// (d) a successful reinit of another round, then a forged message
	items = append(append([]Item{}, h2...), w.ReinitItem(roundOld, body, nil, "reinit-ok"), w.forgedConfirm(round2, "forged-after-reinit"))
	cases = append(cases, HistCase{Kind: "reinit-ok-then-forged", User: me, Items: items,
		Check: unchangedRefused("forged-accepted-after-reinit", "after a successful reinit_dkg a message with a stranger's signature was accepted")})
	// (d') restart between the reinit and the forged message
	items = append(append([]Item{}, h2...), w.ReinitItem(roundOld, body, nil, "reinit-ok"), Item{In: NInput{Kind: "restart"}, Line: fmt.Sprintf("now %d restart", NOWMARK), Label: "restart"}, w.forgedConfirm(round2, "forged-after-reinit-restart"))
	cases = append(cases, HistCase{Kind: "reinit-ok-restart-forged", User: me, Items: items,
		Check: unchangedRefused("forged-accepted-after-reinit", "after reinit + restart a forged message was accepted")})
	// (e) a crafted reinit: unused carrier id, body names the live round and replaces its keys
	crafted := &ctypes.ReDKG{DKGID: round2, Threshold: 2}
	for _, u := range w.Users {
		crafted.Participants = append(crafted.Participants, ctypes.Participant{Name: u, NewCommPubKey: userKey("stranger").Pub})
	}
	crafted.Messages = []storage.Message{w.forgedConfirm(round2, "embedded").In.Msg}
	items = append(append([]Item{}, h2...), w.ReinitItem("carrier-unused", crafted, nil, "reinit-crafted"))
	cases = append(cases, HistCase{Kind: "reinit-crafted-existing-round", User: me, Items: items, Check: func(o RunObs) {
		if o.Before != o.After {
			fail("reinit-changed-existing-round", "a reinit_dkg message naming an existing round changed that round", o)
		}
	}})
	// (e') the same with the live round's identifier plus surrounding white space: another identifier,
	// hence another round - what the node holds for the live round must not change
	for _, variant := range []string{round2 + " ", " " + round2, round2 + "\t"} {
		cr := &ctypes.ReDKG{DKGID: variant, Threshold: 2}
		for _, u := range w.Users {
			cr.Participants = append(cr.Participants, ctypes.Participant{Name: u, NewCommPubKey: userKey("stranger").Pub})
		}
		em := w.forgedConfirm(round2, "embedded").In.Msg
		em.DkgRoundID = variant
		cr.Messages = []storage.Message{em}
		items = append(append([]Item{}, h2...), w.ReinitItem("carrier-blank", cr, nil, "reinit-crafted-id-with-blank"))
		cases = append(cases, HistCase{Kind: "reinit-crafted-id-with-blank", User: me, Items: items, Check: func(o RunObs) {
			if roundProj(o.Before, round2) != roundProj(o.After, round2) {
				fail("reinit-changed-existing-round", "a reinit_dkg message naming an existing round's identifier plus white space changed that round", o)
			}
		}})
	}
	// (f) the reinit body carries a message of another (live) round: it must not be applied there
	mixed := *body
	mixed.Messages = append([]storage.Message{w.forgedConfirm(round2, "embedded-foreign").In.Msg}, body.Messages...)
	items = append(append([]Item{}, h2...), w.ReinitItem(roundOld, &mixed, nil, "reinit-foreign-message"))
	cases = append(cases, HistCase{Kind: "reinit-foreign-embedded", User: me, Items: items, Check: func(o RunObs) {
		// the live round's projection must be unchanged: compare the part of the snapshot about it
		pick := func(s string) string {
			i := strings.Index(s, fmt.Sprintf("r%d ", tok.Tok(round2)))
			if i < 0 {
				return ""
			}
			j := strings.Index(s[i:], " , ")
			k := strings.Index(s[i:], "] OPS")
			if j < 0 || (k >= 0 && k < j) {
				j = k
			}
			return s[i : i+j]
		}
		if pick(o.Before) != pick(o.After) {
			fail("reinit-changed-other-round", "a message of another round embedded in a reinit_dkg message changed that round", o)
		}
		if !strings.Contains(roundProj(o.After, roundOld), "stage_signing_idle") {
			fail("reinit-incomplete", "a reinit file that contains a message of another round does not bring the round to signing-ready", o)
		}
	}})
	// (f') the dump also holds a signing batch of ANOTHER round (an older key in use while this round
	// was generating its key): it must neither be applied nor end the replay of this round
	{
		foreignStart := w.Msg("round-of-an-older-key", "event_signing_start", requests.SigningBatchProposalStartRequest{BatchID: "older-batch", ParticipantId: 0, CreatedAt: T(15), SigningTasks: w.Tasks("older-batch")}, w.Users[0], "", w.Users[0], NOWMARK, "foreign-start").In.Msg
		withStart := *body
		half := len(body.Messages) / 2
		withStart.Messages = append(append(append([]storage.Message{}, body.Messages[:half]...), foreignStart), body.Messages[half:]...)
		cases = append(cases, HistCase{Kind: "reinit-foreign-signing-start", User: me, Items: []Item{w.ReinitItem(roundOld, &withStart, nil, "reinit-foreign-signing-start")}, Check: func(o RunObs) {
			if !strings.Contains(roundProj(o.After, roundOld), "stage_signing_idle") {
				fail("reinit-incomplete", "a reinit file that contains a signing batch of another round does not bring the round to signing-ready", o)
			}
		}})
	}
	// (f'') ... and a batch proposal for THIS round that lay on the board while the key generation was
	// under way (a stranger's: every original node refused it) must not end the replay either
	{
		early := w.Msg(roundOld, "event_signing_start", requests.SigningBatchProposalStartRequest{BatchID: "premature", ParticipantId: 0, CreatedAt: T(15), SigningTasks: w.Tasks("premature")}, "stranger", "", "stranger", NOWMARK, "premature-start").In.Msg
		withStart := *body
		half := len(body.Messages) / 2
		withStart.Messages = append(append(append([]storage.Message{}, body.Messages[:half]...), early), body.Messages[half:]...)
		cases = append(cases, HistCase{Kind: "reinit-premature-signing-start", User: me, Items: []Item{w.ReinitItem(roundOld, &withStart, nil, "reinit-premature-signing-start")}, Check: func(o RunObs) {
			if !strings.Contains(roundProj(o.After, roundOld), "stage_signing_idle") {
				fail("reinit-incomplete", "a reinit file that contains a premature signing proposal of its own round does not bring the round to signing-ready", o)
			}
		}})
	}
	// (a) plain reinit on a fresh node, and (b) the same reinit twice
	cases = append(cases, HistCase{Kind: "reinit-fresh", User: me, Items: []Item{w.ReinitItem(roundOld, body, nil, "reinit-ok")}})
	cases = append(cases, HistCase{Kind: "reinit-twice", User: me, Items: []Item{w.ReinitItem(roundOld, body, nil, "reinit-ok"), w.ReinitItem(roundOld, body, nil, "reinit-again")}, Check: func(o RunObs) {
		if o.Before != o.After {
			fail("reinit-not-idempotent", "a second reinit_dkg for an existing round changed the node's state", o)
		}
	}})
	// (g) the answer to a reinit operation names ANOTHER round the node holds (id, type, payload
	// unchanged): the round is part of what was issued - refused, nothing changes (before the repair
	// the other round's public polynomial was overwritten and the reinit operation retired)
	// (h) a reinit message that embeds no messages leaves a round that has not reached the key
	// generation: the answer to its operation is refused with an error (it used to dereference the
	// missing payload)
	{
		roundY := "round-reinit-other"
		hY := w.Honest(roundY, me)
		hY = hY[:len(dkgPart(hY))] // the finished key generation of another round
		known := map[string]*ctypes.Operation{}
		reinitOp := func(prefix []Item) *ctypes.Operation {
			probe := NewNodeEnv(newEnvDir(c), me)
			defer probe.Close()
			for _, it := range prefix {
				applyItem(probe, it)
			}
			for _, o := range pendingOps(probe) {
				if string(o.Type) == "reinit_dkg" {
					known[o.ID] = o
					return o
				}
			}
			return nil
		}
		prefixG := append(append([]Item{}, hY...), w.ReinitItem(roundOld, body, nil, "reinit-ok"))
		if o := reinitOp(prefixG); o != nil {
			d := &dto.OperationDTO{ID: o.ID, Type: string(o.Type), Payload: o.Payload, CreatedAt: o.CreatedAt, DkgID: roundY,
				Event: "operation_processed_successfully", ExtraData: []byte("polynomial for another round")}
			items := append(append([]Item{}, prefixG...), resultItem(d, known, "reinit-answer-names-other-round"))
			cases = append(cases, HistCase{Kind: "reinit-answer-other-round", User: me, Items: items, Check: func(o RunObs) {
				last := o.Classes[len(o.Classes)-1]
				if last == "panic" {
					fail("api-panic", "the answer to a reinit operation naming another round crashes the node", o)
				} else if last != "err" || o.Before != o.After {
					fail("reinit-answer-applied-to-other-round", "the answer to a reinit operation that names another round was accepted or had an effect", o)
				}
			}})
		}
		empty := &ctypes.ReDKG{DKGID: "round-reinit-empty", Threshold: body.Threshold, Participants: body.Participants}
		prefixH := []Item{w.ReinitItem("round-reinit-empty", empty, nil, "reinit-no-messages")}
		if o := reinitOp(prefixH); o != nil {
			d := &dto.OperationDTO{ID: o.ID, Type: string(o.Type), Payload: o.Payload, CreatedAt: o.CreatedAt, DkgID: o.DKGIdentifier,
				Event: "operation_processed_successfully", ExtraData: []byte("polynomial")}
			items := append(append([]Item{}, prefixH...), resultItem(d, known, "reinit-answer-without-key-generation"))
			cases = append(cases, HistCase{Kind: "reinit-answer-no-dkg", User: me, Items: items, Check: func(o RunObs) {
				last := o.Classes[len(o.Classes)-1]
				if last == "panic" {
					fail("api-panic", "the answer to the operation of a reinit message that embeds no messages crashes the node (missing key-generation payload)", o)
				} else if last != "err" || o.Before != o.After {
					fail("reinit-answer-without-key-generation-accepted", "the answer to a reinit operation of a round that has not reached the key generation was accepted or had an effect", o)
				}
			}})
		}
	}
	return cases
}
