package main

import (
	"bytes"
	"encoding/hex"
	"encoding/json"
	"fmt"
	"path/filepath"
	"sort"
	"strings"

	"github.com/corestario/kyber/pairing"
	"github.com/corestario/kyber/pairing/bls12381"
	"github.com/corestario/kyber/sign/tbls"

	"github.com/lidofinance/dc4bc/client/modules/state"
	sigrepo "github.com/lidofinance/dc4bc/client/repositories/signature"
	ctypes "github.com/lidofinance/dc4bc/client/types"
	"github.com/lidofinance/dc4bc/dkg"
	fsmtypes "github.com/lidofinance/dc4bc/fsm/types"
	"github.com/lidofinance/dc4bc/fsm/types/requests"
	"github.com/lidofinance/dc4bc/pkg/utils"
	"github.com/lidofinance/dc4bc/pkg/wc_rotation"
)

func init() {
	scenarios["c03"] = scenarioC03
}

func hx(b []byte) string {
	if len(b) == 0 {
		return "-"
	}
	return hex.EncodeToString(b)
}

func tasksLine(ts []requests.SigningTask) string {
	var sb strings.Builder
	fmt.Fprintf(&sb, "tasks %d", len(ts))
	for _, t := range ts {
		p := "nil"
		if t.Payload != nil {
			p = "p:" + hex.EncodeToString(t.Payload)
		}
		fmt.Fprintf(&sb, " %s %s %s %d %d", hx([]byte(t.MessageID)), hx([]byte(t.File)), p, t.RangeStart, t.RangeEnd)
	}
	return sb.String()
}

func expandObs(ts []requests.SigningTask) (string, []requests.MessageToSign) {
	ms, err := safeTasksToMessages(ts)
	if err != nil {
		if strings.HasPrefix(err.Error(), "panic") {
			return "tasks panic", nil
		}
		return "tasks err", nil
	}
	var sb strings.Builder
	fmt.Fprintf(&sb, "tasks ok %d", len(ms))
	for _, m := range ms {
		b := 0
		if m.BakedDataPayload {
			b = 1
		}
		fmt.Fprintf(&sb, " %s %s %s %d", hx([]byte(m.MessageID)), hx([]byte(m.File)), hx(m.Payload), b)
	}
	return sb.String(), ms
}

// randomBatch: explicit payloads (arbitrary bytes, odd names, duplicates) mixed with baked ranges
func randomBatch(c *Ctx, small bool) []requests.SigningTask {
	names := []string{"a.txt", "b b.txt", "файл.bin", "weird\xff\xfename", "", "x/y/z", "dup"}
	var ts []requests.SigningTask
	n := 1 + c.Rng.Intn(4)
	for i := 0; i < n; i++ {
		switch c.Rng.Intn(6) {
		case 0, 1, 2:
			var p []byte
			switch c.Rng.Intn(5) {
			case 0:
				p = []byte{}
			case 1:
				p = []byte("same payload")
			default:
				p = make([]byte, 1+c.Rng.Intn(40))
				c.Rng.Read(p)
			}
			id := fmt.Sprintf("msg-%d", c.Rng.Intn(5))
			ts = append(ts, requests.SigningTask{MessageID: id, File: names[c.Rng.Intn(len(names))], Payload: p})
		default:
			s := c.Rng.Intn(18632)
			if c.Rng.Intn(3) == 0 {
				s = 18632 - c.Rng.Intn(4)
			}
			l := c.Rng.Intn(4)
			e := s + l
			if c.Rng.Intn(8) == 0 {
				e = s // empty range
			}
			if !small && c.Rng.Intn(10) == 0 {
				s = 18630 - c.Rng.Intn(3)
				e = 18633 + c.Rng.Intn(3) // out of range
			}
			if !small && c.Rng.Intn(12) == 0 {
				s = -1 - c.Rng.Intn(3)
				e = s + 2
			}
			ts = append(ts, requests.SigningTask{MessageID: fmt.Sprintf("range-%d", i), RangeStart: s, RangeEnd: e})
		}
	}
	return ts
}

// c03Special: proposals a generator rarely draws - an explicit EMPTY payload (with and without stray
// range fields), a payload next to range fields, and one identifier filed twice (explicit and baked,
// both orders; two explicit ones)
func c03Special() [][]requests.SigningTask {
	lines := strings.Split(wc_rotation.ValidatorsIndexes, "\n")
	return [][]requests.SigningTask{
		{{MessageID: "e1", File: "empty.txt", Payload: []byte{}}},
		{{MessageID: "e2", File: "empty with range.txt", Payload: []byte{}, RangeStart: 5, RangeEnd: 7}},
		{{MessageID: "e3", File: "f", Payload: []byte("x"), RangeStart: 3, RangeEnd: 5}, {MessageID: "r3", RangeStart: 9, RangeEnd: 10}},
		{{MessageID: lines[0], File: "note.txt", Payload: []byte("explicit payload filed under a validator index")}, {MessageID: "r", RangeStart: 0, RangeEnd: 2}},
		{{MessageID: "r", RangeStart: 0, RangeEnd: 2}, {MessageID: lines[1], File: "note", Payload: []byte("a later explicit payload")}},
		{{MessageID: "d", File: "a", Payload: []byte("one")}, {MessageID: "d", File: "b", Payload: []byte("two")}},
	}
}

func scenarioC03(c *Ctx) {
	fail := func(kind, what string, rep map[string]interface{}) {
		c.Fail(Failure{Property: "C03", Kind: kind, Signature: map[string]interface{}{"kind": kind}, What: what, Replay: rep})
	}
	// (A) the expansion function itself, against the model and against an independent oracle
	nb := 300
	if !c.Quick() {
		nb = 3000
	}
	for b := 0; b < nb; b++ {
		var ts []requests.SigningTask
		if b < len(c03Special()) {
			ts = c03Special()[b]
		} else {
			ts = randomBatch(c, false)
		}
		// what a participant receives is the proposal as it stands on the board (every field spelled out)
		bz := boardTasksJSON(ts)
		var back []requests.SigningTask
		json.Unmarshal(bz, &back)
		obs, ms := expandObs(back)
		c.Case("expand", true, tasksLine(back), obs)
		// the coordinator hands the airgapped machine its own re-marshalled copy of the decoded list
		// (SrcPayload): that copy must expand to the same messages
		if rz, err := json.Marshal(back); err == nil {
			var again []requests.SigningTask
			if json.Unmarshal(rz, &again) == nil {
				if obs2, _ := expandObs(again); obs2 != obs {
					fail("remarshal-changes-expansion", "the list re-marshalled for the airgapped machine expands to other messages than the proposal on the board", map[string]interface{}{"tasks": string(bz), "board": obs, "remarshalled": obs2})
				}
			}
		}
		if obs == "tasks panic" {
			fail("expansion-panic", "expanding a proposal panics", map[string]interface{}{"tasks": string(bz)})
			continue
		}
		// oracle: explicit tasks stand for themselves; range positions carry the spec root of that index
		lines := strings.Split(wc_rotation.ValidatorsIndexes, "\n")
		var want []string
		ok := true
		for _, t := range back {
			if t.Payload != nil {
				want = append(want, fmt.Sprintf("%s|%s|%s", t.MessageID, t.File, hex.EncodeToString(t.Payload)))
				continue
			}
			for i := t.RangeStart; i < t.RangeEnd; i++ {
				if i < 0 || i >= 18632 {
					ok = false
					break
				}
				var v uint64
				fmt.Sscan(lines[i], &v)
				want = append(want, fmt.Sprintf("%s|bakedrange%d|%s", lines[i], i, hex.EncodeToString(specSigningRoot(v))))
			}
		}
		if !ok {
			if ms != nil {
				fail("out-of-range-accepted", "a proposal with a baked range outside the list was expanded", map[string]interface{}{"tasks": string(bz)})
			}
			continue
		}
		var got []string
		for _, m := range ms {
			got = append(got, fmt.Sprintf("%s|%s|%s", m.MessageID, m.File, hex.EncodeToString(m.Payload)))
		}
		if strings.Join(got, "\n") != strings.Join(want, "\n") {
			fail("expansion-differs", "the expansion of a proposal is not the proposed list of identifiers and payloads", map[string]interface{}{"tasks": string(bz), "expected": want, "observed": got})
		}
	}
	// (B) the whole path on real machines: proposal -> operation -> airgapped -> partial signatures ->
	// reconstruction -> store -> export
	cl := NewCluster(newEnvDir(c), 3, 2, "c03")
	defer cl.Close()
	cl.Propose(0)
	cl.RunToQuiescence(func(cands []int) int { return 0 }, nil)
	suite := bls12381.NewBLS12381Suite(nil).(pairing.Suite)
	krs, _ := cl.Machines[0].GetBLSKeyrings()
	kr := krs[cl.Round]
	if kr == nil {
		fail("ceremony-failed", "key generation did not finish", nil)
		return
	}
	nbatches := 6
	if !c.Quick() {
		nbatches = 40
	}
	nbatches += len(c03Special())
	for b := 0; b < nbatches; b++ {
		var ts []requests.SigningTask
		if b < len(c03Special()) {
			ts = c03Special()[b]
		} else {
			ts = randomBatch(c, true)
		}
		batch := fmt.Sprintf("batch-c03-%d", b)
		// the proposal is what is on the board: the JSON form (invalid UTF-8 in a file name is already
		// replaced there by encoding/json)
		{
			var back []requests.SigningTask
			if json.Unmarshal(boardTasksJSON(ts), &back) == nil {
				ts = back
			}
		}
		exp, err := safeTasksToMessages(ts)
		if err != nil || len(exp) == 0 {
			continue
		}
		cl.ProposeBatch(b%3, batch, ts)
		// capture every partial-signature message posted for this batch
		cl.RunToQuiescence(func(cands []int) int { return c.Rng.Intn(len(cands)) }, func(i int, o *ctypes.Operation) bool { return true })
		all, _ := cl.board().GetMessages(0)
		last := map[string]requests.MessageToSign{}
		for _, m := range exp {
			last[m.MessageID] = m
		}
		for _, m := range all {
			if m.Event != "event_signing_partial_sign_received" {
				continue
			}
			var req requests.SigningProposalBatchPartialSignRequests
			if json.Unmarshal(m.Data, &req) != nil || req.BatchID != batch {
				continue
			}
			// every identifier of the expansion is signed, in order, over the proposed bytes
			if len(req.PartialSigns) != len(exp) {
				fail("signed-count", fmt.Sprintf("the airgapped machine signed %d messages, the proposal expands to %d", len(req.PartialSigns), len(exp)), map[string]interface{}{"batch": batch})
				continue
			}
			for k, ps := range req.PartialSigns {
				if ps.MessageID != exp[k].MessageID {
					fail("signed-order", "the airgapped machine signed identifiers in another order than the proposal lists them", map[string]interface{}{"batch": batch})
				}
				if err := tbls.Verify(suite, kr.PubPoly, exp[k].Payload, ps.Sign); err != nil {
					fail("signed-other-bytes", fmt.Sprintf("a partial signature for %q does not verify over the proposed payload", ps.MessageID), map[string]interface{}{"batch": batch, "signer": req.ParticipantId})
				}
			}
		}
		// stored and exported
		for i := range cl.Nodes {
			bz, _ := cl.Nodes[i].St.Get("signatures_" + cl.Round)
			var st map[string]map[string][]fsmtypes.ReconstructedSignature
			json.Unmarshal(bz, &st)
			for id, want := range last {
				entries := st[batch][id]
				if len(entries) == 0 {
					fail("not-stored", fmt.Sprintf("no stored entry for message %q of the batch", id), map[string]interface{}{"batch": batch, "node": i})
					continue
				}
				for _, e := range entries {
					if !bytes.Equal(e.SrcPayload, want.Payload) || e.File != want.File {
						tj, _ := json.Marshal(ts)
						fail("stored-other-bytes", fmt.Sprintf("the payload or file stored next to message %q is not the proposed one", id), map[string]interface{}{"batch": batch, "node": i, "tasks": string(tj),
							"stored_payload": hex.EncodeToString(e.SrcPayload), "stored_file": e.File, "stored_by": e.Username, "want_payload": hex.EncodeToString(want.Payload), "want_file": want.File})
					}
					if len(e.Signature) > 0 && !prysmVerify(kr.PubPoly.Commit(), want.Payload, e.Signature) {
						fail("stored-signature-other-bytes", fmt.Sprintf("the stored signature of %q does not verify over the proposed payload", id), map[string]interface{}{"batch": batch, "node": i})
					}
				}
			}
			exported, err := utils.PrepareSignaturesToDump(st[batch])
			c.Case("export-stored", true, exportRawLine(st[batch]), exportObs(exported, err))
			if err == nil {
				for id, e := range *exported {
					if want, ok := last[id]; ok && (!bytes.Equal(e.Payload, want.Payload) || e.File != want.File) {
						fail("exported-other-bytes", fmt.Sprintf("the exported payload of %q is not the proposed one", id), map[string]interface{}{"batch": batch, "node": i})
					}
				}
			}
		}
		c.Case("path", true, "skip c03-batch-"+batch, "skip c03-batch-"+batch)
	}
	c03Export(c, fail)
}

// exportRawLine / exportObs: a stored batch and what the real export function makes of it, in the
// model's terms (Node/Export.v export_batch); message ids in token order
func exportRawLine(b map[string][]fsmtypes.ReconstructedSignature) string {
	ids := make([]string, 0, len(b))
	for id := range b {
		ids = append(ids, id)
	}
	sort.Slice(ids, func(i, j int) bool { return tok.Tok(ids[i]) < tok.Tok(ids[j]) })
	var sb strings.Builder
	fmt.Fprintf(&sb, "exportraw %d", len(ids))
	for _, id := range ids {
		fmt.Fprintf(&sb, " %d %d", tok.Tok(id), len(b[id]))
		for _, e := range b[id] {
			fmt.Fprintf(&sb, " %d %d %d", tok.TokB(e.SrcPayload), tok.TokB(e.Signature), tok.Tok(e.File))
		}
	}
	return sb.String()
}

func exportObs(exported *dkg.ExportedSignatures, err error) string {
	if err != nil {
		return "export refused"
	}
	type row struct{ id, p, s, f int }
	var rows []row
	for id, e := range *exported {
		rows = append(rows, row{tok.Tok(id), tok.TokB(e.Payload), tok.TokB(e.Signature), tok.Tok(e.File)})
	}
	sort.Slice(rows, func(i, j int) bool { return rows[i].id < rows[j].id })
	var parts []string
	for _, r := range rows {
		parts = append(parts, fmt.Sprintf("%d:%d:%d:%d", r.id, r.p, r.s, r.f))
	}
	return "export " + strings.Join(parts, ",")
}

// (C) the signature repository and the export on their own: random sequences of saves (stubs of a
// proposer, reconstructions of the others and of the proposer, re-sent ones, other batches) go
// through the real repository on a real state store, then GetSignaturesByBatchID +
// PrepareSignaturesToDump, against fold add_sig + export_batch of the model; and the oracle of the
// property: as long as the proposer's own entry carries the proposed payload, so does the export
func c03Export(c *Ctx, fail func(kind, what string, rep map[string]interface{})) {
	n := 60
	if !c.Quick() {
		n = 600
	}
	dir := newEnvDir(c)
	for k := 0; k < n; k++ {
		st, err := state.NewLevelDBState(filepath.Join(dir, fmt.Sprintf("export-%d", k)), "c03export")
		if err != nil {
			panic(err)
		}
		repo := sigrepo.NewSignatureRepo(st)
		round := "round-export"
		users := []string{"P", "B", "C", "D"}
		nids := 1 + c.Rng.Intn(4)
		batches := []string{"batch-x", "batch-y"}
		proposed := map[string][]byte{}
		var sb strings.Builder
		count := 0
		save := func(l []fsmtypes.ReconstructedSignature) {
			if err := repo.SaveSignatures(l); err != nil {
				panic(err)
			}
			for _, e := range l {
				fmt.Fprintf(&sb, " %d %d %d %d %d %d", tok.Tok(e.BatchID), tok.Tok(e.MessageID), tok.TokB(e.SrcPayload), tok.TokB(e.Signature), tok.Tok(e.File), tok.Tok(e.Username))
				count++
			}
		}
		// the proposals' stubs
		for _, b := range batches {
			var l []fsmtypes.ReconstructedSignature
			for i := 0; i < nids; i++ {
				id := fmt.Sprintf("m%d", i)
				pl := []byte(fmt.Sprintf("payload-%s-%d-%d", b, i, c.Rng.Intn(3)))
				proposed[b+"/"+id] = pl
				l = append(l, fsmtypes.ReconstructedSignature{File: "f" + id, BatchID: b, MessageID: id, SrcPayload: pl, Username: "P", DKGRoundID: round})
			}
			save(l)
			if c.Rng.Intn(3) == 0 {
				break
			}
		}
		// reconstruction broadcasts, any sender, any order, some repeated
		honest := true
		for j, nb := 0, c.Rng.Intn(10); j < nb; j++ {
			u := users[c.Rng.Intn(len(users))]
			b := batches[c.Rng.Intn(len(batches))]
			var l []fsmtypes.ReconstructedSignature
			for i := 0; i < nids; i++ {
				if c.Rng.Intn(5) == 0 {
					continue
				}
				id := fmt.Sprintf("m%d", i)
				pl := proposed[b+"/"+id]
				if pl == nil {
					pl = []byte("payload-of-an-unproposed-batch")
				}
				if u != "P" && c.Rng.Intn(4) == 0 {
					pl = []byte("another-payload-from-" + u) // a participant other than the proposer lies
				}
				l = append(l, fsmtypes.ReconstructedSignature{File: "f" + id, BatchID: b, MessageID: id, SrcPayload: pl,
					Signature: []byte(fmt.Sprintf("sig-%s-%s-%d", b, id, c.Rng.Intn(2))), Username: u, DKGRoundID: round})
			}
			if len(l) > 0 {
				save(l)
			}
		}
		for _, b := range append(batches, "batch-unknown") {
			if b == "batch-unknown" && k%10 != 0 {
				continue
			}
			got, err := repo.GetSignaturesByBatchID(round, b)
			if err != nil {
				panic(err)
			}
			exported, eerr := utils.PrepareSignaturesToDump(got)
			c.Case("export", count > nids, fmt.Sprintf("export %d %d%s", tok.Tok(b), count, sb.String()), exportObs(exported, eerr))
			if eerr == nil && honest {
				for id, e := range *exported {
					if want := proposed[b+"/"+id]; want != nil && !bytes.Equal(e.Payload, want) {
						fail("exported-other-bytes", fmt.Sprintf("the exported payload of %q is not the proposed one although the proposer never sent another", id),
							map[string]interface{}{"case": fmt.Sprintf("export %d %d%s", tok.Tok(b), count, sb.String())})
					}
				}
			}
		}
		st.VerifClose()
	}
	// a batch with a message id that has no entry at all is refused
	raw := map[string][]fsmtypes.ReconstructedSignature{"m0": {{File: "f", MessageID: "m0", SrcPayload: []byte("p"), Signature: []byte("s")}}, "m1": {}}
	exported, err := utils.PrepareSignaturesToDump(raw)
	c.Case("export-stored", true, exportRawLine(raw), exportObs(exported, err))
}
