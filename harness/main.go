// verifharness drives the real dc4bc packages (working tree of /repo, build tag "verif"),
// records projected observables in the line format shared with the extracted Coq model
// (modelrun), and runs property oracles that are independent of the model.
package main

import (
	"bufio"
	"encoding/json"
	"flag"
	"fmt"
	"math/rand"
	"os"
	"path/filepath"
	"sort"
)

type Failure struct {
	Property  string                 `json:"property"`
	Kind      string                 `json:"kind"`      // short machine-readable class
	Signature map[string]interface{} `json:"signature"` // matched against known_findings.jsonl
	What      string                 `json:"what"`
	Replay    map[string]interface{} `json:"replay"` // concrete input / history that fails
}

type Ctx struct {
	Tier     string
	Seed     int64
	OutDir   string
	Rng      *rand.Rand
	cases    *bufio.Writer
	impl     *bufio.Writer
	casesF   *os.File
	implF    *os.File
	NCases   int
	Kinds    map[string]int
	Distinct map[string]struct{}
	Samples  []string
	Failures []Failure
	Notes    map[string]interface{}
}

func (c *Ctx) Quick() bool { return c.Tier != "thorough" }

// Case records one differential case: the input line for the model and the
// observation of the implementation. kind feeds the input-distribution statistics;
// nontrivial marks cases counted in distinct_nontrivial.
func (c *Ctx) Case(kind string, nontrivial bool, input string, observed string) {
	fmt.Fprintln(c.cases, input)
	fmt.Fprintln(c.impl, observed)
	c.NCases++
	c.Kinds[kind]++
	if nontrivial {
		c.Distinct[input] = struct{}{}
	}
	if len(c.Samples) < 8 && (c.NCases%97 == 1 || len(c.Samples) < 3) {
		c.Samples = append(c.Samples, input+"  =>  "+observed)
	}
}

func (c *Ctx) Fail(f Failure) { c.Failures = append(c.Failures, f) }

func (c *Ctx) Close() {
	c.cases.Flush()
	c.impl.Flush()
	c.casesF.Close()
	c.implF.Close()
	kinds := make([]string, 0, len(c.Kinds))
	for k := range c.Kinds {
		kinds = append(kinds, k)
	}
	sort.Strings(kinds)
	stats := map[string]interface{}{
		"cases":               c.NCases,
		"distinct_nontrivial": len(c.Distinct),
		"kinds":               c.Kinds,
		"samples":             c.Samples,
		"failures":            c.Failures,
		"notes":               c.Notes,
	}
	bz, _ := json.MarshalIndent(stats, "", " ")
	if err := os.WriteFile(filepath.Join(c.OutDir, "stats.json"), bz, 0644); err != nil {
		panic(err)
	}
}

var scenarios = map[string]func(*Ctx){}

func main() {
	if len(os.Args) < 2 {
		fmt.Fprintln(os.Stderr, "usage: harness <scenario> -tier quick|thorough -seed N -out DIR")
		os.Exit(2)
	}
	name := os.Args[1]
	fs := flag.NewFlagSet(name, flag.ExitOnError)
	tier := fs.String("tier", "quick", "")
	seed := fs.Int64("seed", 1, "")
	out := fs.String("out", "", "")
	replay := fs.String("replay", "", "replay file (optional)")
	fs.Parse(os.Args[2:])
	_ = replay
	sc, ok := scenarios[name]
	if !ok {
		fmt.Fprintln(os.Stderr, "unknown scenario", name)
		os.Exit(2)
	}
	if err := os.MkdirAll(*out, 0755); err != nil {
		panic(err)
	}
	cf, err := os.Create(filepath.Join(*out, "cases.txt"))
	if err != nil {
		panic(err)
	}
	imf, err := os.Create(filepath.Join(*out, "impl.txt"))
	if err != nil {
		panic(err)
	}
	ctx := &Ctx{Tier: *tier, Seed: *seed, OutDir: *out, Rng: rand.New(rand.NewSource(*seed)),
		cases: bufio.NewWriterSize(cf, 1<<20), impl: bufio.NewWriterSize(imf, 1<<20), casesF: cf, implF: imf,
		Kinds: map[string]int{}, Distinct: map[string]struct{}{}, Notes: map[string]interface{}{}}
	sc(ctx)
	ctx.Close()
}
