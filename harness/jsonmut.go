package main

import (
	"bytes"
	"encoding/json"
	"fmt"
	"sort"
	"strings"
)

// jsonMut is one structure-aware mutation of a JSON document.
type jsonMut struct {
	Label string
	Data  []byte
}

// jsonPathMutations enumerates the paths of a JSON document (object keys; the first two and the
// last element of every array) and, for each path, replaces the value there by each of a fixed set
// of hostile values, or deletes it. Deterministic; `thorough` widens the set of values.
func jsonPathMutations(data []byte, thorough bool) []jsonMut {
	dec := json.NewDecoder(bytes.NewReader(data))
	dec.UseNumber()
	var root interface{}
	if err := dec.Decode(&root); err != nil {
		return nil
	}
	type repl struct {
		name string
		val  interface{}
		del  bool
	}
	repls := []repl{
		{"null", nil, false}, {"empty-array", []interface{}{}, false}, {"empty-string", "", false},
		{"minus-one", json.Number("-1"), false}, {"deleted", nil, true}, {"array-of-null", []interface{}{nil}, false},
	}
	if thorough {
		repls = append(repls, repl{"empty-object", map[string]interface{}{}, false}, repl{"zero", json.Number("0"), false},
			repl{"two-to-62", json.Number("4611686018427387904"), false}, repl{"number-out-of-range", json.Number("1e400"), false},
			repl{"true", true, false}, repl{"long-string", strings.Repeat("A", 70000), false}, repl{"not-base64", "!!**", false})
	}
	var paths [][]interface{}
	var walk func(v interface{}, p []interface{})
	walk = func(v interface{}, p []interface{}) {
		switch x := v.(type) {
		case map[string]interface{}:
			keys := make([]string, 0, len(x))
			for k := range x {
				keys = append(keys, k)
			}
			sort.Strings(keys)
			for _, k := range keys {
				q := append(append([]interface{}{}, p...), k)
				paths = append(paths, q)
				walk(x[k], q)
			}
		case []interface{}:
			idx := map[int]bool{}
			for _, i := range []int{0, 1, len(x) - 1} {
				if i >= 0 && i < len(x) && !idx[i] {
					idx[i] = true
					q := append(append([]interface{}{}, p...), i)
					paths = append(paths, q)
					walk(x[i], q)
				}
			}
		}
	}
	walk(root, nil)
	clone := func() interface{} {
		d := json.NewDecoder(bytes.NewReader(data))
		d.UseNumber()
		var r interface{}
		d.Decode(&r)
		return r
	}
	var out []jsonMut
	for _, p := range paths {
		for _, r := range repls {
			doc := clone()
			// navigate to the parent
			cur := doc
			for _, step := range p[:len(p)-1] {
				switch s := step.(type) {
				case string:
					cur = cur.(map[string]interface{})[s]
				case int:
					cur = cur.([]interface{})[s]
				}
			}
			switch s := p[len(p)-1].(type) {
			case string:
				m := cur.(map[string]interface{})
				if r.del {
					delete(m, s)
				} else {
					m[s] = r.val
				}
			case int:
				a := cur.([]interface{})
				if r.del {
					// deleting an array element: the parent must be re-attached; replace in place by shifting
					copy(a[s:], a[s+1:])
					a[len(a)-1] = nil // leaves a trailing null: also a hostile value
				} else {
					a[s] = r.val
				}
			}
			bz, err := json.Marshal(doc)
			if err != nil || bytes.Equal(bz, data) {
				continue
			}
			var lp []string
			for _, step := range p {
				lp = append(lp, fmt.Sprint(step))
			}
			out = append(out, jsonMut{Label: strings.Join(lp, ".") + "=" + r.name, Data: bz})
		}
	}
	return out
}
