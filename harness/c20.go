package main

import (
	"bytes"
	"crypto/ed25519"
	"encoding/hex"
	"encoding/json"
	"fmt"
	"strings"

	"github.com/lidofinance/dc4bc/client/services/node"
	ctypes "github.com/lidofinance/dc4bc/client/types"
	"github.com/lidofinance/dc4bc/fsm/types/requests"
	"github.com/lidofinance/dc4bc/storage"
)

func init() {
	scenarios["c20"] = scenarioC20
}

func rehashLine(r *ctypes.ReDKG) string {
	var sb strings.Builder
	fmt.Fprintf(&sb, "rehash %s %d %d", hx([]byte(r.DKGID)), r.Threshold, len(r.Participants))
	for _, p := range r.Participants {
		fmt.Fprintf(&sb, " %s %s %s %s", hx(p.NewCommPubKey), hx(p.OldCommPubKey), hx(p.DKGPubKey), hx([]byte(p.Name)))
	}
	fmt.Fprintf(&sb, " %d", len(r.Messages))
	for _, m := range r.Messages {
		fmt.Fprintf(&sb, " %s %s %s %s %s %s %d", hx(m.Data), hx(m.Signature), hx([]byte(m.RecipientAddr)), hx([]byte(m.Event)), hx([]byte(m.SenderAddr)), hx([]byte(m.DkgRoundID)), m.Offset)
	}
	return sb.String()
}

func hashOf(r *ctypes.ReDKG) string {
	bz, _ := json.Marshal(r)
	h, err := ctypes.CalcStartReInitDKGMessageHash(bz)
	if err != nil {
		return "error"
	}
	return hex.EncodeToString(h)
}

func scenarioC20(c *Ctx) {
	curForged := false
	fail := func(kind, what string, rep map[string]interface{}) {
		if curForged {
			// the dump contains a message the original nodes refused for its signature
			if rep == nil {
				rep = map[string]interface{}{}
			}
			rep["symptom"] = kind
			rep["dump"] = "contains a forged decline (garbage signature) that every original node refused"
			c.Fail(Failure{Property: "C20", Kind: "reinit-replays-unverified-message", Signature: map[string]interface{}{"kind": "reinit-replays-unverified-message"},
				What: "the dump contains a message the original nodes refused for its signature; the reinitialisation replays it without verification: " + what, Replay: rep})
			return
		}
		c.Fail(Failure{Property: "C20", Kind: kind, Signature: map[string]interface{}{"kind": kind}, What: what, Replay: rep})
	}
	type cfg struct {
		n, t     int
		adapt    bool
		withJunk bool
		forged   bool
	}
	cfgs := []cfg{{3, 2, false, true, false}, {2, 2, true, true, false}, {3, 2, false, false, true}}
	if !c.Quick() {
		cfgs = []cfg{{3, 2, false, true, false}, {2, 2, true, true, false}, {2, 2, true, false, false}, {4, 3, false, true, false}, {3, 3, true, true, false}, {5, 2, false, false, false}, {3, 2, false, false, true}, {4, 2, true, false, true}}
	}
	var sampleFile *ctypes.ReDKG
	for ci, cf := range cfgs {
		tag := fmt.Sprintf("c20-%d", ci)
		curForged = cf.forged
		// ---- the original ceremony (plus a signing batch and a foreign round's message on the same board) ----
		A := NewCluster(newEnvDir(c), cf.n, cf.t, tag)
		A.Propose(0)
		A.RunToQuiescence(func(cands []int) int { return c.Rng.Intn(len(cands)) }, nil)
		krsA := make([]string, cf.n)
		var groupKey []byte
		var origPoly []byte
		okA := true
		for i, m := range A.Machines {
			krs, _ := m.GetBLSKeyrings()
			if krs[A.Round] == nil {
				okA = false
				break
			}
			krsA[i] = scalarDec(krs[A.Round].Share.V)
			groupKey, _ = krs[A.Round].PubPoly.Commit().MarshalBinary()
			origPoly, _ = krs[A.Round].PubPolyBytes()
		}
		if !okA {
			fail("ceremony-failed", "the original key generation did not finish", map[string]interface{}{"n": cf.n, "t": cf.t})
			A.Close()
			continue
		}
		tasks := []requests.SigningTask{{MessageID: "orig-doc", File: "orig.txt", Payload: []byte("signed before the reinit")}}
		A.ProposeBatch(0, "orig-batch", tasks)
		A.RunToQuiescence(func(cands []int) int { return 0 }, nil)
		B, re, err := startReinit(c, A, tag, cf.withJunk, cf.adapt, cf.forged)
		if err != nil {
			fail("reinit-file", err.Error(), nil)
			A.Close()
			if B != nil {
				B.Close()
			}
			continue
		}
		if sampleFile == nil {
			sampleFile = re
		}
		B.RunToQuiescence(func(cands []int) int { return 0 }, nil)
		rep := map[string]interface{}{"n": cf.n, "t": cf.t, "adapted": cf.adapt, "foreign_message_in_dump": cf.withJunk}
		// every hot node: signing-ready, same participants/threshold, original polynomial; same hash
		wantHash := hashOf(re)
		for i := range B.Nodes {
			st := B.RoundState(i)
			if !strings.Contains(st, "stage_signing_idle") {
				fail("not-ready-after-reinit", fmt.Sprintf("hot node %d is not signing-ready after the reinitialisation", i), rep)
				continue
			}
			if !strings.Contains(st, fmt.Sprintf(" %d ", tok.TokB(origPoly))) {
				fail("polynomial-differs", fmt.Sprintf("hot node %d does not hold the original public polynomial after the reinitialisation", i), rep)
			}
			ref := A.RoundState(i)
			// threshold and participants: the prefix of the projection up to the first timestamp
			if strings.Fields(st)[2] != strings.Fields(ref)[2] {
				fail("threshold-differs", "the threshold after the reinitialisation differs from the original", rep)
			}
			db, _ := B.Nodes[i].St.Get(topic + "_deleted_operations")
			if !strings.Contains(string(db), hexToB64(wantHash)) && !bytes.Contains(db, []byte("reinit_dkg")) {
				fail("reinit-operation-missing", "the reinit operation was not offered / answered", rep)
			}
		}
		for i, mch := range B.Machines {
			krs, _ := mch.GetBLSKeyrings()
			if krs[B.Round] == nil {
				fail("no-share-after-reinit", fmt.Sprintf("airgapped machine %d holds no share after the reinitialisation", i), rep)
				continue
			}
			if scalarDec(krs[B.Round].Share.V) != krsA[i] {
				fail("share-differs", fmt.Sprintf("airgapped machine %d holds another share than after the original ceremony", i), rep)
			}
		}
		// signing after the reinitialisation verifies under the ORIGINAL group key
		t2 := []requests.SigningTask{{MessageID: "after-doc", File: "after.txt", Payload: []byte("signed after the reinit")}}
		B.ProposeBatch(0, "after-batch", t2)
		B.RunToQuiescence(func(cands []int) int { return 0 }, nil)
		suiteKey := groupKey
		for i := range B.Nodes {
			got := B.StoredSignatures(i, "after-batch")["after-doc"]
			valid := false
			for _, sg := range got {
				if len(sg) > 0 && prysmVerifyBytes(suiteKey, t2[0].Payload, sg) {
					valid = true
				}
			}
			if !valid {
				fail("signature-after-reinit", fmt.Sprintf("node %d: no signature produced after the reinitialisation verifies under the original group key", i), rep)
			}
		}
		c.Case("reinit-cluster", true, rehashLine(re), "rehash "+wantHash)
		A.Close()
		B.Close()
	}
	curForged = false
	// ---- the confirmation hash: every single-field edit of a reinit file ----
	if sampleFile != nil {
		base := hashOf(sampleFile)
		edits := 0
		clone := func() *ctypes.ReDKG {
			bz, _ := json.Marshal(sampleFile)
			var r ctypes.ReDKG
			json.Unmarshal(bz, &r)
			return &r
		}
		check := func(label string, r *ctypes.ReDKG) {
			edits++
			h := hashOf(r)
			c.Case("edit-"+label, true, rehashLine(r), "rehash "+h)
			if h == base {
				fail("hash-insensitive", "a single-field edit of the reinit file ("+label+") leaves the confirmation hash unchanged", map[string]interface{}{"edit": label})
			}
		}
		flip := func(b []byte) []byte {
			o := append([]byte{}, b...)
			if len(o) == 0 {
				return []byte{1}
			}
			o[len(o)/2] ^= 1
			return o
		}
		r := clone()
		r.Threshold++
		check("threshold", r)
		r = clone()
		r.DKGID = r.DKGID + "0"
		check("dkg-id", r)
		for pi := range sampleFile.Participants {
			r = clone()
			r.Participants[pi].Name += "x"
			check(fmt.Sprintf("participant-%d-name", pi), r)
			r = clone()
			r.Participants[pi].NewCommPubKey = flip(r.Participants[pi].NewCommPubKey)
			check(fmt.Sprintf("participant-%d-newkey", pi), r)
			r = clone()
			r.Participants[pi].OldCommPubKey = flip(r.Participants[pi].OldCommPubKey)
			check(fmt.Sprintf("participant-%d-oldkey", pi), r)
			r = clone()
			r.Participants[pi].DKGPubKey = flip(r.Participants[pi].DKGPubKey)
			check(fmt.Sprintf("participant-%d-dkgkey", pi), r)
		}
		for mi := range sampleFile.Messages {
			if c.Quick() && mi%3 != 0 {
				continue
			}
			r = clone()
			r.Messages[mi].Data = flip(r.Messages[mi].Data)
			check(fmt.Sprintf("message-%d-payload", mi), r)
			r = clone()
			r.Messages[mi].Signature = flip(r.Messages[mi].Signature)
			check(fmt.Sprintf("message-%d-signature", mi), r)
			r = clone()
			r.Messages[mi].SenderAddr += "x"
			check(fmt.Sprintf("message-%d-sender", mi), r)
			r = clone()
			r.Messages[mi].RecipientAddr += "x"
			check(fmt.Sprintf("message-%d-recipient", mi), r)
			r = clone()
			r.Messages[mi].Event += "x"
			check(fmt.Sprintf("message-%d-event", mi), r)
			r = clone()
			r.Messages[mi].Offset += 7
			check(fmt.Sprintf("message-%d-offset", mi), r)
			r = clone()
			r.Messages[mi].DkgRoundID += "x"
			check(fmt.Sprintf("message-%d-round", mi), r)
		}
		// the recorded ambiguity: moving a character between two adjacent fields
		r = clone()
		if len(r.Messages) > 0 && len(r.Messages[0].Event) > 1 {
			ev := r.Messages[0].Event
			r.Messages[0].RecipientAddr += ev[:1]
			r.Messages[0].Event = ev[1:]
			h := hashOf(r)
			c.Case("edit-shift", true, rehashLine(r), "rehash "+h)
			// outside the property's quantifier (two fields edited at once): recorded, not a violation
			c.Notes["two_field_shift_keeps_hash"] = h == base
		}
		c.Notes["single_field_edits"] = edits
	}
	// reinit histories on a single node against the model (fresh, twice, crafted, foreign embedded message)
	w := NewWorld(3, 2, 1)
	runCases(c, reinitCases(c, w, "C20"))
}

// startReinit: the board log of the finished cluster A becomes a reinit file (optionally with a
// message of another round spliced in, optionally as a 0.1.4-style log through GetAdaptedReDKG);
// a fresh cluster with the same mnemonics and new communication keys gets the reinit message posted.
func startReinit(c *Ctx, A *Cluster, tag string, withJunk, adapt bool, forgedOpt ...bool) (*Cluster, *ctypes.ReDKG, error) {
	forged := len(forgedOpt) > 0 && forgedOpt[0]
	log, _ := A.board().GetMessages(0)
	if withJunk {
		junk := storage.Message{DkgRoundID: "some-other-round", Event: "event_sig_proposal_confirm_by_participant", Data: []byte(`{"ParticipantId":0}`), SenderAddr: A.Users[0], Offset: 3}
		log = append(log[:3], append([]storage.Message{junk}, log[3:]...)...)
	}
	if withJunk && len(log) > 6 {
		// a batch proposal for THIS round, posted by a stranger while the key generation was under way
		// (every original node refused it: bad signature, round not in a signing state): it must not
		// end the reinit file nor the replay
		sp := storage.Message{DkgRoundID: log[0].DkgRoundID, Event: "event_signing_start",
			Data:       []byte(`{"BatchID":"premature","ParticipantId":0,"CreatedAt":"2026-09-25T20:00:00Z","SigningTasks":[{"MessageID":"m","File":"f","Payload":"QQ=="}]}`),
			SenderAddr: "nobody", Signature: make([]byte, 64), Offset: 5}
		log = append(log[:5], append([]storage.Message{sp}, log[5:]...)...)
	}
	if forged && len(log) > 1 {
		// a forged decline in participant 1's name with a garbage signature, right after the proposal:
		// it lay on the board and every original node refused it
		fm := storage.Message{DkgRoundID: log[0].DkgRoundID, Event: "event_sig_proposal_decline_by_participant",
			Data: []byte(`{"ParticipantId":1,"CreatedAt":"2026-09-25T20:00:00Z"}`), SenderAddr: A.Users[1], Signature: []byte("garbage"), Offset: 1}
		log = append(log[:1], append([]storage.Message{fm}, log[1:]...)...)
	}
	if adapt && withJunk {
		// a deal of ANOTHER round in the name of the first participant lay on the board before the
		// ceremony (every original node refused it): the adaptation must not spend that
		// participant's self-confirmation on it
		jd := storage.Message{DkgRoundID: "some-other-round", Event: "event_dkg_deal_confirm_received",
			Data: []byte(`{"ParticipantId":0,"Deal":"AA==","CreatedAt":"2026-09-25T20:00:00Z"}`), SenderAddr: A.Users[0], RecipientAddr: A.Users[1], Signature: []byte("garbage")}
		log = append([]storage.Message{jd}, log...)
	}
	if adapt {
		var old []storage.Message
		for _, m := range log {
			if m.Event == "event_dkg_deal_confirm_received" && m.RecipientAddr == m.SenderAddr {
				continue
			}
			old = append(old, m)
		}
		log = old
	}
	B := NewCluster(newEnvDir(c), A.N, A.T, tag)
	newKeys := map[string][]byte{}
	for i, u := range B.Users {
		kp := userKey("reinit-" + u)
		B.Nodes[i].KP = kp
		B.Nodes[i].RestartInPlace()
		newKeys[u] = kp.Pub
	}
	re, err := ctypes.GenerateReDKGMessage(log, newKeys)
	if err != nil {
		return B, nil, fmt.Errorf("GenerateReDKGMessage failed: %w", err)
	}
	// the generator against its model (Node/GenReDKG.v): which messages of the log the file keeps, and
	// the round, threshold and participants it names
	{
		var sb strings.Builder
		fmt.Fprintf(&sb, "genredkg %d", len(log))
		for _, m := range log {
			ev := m.Event
			if ev == "" {
				ev = "-"
			}
			thr, parts := 0, []string{}
			if m.Event == "event_sig_proposal_init" {
				var req requests.SignatureProposalParticipantsListRequest
				if json.Unmarshal(m.Data, &req) == nil {
					thr = req.SigningThreshold
					for _, p := range req.Participants {
						parts = append(parts, fmt.Sprint(tok.Tok(p.Username)))
					}
				}
			}
			fmt.Fprintf(&sb, " %s %d %d %d %s", ev, tok.Tok(m.DkgRoundID), thr, len(parts), strings.Join(parts, " "))
		}
		var kept, names []string
		j := 0
		for _, km := range re.Messages {
			for j < len(log) && !(log[j].Event == km.Event && log[j].DkgRoundID == km.DkgRoundID && log[j].SenderAddr == km.SenderAddr && bytes.Equal(log[j].Data, km.Data) && bytes.Equal(log[j].Signature, km.Signature) && log[j].RecipientAddr == km.RecipientAddr) {
				j++
			}
			kept = append(kept, fmt.Sprint(j))
			j++
		}
		for _, p := range re.Participants {
			names = append(names, fmt.Sprint(tok.Tok(p.Name)))
		}
		c.Case("generator", true, strings.Join(strings.Fields(sb.String()), " "),
			fmt.Sprintf("genredkg id=%d thr=%d parts=%s kept=%s", tok.Tok(re.DKGID), re.Threshold, strings.Join(names, ","), strings.Join(kept, ",")))
	}
	if adapt {
		before := re
		if re, err = node.GetAdaptedReDKG(re); err != nil {
			return B, nil, fmt.Errorf("GetAdaptedReDKG failed: %w", err)
		}
		// the adaptation against its model (Node/Adapt.v): where the synthetic self-confirmations go,
		// and the renumbered offsets
		var sb strings.Builder
		fmt.Fprintf(&sb, "adapt %d %d", tok.Tok(before.DKGID), len(before.Messages))
		for _, m := range before.Messages {
			ev := m.Event
			if ev == "" {
				ev = "-"
			}
			fmt.Fprintf(&sb, " %s %d %d %d", ev, tok.Tok(m.DkgRoundID), tok.Tok(m.SenderAddr), tok.Tok(m.RecipientAddr))
		}
		var obs []string
		j := 0
		for _, m := range re.Messages {
			if j < len(before.Messages) && m.Event == before.Messages[j].Event && m.SenderAddr == before.Messages[j].SenderAddr &&
				m.DkgRoundID == before.Messages[j].DkgRoundID && bytes.Equal(m.Data, before.Messages[j].Data) && m.RecipientAddr == before.Messages[j].RecipientAddr {
				j++
				obs = append(obs, fmt.Sprintf("M%d@%d", j, m.Offset))
			} else {
				obs = append(obs, fmt.Sprintf("S%d>%d/%d@%d", tok.Tok(m.SenderAddr), tok.Tok(m.RecipientAddr), tok.Tok(m.DkgRoundID), m.Offset))
			}
		}
		c.Case("adaptation", true, sb.String(), "adapt "+strings.Join(obs, ","))
	}
	data, _ := json.Marshal(re)
	m := storage.Message{DkgRoundID: re.DKGID, Event: "reinit_dkg", Data: data, SenderAddr: B.Users[0]}
	m.Signature = ed25519.Sign(B.Nodes[0].KP.Priv, data)
	B.Round = re.DKGID
	for _, nd := range B.Nodes {
		nd.Rounds[B.Round] = true
	}
	if err := B.board().Send(m); err != nil {
		panic(err)
	}
	return B, re, nil
}

func hexToB64(h string) string { return h }
