package main

import (
	"encoding/json"
	"fmt"
	"strings"
	"time"

	"github.com/lidofinance/dc4bc/fsm/fsm"
	"github.com/lidofinance/dc4bc/fsm/state_machines"
	"github.com/lidofinance/dc4bc/fsm/types/requests"
)

// An event of the exploration alphabet: name, request, and a label used in statistics.
type Ev struct {
	Name string
	Req  Req
	Kind string
}

func (e Ev) Line() string { return stateStr(e.Name) + " " + e.Req.line }

var publicEvents = []string{
	"event_sig_proposal_init", "event_sig_proposal_confirm_by_participant", "event_sig_proposal_decline_by_participant",
	"event_dkg_init_process",
	"event_dkg_commit_confirm_received", "event_dkg_commit_confirm_canceled_by_error",
	"event_dkg_deal_confirm_received", "event_dkg_deal_confirm_canceled_by_error",
	"event_dkg_response_confirm_received", "event_dkg_response_confirm_canceled_by_error",
	"event_dkg_master_key_confirm_received", "event_dkg_master_key_confirm_canceled_by_error",
	"event_signing_init", "event_signing_start", "event_signing_partial_sign_received",
	"event_signing_partial_sign_error_received", "event_signing_restart",
}

var dkgConfirmEv = []string{"event_dkg_commit_confirm_received", "event_dkg_deal_confirm_received", "event_dkg_response_confirm_received", "event_dkg_master_key_confirm_received"}
var dkgErrorEv = []string{"event_dkg_commit_confirm_canceled_by_error", "event_dkg_deal_confirm_canceled_by_error", "event_dkg_response_confirm_canceled_by_error", "event_dkg_master_key_confirm_canceled_by_error"}

func participants(n int) []PartSpec {
	ps := make([]PartSpec, n)
	for i := range ps {
		ps[i] = PartSpec{fmt.Sprintf("user%d", i), fmt.Sprintf("commpubkey-%d", i), fmt.Sprintf("dkgpubkey--%d", i)}
	}
	return ps
}

var (
	tNorm = T(10)
	tLate = T(10 + 8*24*3600)
	tZero = time.Time{}
)

func strp(s string) *string { return &s }

// alphabet builds the event variants for n participants and threshold t.
// full = every id incl. -1 and n and all payload variants; otherwise the mostly-valid core.
func alphabet(n, t int, full bool, scope string) []Ev {
	var evs []Ev
	signingEv := map[string]bool{"event_signing_start": true, "event_signing_partial_sign_received": true,
		"event_signing_partial_sign_error_received": true, "event_signing_restart": true}
	add := func(kind, name string, r Req) {
		// scope "dkg": invitation + key generation + hand-overs; scope "signing": signing events only
		if scope == "dkg" && signingEv[name] && kind != "confused" {
			return
		}
		if scope == "signing" && !signingEv[name] && kind != "confused" && kind != "unknown" && kind != "internal" {
			return
		}
		evs = append(evs, Ev{name, r, kind})
	}
	ps := participants(n)
	add("init-ok", "event_sig_proposal_init", reqList(ps, t, T(0)))
	if full {
		add("init-bad", "event_sig_proposal_init", reqList(ps, 1, T(0)))
		add("init-bad", "event_sig_proposal_init", reqList(ps, n+1, T(0)))
		add("init-bad", "event_sig_proposal_init", reqList(ps[:1], t, T(0)))
		add("init-bad", "event_sig_proposal_init", reqList(ps, t, tZero))
		dup := append([]PartSpec{}, ps...)
		dup[1].Name = dup[0].Name
		add("init-bad", "event_sig_proposal_init", reqList(dup, t, T(0)))
		short := append([]PartSpec{}, ps...)
		short[0].Name = "ab"
		add("init-bad", "event_sig_proposal_init", reqList(short, t, T(0)))
		shortk := append([]PartSpec{}, ps...)
		shortk[0].PK = "k"
		add("init-bad", "event_sig_proposal_init", reqList(shortk, t, T(0)))
	}
	ids := []int{}
	for i := 0; i < n; i++ {
		ids = append(ids, i)
	}
	if full {
		ids = append(ids, -1, n, n+1)
	}
	for _, i := range ids {
		add("confirm", "event_sig_proposal_confirm_by_participant", reqPart(i, tNorm))
		add("decline", "event_sig_proposal_decline_by_participant", reqPart(i, tNorm))
		if full {
			add("confirm-late", "event_sig_proposal_confirm_by_participant", reqPart(i, tLate))
			add("confirm-zero", "event_sig_proposal_confirm_by_participant", reqPart(i, tZero))
			add("decline-late", "event_sig_proposal_decline_by_participant", reqPart(i, tLate))
		}
		for k := 0; k < 3; k++ {
			add("dkg-confirm", dkgConfirmEv[k], reqData(k, i, fmt.Sprintf("data%d-%d", k, i), tNorm))
			if full {
				add("dkg-confirm-empty", dkgConfirmEv[k], reqData(k, i, "", tNorm))
				add("dkg-confirm-late", dkgConfirmEv[k], reqData(k, i, fmt.Sprintf("data%d-%d", k, i), tLate))
				add("dkg-confirm-zero", dkgConfirmEv[k], reqData(k, i, fmt.Sprintf("data%d-%d", k, i), tZero))
			}
		}
		add("master", dkgConfirmEv[3], reqMaster(i, "masterkey-A", "pubpoly-A", tNorm))
		if full {
			add("master-otherkey", dkgConfirmEv[3], reqMaster(i, "masterkey-B", "pubpoly-A", tNorm))
			add("master-otherpoly", dkgConfirmEv[3], reqMaster(i, "masterkey-A", "pubpoly-B", tNorm))
			add("master-empty", dkgConfirmEv[3], reqMaster(i, "", "pubpoly-A", tNorm))
			// an announcement that carries the key but NO public polynomial (after others that carried one)
			add("master-nopoly", dkgConfirmEv[3], reqMaster(i, "masterkey-A", "", tNorm))
			add("master-late", dkgConfirmEv[3], reqMaster(i, "masterkey-A", "pubpoly-A", tLate))
			// two announced keys that agree on more bytes than a DKG public key has and differ only after
			add("master-tail-x", dkgConfirmEv[3], reqMaster(i, "masterkey-A-with-a-tail-x", "pubpoly-A", tNorm))
			add("master-tail-y", dkgConfirmEv[3], reqMaster(i, "masterkey-A-with-a-tail-y", "pubpoly-A", tNorm))
		}
		for k := 0; k < 4; k++ {
			add("dkg-error", dkgErrorEv[k], reqError(i, strp(fmt.Sprintf("boom%d", k)), tNorm))
			if full {
				add("dkg-error-nil", dkgErrorEv[k], reqError(i, nil, tNorm))
				if k == 0 {
					add("dkg-error", dkgErrorEv[k], reqError(i, strp("bad\x01text\x7f\v\a"), tNorm))
				}
			}
		}
		explicit := []requests.SigningTask{{MessageID: "msg-1", File: "f1", Payload: []byte("payload-1")}, {MessageID: "msg-2", File: "f2", Payload: []byte("payload-2")}}
		add("start", "event_signing_start", reqStart("batch-A", i, tNorm, explicit))
		if full {
			add("start", "event_signing_start", reqStart("batch-B", i, tNorm, []requests.SigningTask{{MessageID: "msg-3", RangeStart: 0, RangeEnd: 2}}))
			add("start-bad", "event_signing_start", reqStart("", i, tNorm, explicit))
			add("start-bad", "event_signing_start", reqStart("batch-A", i, tNorm, nil))
			add("start-bad", "event_signing_start", reqStart("batch-A", i, tNorm, []requests.SigningTask{{MessageID: "", Payload: []byte("x")}}))
			add("start-bad", "event_signing_start", reqStart("batch-A", i, tNorm, []requests.SigningTask{{MessageID: "m", RangeStart: 3, RangeEnd: 1}}))
			add("start-bad", "event_signing_start", reqStart("batch-A", i, tZero, explicit))
		}
		signs := []requests.PartialSign{{MessageID: "msg-1", Sign: []byte(fmt.Sprintf("psig1-%d", i))}, {MessageID: "msg-2", Sign: []byte(fmt.Sprintf("psig2-%d", i))}}
		add("partial", "event_signing_partial_sign_received", reqPartial("batch-A", i, signs, tNorm))
		if full {
			add("partial-stale", "event_signing_partial_sign_received", reqPartial("batch-B", i, signs, tNorm))
			add("partial-bad", "event_signing_partial_sign_received", reqPartial("", i, signs, tNorm))
			add("partial-bad", "event_signing_partial_sign_received", reqPartial("batch-A", i, nil, tNorm))
			// `"PartialSigns":[]` on the board decodes to an empty, non-nil list
			add("partial-bad", "event_signing_partial_sign_received", reqPartial("batch-A", i, []requests.PartialSign{}, tNorm))
			add("partial-bad", "event_signing_partial_sign_received", reqPartial("batch-A", i, []requests.PartialSign{{MessageID: "msg-1"}}, tNorm))
			add("partial-late", "event_signing_partial_sign_received", reqPartial("batch-A", i, signs, tLate))
		}
		// a failure report names its batch (the repaired machine writes it); one without a batch is what an
		// older version wrote; one naming another batch is a slow participant's late report
		add("sgn-error", "event_signing_partial_sign_error_received", reqSigError(i, strp("sign failed"), tNorm, "batch-A"))
		add("sgn-error-stale", "event_signing_partial_sign_error_received", reqSigError(i, strp("sign failed"), tNorm, "batch-B"))
		if full {
			add("sgn-error-unnamed", "event_signing_partial_sign_error_received", reqSigError(i, strp("sign failed"), tNorm, ""))
			add("sgn-error-nil", "event_signing_partial_sign_error_received", reqSigError(i, nil, tNorm, "batch-A"))
			// error texts are Go error / panic strings: control characters and DEL must survive the dump
			add("sgn-error", "event_signing_partial_sign_error_received", reqSigError(i, strp("bad\x01text\x7f\v\a"), tNorm, "batch-A"))
		}
	}
	add("handover", "event_dkg_init_process", reqDefault(T(20)))
	add("handover", "event_signing_init", reqDefault(T(30)))
	add("restart", "event_signing_restart", reqDefault(T(40)))
	if full {
		add("handover-zero", "event_dkg_init_process", reqDefault(tZero))
		add("handover-zero", "event_signing_init", reqDefault(tZero))
		// internal / unknown events and type confusion
		add("internal", "event_sig_proposal_validate", reqPart(0, tNorm))
		add("internal", "event_sig_proposal_set_validated", reqPart(0, tNorm))
		add("internal", "event_dkg_commits_confirmed_internal", reqData(0, 0, "data0-0", tNorm))
		add("internal", "event_dkg_master_key_confirmed_internal", reqMaster(0, "masterkey-A", "pubpoly-A", tNorm))
		add("internal", "event_signing_partial_signs_confirmed_internal", reqDefault(tNorm))
		add("unknown", "event_bogus", reqDefault(tNorm))
		add("unknown", "", reqDefault(tNorm))
		for _, name := range publicEvents {
			add("confused", name, reqBad())
		}
		add("confused", "event_sig_proposal_confirm_by_participant", reqData(0, 0, "data0-0", tNorm))
		add("confused", "event_dkg_commit_confirm_received", reqData(1, 0, "data1-0", tNorm))
		add("confused", "event_dkg_commit_confirm_received", reqPart(0, tNorm))
		add("confused", "event_dkg_commit_confirm_canceled_by_error", reqSigError(0, strp("x"), tNorm, ""))
		add("confused", "event_signing_partial_sign_error_received", reqError(0, strp("x"), tNorm))
		add("confused", "event_signing_start", reqPart(0, tNorm))
		add("confused", "event_dkg_init_process", reqPart(0, tNorm))
	}
	return evs
}

// ---- one step on the implementation ----
type StepObs struct {
	Class   string // loaderr | route | err | ok | panic
	MState  string
	DState  string
	RState  string
	Resp    string
	After   string // projection of the in-memory dump after the call
	DumpOut []byte // bytes returned by Do (what the node would persist)
}

func (o StepObs) Line() string {
	if o.Class == "loaderr" || o.Class == "panic" {
		return "fsm " + o.Class
	}
	return fmt.Sprintf("fsm %s M=%s D=%s RS=%s R=%s | %s", o.Class, stateStr(o.MState), stateStr(o.DState), stateStr(o.RState), o.Resp, o.After)
}

func doOnInstance(inst *state_machines.FSMInstance, ev Ev) (o StepObs) {
	defer func() {
		if r := recover(); r != nil {
			o = StepObs{Class: "panic"}
		}
	}()
	resp, dump, err := inst.Do(fsm.Event(ev.Name), ev.Req.val)
	ms, _ := inst.State()
	o.MState = string(ms)
	o.DState = string(inst.FSMDump().State)
	o.After = projDump(o.DState, inst.FSMDump())
	switch {
	case resp == nil:
		o.Class = "route"
		o.Resp = "-"
	case err != nil:
		o.Class = "err"
		o.RState = string(resp.State)
		o.Resp = projResp(resp.Data)
	default:
		o.Class = "ok"
		o.RState = string(resp.State)
		o.Resp = projResp(resp.Data)
		o.DumpOut = dump
	}
	return o
}

func loadDump(bz []byte) (inst *state_machines.FSMInstance, class string) {
	defer func() {
		if r := recover(); r != nil {
			inst, class = nil, "panic"
		}
	}()
	i, err := state_machines.FromDump(bz)
	if err != nil {
		return nil, "loaderr"
	}
	return i, ""
}

func doOnDump(bz []byte, ev Ev) StepObs {
	inst, class := loadDump(bz)
	if inst == nil {
		return StepObs{Class: class}
	}
	return doOnInstance(inst, ev)
}

func decodeDump(bz []byte) *state_machines.FSMDump {
	var d state_machines.FSMDump
	if err := json.Unmarshal(bz, &d); err != nil {
		panic(err)
	}
	return &d
}

func projOfBytes(bz []byte) string {
	d := decodeDump(bz)
	return projDump(string(d.State), d)
}

func initialDump(id string) []byte {
	inst, err := state_machines.Create(id)
	if err != nil {
		panic(err)
	}
	bz, err := inst.Dump()
	if err != nil {
		panic(err)
	}
	return bz
}

// ---- breadth-first exploration of the implementation's reachable abstract states ----
type ExploreResult struct {
	States    map[string][]byte // projection -> dump bytes
	Order     []string
	Edges     int
	Fixpoint  bool
	Terminal  map[string]int // state name -> count of abstract states in it
}

type EdgeFn func(srcProj string, src []byte, ev Ev, o StepObs)

func explore(n, t int, full bool, maxStates int, onEdge EdgeFn) ExploreResult {
	return exploreFrom(initialDump("round-1"), alphabet(n, t, full, "dkg"), maxStates, onEdge)
}

// readyDump drives an honest ceremony to stage_signing_idle and returns the persisted dump.
func readyDump(n, t int) []byte {
	bz := initialDump("round-1")
	apply := func(ev Ev) {
		o := doOnDump(bz, ev)
		if o.Class != "ok" {
			panic("honest run rejected at " + ev.Line() + ": " + o.Line())
		}
		bz = o.DumpOut
	}
	apply(Ev{"event_sig_proposal_init", reqList(participants(n), t, T(0)), "init-ok"})
	for i := 0; i < n; i++ {
		apply(Ev{"event_sig_proposal_confirm_by_participant", reqPart(i, tNorm), "confirm"})
	}
	apply(Ev{"event_dkg_init_process", reqDefault(T(20)), "handover"})
	for k := 0; k < 3; k++ {
		for i := 0; i < n; i++ {
			apply(Ev{dkgConfirmEv[k], reqData(k, i, fmt.Sprintf("data%d-%d", k, i), tNorm), "dkg-confirm"})
		}
	}
	for i := 0; i < n; i++ {
		apply(Ev{dkgConfirmEv[3], reqMaster(i, "masterkey-A", "pubpoly-A", tNorm), "master"})
	}
	apply(Ev{"event_signing_init", reqDefault(T(30)), "handover"})
	return bz
}

func exploreFrom(start []byte, evs []Ev, maxStates int, onEdge EdgeFn) ExploreResult {
	res := ExploreResult{States: map[string][]byte{}, Terminal: map[string]int{}, Fixpoint: true}
	sp := projOfBytes(start)
	res.States[sp] = start
	res.Order = append(res.Order, sp)
	for qi := 0; qi < len(res.Order); qi++ {
		proj := res.Order[qi]
		bz := res.States[proj]
		for _, ev := range evs {
			o := doOnDump(bz, ev)
			res.Edges++
			onEdge(proj, bz, ev, o)
			if o.Class == "ok" && o.DumpOut != nil {
				np := projOfBytes(o.DumpOut)
				if _, seen := res.States[np]; !seen {
					if len(res.States) >= maxStates {
						res.Fixpoint = false
						continue
					}
					res.States[np] = o.DumpOut
					res.Order = append(res.Order, np)
				}
			}
		}
	}
	for p := range res.States {
		res.Terminal[strings.SplitN(p, " ", 2)[0]]++
	}
	return res
}
