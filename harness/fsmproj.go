package main

import (
	"sync"
	"encoding/json"
	"fmt"
	"sort"
	"strings"
	"time"

	"github.com/lidofinance/dc4bc/fsm/state_machines"
	"github.com/lidofinance/dc4bc/fsm/types/requests"
	"github.com/lidofinance/dc4bc/fsm/types/responses"
)

// ---- tokens: byte strings are interned to small numbers; 0 = empty/nil ----
type Interner struct {
	mu   sync.Mutex
	m    map[string]int
	strs []string
}

func NewInterner() *Interner {
	in := &Interner{m: map[string]int{}, strs: []string{""}}
	in.m[""] = 0
	in.Tok("master key is mismatched")        // = 1, Fsm/Actions.tok_mismatch
	in.Tok("public polynomial is mismatched") // = 2, Fsm/Actions.tok_poly_mismatch
	return in
}

func (in *Interner) Tok(s string) int {
	in.mu.Lock()
	defer in.mu.Unlock()
	if t, ok := in.m[s]; ok {
		return t
	}
	t := len(in.strs)
	in.m[s] = t
	in.strs = append(in.strs, s)
	return t
}
func (in *Interner) TokB(b []byte) int { return in.Tok(string(b)) }

var tok = NewInterner()

// ---- times: seconds relative to the harness epoch; Go's zero time is TZERO ----
var epoch = time.Unix(1700000000, 0).UTC()

const tzero = -63835596800 // time.Time{}.Unix() - epoch

func T(sec int64) time.Time { return epoch.Add(time.Duration(sec) * time.Second) }
// NOWMARK stands for "the wall clock at the time of the call" (time.Now() inside the node);
// the model receives it as its `now` input.
const NOWMARK = 777777777

func tsec(t time.Time) int64 {
	if d := time.Since(t); d > -24*time.Hour && d < 24*time.Hour {
		return NOWMARK
	}
	if d := time.Since(t.Add(-7 * 24 * time.Hour)); d > -24*time.Hour && d < 24*time.Hour {
		return NOWMARK + 604800
	}
	if t.IsZero() {
		return tzero
	}
	return t.Unix() - epoch.Unix()
}

func stateStr(s string) string {
	if s == "" {
		return "-"
	}
	return s
}

func errTok(e *requests.FSMError) int {
	if e == nil {
		return -1
	}
	return tok.Tok(e.ErrorMsg)
}

// projDump prints state + payload in the format shared with the model.
func projDump(state string, d *state_machines.FSMDump) string {
	var sb strings.Builder
	p := d.Payload
	fmt.Fprintf(&sb, "%s %d", stateStr(state), p.Threshold)
	if p.SignatureProposalPayload == nil {
		sb.WriteString(" 0")
	} else {
		c := p.SignatureProposalPayload
		ids := make([]int, 0, len(c.Quorum))
		for id := range c.Quorum {
			ids = append(ids, id)
		}
		sort.Ints(ids)
		fmt.Fprintf(&sb, " 1 %d %d %d %d", tsec(c.CreatedAt), tsec(c.UpdatedAt), tsec(c.ExpiresAt), len(ids))
		for _, id := range ids {
			q := c.Quorum[id]
			fmt.Fprintf(&sb, " %d %d %d %d %d %d %d", id, tok.Tok(q.Username), tok.TokB(q.PubKey), tok.TokB(q.DkgPubKey), q.Status, q.Threshold, tsec(q.UpdatedAt))
		}
	}
	if p.DKGProposalPayload == nil {
		sb.WriteString(" 0")
	} else {
		c := p.DKGProposalPayload
		ids := make([]int, 0, len(c.Quorum))
		for id := range c.Quorum {
			ids = append(ids, id)
		}
		sort.Ints(ids)
		fmt.Fprintf(&sb, " 1 %d %d %d %d %d", tsec(c.CreatedAt), tsec(c.UpdatedAt), tsec(c.ExpiresAt), tok.TokB(c.PubPolyBz), len(ids))
		for _, id := range ids {
			q := c.Quorum[id]
			fmt.Fprintf(&sb, " %d %d %d %d %d %d %d %d %d %d", id, tok.Tok(q.Username), tok.TokB(q.DkgPubKey), tok.TokB(q.DkgCommit),
				tok.TokB(q.DkgDeal), tok.TokB(q.DkgResponse), tok.TokB(q.DkgMasterKey), q.Status, errTok(q.Error), tsec(q.UpdatedAt))
		}
	}
	if p.SigningProposalPayload == nil {
		sb.WriteString(" 0")
	} else {
		c := p.SigningProposalPayload
		ids := make([]int, 0, len(c.Quorum))
		for id := range c.Quorum {
			ids = append(ids, id)
		}
		sort.Ints(ids)
		fmt.Fprintf(&sb, " 1 %d %d %d %d %d %d %d", tok.Tok(c.BatchID), c.InitiatorId, tok.TokB(c.SrcPayload), tsec(c.CreatedAt), tsec(c.UpdatedAt), tsec(c.ExpiresAt), len(ids))
		for _, id := range ids {
			q := c.Quorum[id]
			fmt.Fprintf(&sb, " %d %d %d %d %d %s", id, tok.Tok(q.Username), q.Status, errTok(q.Error), tsec(q.UpdatedAt), projSigns(q.PartialSigns))
		}
	}
	sb.WriteString(" " + projTokMap(len(p.PubKeys), func(f func(k, v int)) {
		for k, v := range p.PubKeys {
			f(tok.Tok(k), tok.TokB(v))
		}
	}))
	sb.WriteString(" " + projTokMap(len(p.IDs), func(f func(k, v int)) {
		for k, v := range p.IDs {
			f(tok.Tok(k), v)
		}
	}))
	return sb.String()
}

func projTokMap(n int, iter func(func(k, v int))) string {
	type kv struct{ k, v int }
	var l []kv
	iter(func(k, v int) { l = append(l, kv{k, v}) })
	sort.Slice(l, func(i, j int) bool { return l[i].k < l[j].k })
	var sb strings.Builder
	fmt.Fprintf(&sb, "%d", len(l))
	for _, e := range l {
		fmt.Fprintf(&sb, " %d %d", e.k, e.v)
	}
	return sb.String()
}

func projSigns(m map[string][]byte) string {
	return projTokMap(len(m), func(f func(k, v int)) {
		for k, v := range m {
			f(tok.Tok(k), tok.TokB(v))
		}
	})
}

// projResp prints resp.Data
func projResp(data interface{}) string {
	if data == nil {
		return "-"
	}
	var sb strings.Builder
	switch r := data.(type) {
	case responses.SignatureProposalParticipantInvitationsResponse:
		fmt.Fprintf(&sb, "inv %d", len(r))
		for _, e := range r {
			fmt.Fprintf(&sb, " %d %d %d %d %d", e.ParticipantId, tok.Tok(e.Username), e.Threshold, tok.TokB(e.DkgPubKey), tok.TokB(e.PubKey))
		}
	case responses.SignatureProposalParticipantStatusResponse:
		l := append(responses.SignatureProposalParticipantStatusResponse{}, r...)
		sort.Slice(l, func(i, j int) bool { return l[i].ParticipantId < l[j].ParticipantId })
		fmt.Fprintf(&sb, "sigstatus %d", len(l))
		for _, e := range l {
			fmt.Fprintf(&sb, " %d %d %d", e.ParticipantId, tok.Tok(e.Username), e.Status)
		}
	case responses.DKGProposalPubKeysParticipantResponse:
		fmt.Fprintf(&sb, "dkgpub %d", len(r))
		for _, e := range r {
			fmt.Fprintf(&sb, " %d %d %d %d", e.ParticipantId, tok.Tok(e.Username), tok.TokB(e.DkgPubKey), e.Threshold)
		}
	case responses.DKGProposalCommitParticipantResponse:
		fmt.Fprintf(&sb, "dkgdata 0 %d", len(r))
		for _, e := range r {
			fmt.Fprintf(&sb, " %d %d %d", e.ParticipantId, tok.Tok(e.Username), tok.TokB(e.DkgCommit))
		}
	case responses.DKGProposalDealParticipantResponse:
		fmt.Fprintf(&sb, "dkgdata 1 %d", len(r))
		for _, e := range r {
			fmt.Fprintf(&sb, " %d %d %d", e.ParticipantId, tok.Tok(e.Username), tok.TokB(e.DkgDeal))
		}
	case responses.DKGProposalResponseParticipantResponse:
		fmt.Fprintf(&sb, "dkgdata 2 %d", len(r))
		for _, e := range r {
			fmt.Fprintf(&sb, " %d %d %d", e.ParticipantId, tok.Tok(e.Username), tok.TokB(e.DkgResponse))
		}
	case responses.SigningPartialSignsParticipantInvitationsResponse:
		fmt.Fprintf(&sb, "sgninvite %d %d %d %d", tok.Tok(r.BatchID), r.InitiatorId, tok.TokB(r.SrcPayload), len(r.Participants))
		for _, e := range r.Participants {
			fmt.Fprintf(&sb, " %d %d %d", e.ParticipantId, tok.Tok(e.Username), e.Status)
		}
	case responses.SigningProcessParticipantResponse:
		fmt.Fprintf(&sb, "sgnprocess %d %d %d", tok.Tok(r.BatchID), tok.TokB(r.SrcPayload), len(r.Participants))
		for _, e := range r.Participants {
			fmt.Fprintf(&sb, " %d %d %s", e.ParticipantId, tok.Tok(e.Username), projSigns(e.PartialSigns))
		}
	default:
		fmt.Fprintf(&sb, "unknown-response-%T", data)
	}
	return sb.String()
}

// ---- requests: a Go value for the implementation and its line for the model ----
type Req struct {
	val  interface{}
	line string
}

type PartSpec struct {
	Name, PK, DPK string
}

func reqList(ps []PartSpec, thr int, created time.Time) Req {
	var entries []*requests.SignatureProposalParticipantsEntry
	var sb strings.Builder
	fmt.Fprintf(&sb, "list %d", len(ps))
	for _, p := range ps {
		entries = append(entries, &requests.SignatureProposalParticipantsEntry{Username: p.Name, PubKey: []byte(p.PK), DkgPubKey: []byte(p.DPK)})
		fmt.Fprintf(&sb, " %d %d %d %d %d %d", tok.Tok(p.Name), len(p.Name), tok.Tok(p.PK), len(p.PK), tok.Tok(p.DPK), len(p.DPK))
	}
	fmt.Fprintf(&sb, " %d %d", thr, tsec(created))
	return Req{requests.SignatureProposalParticipantsListRequest{Participants: entries, SigningThreshold: thr, CreatedAt: created}, sb.String()}
}
func reqPart(pid int, created time.Time) Req {
	return Req{requests.SignatureProposalParticipantRequest{ParticipantId: pid, CreatedAt: created}, fmt.Sprintf("part %d %d", pid, tsec(created))}
}
func reqDefault(created time.Time) Req {
	return Req{requests.DefaultRequest{CreatedAt: created}, fmt.Sprintf("default %d", tsec(created))}
}
func reqData(k int, pid int, data string, created time.Time) Req {
	line := fmt.Sprintf("data %d %d %d %d", k, pid, tok.Tok(data), tsec(created))
	var b []byte
	if data != "" {
		b = []byte(data)
	}
	switch k {
	case 0:
		return Req{requests.DKGProposalCommitConfirmationRequest{ParticipantId: pid, Commit: b, CreatedAt: created}, line}
	case 1:
		return Req{requests.DKGProposalDealConfirmationRequest{ParticipantId: pid, Deal: b, CreatedAt: created}, line}
	default:
		return Req{requests.DKGProposalResponseConfirmationRequest{ParticipantId: pid, Response: b, CreatedAt: created}, line}
	}
}
func reqMaster(pid int, key, poly string, created time.Time) Req {
	var kb, pb []byte
	if key != "" {
		kb = []byte(key)
	}
	if poly != "" {
		pb = []byte(poly)
	}
	return Req{requests.DKGProposalMasterKeyConfirmationRequest{ParticipantId: pid, MasterKey: kb, PubPolyBz: pb, CreatedAt: created},
		fmt.Sprintf("master %d %d %d %d", pid, tok.Tok(key), tok.Tok(poly), tsec(created))}
}
func reqError(pid int, err *string, created time.Time) Req {
	var e *requests.FSMError
	et := -1
	if err != nil {
		e = &requests.FSMError{ErrorMsg: *err}
		et = tok.Tok(*err)
	}
	return Req{requests.DKGProposalConfirmationErrorRequest{ParticipantId: pid, Error: e, CreatedAt: created}, fmt.Sprintf("error %d %d %d", pid, et, tsec(created))}
}
func reqSigError(pid int, err *string, created time.Time, batch string) Req {
	var e *requests.FSMError
	et := -1
	if err != nil {
		e = &requests.FSMError{ErrorMsg: *err}
		et = tok.Tok(*err)
	}
	bt := 0 // the report names no batch (as written by older versions)
	if batch != "" {
		bt = tok.Tok(batch)
	}
	return Req{requests.SignatureProposalConfirmationErrorRequest{ParticipantId: pid, Error: e, CreatedAt: created, BatchID: batch}, fmt.Sprintf("sigerror %d %d %d %d", pid, et, tsec(created), bt)}
}
func reqStart(batch string, pid int, created time.Time, tasks []requests.SigningTask) Req {
	var sb strings.Builder
	fmt.Fprintf(&sb, "start %d %d %d %d", tok.Tok(batch), pid, tsec(created), len(tasks))
	for _, t := range tasks {
		pl := len(t.Payload)
		if t.Payload == nil {
			pl = -1 // no payload at all (a baked range), as opposed to an explicit empty one
		}
		fmt.Fprintf(&sb, " %d %d %d %d", len(t.MessageID), pl, t.RangeStart, t.RangeEnd)
	}
	src, _ := json.Marshal(tasks)
	fmt.Fprintf(&sb, " %d", tok.TokB(src))
	return Req{requests.SigningBatchProposalStartRequest{BatchID: batch, ParticipantId: pid, CreatedAt: created, SigningTasks: tasks}, sb.String()}
}
func reqPartial(batch string, pid int, signs []requests.PartialSign, created time.Time) Req {
	var sb strings.Builder
	fmt.Fprintf(&sb, "partial %d %d %d", tok.Tok(batch), pid, len(signs))
	for _, s := range signs {
		fmt.Fprintf(&sb, " %d %d", tok.Tok(s.MessageID), tok.TokB(s.Sign))
	}
	fmt.Fprintf(&sb, " %d", tsec(created))
	return Req{requests.SigningProposalBatchPartialSignRequests{BatchID: batch, ParticipantId: pid, PartialSigns: signs, CreatedAt: created}, sb.String()}
}
func reqBad() Req { return Req{fmt.Errorf("failed to unmarshal fsm req"), "bad"} }
