package main

import (
	"fmt"
	"os"
	"path/filepath"
	"strings"
	"sync"

	ctypes "github.com/lidofinance/dc4bc/client/types"
	"github.com/lidofinance/dc4bc/fsm/types/requests"
)

func init() { scenarios["c04err"] = scenarioC04Err }

// scenarioC04Err: the ERROR results of the airgapped machine. Every genuine operation file a machine
// receives during a ceremony is mutated (the structure-aware mutations of the C18 scenario: entries
// dropped, fields deleted, points replaced, types confused ...), fed to a copy of that machine
// rebuilt from its log, and whatever result file comes back - mostly error results, whose text is
// built deep inside the handlers and goes to the board - is searched for the machine's secrets.
func scenarioC04Err(c *Ctx) {
	fail := func(kind, what string, rep map[string]interface{}) {
		c.Fail(Failure{Property: "C04", Kind: kind, Signature: map[string]interface{}{"kind": kind}, What: what, Replay: rep})
	}
	type cfg struct{ n, t int }
	cfgs := []cfg{{3, 2}}
	if !c.Quick() {
		cfgs = []cfg{{3, 2}, {4, 3}, {2, 2}}
	}
	files, errFiles, searches := 0, 0, 0
	events := map[string]int{}
	for ci, cf := range cfgs {
		cl := NewCluster(newEnvDir(c), cf.n, cf.t, fmt.Sprintf("c04err-%d", ci))
		cl.Propose(0)
		victim := 1 % cf.n
		step := 0
		var mu sync.Mutex
		handle := func(i int, o *ctypes.Operation) (bool, error) {
			if string(o.Type) == "state_sig_proposal_await_participants_confirmations" {
				_, err := cl.Answer(i, o)
				return true, err
			}
			if i != victim {
				_, err := answerViaFile(cl, i, o)
				return true, err
			}
			secrets := machineSecrets(cl, victim, cl.Round)
			secrets = append(secrets, secretVal{"operator password", cl.Password})
			muts := opMutations(*o, !c.Quick())
			var wg sync.WaitGroup
			sem := make(chan struct{}, 12)
			cl.Machines[victim].VerifClose()
			for k := range muts {
				wg.Add(1)
				sem <- struct{}{}
				go func(k int) {
					defer wg.Done()
					defer func() { <-sem }()
					dir := filepath.Join(cl.Dir, fmt.Sprintf("eprobe-%d-%d", step, k))
					p, err := newAirProbe(cl, victim, dir, step > 0)
					if err != nil {
						return
					}
					defer p.close()
					var bz []byte
					func() {
						defer func() { recover() }() // crashes are C18's concern
						path, err := p.am.ProcessOperation(muts[k].Op, true)
						if err != nil {
							return
						}
						bz, _ = os.ReadFile(path)
					}()
					if bz == nil {
						return
					}
					name, found := findSecret(bz, secrets)
					mu.Lock()
					defer mu.Unlock()
					files++
					searches += len(secrets)
					isErr := strings.Contains(string(bz), "error")
					if isErr {
						errFiles++
					}
					if found {
						fail("secret-in-output", fmt.Sprintf("the result file of a %s operation (%s) contains the machine's %s", o.Type, muts[k].Label, name),
							map[string]interface{}{"operation": string(o.Type), "mutation": muts[k].Label, "secret": name, "n": cf.n, "t": cf.t, "error_result": isErr})
					}
				}(k)
			}
			wg.Wait()
			cl.Machines[victim] = reopen(cl, victim)
			if step > 0 {
				cl.Machines[victim].ReplayOperationsLog(cl.Round)
			}
			events[string(o.Type)] += len(muts)
			step++
			_, err := answerViaFile(cl, i, o)
			return true, err
		}
		cl.RunToQuiescenceWith(func(cands []int) int { return 0 }, handle)
		cl.ProposeBatch(0, "c04err-batch", []requests.SigningTask{{MessageID: "d1", File: "f", Payload: []byte("document")}})
		cl.RunToQuiescenceWith(func(cands []int) int { return 0 }, handle)
		cl.Close()
	}
	c.Case("error-results", true, fmt.Sprintf("skip c04err %d", files), fmt.Sprintf("skip c04err %d", files))
	c.Notes["result_files_searched"] = files
	c.Notes["error_result_files"] = errFiles
	c.Notes["secret_searches"] = searches
	c.Notes["mutants_per_operation"] = events
}
