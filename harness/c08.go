package main

import (
	"context"
	"fmt"
	"github.com/lidofinance/dc4bc/fsm/types/requests"
	"strings"
	"time"

	"github.com/lidofinance/dc4bc/storage"
)

func init() {
	scenarios["c08"] = scenarioC08
}

// roundProj extracts the projection of one round (FSM dump + signatures) from a snapshot.
func roundProj(snapshot, round string) string {
	rt := fmt.Sprintf("r%d ", tok.Tok(round))
	out := ""
	if i := strings.Index(snapshot, "["+rt); i >= 0 || strings.Contains(snapshot, ", "+rt) {
		if i < 0 {
			i = strings.Index(snapshot, ", "+rt) + 1
		}
		rest := snapshot[i+1:]
		j := strings.Index(rest, " , r")
		k := strings.Index(rest, "] OPS")
		if j < 0 || (k >= 0 && k < j) {
			j = k
		}
		out = rest[:j]
	}
	st := fmt.Sprintf(" r%d<", tok.Tok(round))
	if i := strings.Index(snapshot, st); i >= 0 {
		rest := snapshot[i:]
		j := strings.Index(rest, ">")
		out += " SIGS" + rest[:j+1]
	}
	return out
}

func restartItem() Item {
	return Item{In: NInput{Kind: "restart"}, Line: fmt.Sprintf("now %d restart", NOWMARK), Label: "restart"}
}

func scenarioC08(c *Ctx) {
	w := NewWorld(3, 2, 1)
	me := w.Users[0]
	rA, rB := "round-c08-A", "round-c08-B"
	hA, hB := w.Honest(rA, me), w.Honest(rB, me)
	// a second node's broadcast of the reconstructed signatures, and a late answer
	tasks := w.Tasks("batch-A")
	var sigsPayload []map[string]interface{}
	for _, t := range tasks {
		sigsPayload = append(sigsPayload, map[string]interface{}{"File": t.File, "BatchID": "batch-A", "MessageID": t.MessageID, "SrcPayload": t.Payload, "Signature": w.KS.Full(t.Payload)})
	}
	withTail := func(round string, h []Item) []Item {
		out := append([]Item{}, h...)
		out = append(out, w.Msg(round, "signature_reconstructed", sigsPayload, w.Users[1], "", w.Users[1], NOWMARK, "broadcast"))
		out = append(out, w.Msg(round, "event_signing_partial_sign_received", w.PartialReq("batch-A", 2, tasks), w.Users[2], "", w.Users[2], NOWMARK, "late-partial"))
		return out
	}
	hA, hB = withTail(rA, hA), withTail(rB, hB)
	fail := func(kind, what string, rep map[string]interface{}) {
		c.Fail(Failure{Property: "C08", Kind: kind, Signature: map[string]interface{}{"kind": kind}, What: what, Replay: rep})
	}
	// reference: round A alone
	ref := runHistory(c, me, hA)
	refA := roundProj(ref.After, rA)
	if refA == "" {
		panic("reference projection empty")
	}
	var cases []HistCase
	cases = append(cases, HistCase{Kind: "alone", User: me, Items: hA})
	check := func(label string) func(o RunObs) {
		return func(o RunObs) {
			if got := roundProj(o.After, rA); got != refA {
				fail("round-state-depends-on-more-than-its-sublog", "the state of a round differs from the state reached from its own sub-log alone ("+label+")",
					map[string]interface{}{"variant": label, "expected": refA, "observed": got})
			}
		}
	}
	nvar := 12
	if !c.Quick() {
		nvar = 600
	}
	for v := 0; v < nvar; v++ {
		// (1) random interleaving with another round on the same board
		var merged []Item
		i, j := 0, 0
		for i < len(hA) || j < len(hB) {
			if j >= len(hB) || (i < len(hA) && c.Rng.Intn(2) == 0) {
				merged = append(merged, hA[i])
				i++
			} else {
				merged = append(merged, hB[j])
				j++
			}
		}
		cases = append(cases, HistCase{Kind: "interleaved", User: me, Items: merged, Check: check("interleaved with another round")})
		// (2) restarts at random points
		var rs []Item
		for _, it := range hA {
			rs = append(rs, it)
			if c.Rng.Intn(5) == 0 {
				rs = append(rs, restartItem())
			}
		}
		cases = append(cases, HistCase{Kind: "restarts", User: me, Items: rs, Check: check("restarts")})
		// (3) immediate duplicates, signature-mutated copies (refused, C09) and junk carrying OTHER
		// round identifiers in between.  (Extra well-formed messages carrying round A's identifier
		// would belong to A's sub-log and may legitimately change it.)
		var dj []Item
		for k, it := range hA {
			dj = append(dj, it)
			switch c.Rng.Intn(5) {
			case 0:
				dj = append(dj, it) // duplicate delivery
			case 1:
				if k > 0 {
					ms := sigMutants(w, it)
					dj = append(dj, ms[c.Rng.Intn(len(ms))])
				}
			case 2:
				js := junkAt(w, "round-c08-junk", NOWMARK, false)
				dj = append(dj, js[c.Rng.Intn(len(js)-3)])
			}
		}
		cases = append(cases, HistCase{Kind: "duplicates-junk", User: me, Items: dj, Check: check("duplicates, junk and mutated copies")})
	}
	// (3a) a stranger's opening proposal under round A's identifier plus white space (another round as
	// far as the board is concerned; opening proposals are not signature-checked): it belongs to
	// another sub-log and must not touch what the node holds for round A
	for _, suffix := range []string{" ", "\t", "\n"} {
		var evil []*requests.SignatureProposalParticipantsEntry
		for i, u := range w.Users {
			evil = append(evil, &requests.SignatureProposalParticipantsEntry{Username: u, PubKey: userKey("stranger").Pub, DkgPubKey: []byte(fmt.Sprintf("dkgpubkey--%d", i))})
		}
		k := 3 + c.Rng.Intn(len(hA)-4)
		items := append([]Item{}, hA[:k]...)
		items = append(items, w.Msg(rA+suffix, "event_sig_proposal_init", requests.SignatureProposalParticipantsListRequest{Participants: evil, SigningThreshold: 2, CreatedAt: T(5)}, "stranger", "", "stranger", NOWMARK, "proposal-under-a-look-alike-identifier"))
		items = append(items, hA[k:]...)
		cases = append(cases, HistCase{Kind: "look-alike-identifier", User: me, Items: items, Check: check("an opening proposal under this round's identifier plus white space")})
	}
	// (3b) a broadcast of round B whose entries NAME round A (the field is sender-controlled): it
	// belongs to round B's sub-log and must not touch what the node holds for round A
	{
		var foreign []map[string]interface{}
		for _, t := range tasks {
			foreign = append(foreign, map[string]interface{}{"File": t.File, "BatchID": "batch-A", "MessageID": t.MessageID, "SrcPayload": t.Payload,
				"Signature": []byte("not-a-signature"), "DKGRoundID": rA, "Username": w.Users[2]})
		}
		items := append(append([]Item{}, hA...), hB...)
		items = append(items, w.Msg(rB, "signature_reconstructed", foreign, w.Users[2], "", w.Users[2], NOWMARK, "broadcast-naming-another-round"))
		cases = append(cases, HistCase{Kind: "broadcast-naming-another-round", User: me, Items: items, Check: check("a broadcast of another round whose entries name this round")})
	}
	cases = append(cases, reinitCases(c, w, "C08")...)
	runCases(c, cases)
	c08Clock(c)

	// (4) replay through the REAL Poll loop: the whole log is on the board, the node starts from an
	// empty state and must reach the same round state
	e := NewNodeEnv(newEnvDir(c), me)
	defer e.Close()
	writer := NewNodeEnv(newEnvDir(c), "writer")
	defer writer.Close()
	e.Rounds[rA] = true
	var msgs []storage.Message
	for _, it := range hA {
		if it.In.Kind == "msg" {
			msgs = append(msgs, it.In.Msg)
		}
	}
	if err := e.Board.Send(msgs...); err != nil {
		panic(err)
	}
	ctx, cancel := context.WithCancel(context.Background())
	pe := e.PollNode(ctx)
	done := make(chan error, 1)
	go func() { done <- pe.Poll() }()
	// wait until the loop has consumed the whole board, its own broadcast included (the board grows
	// while it runs); generous deadline: a slow machine must not look like a different state
	deadline := time.Now().Add(60 * time.Second)
	stable := 0
	for time.Now().Before(deadline) && stable < 3 {
		off, _ := pe.GetStateOffset()
		onBoard, _ := e.Board.GetMessages(0)
		if off >= uint64(len(msgs)) && off >= uint64(len(onBoard)) {
			stable++
		} else {
			stable = 0
		}
		time.Sleep(400 * time.Millisecond)
	}
	cancel()
	<-done
	got := roundProj(e.Snapshot(), rA)
	// the live loop also consumes what the node itself appended to the board (its broadcast of the
	// reconstructed signatures): the message-by-message reference gets those messages at the end
	all, err := e.Board.GetMessages(0)
	if err != nil {
		panic(err)
	}
	ext := append([]Item{}, hA...)
	for _, m := range all[len(msgs):] {
		_, desc := w.sign(me, m.Data)
		m.ID, m.Offset = "", 0
		ext = append(ext, mkItem(m, desc, NOWMARK, "own-broadcast"))
	}
	ref2 := runHistory(c, me, ext)
	c.Case("poll-replay-reference", true, caseLine(me, ext), ref2.Line())
	refA = roundProj(ref2.After, rA)
	if got != refA {
		fail("poll-replay-differs", "a node rebuilt by the real Poll loop from the board log does not reach the state of the node that processed the log message by message",
			map[string]interface{}{"expected": refA, "observed": got})
	}
	c.Notes["histories"] = len(cases)
}

// c08sparse: what a board entry says must not depend on which other entries were read in the same
// call - two nodes whose polls were split differently would otherwise see different sub-logs
func scenarioC08Sparse(c *Ctx) {
	c16SparseLines(c, func(kind, what string, rep map[string]interface{}) {
		c.Fail(Failure{Property: "C08", Kind: kind, Signature: map[string]interface{}{"kind": kind}, What: what, Replay: rep})
	})
}

func init() { scenarios["c08sparse"] = scenarioC08Sparse }
