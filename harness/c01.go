package main

import (
	"encoding/json"
	"fmt"
	"math/big"
	"os"
	"sort"
	"strings"
	"time"

	"github.com/corestario/kyber"
	prysmBLS "github.com/prysmaticlabs/prysm/v3/crypto/bls"

	"github.com/lidofinance/dc4bc/client/api/dto"
	"github.com/lidofinance/dc4bc/client/services/node"
	ctypes "github.com/lidofinance/dc4bc/client/types"
	fsmtypes "github.com/lidofinance/dc4bc/fsm/types"
	"github.com/lidofinance/dc4bc/pkg/utils"
	"github.com/lidofinance/dc4bc/fsm/state_machines"
	"github.com/lidofinance/dc4bc/fsm/types/requests"
	"github.com/lidofinance/dc4bc/fsm/types/responses"
)

func init() {
	scenarios["c01"] = scenarioC01
}

func scalarDec(s kyber.Scalar) string {
	bz, err := s.MarshalBinary()
	if err != nil {
		panic(err)
	}
	return new(big.Int).SetBytes(bz).String()
}

func prysmVerify(pub kyber.Point, msg, sig []byte) bool {
	pk, err := pub.MarshalBinary()
	if err != nil {
		return false
	}
	return prysmVerifyBytes(pk, msg, sig)
}

func prysmVerifyBytes(pk, msg, sig []byte) bool {
	ppk, err := prysmBLS.PublicKeyFromBytes(pk)
	if err != nil {
		return false
	}
	ps, err := prysmBLS.SignatureFromBytes(sig)
	if err != nil {
		return false
	}
	return ps.Verify(ppk, msg)
}

// signingInstance builds a round instance in the signing phase from a crafted dump
func signingInstance(ks *KeySet, round string, pubKeys int) *state_machines.FSMInstance {
	pks := map[string][]byte{}
	for i := 0; i < pubKeys; i++ {
		pks[fmt.Sprintf("user%d", i)] = []byte("k")
	}
	dump := map[string]interface{}{"TransactionId": round, "State": "state_signing_await_partial_signs",
		"Payload": map[string]interface{}{"DkgId": round, "Threshold": ks.T, "PubKeys": pks,
			"DKGProposalPayload": map[string]interface{}{"PubPolyBz": ks.PolyBz}}}
	bz, _ := json.Marshal(dump)
	inst, err := state_machines.FromDump(bz)
	if err != nil {
		panic(err)
	}
	return inst
}

func subsetsAtLeast(n, t int) [][]int {
	var out [][]int
	for mask := 1; mask < 1<<uint(n); mask++ {
		var s []int
		for i := 0; i < n; i++ {
			if mask&(1<<uint(i)) != 0 {
				s = append(s, i)
			}
		}
		if len(s) >= t {
			out = append(out, s)
		}
	}
	return out
}

func scenarioC01(c *Ctx) {
	fail := func(kind, what string, rep map[string]interface{}) {
		c.Fail(Failure{Property: "C01", Kind: kind, Signature: map[string]interface{}{"kind": kind}, What: what, Replay: rep})
	}
	type cfg struct{ n, t int }
	cfgs := []cfg{{2, 2}, {3, 2}, {4, 3}, {5, 2}}
	orders := 3
	if !c.Quick() {
		cfgs = []cfg{{2, 2}, {3, 2}, {3, 3}, {4, 2}, {4, 3}, {5, 2}, {5, 3}, {6, 4}, {7, 3}, {9, 5}}
		orders = 8
	}
	payloads := [][]byte{[]byte("payload-1"), []byte("payload-2")}
	recoveries := 0
	for ci, cf := range cfgs {
		ks := NewKeySet(10+ci, cf.t, cf.n)
		round := fmt.Sprintf("round-c01-%d", ci)
		inst := signingInstance(ks, round, cf.n)
		tasks := []requests.SigningTask{{MessageID: "m1", File: "f1", Payload: payloads[0]}, {MessageID: "m2", File: "f2", Payload: payloads[1]}}
		src, _ := json.Marshal(tasks)
		groupKey := ks.Pub.Commit()
		secret := scalarDec(ks.Pri.Secret())
		subs := subsetsAtLeast(cf.n, cf.t)
		if len(subs) > 40 {
			c.Rng.Shuffle(len(subs), func(i, j int) { subs[i], subs[j] = subs[j], subs[i] })
			subs = subs[:40]
		}
		var reference [][]byte
		for _, S := range subs {
			for o := 0; o < orders; o++ {
				perm := append([]int{}, S...)
				if o > 0 {
					c.Rng.Shuffle(len(perm), func(i, j int) { perm[i], perm[j] = perm[j], perm[i] })
				}
				// the FSM lists contributors in ascending participant order; the order of arrival is
				// reflected by which t of them are present (every prefix of the arrival order of size t)
				first := append([]int{}, perm[:cf.t]...)
				sort.Ints(first)
				resp := responses.SigningProcessParticipantResponse{BatchID: "b", SrcPayload: src}
				for _, i := range first {
					ps := map[string][]byte{}
					for _, t := range tasks {
						ps[t.MessageID] = ks.Partial(i, t.Payload)
					}
					resp.Participants = append(resp.Participants, &responses.SigningProcessParticipantEntry{ParticipantId: i, Username: fmt.Sprintf("user%d", i), PartialSigns: ps})
				}
				sigs, err := node.VerifReconstructThresholdSignature(inst, resp)
				recoveries++
				rep := map[string]interface{}{"n": cf.n, "t": cf.t, "signers": fmt.Sprint(first)}
				if err != nil {
					fail("recovery-refused", fmt.Sprintf("reconstruction from %d correct partial signatures was refused: %v", len(first), err), rep)
					continue
				}
				sort.Slice(sigs, func(a, b int) bool { return sigs[a].MessageID < sigs[b].MessageID })
				if len(sigs) != len(tasks) {
					fail("recovery-count", "not every message of the batch got a signature", rep)
					continue
				}
				for k, sg := range sigs {
					if !prysmVerify(groupKey, tasks[k].Payload, sg.Signature) {
						fail("signature-invalid", "a reconstructed signature does not verify under the group key (Ethereum BLS verifier) over the proposed payload", rep)
					}
					if string(sg.SrcPayload) != string(tasks[k].Payload) {
						fail("payload-differs", "the payload stored next to the signature is not the proposed one", rep)
					}
					if reference == nil || len(reference) <= k {
						reference = append(reference, sg.Signature)
					} else if string(reference[k]) != string(sg.Signature) {
						fail("signatures-differ", "two signer subsets reconstruct different signatures for the same message", rep)
					}
				}
				// the model combines the same shares in Z_r: must give the group secret
				var sb strings.Builder
				sb.WriteString("lag")
				for _, i := range first {
					fmt.Fprintf(&sb, " %d %s", i+1, scalarDec(ks.Shares[i].V))
				}
				c.Case(fmt.Sprintf("lagrange-n%d-t%d", cf.n, cf.t), true, sb.String(), "lag "+secret)
			}
		}
		// refusals: t-1 signers, a junk share among the first t, a duplicated index
		mk := func(ids []int, mutate func(i int, sig []byte) []byte) responses.SigningProcessParticipantResponse {
			resp := responses.SigningProcessParticipantResponse{BatchID: "b", SrcPayload: src}
			for _, i := range ids {
				ps := map[string][]byte{}
				for _, t := range tasks {
					ps[t.MessageID] = mutate(i, ks.Partial(i, t.Payload))
				}
				resp.Participants = append(resp.Participants, &responses.SigningProcessParticipantEntry{ParticipantId: i, Username: fmt.Sprintf("user%d", i), PartialSigns: ps})
			}
			return resp
		}
		id := func(_ int, s []byte) []byte { return s }
		var firstT []int
		for i := 0; i < cf.t; i++ {
			firstT = append(firstT, i)
		}
		if _, err := node.VerifReconstructThresholdSignature(inst, mk(firstT[:cf.t-1], id)); err == nil {
			fail("too-few-accepted", "a signature was reconstructed from t-1 partial signatures", map[string]interface{}{"n": cf.n, "t": cf.t})
		}
		if _, err := node.VerifReconstructThresholdSignature(inst, mk(firstT, func(i int, s []byte) []byte {
			if i == 0 {
				s = append([]byte{}, s...)
				s[len(s)-1] ^= 1
			}
			return s
		})); err == nil {
			fail("junk-accepted", "a signature was reconstructed although one of the t partial signatures is corrupt", map[string]interface{}{"n": cf.n, "t": cf.t})
		}
		// one of the t answers does not cover the whole batch (a faulty participant's answer lacks m2):
		// whatever the node then reconstructs, broadcasts or stores must still be a valid signature -
		// for m2 there are only t-1 shares, so there is nothing to reconstruct
		{
			resp := mk(firstT, id)
			delete(resp.Participants[0].PartialSigns, "m2")
			sigs, err := node.VerifReconstructThresholdSignature(inst, resp)
			if err == nil {
				for _, sg := range sigs {
					if !prysmVerify(groupKey, sg.SrcPayload, sg.Signature) {
						fail("incomplete-answer-yields-invalid-signature", fmt.Sprintf("an answer that lacks one message of the batch makes the node reconstruct a value for %s from fewer than t shares; it does not verify under the group key", sg.MessageID), map[string]interface{}{"n": cf.n, "t": cf.t, "message": sg.MessageID})
					}
				}
			}
		}
		if cf.n > cf.t {
			other := NewKeySet(30+ci, cf.t, cf.n)
			if _, err := node.VerifReconstructThresholdSignature(inst, mk(firstT, func(i int, s []byte) []byte {
				if i == 0 {
					return other.Partial(0, payloads[0])
				}
				return s
			})); err == nil {
				fail("foreign-share-accepted", "a partial signature made with a share of another key was combined", map[string]interface{}{"n": cf.n, "t": cf.t})
			}
		}
	}
	// real ceremonies on real nodes and airgapped machines: every node stores the same valid signature
	ccfgs := []cfg{{3, 2}, {5, 2}}
	if !c.Quick() {
		ccfgs = []cfg{{3, 2}, {4, 3}, {2, 2}}
	}
	for ci, cf := range ccfgs {
		cl := NewCluster(newEnvDir(c), cf.n, cf.t, fmt.Sprintf("c01-%d", ci))
		cl.Propose(0)
		cl.RunToQuiescence(func(cands []int) int { return c.Rng.Intn(len(cands)) }, nil)
		krs, err := cl.Machines[0].GetBLSKeyrings()
		if err != nil || krs[cl.Round] == nil {
			fail("ceremony-failed", "a fault-free key generation did not finish", map[string]interface{}{"n": cf.n, "t": cf.t})
			cl.Close()
			continue
		}
		groupKey := krs[cl.Round].PubPoly.Commit()
		batches := 3
		for b := 0; b < batches; b++ {
			tasks := []requests.SigningTask{{MessageID: fmt.Sprintf("doc-%d-a", b), File: "a.txt", Payload: []byte(fmt.Sprintf("document %d a", b))},
				{MessageID: fmt.Sprintf("doc-%d-b", b), File: "b b.txt", Payload: []byte(fmt.Sprintf("document %d b", b))}}
			cl.ProposeBatch(1%cf.n, fmt.Sprintf("batch-%d", b), tasks)
			// a seeded subset of exactly t participants answers; the others stay silent
			perm := c.Rng.Perm(cf.n)
			answer := map[int]bool{}
			for _, i := range perm[:cf.t] {
				answer[i] = true
			}
			if b < 2 {
				cl.RunToQuiescence(func(cands []int) int { return c.Rng.Intn(len(cands)) }, func(i int, o *ctypes.Operation) bool { return answer[i] })
			} else {
				// the third batch is signed in the SECOND WEEK after the key generation: the answers carry
				// a creation time eight days later (a key is used for months; no deadline ends its life)
				cl.RunToQuiescenceWith(func(cands []int) int { return c.Rng.Intn(len(cands)) }, func(i int, o *ctypes.Operation) (bool, error) {
					if !answer[i] {
						return false, nil
					}
					_, err := answerShifted(cl, i, o, 8*24*time.Hour)
					return true, err
				})
			}
			var ref map[string]string
			for i := range cl.Nodes {
				got := cl.StoredSignatures(i, fmt.Sprintf("batch-%d", b))
				for _, t := range tasks {
					sgs := got[t.MessageID]
					okOne := false
					for _, sg := range sgs {
						if len(sg) == 0 {
							continue
						}
						okOne = true
						if !prysmVerify(groupKey, t.Payload, sg) {
							fail("signature-invalid", "a stored signature does not verify under the round's group key over the proposed payload", map[string]interface{}{"n": cf.n, "t": cf.t, "node": i, "message": t.MessageID})
						}
						if ref == nil {
							ref = map[string]string{}
						}
						if r, ok := ref[t.MessageID]; ok && r != string(sg) {
							fail("signatures-differ", "two nodes store different signatures for the same message", map[string]interface{}{"n": cf.n, "t": cf.t, "message": t.MessageID})
						}
						ref[t.MessageID] = string(sg)
					}
					if !okOne {
						fail("signature-missing", "a node does not store a reconstructed signature although t participants answered", map[string]interface{}{"n": cf.n, "t": cf.t, "node": i, "message": t.MessageID})
					}
				}
			}
			c.Case("cluster-batch", true, fmt.Sprintf("skip c01-cluster-%d-%d", ci, b), fmt.Sprintf("skip c01-cluster-%d-%d", ci, b))
		}
		// the export (what `dc4bc_cli export_signatures` hands to the batch verifier): all batches of
		// the round flattened - one further batch has been proposed and reached every node but nobody
		// has answered it yet. Every signature in the dump must verify under the group key over the
		// payload exported next to it, and that payload must be the proposed one
		pending := []requests.SigningTask{{MessageID: "doc-pending", File: "pending.txt", Payload: []byte("a document nobody has signed yet")}}
		cl.ProposeBatch(0, "batch-pending", pending)
		cl.RunToQuiescence(func(cands []int) int { return c.Rng.Intn(len(cands)) }, func(i int, o *ctypes.Operation) bool { return false })
		proposed := map[string][]byte{"doc-pending": pending[0].Payload}
		for b := 0; b < batches; b++ {
			proposed[fmt.Sprintf("doc-%d-a", b)] = []byte(fmt.Sprintf("document %d a", b))
			proposed[fmt.Sprintf("doc-%d-b", b)] = []byte(fmt.Sprintf("document %d b", b))
		}
		for i := range cl.Nodes {
			bz, _ := cl.Nodes[i].St.Get("signatures_" + cl.Round)
			var st map[string]map[string][]fsmtypes.ReconstructedSignature
			if json.Unmarshal(bz, &st) != nil {
				continue
			}
			flat := map[string][]fsmtypes.ReconstructedSignature{}
			for _, batch := range st {
				for id, entries := range batch {
					flat[id] = entries
				}
			}
			for attempt := 0; attempt < 40; attempt++ { // the dump is built by ranging over a map
				dump, err := utils.PrepareSignaturesToDump(flat)
				if err != nil {
					break
				}
				bad := ""
				for id, e := range *dump {
					want, ok := proposed[id]
					if !ok || string(want) != string(e.Payload) {
						bad = fmt.Sprintf("message %s is exported with a payload that was not proposed for it", id)
					} else if len(e.Signature) > 0 && !prysmVerify(groupKey, e.Payload, e.Signature) {
						bad = fmt.Sprintf("the signature exported for message %s (file %s) is not a signature of the exported payload under the group key", id, e.File)
					}
				}
				if bad != "" {
					fail("export-invalid", bad, map[string]interface{}{"n": cf.n, "t": cf.t, "node": i, "attempt": attempt})
					break
				}
			}
		}
		cl.Close()
	}
	c.Notes["recoveries"] = recoveries
}

// answerShifted: the machine answers the operation; before the result goes to the node the creation
// time inside every result message is moved by `shift` (as if the operator had signed that much later).
func answerShifted(cl *Cluster, i int, o *ctypes.Operation, shift time.Duration) (*ctypes.Operation, error) {
	path, err := cl.Machines[i].ProcessOperation(*o, true)
	if err != nil {
		return nil, err
	}
	bz, err := os.ReadFile(path)
	if err != nil {
		return nil, err
	}
	var res ctypes.Operation
	if err := json.Unmarshal(bz, &res); err != nil {
		return nil, err
	}
	for k := range res.ResultMsgs {
		var m map[string]interface{}
		if json.Unmarshal(res.ResultMsgs[k].Data, &m) != nil {
			continue
		}
		if s, ok := m["CreatedAt"].(string); ok {
			if t, err := time.Parse(time.RFC3339Nano, s); err == nil {
				m["CreatedAt"] = t.Add(shift)
				res.ResultMsgs[k].Data, _ = json.Marshal(m)
			}
		}
	}
	return &res, cl.Nodes[i].Node.ProcessOperation(&dto.OperationDTO{ID: res.ID, Type: string(res.Type), Payload: res.Payload, ResultMsgs: res.ResultMsgs,
		CreatedAt: res.CreatedAt, DkgID: res.DKGIdentifier, To: res.To, Event: res.Event, ExtraData: res.ExtraData})
}
