module verifharness

go 1.19

require github.com/lidofinance/dc4bc v0.0.0

require (
	github.com/ferranbt/fastssz v0.1.1 // indirect
	github.com/klauspost/cpuid/v2 v2.2.1 // indirect
	github.com/minio/sha256-simd v1.0.0 // indirect
	github.com/mitchellh/mapstructure v1.4.2 // indirect
	gopkg.in/yaml.v2 v2.4.0 // indirect
)

replace github.com/lidofinance/dc4bc => /repo
