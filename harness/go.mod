module verifharness

go 1.19

require (
	github.com/corestario/kyber v1.6.0
	github.com/labstack/echo/v4 v4.9.0
	github.com/lidofinance/dc4bc v0.0.0
	github.com/prysmaticlabs/prysm/v3 v3.2.1
	github.com/syndtr/goleveldb v1.0.1-0.20220721030215-126854af5e6d
	github.com/tyler-smith/go-bip39 v1.1.0
	go.dedis.ch/protobuf v1.0.11
	golang.org/x/crypto v0.3.0
)

require (
	github.com/aead/chacha20 v0.0.0-20180709150244-8b13a72661da // indirect
	github.com/censync/go-dto v1.0.6 // indirect
	github.com/censync/go-validator v1.0.0 // indirect
	github.com/ethereum/go-ethereum v1.10.25 // indirect
	github.com/ferranbt/fastssz v0.1.1 // indirect
	github.com/golang/snappy v0.0.4 // indirect
	github.com/google/go-cmp v0.5.9 // indirect
	github.com/google/uuid v1.3.0 // indirect
	github.com/hashicorp/golang-lru v0.5.5-0.20210104140557-80c98217689d // indirect
	github.com/herumi/bls-eth-go-binary v0.0.0-20210917013441-d37c07cfda4e // indirect
	github.com/juju/fslock v0.0.0-20160525022230-4d5c94c67b4b // indirect
	github.com/kilic/bls12-381 v0.0.0-20200820230200-6b2c19996391 // indirect
	github.com/klauspost/compress v1.15.12 // indirect
	github.com/klauspost/cpuid/v2 v2.2.1 // indirect
	github.com/labstack/gommon v0.3.1 // indirect
	github.com/mattn/go-colorable v0.1.11 // indirect
	github.com/mattn/go-isatty v0.0.16 // indirect
	github.com/minio/sha256-simd v1.0.0 // indirect
	github.com/mitchellh/mapstructure v1.4.2 // indirect
	github.com/mohae/deepcopy v0.0.0-20170929034955-c48cc78d4826 // indirect
	github.com/pierrec/lz4 v2.6.0+incompatible // indirect
	github.com/pkg/errors v0.9.1 // indirect
	github.com/prysmaticlabs/fastssz v0.0.0-20220628121656-93dfe28febab // indirect
	github.com/prysmaticlabs/gohashtree v0.0.2-alpha // indirect
	github.com/segmentio/kafka-go v0.4.23 // indirect
	github.com/sirupsen/logrus v1.8.1 // indirect
	github.com/supranational/blst v0.3.10 // indirect
	github.com/thomaso-mirodin/intmath v0.0.0-20160323211736-5dc6d854e46e // indirect
	github.com/valyala/bytebufferpool v1.0.0 // indirect
	github.com/valyala/fasttemplate v1.2.1 // indirect
	go.dedis.ch/fixbuf v1.0.3 // indirect
	golang.org/x/net v0.3.0 // indirect
	golang.org/x/sys v0.3.0 // indirect
	golang.org/x/text v0.5.0 // indirect
	gopkg.in/yaml.v2 v2.4.0 // indirect
	lukechampine.com/frand v1.4.2 // indirect
)

replace github.com/lidofinance/dc4bc => /repo
