package main

import (
	"crypto/md5"
	"encoding/base64"
	"encoding/hex"
	"encoding/json"
	"fmt"
	"sort"
	"strings"
	"sync"
	"time"

	"github.com/lidofinance/dc4bc/client/api/dto"
	ctypes "github.com/lidofinance/dc4bc/client/types"
	"github.com/lidofinance/dc4bc/fsm/fsm"
	"github.com/lidofinance/dc4bc/storage"
)

func init() {
	scenarios["c15"] = scenarioC15
}

func opIDOf(round string, payload []byte) string {
	s := md5.Sum([]byte(fmt.Sprintf("%s_%s", round, base64.StdEncoding.EncodeToString(payload))))
	return hex.EncodeToString(s[:])
}

// pendingOps reads the operation pool as the API would (visible = not tombstoned).
// waitOrHang waits for the group; false when the requests have not all returned after the limit (the
// goroutines are abandoned: the node they run on must not be used any further)
func waitOrHang(wg *sync.WaitGroup, limit time.Duration) bool {
	done := make(chan struct{})
	go func() { wg.Wait(); close(done) }()
	select {
	case <-done:
		return true
	case <-time.After(limit):
		return false
	}
}

func pendingOps(e *NodeEnv) []*ctypes.Operation {
	ob, _ := e.St.Get(topic + "_operations")
	db, _ := e.St.Get(topic + "_deleted_operations")
	ops, del := map[string]*ctypes.Operation{}, map[string]*ctypes.Operation{}
	json.Unmarshal(ob, &ops)
	json.Unmarshal(db, &del)
	var out []*ctypes.Operation
	for id, o := range ops {
		if _, gone := del[id]; !gone {
			out = append(out, o)
		}
	}
	sort.Slice(out, func(i, j int) bool { return out[i].ID < out[j].ID })
	return out
}

func resultEventFor(typ string) string {
	switch typ {
	case "state_sig_proposal_await_participants_confirmations":
		return "event_sig_proposal_confirm_by_participant"
	case "state_dkg_commits_await_confirmations":
		return "event_dkg_commit_confirm_received"
	case "state_dkg_deals_await_confirmations":
		return "event_dkg_deal_confirm_received"
	case "state_dkg_responses_await_confirmations":
		return "event_dkg_response_confirm_received"
	case "state_dkg_master_key_await_confirmations":
		return "event_dkg_master_key_confirm_received"
	default:
		return "event_signing_partial_sign_received"
	}
}

// resultItem renders an operation result for both sides. known maps operation ids to operations.
func resultItem(d *dto.OperationDTO, known map[string]*ctypes.Operation, label string) Item {
	var sb strings.Builder
	sb.WriteString(fmt.Sprintf("now %d result ", NOWMARK))
	if st, ok := known[d.ID]; ok {
		fmt.Fprintf(&sb, "%d %s %s %d %d", tok.Tok(st.DKGIdentifier), stateStr(string(st.Type)), opPayloadProj(string(st.Type), st.Payload), tok.TokB(st.Payload), tok.TokB(d.Payload))
	} else {
		fmt.Fprintf(&sb, "0 - - 0 %d", tok.TokB(d.Payload))
	}
	fmt.Fprintf(&sb, " %d %s %s %s %d %d", tok.Tok(d.DkgID), stateStr(d.Type), opPayloadProj(d.Type, d.Payload), stateStr(string(d.Event)), tok.TokB(d.ExtraData), len(d.ResultMsgs))
	for _, m := range d.ResultMsgs {
		fmt.Fprintf(&sb, " %s %d %d %d %d", stateStr(m.Event), tok.Tok(m.DkgRoundID), tok.Tok(m.RecipientAddr), tok.TokB(m.Data), tok.Tok(m.SenderAddr))
	}
	return Item{In: NInput{Kind: "result", Result: d, Now: NOWMARK, Label: label}, Line: sb.String(), Label: label}
}

func scenarioC15(c *Ctx) {
	w := NewWorld(3, 2, 1)
	me := w.Users[0]
	round := "round-c15"
	h := w.Honest(round, me)
	var cases []HistCase
	fail := func(kind, what string, rep map[string]interface{}) {
		c.Fail(Failure{Property: "C15", Kind: kind, Signature: map[string]interface{}{"kind": kind}, What: what, Replay: rep})
	}
	// learn which operations are pending after each prefix (implementation run, sequential)
	probe := NewNodeEnv(newEnvDir(c), me)
	known := map[string]*ctypes.Operation{}
	type at struct {
		k   int
		ops []*ctypes.Operation
	}
	var points []at
	for k, it := range h {
		applyItem(probe, it)
		ops := pendingOps(probe)
		for _, o := range ops {
			known[o.ID] = o
			if o.ID != opIDOf(o.DKGIdentifier, o.Payload) {
				fail("operation-id-derivation", "an operation's id is not md5(round_base64(payload))", map[string]interface{}{"id": o.ID})
			}
		}
		points = append(points, at{k + 1, ops})
	}
	probe.Close()
	boardCount := func(s string) string { return s[strings.Index(s, " BOARD "):] }
	for _, pt := range points {
		if len(pt.ops) == 0 || (c.Quick() && pt.k%3 != 1 && pt.k != len(h)) {
			continue
		}
		o := pt.ops[len(pt.ops)-1] // the operation issued most recently
		ev := resultEventFor(string(o.Type))
		mkRes := func(mut func(d *dto.OperationDTO)) *dto.OperationDTO {
			d := &dto.OperationDTO{ID: o.ID, Type: string(o.Type), Payload: append([]byte{}, o.Payload...), CreatedAt: o.CreatedAt, DkgID: o.DKGIdentifier,
				Event: fsm.Event(ev), ResultMsgs: []storage.Message{
					{Event: ev, Data: []byte(fmt.Sprintf(`{"ParticipantId":0,"answer":"%s"}`, o.ID[:6])), DkgRoundID: o.DKGIdentifier},
					{Event: ev, Data: []byte(fmt.Sprintf(`{"ParticipantId":0,"second":"%s"}`, o.ID[:6])), DkgRoundID: o.DKGIdentifier, RecipientAddr: w.Users[1]}}}
			if mut != nil {
				mut(d)
			}
			return d
		}
		prefix := h[:pt.k]
		type variant struct {
			label  string
			d      *dto.OperationDTO
			accept bool
		}
		vs := []variant{
			{"valid", mkRes(nil), true},
			{"claimed-sender", mkRes(func(d *dto.OperationDTO) {
				d.ResultMsgs[0].SenderAddr = w.Users[2]
				d.ResultMsgs[0].Signature = []byte("forged")
			}), true},
			{"request-only", mkRes(func(d *dto.OperationDTO) { d.Event = "" }), false},
			{"unknown-id", mkRes(func(d *dto.OperationDTO) { d.ID = "00000000000000000000000000000000" }), false},
			{"short-id", mkRes(func(d *dto.OperationDTO) { d.ID = "ab" }), false},
			{"type-changed", mkRes(func(d *dto.OperationDTO) { d.Type = "state_dkg_deals_await_confirmations_x" }), false},
			{"payload-changed", mkRes(func(d *dto.OperationDTO) { d.Payload[len(d.Payload)/2] ^= 1 }), false},
			{"payload-truncated", mkRes(func(d *dto.OperationDTO) { d.Payload = d.Payload[:len(d.Payload)-1] }), false},
			{"no-messages", mkRes(func(d *dto.OperationDTO) { d.ResultMsgs = nil }), true},
			// the round is part of what was issued (the answer to a reinit operation is applied to the round its file names)
			{"round-changed", mkRes(func(d *dto.OperationDTO) { d.DkgID = o.DKGIdentifier + "-x" }), false},
			// the event that means "nothing to post" (the answer to a reinit operation) under an ordinary operation
			{"processed-event", mkRes(func(d *dto.OperationDTO) { d.Event = "operation_processed_successfully"; d.ExtraData = []byte("extra") }), false},
			{"processed-event-no-messages", mkRes(func(d *dto.OperationDTO) { d.Event = "operation_processed_successfully"; d.ResultMsgs = nil }), false},
		}
		for _, v := range vs {
			it := resultItem(v.d, known, v.label)
			items := append(append([]Item{}, prefix...), it)
			v, pos := v, pt.k
			cases = append(cases, HistCase{Kind: "result-" + v.label, User: me, Items: items, PrefixKey: fmt.Sprintf("%s/%d", round, pt.k), Check: func(ob RunObs) {
				last := ob.Classes[len(ob.Classes)-1]
				rep := map[string]interface{}{"position": pos, "variant": v.label, "operation_type": string(o.Type), "before": ob.Before, "after": ob.After}
				if last == "panic" {
					fail("api-panic", "an operation result crashes the node: "+v.label, rep)
					return
				}
				if !v.accept {
					if last != "err" || ob.Before != ob.After {
						fail("altered-result-accepted", fmt.Sprintf("an operation result that must be refused (%s) was accepted or had an effect", v.label), rep)
					}
					return
				}
				if last != "ok" {
					fail("valid-result-refused", "the unaltered answer to a pending operation was refused", rep)
					return
				}
				// exactly the result's messages, attributed to and signed by the node, in order
				nb := strings.Count(boardCount(ob.After), "[") - strings.Count(boardCount(ob.Before), "[")
				if nb != len(v.d.ResultMsgs) {
					fail("posted-count", fmt.Sprintf("%d messages posted for a result carrying %d", nb, len(v.d.ResultMsgs)), rep)
				}
				tail := boardCount(ob.After)
				for _, m := range v.d.ResultMsgs {
					want := fmt.Sprintf("[%d %s %d %d signed1 d%d]", tok.Tok(m.DkgRoundID), stateStr(m.Event), tok.Tok(me), tok.Tok(m.RecipientAddr), tok.TokB(m.Data))
					if !strings.Contains(tail, want) {
						fail("posted-content", "a posted message is not the result's message attributed to and signed by the node", rep)
					}
				}
			}})
		}
		// answered twice: the second submission must be refused and post nothing
		d1, d2 := mkRes(nil), mkRes(nil)
		items := append(append([]Item{}, prefix...), resultItem(d1, known, "first"), resultItem(d2, known, "again"))
		pos := pt.k
		cases = append(cases, HistCase{Kind: "result-twice", User: me, Items: items, Check: func(ob RunObs) {
			if ob.Classes[len(ob.Classes)-1] != "err" || ob.Before != ob.After {
				fail("answered-twice", "an operation could be answered a second time", map[string]interface{}{"position": pos, "before": ob.Before, "after": ob.After})
			}
		}})
	}
	// issue, answer, finish the batch, the same proposal again (same operation id), answer again:
	// a retired operation must stay retired
	startIdx := -1
	for i, it := range h {
		if it.In.Msg.Event == "event_signing_start" {
			startIdx = i
		}
	}
	if startIdx >= 0 {
		var signOp *ctypes.Operation
		for _, o := range points[startIdx].ops {
			if string(o.Type) == "state_signing_await_partial_signs" {
				signOp = o
			}
		}
		if signOp != nil {
			mk := func() *dto.OperationDTO {
				return &dto.OperationDTO{ID: signOp.ID, Type: string(signOp.Type), Payload: signOp.Payload, CreatedAt: signOp.CreatedAt, DkgID: signOp.DKGIdentifier,
					Event: "event_signing_partial_sign_received", ResultMsgs: []storage.Message{{Event: "event_signing_partial_sign_received", Data: []byte(`{"reissue":"test"}`), DkgRoundID: signOp.DKGIdentifier}}}
			}
			items := append([]Item{}, h[:startIdx+1]...)
			items = append(items, resultItem(mk(), known, "first-answer"))
			items = append(items, h[startIdx+1:]...)
			items = append(items, h[startIdx])
			items = append(items, resultItem(mk(), known, "answer-after-reissue"))
			cases = append(cases, HistCase{Kind: "result-after-reissue", User: me, Items: items, Check: func(ob RunObs) {
				if ob.Classes[len(ob.Classes)-1] != "err" || ob.Before != ob.After {
					fail("answered-twice", "an operation that had been answered and retired could be answered again after the same operation was issued a second time",
						map[string]interface{}{"classes": strings.Join(ob.Classes, ","), "before": ob.Before, "after": ob.After})
				}
			}})
		}
	}
	runCases(c, cases)
	// the same valid answer submitted by several API requests AT ONCE (a retried upload): exactly one
	// of them may post, whatever the schedule (oracle only: real goroutines, no model case)
	rounds := 12
	if !c.Quick() {
		rounds = 60
	}
	conc := 0
	for _, pt := range points {
		if len(pt.ops) == 0 || conc >= rounds {
			continue
		}
		for rep := 0; rep < 3 && conc < rounds; rep++ {
			conc++
			o := pt.ops[len(pt.ops)-1]
			ev := resultEventFor(string(o.Type))
			e := NewNodeEnv(newEnvDir(c), me)
			for _, it := range h[:pt.k] {
				applyItem(e, it)
			}
			before, _ := e.Board.GetMessages(0)
			const submitters = 4
			var wg sync.WaitGroup
			start := make(chan struct{})
			okc := make(chan bool, submitters)
			for g := 0; g < submitters; g++ {
				wg.Add(1)
				go func() {
					defer wg.Done()
					d := &dto.OperationDTO{ID: o.ID, Type: string(o.Type), Payload: append([]byte{}, o.Payload...), CreatedAt: o.CreatedAt, DkgID: o.DKGIdentifier,
						Event: fsm.Event(ev), ResultMsgs: []storage.Message{{Event: ev, Data: []byte(fmt.Sprintf(`{"ParticipantId":0,"answer":"%s"}`, o.ID[:6])), DkgRoundID: o.DKGIdentifier}}}
					<-start
					okc <- e.applyResult(d) == "ok"
				}()
			}
			close(start)
			if !waitOrHang(&wg, 30*time.Second) {
				fail("concurrent-requests-hang", fmt.Sprintf("%d simultaneous submissions of one valid answer have not all returned after 30 s: the node is stuck", submitters),
					map[string]interface{}{"operation_type": string(o.Type), "simultaneous_requests": submitters})
				break
			}
			close(okc)
			accepted := 0
			for ok := range okc {
				if ok {
					accepted++
				}
			}
			after, _ := e.Board.GetMessages(0)
			e.Close()
			if posted := len(after) - len(before); posted != 1 || accepted != 1 {
				fail("answered-twice", fmt.Sprintf("%d simultaneous submissions of one valid answer: %d accepted, %d messages posted (exactly one of each expected)", submitters, accepted, posted),
					map[string]interface{}{"position": pt.k, "operation_type": string(o.Type), "simultaneous_submissions": submitters})
			}
		}
	}
	// the same for the other API path that answers an operation: several simultaneous
	// approve_participation requests for the pending invitation
	approveRounds := 6
	if !c.Quick() {
		approveRounds = 30
	}
	for r := 0; r < approveRounds; r++ {
		e := NewNodeEnv(newEnvDir(c), me)
		applyItem(e, h[0]) // the opening proposal: the invitation is pending
		ops := pendingOps(e)
		if len(ops) == 0 {
			e.Close()
			break
		}
		o := ops[0]
		before, _ := e.Board.GetMessages(0)
		const submitters = 4
		var wg sync.WaitGroup
		start := make(chan struct{})
		okc := make(chan bool, submitters)
		for g := 0; g < submitters; g++ {
			wg.Add(1)
			go func() {
				defer wg.Done()
				defer func() {
					if x := recover(); x != nil {
						okc <- false
					}
				}()
				<-start
				okc <- e.Node.ApproveParticipation(&dto.OperationIdDTO{OperationID: o.ID}) == nil
			}()
		}
		close(start)
		if !waitOrHang(&wg, 30*time.Second) {
			fail("concurrent-requests-hang", fmt.Sprintf("%d simultaneous approve_participation requests for one invitation have not all returned after 30 s: the node is stuck", submitters),
				map[string]interface{}{"operation_type": string(o.Type), "simultaneous_requests": submitters})
			break
		}
		close(okc)
		accepted := 0
		for ok := range okc {
			if ok {
				accepted++
			}
		}
		after, _ := e.Board.GetMessages(0)
		e.Close()
		if posted := len(after) - len(before); posted != 1 || accepted != 1 {
			fail("answered-twice", fmt.Sprintf("%d simultaneous approve_participation requests for one invitation: %d accepted, %d confirmations posted (exactly one of each expected)", submitters, accepted, posted),
				map[string]interface{}{"operation_type": string(o.Type), "simultaneous_requests": submitters})
		}
	}
	c.Notes["concurrent_duplicate_rounds"] = conc
	c.Notes["concurrent_approve_rounds"] = approveRounds
	c.Notes["histories"] = len(cases)
}
