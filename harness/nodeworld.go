package main

import (
	"crypto/ed25519"
	"encoding/json"
	"fmt"
	"path/filepath"
	"strings"
	"sync"

	"github.com/lidofinance/dc4bc/client/modules/keystore"
	"github.com/lidofinance/dc4bc/fsm/types/requests"
	"github.com/lidofinance/dc4bc/storage"
)

// World: participants with real ed25519 keys, a real threshold key set, message builders.
type World struct {
	N, T  int
	Users []string
	Keys  map[string]*keystore.KeyPair
	KS    *KeySet
}

func NewWorld(n, t, K int) *World {
	w := &World{N: n, T: t, Keys: map[string]*keystore.KeyPair{}}
	for i := 0; i < n; i++ {
		u := fmt.Sprintf("user%d", i)
		w.Users = append(w.Users, u)
		w.Keys[u] = userKey(u)
	}
	for _, u := range []string{"stranger", "mallory"} {
		w.Keys[u] = userKey(u)
	}
	w.KS = NewKeySet(K, t, n)
	return w
}

type Item struct {
	In    NInput
	Line  string // for the model
	Label string
}

func (w *World) sign(signer string, data []byte) ([]byte, string) {
	kp := w.Keys[signer]
	return ed25519.Sign(kp.Priv, data), fmt.Sprintf("by %d %d", tok.TokB(kp.Pub), tok.TokB(data))
}

// Msg builds a board message signed by `signer` (normally the sender) over its data.
func (w *World) Msg(round, event string, reqVal interface{}, sender, recipient, signer string, now int64, label string) Item {
	data, err := json.Marshal(reqVal)
	if err != nil {
		panic(err)
	}
	return w.RawMsg(round, event, data, sender, recipient, signer, now, label)
}

func (w *World) RawMsg(round, event string, data []byte, sender, recipient, signer string, now int64, label string) Item {
	m := storage.Message{DkgRoundID: round, Event: event, Data: data, SenderAddr: sender, RecipientAddr: recipient}
	desc := "none"
	if signer != "" {
		m.Signature, desc = w.sign(signer, data)
	}
	return mkItem(m, desc, now, label)
}

func mkItem(m storage.Message, desc string, now int64, label string) Item {
	return Item{In: NInput{Kind: "msg", Msg: m, SigDesc: desc, Now: now, Label: label},
		Line: fmt.Sprintf("now %d %s", now, msgLine(m, desc)), Label: label}
}

func (w *World) Parts() []*requests.SignatureProposalParticipantsEntry {
	var ps []*requests.SignatureProposalParticipantsEntry
	for i, u := range w.Users {
		ps = append(ps, &requests.SignatureProposalParticipantsEntry{Username: u, PubKey: w.Keys[u].Pub, DkgPubKey: []byte(fmt.Sprintf("dkgpubkey--%d", i))})
	}
	return ps
}

var payloadsPre = []string{"payload-1", "payload-2", "payload-3", "payload-4"}

func init() {
	for _, p := range payloadsPre {
		tok.Tok(p)
	}
}

func (w *World) Tasks(batch string) []requests.SigningTask {
	return []requests.SigningTask{{MessageID: batch + "-m1", File: "f1", Payload: []byte("payload-1")}, {MessageID: batch + "-m2", File: "f2", Payload: []byte("payload-2")}}
}

func (w *World) PartialReq(batch string, i int, tasks []requests.SigningTask) requests.SigningProposalBatchPartialSignRequests {
	var signs []requests.PartialSign
	for _, t := range tasks {
		signs = append(signs, requests.PartialSign{MessageID: t.MessageID, Sign: w.KS.Partial(i, t.Payload)})
		w.KS.Full(t.Payload)
	}
	return requests.SigningProposalBatchPartialSignRequests{BatchID: batch, ParticipantId: i, PartialSigns: signs, CreatedAt: T(100)}
}

// Honest builds the ceremony + one signing batch as seen by node `me`.
func (w *World) Honest(round string, me string) []Item {
	var h []Item
	now := int64(NOWMARK)
	add := func(it Item) { h = append(h, it) }
	u := w.Users
	add(w.Msg(round, "event_sig_proposal_init", requests.SignatureProposalParticipantsListRequest{Participants: w.Parts(), SigningThreshold: w.T, CreatedAt: T(0)}, u[0], "", u[0], now, "init"))
	for i := range u {
		add(w.Msg(round, "event_sig_proposal_confirm_by_participant", requests.SignatureProposalParticipantRequest{ParticipantId: i, CreatedAt: T(10)}, u[i], "", u[i], now, "confirm"))
	}
	for i := range u {
		add(w.Msg(round, "event_dkg_commit_confirm_received", requests.DKGProposalCommitConfirmationRequest{ParticipantId: i, Commit: []byte(fmt.Sprintf("commit-%d", i)), CreatedAt: T(20)}, u[i], "", u[i], now, "commit"))
	}
	for i := range u {
		// deals are private: the node sees those addressed to it and (for itself) its self-confirmation
		deal := []byte(fmt.Sprintf("deal-%d-to-%s", i, me))
		if u[i] == me {
			deal = []byte("self-confirm")
		}
		add(w.Msg(round, "event_dkg_deal_confirm_received", requests.DKGProposalDealConfirmationRequest{ParticipantId: i, Deal: deal, CreatedAt: T(30)}, u[i], me, u[i], now, "deal"))
	}
	for i := range u {
		add(w.Msg(round, "event_dkg_response_confirm_received", requests.DKGProposalResponseConfirmationRequest{ParticipantId: i, Response: []byte(fmt.Sprintf("response-%d", i)), CreatedAt: T(40)}, u[i], "", u[i], now, "response"))
	}
	for i := range u {
		add(w.Msg(round, "event_dkg_master_key_confirm_received", requests.DKGProposalMasterKeyConfirmationRequest{ParticipantId: i, MasterKey: []byte("masterkey"), PubPolyBz: w.KS.PolyBz, CreatedAt: T(50)}, u[i], "", u[i], now, "master"))
	}
	tasks := w.Tasks("batch-A")
	add(w.Msg(round, "event_signing_start", requests.SigningBatchProposalStartRequest{BatchID: "batch-A", ParticipantId: 1, CreatedAt: T(90), SigningTasks: tasks}, u[1], "", u[1], now, "start"))
	for i := 0; i < w.T; i++ {
		add(w.Msg(round, "event_signing_partial_sign_received", w.PartialReq("batch-A", i, tasks), u[i], "", u[i], now, "partial"))
	}
	return h
}

// ---- running a history on the implementation ----
type RunObs struct {
	Classes []string
	Before  string // snapshot before the last input
	After   string // snapshot after the last input
}

func (o RunObs) Line() string {
	return fmt.Sprintf("node %s || %s || %s", strings.Join(o.Classes, ","), o.Before, o.After)
}

var envSeq struct {
	sync.Mutex
	n int
}

func runHistory(c *Ctx, user string, items []Item) RunObs {
	envSeq.Lock()
	envSeq.n++
	dir := filepath.Join(c.OutDir, fmt.Sprintf("env-%d", envSeq.n))
	envSeq.Unlock()
	e := NewNodeEnv(dir, user)
	defer e.Close()
	var o RunObs
	for i, it := range items {
		if i == len(items)-1 {
			o.Before = e.Snapshot()
		}
		o.Classes = append(o.Classes, applyItem(e, it))
	}
	o.After = e.Snapshot()
	return o
}

func caseLine(user string, items []Item) string {
	var ls []string
	for _, it := range items {
		ls = append(ls, it.Line)
	}
	return fmt.Sprintf("node %d %d | %s", tok.Tok(user), tok.TokB(userKey(user).Pub), strings.Join(ls, " ;; "))
}

// parallel execution of histories, results in input order.  Cases that share a prefix (same
// PrefixKey) run the prefix once; each case then continues on its own copy of the state
// directory and of the board file.
type HistCase struct {
	Kind      string
	User      string
	Items     []Item
	PrefixKey string // non-empty: Items[:len-1] is shared by all cases with this key
	Check     func(o RunObs)
}

func applyItem(e *NodeEnv, it Item) string {
	switch it.In.Kind {
	case "msg":
		return e.applyMsg(it.In.Msg)
	case "result":
		return e.applyResult(it.In.Result)
	case "restart":
		e.Restart()
		return "ok"
	case "crashmsg":
		e.applyCrashMsg(it.In.Msg, it.In.CrashK)
		return "ok"
	case "crashresult":
		e.applyCrashResult(it.In.Result, it.In.CrashK)
		return "ok"
	}
	return "ok"
}

func crashResultItem(it Item, k int) Item {
	in := it.In
	in.Kind, in.CrashK = "crashresult", k
	return Item{In: in, Line: strings.Replace(it.Line, " result ", fmt.Sprintf(" crashresult %d result ", k), 1), Label: fmt.Sprintf("crashresult-%d", k)}
}

func crashItem(it Item, k int) Item {
	in := it.In
	in.Kind, in.CrashK = "crashmsg", k
	return Item{In: in, Line: strings.Replace(it.Line, " msg ", fmt.Sprintf(" crashmsg %d msg ", k), 1), Label: fmt.Sprintf("crash-%d", k)}
}

func newEnvDir(c *Ctx) string {
	envSeq.Lock()
	envSeq.n++
	d := filepath.Join(c.OutDir, fmt.Sprintf("env-%d", envSeq.n))
	envSeq.Unlock()
	return d
}

func runCases(c *Ctx, cases []HistCase) {
	obs := make([]RunObs, len(cases))
	groups := map[string][]int{}
	var order []string
	for i, hc := range cases {
		k := hc.PrefixKey
		if k == "" {
			k = fmt.Sprintf("#%d", i)
		} else {
			k = hc.User + "/" + k
		}
		if _, ok := groups[k]; !ok {
			order = append(order, k)
		}
		groups[k] = append(groups[k], i)
	}
	var wg sync.WaitGroup
	sem := make(chan struct{}, 12)
	for _, k := range order {
		idx := groups[k]
		wg.Add(1)
		sem <- struct{}{}
		go func(idx []int) {
			defer wg.Done()
			defer func() { <-sem }()
			first := cases[idx[0]]
			if len(idx) == 1 || first.PrefixKey == "" {
				for _, i := range idx {
					obs[i] = runHistory(c, cases[i].User, cases[i].Items)
				}
				return
			}
			base := NewNodeEnv(newEnvDir(c), first.User)
			defer base.Close()
			var classes []string
			prefix := first.Items[:len(first.Items)-1]
			for _, it := range prefix {
				classes = append(classes, applyItem(base, it))
			}
			before := base.Snapshot()
			for _, i := range idx {
				e := base.Fork(newEnvDir(c))
				last := cases[i].Items[len(cases[i].Items)-1]
				cl := applyItem(e, last)
				obs[i] = RunObs{Classes: append(append([]string{}, classes...), cl), Before: before, After: e.Snapshot()}
				e.Close()
			}
		}(idx)
	}
	wg.Wait()
	for i, hc := range cases {
		c.Case(hc.Kind, true, caseLine(hc.User, hc.Items), obs[i].Line())
		if hc.Check != nil {
			hc.Check(obs[i])
		}
	}
}
