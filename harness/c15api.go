package main

import (
	"bytes"
	"encoding/json"
	"fmt"
	"net/http"
	"net/http/httptest"

	ctypes "github.com/lidofinance/dc4bc/client/types"
	"github.com/lidofinance/dc4bc/fsm/state_machines"
)

func init() { scenarios["c15api"] = scenarioC15Api }

// scenarioC15Api: "every result the airgapped machine can produce survives the JSON file round trip
// between the two machines unchanged" - through the node's own HTTP API (router, request form,
// validator, DTO conversion): the answer to a reinit operation, the only result that carries
// ExtraData (the public polynomial), is posted to /handleProcessedOperationJSON as the result file's
// bytes; the node must end up holding exactly that polynomial for the round, with the operation retired.
func scenarioC15Api(c *Ctx) {
	fail := func(kind, what string, rep map[string]interface{}) {
		c.Fail(Failure{Property: "C15", Kind: kind, Signature: map[string]interface{}{"kind": kind}, What: what, Replay: rep})
	}
	w := NewWorld(3, 2, 1)
	me := w.Users[0]
	roundOld := "c15a9100000000000000000000000000000000000000000000000000000000a1" // the API wants identifiers of 32 characters and more (real ones are hex digests)
	body := w.ReDKGOf(dkgPart(w.Honest(roundOld, me)))
	e := NewNodeEnv(newEnvDir(c), me)
	defer e.Close()
	if cl := applyItem(e, w.ReinitItem(roundOld, body, nil, "reinit")); cl != "ok" {
		fail("probe-failed", "harness: the reinit message was not applied: "+cl, nil)
		return
	}
	var op *ctypes.Operation
	for _, o := range pendingOps(e) {
		if string(o.Type) == "reinit_dkg" {
			op = o
		}
	}
	if op == nil {
		fail("probe-failed", "harness: no reinit operation pending", nil)
		return
	}
	// the result file, as the airgapped machine writes it
	res := *op
	res.Event = "operation_processed_successfully"
	res.ExtraData = []byte("the public polynomial reported by the machine")
	file, _ := json.Marshal(res)
	srv := apiOf(e)
	req := httptest.NewRequest(http.MethodPost, "/handleProcessedOperationJSON", bytes.NewReader(file))
	req.Header.Set("Content-Type", "application/json")
	rec := httptest.NewRecorder()
	srv.ServeHTTP(rec, req)
	rep := map[string]interface{}{"status": rec.Code, "response": firstLine(rec.Body.String())}
	if rec.Code != http.StatusOK {
		fail("result-file-refused-by-api", fmt.Sprintf("the result file of a reinit operation is refused by the node's API (HTTP %d)", rec.Code), rep)
		return
	}
	got := []byte(nil)
	if bz, _ := e.St.Get(topic + "_fsm_state"); len(bz) > 0 {
		rounds := map[string][]byte{}
		if json.Unmarshal(bz, &rounds) == nil {
			var fd state_machines.FSMDump
			if json.Unmarshal(rounds[roundOld], &fd) == nil && fd.Payload != nil && fd.Payload.DKGProposalPayload != nil {
				got = fd.Payload.DKGProposalPayload.PubPolyBz
			}
		}
	}
	if !bytes.Equal(got, res.ExtraData) {
		rep["stored_polynomial"] = string(got)
		fail("result-field-lost-in-api", "the ExtraData (public polynomial) of a reinit result posted through the HTTP API does not reach the round: a field of the result file is lost between the two machines", rep)
	}
	if len(pendingOps(e)) != 0 {
		fail("result-not-retired", "the reinit operation is still pending after its result was accepted", rep)
	}
	c.Case("api-result-roundtrip", true, "skip c15api", "skip c15api")
}
