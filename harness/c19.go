package main

import (
	"fmt"
	"github.com/lidofinance/dc4bc/fsm/state_machines"
	"github.com/lidofinance/dc4bc/fsm/types/requests"
	"strings"
)

func init() {
	scenarios["c19"] = scenarioC19
}

func scenarioC19(c *Ctx) {
	fail := func(kind string, sig map[string]interface{}, what string, rep map[string]interface{}) {
		sig["kind"] = kind
		c.Fail(Failure{Property: "C19", Kind: kind, Signature: sig, What: what, Replay: rep})
	}
	// (a) every reachable abstract state can be loaded back (and hence listed)
	type cfg struct{ n, t, max int }
	cfgs := []cfg{{2, 2, 100000}, {3, 2, 3000}}
	if !c.Quick() {
		cfgs = []cfg{{2, 2, 1000000}, {3, 2, 1000000}, {3, 3, 1000000}, {4, 3, 8000}}
	}
	unloadable := map[string]bool{}
	allStates := map[string][]byte{}
	var order []string
	for _, cf := range cfgs {
		for _, scope := range []string{"dkg", "signing"} {
			start := initialDump("round-1")
			if scope == "signing" {
				start = readyDump(cf.n, cf.t)
			}
			res := exploreFrom(start, alphabet(cf.n, cf.t, scope == "dkg", scope), cf.max, func(string, []byte, Ev, StepObs) {})
			for _, p := range res.Order {
				if _, seen := allStates[p]; !seen {
					allStates[p] = res.States[p]
					order = append(order, p)
				}
			}
		}
	}
	probe := Ev{"event_bogus", reqDefault(tNorm), "unknown"}
	for _, p := range order {
		bz := allStates[p]
		o := doOnDump(bz, probe)
		name := strings.SplitN(p, " ", 2)[0]
		c.Case("load/"+o.Class, true, "fsm "+p+" | "+probe.Line(), o.Line())
		if (o.Class == "loaderr" || o.Class == "panic") && !unloadable[name] {
			unloadable[name] = true
			fail("unloadable-state", map[string]interface{}{"state": name},
				fmt.Sprintf("a round persisted in state %s cannot be loaded back (FromDump fails; listing rounds fails with it)", name),
				map[string]interface{}{"dump": p})
		}
	}
	// (b) continuing in memory == continuing after dump + restore, along random in-memory walks
	walks, depth := 400, 8
	if !c.Quick() {
		walks, depth = 6000, 12
	}
	var loadable []string
	for _, p := range order {
		if !unloadable[strings.SplitN(p, " ", 2)[0]] {
			loadable = append(loadable, p)
		}
	}
	reported := map[string]bool{}
	// the two hand-over points, deterministically: a LIVE instance is driven to the collected state
	// of its machine and offered the next machine's entry event, next to the instance restored from
	// its dump (the random walks below reach these states only by chance)
	{
		n, t := 2, 2
		step := func(inst *state_machines.FSMInstance, ev Ev, steps *[]string, obs *[]string) (StepObs, StepObs, []byte) {
			pre, err := inst.Dump()
			if err != nil {
				// the live round has taken a transition its dump cannot follow: it behaves like no
				// restored round can
				if !reported["undumpable"] {
					reported["undumpable"] = true
					fail("live-round-cannot-be-dumped", map[string]interface{}{},
						"a round continued in memory can no longer be dumped after an event that was answered with an error: it has moved on while every stored copy has not ("+err.Error()+")",
						map[string]interface{}{"steps": append([]string{}, *steps...), "next_event": ev.Line()})
				}
				return StepObs{Class: "undumpable"}, StepObs{Class: "undumpable"}, nil
			}
			restored := doOnDump(pre, ev)
			live := doOnInstance(inst, ev)
			*steps = append(*steps, ev.Line())
			*obs = append(*obs, live.Line()+" ## "+restored.Line())
			return live, restored, pre
		}
		report := func(pre []byte, live, restored StepObs, start string, steps []string) {
			if live.Line() != restored.Line() && restored.Class != "loaderr" {
				preState := string(decodeDump(pre).State)
				key := preState + "/" + live.Class + "/" + restored.Class
				if !reported[key] {
					reported[key] = true
					fail("restore-changes-behaviour", map[string]interface{}{"state": preState, "live": live.Class, "restored": restored.Class},
						fmt.Sprintf("in state %s an event is answered differently by the live round (%s) and by the restored one (%s)", preState, live.Class, restored.Class),
						map[string]interface{}{"start_dump": start, "steps": append([]string{}, steps...), "live": live.Line(), "restored": restored.Line()})
				}
			}
		}
		// (i) invitations collected -> event_dkg_init_process
		start := initialDump("round-handover")
		startProj := projDump(string(decodeDump(start).State), decodeDump(start))
		inst, _ := loadDump(start)
		var steps, obs []string
		seq := []Ev{{"event_sig_proposal_init", reqList(participants(n), t, T(0)), "init-ok"}}
		for i := 0; i < n; i++ {
			seq = append(seq, Ev{"event_sig_proposal_confirm_by_participant", reqPart(i, tNorm), "confirm"})
		}
		seq = append(seq, Ev{"event_dkg_init_process", reqDefault(T(20)), "handover"})
		for _, ev := range seq {
			live, restored, pre := step(inst, ev, &steps, &obs)
			report(pre, live, restored, startProj, steps)
		}
		c.Case("handover-walk", true, "mem "+startProj+" | "+strings.Join(steps, " ;; "), "mem "+strings.Join(obs, " ;; "))
		// (ii) master keys collected -> event_signing_init (the key generation runs on a restored instance)
		bz := start
		for _, ev := range seq {
			o := doOnDump(bz, ev)
			if o.Class != "ok" {
				panic("hand-over prefix rejected: " + ev.Line())
			}
			bz = o.DumpOut
		}
		midProj := projDump(string(decodeDump(bz).State), decodeDump(bz))
		inst2, _ := loadDump(bz)
		steps, obs = nil, nil
		var seq2 []Ev
		for k := 0; k < 3; k++ {
			for i := 0; i < n; i++ {
				seq2 = append(seq2, Ev{dkgConfirmEv[k], reqData(k, i, fmt.Sprintf("data%d-%d", k, i), tNorm), "dkg-confirm"})
			}
		}
		for i := 0; i < n; i++ {
			seq2 = append(seq2, Ev{dkgConfirmEv[3], reqMaster(i, "masterkey-A", "pubpoly-A", tNorm), "master"})
		}
		seq2 = append(seq2, Ev{"event_signing_init", reqDefault(T(30)), "handover"})
		for _, ev := range seq2 {
			live, restored, pre := step(inst2, ev, &steps, &obs)
			report(pre, live, restored, midProj, steps)
		}
		c.Case("handover-walk", true, "mem "+midProj+" | "+strings.Join(steps, " ;; "), "mem "+strings.Join(obs, " ;; "))
		// (iii) TWO rounds held in memory by one process, handed over one after the other, then both
		// continued in memory: each must keep behaving like its own restored copy (no state shared
		// between the rounds' machines)
		instA, _ := loadDump(initialDump("round-two-A"))
		instB, _ := loadDump(initialDump("round-two-B"))
		var stA, obA, stB, obB []string
		both := func(ev Ev) {
			live, restored, pre := step(instA, ev, &stA, &obA)
			report(pre, live, restored, "two rounds in memory (first)", stA)
			live, restored, pre = step(instB, ev, &stB, &obB)
			report(pre, live, restored, "two rounds in memory (second)", stB)
		}
		for _, ev := range seq {
			both(ev)
		}
		for _, ev := range seq2 {
			both(ev)
		}
		c.Case("two-rounds-in-memory", true, "skip two-rounds", "skip two-rounds")
		// (iv) error reports whose text carries control characters (Go error / panic strings do), in the
		// key generation and in the signing phase, each followed by one more event: the live round and
		// its restored copy must go on agreeing, and the live round must stay dumpable
		{
			instC, _ := loadDump(bz) // commits awaited
			var stC, obC []string
			for _, ev := range []Ev{
				{dkgErrorEv[0], reqError(0, strp("bad\x01text\x7f\v\a"), tNorm), "dkg-error"},
				{dkgConfirmEv[0], reqData(0, 1, "data0-1", tNorm), "dkg-confirm"},
			} {
				live, restored, pre := step(instC, ev, &stC, &obC)
				if pre != nil {
					report(pre, live, restored, midProj, stC)
				}
			}
			ready := readyDump(n, t)
			instS, _ := loadDump(ready)
			var stS, obS []string
			explicit := []requests.SigningTask{{MessageID: "msg-1", File: "f1", Payload: []byte("payload-1")}}
			signs := []requests.PartialSign{{MessageID: "msg-1", Sign: []byte("psig1-1")}}
			for _, ev := range []Ev{
				{"event_signing_start", reqStart("batch-A", 0, tNorm, explicit), "start"},
				{"event_signing_partial_sign_error_received", reqSigError(0, strp("bad\x01text\x7f\v\a"), tNorm, "batch-A"), "sgn-error"},
				{"event_signing_partial_sign_received", reqPartial("batch-A", 1, signs, tNorm), "partial"},
			} {
				live, restored, pre := step(instS, ev, &stS, &obS)
				if pre != nil {
					report(pre, live, restored, "ready for signing", stS)
				}
			}
			c.Case("control-characters-in-error-texts", true, "skip control-chars", "skip control-chars")
		}
	}
	for w := 0; w < walks+len(loadable); w++ {
		p := loadable[c.Rng.Intn(len(loadable))]
		if w < len(loadable) {
			p = loadable[w] // at least one walk from every loadable abstract state
		}
		bz := allStates[p]
		n := abstractOf(decodeDump(bz)).N
		if n < 2 {
			n = 2 + c.Rng.Intn(2)
		}
		t := 2
		evs := append(alphabet(n, t, c.Rng.Intn(5) == 0, "dkg"), alphabet(n, t, c.Rng.Intn(5) == 0, "signing")...)
		inst, cl := loadDump(bz)
		if inst == nil {
			panic("loadable state failed to load: " + cl)
		}
		var caseSteps, obsSteps []string
		for s := 0; s < depth; s++ {
			ev := evs[c.Rng.Intn(len(evs))]
			// prefer events that the current machine routes
			for try := 0; try < 6; try++ {
				pre, _ := inst.Dump()
				if doOnDump(pre, ev).Class == "ok" {
					break
				}
				ev = evs[c.Rng.Intn(len(evs))]
			}
			pre, err := inst.Dump()
			if err != nil {
				// the live round has taken a transition its dump cannot follow
				if !reported["undumpable"] {
					reported["undumpable"] = true
					fail("live-round-cannot-be-dumped", map[string]interface{}{},
						"a round continued in memory can no longer be dumped after an event that was answered with an error: it has moved on while every stored copy has not ("+err.Error()+")",
						map[string]interface{}{"steps": append([]string{}, caseSteps...), "next_event": ev.Line()})
				}
				break
			}
			restored := doOnDump(pre, ev)
			live := doOnInstance(inst, ev)
			caseSteps = append(caseSteps, ev.Line())
			obsSteps = append(obsSteps, live.Line()+" ## "+restored.Line())
			// a state that cannot be loaded at all is reported by (a)
			if live.Line() != restored.Line() && restored.Class != "loaderr" {
				preState := string(decodeDump(pre).State)
				key := preState + "/" + live.Class + "/" + restored.Class
				if !reported[key] {
					reported[key] = true
					kind := "restore-changes-behaviour"
					sig := map[string]interface{}{"state": preState, "live": live.Class, "restored": restored.Class}
					fail(kind, sig, fmt.Sprintf("in state %s an event is answered differently by the live round (%s) and by the restored one (%s)", preState, live.Class, restored.Class),
						map[string]interface{}{"start_dump": p, "steps": append([]string{}, caseSteps...), "live": live.Line(), "restored": restored.Line()})
				}
			}
			if live.Class == "panic" {
				break
			}
		}
		c.Case("walk", true, "mem "+p+" | "+strings.Join(caseSteps, " ;; "), "mem "+strings.Join(obsSteps, " ;; "))
	}
	c.Notes["abstract_states_checked_loadable"] = len(order)
	c.Notes["unloadable_state_names"] = len(unloadable)
	c.Notes["walks"] = map[string]int{"walks": walks, "depth": depth}
}
