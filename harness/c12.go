package main

import (
	"bytes"
	"encoding/json"
	"fmt"
	"os"
	"path/filepath"
	"strings"

	"github.com/syndtr/goleveldb/leveldb"
	"github.com/syndtr/goleveldb/leveldb/opt"

	"github.com/lidofinance/dc4bc/airgapped"
	"github.com/lidofinance/dc4bc/client/api/dto"
	ctypes "github.com/lidofinance/dc4bc/client/types"
)

func init() {
	scenarios["c12"] = scenarioC12
}

func opKind(t string) string {
	switch t {
	case "state_dkg_commits_await_confirmations":
		return "1"
	case "state_dkg_deals_await_confirmations":
		return "2"
	case "state_dkg_responses_await_confirmations":
		return "3"
	case "state_dkg_master_key_await_confirmations":
		return "4"
	case "state_signing_await_partial_signs":
		return "9"
	}
	return "0"
}

// logLength reads the operation log of a CLOSED airgapped database
func logLength(dbDir, round string) int {
	db, err := leveldb.OpenFile(dbDir, &opt.Options{ReadOnly: true})
	if err != nil {
		panic(err)
	}
	defer db.Close()
	bz, err := db.Get([]byte("operations_log"), nil)
	if err != nil {
		return 0
	}
	var l map[string][]json.RawMessage
	json.Unmarshal(bz, &l)
	return len(l[round])
}

type c12Outcome struct {
	Master  string
	Shares  []string
	Commits []string // commitments published by each participant (first publication)
}

// answerViaFile: the real ProcessOperation (logs the operation, writes the result file), the
// result is read back from the JSON file and submitted to the node
func answerViaFile(cl *Cluster, i int, o *ctypes.Operation) (*ctypes.Operation, error) {
	path, err := cl.Machines[i].ProcessOperation(*o, true)
	if err != nil {
		return nil, err
	}
	return submitResultFile(cl, i, path)
}

func submitResultFile(cl *Cluster, i int, path string) (*ctypes.Operation, error) {
	bz, err := os.ReadFile(path)
	if err != nil {
		return nil, err
	}
	var res ctypes.Operation
	if err := json.Unmarshal(bz, &res); err != nil {
		return nil, err
	}
	return &res, cl.Nodes[i].Node.ProcessOperation(&dto.OperationDTO{ID: res.ID, Type: string(res.Type), Payload: res.Payload, ResultMsgs: res.ResultMsgs,
		CreatedAt: res.CreatedAt, DkgID: res.DKGIdentifier, To: res.To, Event: res.Event, ExtraData: res.ExtraData})
}

type c12Plan struct {
	victim   int
	restarts map[int]int    // after the victim's k-th answered operation: number of consecutive stop/reopen/replay
	inStep   map[int]string // before answering the victim's k-th operation: "computed-not-logged" | "logged-not-written"
}

func reopen(cl *Cluster, i int) *airgapped.Machine {
	am, err := airgapped.NewMachine(filepath.Join(cl.MDirs[i], "db"))
	if err != nil {
		panic(err)
	}
	am.SetEncryptionKey(cl.Password)
	if err := am.InitKeys(); err != nil {
		panic(err)
	}
	am.SetResultFolder(filepath.Join(cl.MDirs[i], "results"))
	return am
}

// runC12 drives a ceremony (answers through files) applying the plan; returns the outcome, the
// victim's script for the model and the observed log lengths
func runC12(c *Ctx, n, t int, tag string, plan c12Plan, fail func(kind, what string, rep map[string]interface{})) (c12Outcome, []string, []string) {
	cl := NewCluster(newEnvDir(c), n, t, tag)
	defer cl.Close()
	cl.Propose(0)
	var script, obs []string
	answered := 0
	// what the victim's result files said when the operations were first answered
	origEvent := map[string]string{}
	origData := map[string]string{}
	readResult := func(path string) (string, string) {
		bz, err := os.ReadFile(path)
		if err != nil {
			return "unreadable", ""
		}
		var res ctypes.Operation
		if json.Unmarshal(bz, &res) != nil {
			return "undecodable", ""
		}
		data := ""
		if (string(res.Event) == "event_dkg_commit_confirm_received" || string(res.Event) == "event_dkg_response_confirm_received") && len(res.ResultMsgs) > 0 {
			// commitments and (signed) responses are deterministic - the round's randomness is a
			// seeded stream; deals are re-encrypted with fresh ephemeral keys
			data = string(res.ResultMsgs[0].Data)
		}
		// the NUMBER of messages a result carries is deterministic for every step (one broadcast, or one
		// per addressee): a replayed result must not carry stale messages next to the recomputed ones
		data = fmt.Sprintf("%d messages|%s", len(res.ResultMsgs), data)
		return string(res.Event), data
	}
	resultsDir := filepath.Join(cl.MDirs[plan.victim], "results")
	checkReplayed := func() {
		for path, ev := range origEvent {
			e2, d2 := readResult(path)
			if e2 != ev || d2 != origData[path] {
				fail("replay-republishes-differently", fmt.Sprintf("after stop, reopen and replay the result file of an already answered operation changed (event %s -> %s)", ev, e2),
					map[string]interface{}{"participant": plan.victim, "file": filepath.Base(path), "restarts_after_operation": fmt.Sprint(plan.restarts)})
			}
		}
	}
	remember := func(o *ctypes.Operation) {
		path := filepath.Join(resultsDir, o.Filename()+"_result.json")
		origEvent[path], origData[path] = readResult(path)
	}
	firstCommit := make([]string, n)
	stopReplay := func(times int) {
		for r := 0; r < times; r++ {
			seedBefore := cl.Machines[plan.victim].VerifBaseSeed()
			cl.Machines[plan.victim].VerifClose()
			before := logLength(filepath.Join(cl.MDirs[plan.victim], "db"), cl.Round)
			cl.Machines[plan.victim] = reopen(cl, plan.victim)
			if !bytes.Equal(seedBefore, cl.Machines[plan.victim].VerifBaseSeed()) {
				fail("seed-changed", "after stop and reopen the machine works with another seed than before", map[string]interface{}{"participant": plan.victim})
			}
			if before > 0 {
				if err := cl.Machines[plan.victim].ReplayOperationsLog(cl.Round); err != nil {
					fail("replay-failed", "replaying the operation log failed: "+err.Error(), map[string]interface{}{"participant": plan.victim})
				}
			}
			checkReplayed()
			// the log must not change by being replayed (observable at the next stop; checked at the end too)
			script = append(script, "R")
			obs = append(obs, fmt.Sprintf("%d/%d", before, before))
		}
	}
	cl.RunToQuiescenceWith(func(cands []int) int { return 0 }, func(i int, o *ctypes.Operation) (bool, error) {
		if string(o.Type) == "state_sig_proposal_await_participants_confirmations" {
			_, err := cl.Answer(i, o)
			return true, err
		}
		if i != plan.victim {
			_, err := answerViaFile(cl, i, o)
			return true, err
		}
		k := answered
		var err error
		switch plan.inStep[k] {
		case "computed-not-logged":
			// the result is computed, the process dies before the operation is logged
			cl.Machines[i].GetOperationResult(*o)
			stopReplay(1)
			_, err = answerViaFile(cl, i, o)
		case "logged-not-written":
			// the operation is logged, the result file cannot be written, the process dies
			cl.Machines[i].SetResultFolder(filepath.Join(cl.MDirs[i], "no-such-folder"))
			cl.Machines[i].ProcessOperation(*o, true)
			script = append(script, opKind(string(o.Type)))
			obs = append(obs, "-")
			stopReplay(1)
			// the replay has written the result file of the logged operation
			_, err = submitResultFile(cl, i, filepath.Join(cl.MDirs[i], "results", o.Filename()+"_result.json"))
			answered++
			if times, ok := plan.restarts[answered]; ok {
				stopReplay(times)
			}
			return true, err
		case "misfed-before":
			// the operator first feeds a file the machine cannot handle at all (a LATER step of this round,
			// before the machine has an instance for it): refused as fatal, it must leave no trace - the
			// restart after the genuine step must still be able to replay the log
			bad := *o
			bad.Type = "state_dkg_deals_await_confirmations"
			bad.ID = "misfed-" + o.ID
			if _, ferr := cl.Machines[i].ProcessOperation(bad, true); ferr == nil {
				fail("misfed-operation-accepted", "an operation file of an unknown step was not refused", map[string]interface{}{"participant": plan.victim})
			}
			_, err = answerViaFile(cl, i, o)
			remember(o)
			script = append(script, opKind(string(o.Type)))
			obs = append(obs, "-")
			answered++
			stopReplay(1)
			return true, err
		default:
			_, err = answerViaFile(cl, i, o)
		}
		remember(o)
		script = append(script, opKind(string(o.Type)))
		obs = append(obs, "-")
		answered++
		if times, ok := plan.restarts[answered]; ok {
			stopReplay(times)
		}
		return true, err
	})
	// outcome
	var out c12Outcome
	for i, m := range cl.Machines {
		krs, err := m.GetBLSKeyrings()
		if err != nil || krs[cl.Round] == nil {
			out.Shares = append(out.Shares, "none")
			continue
		}
		out.Shares = append(out.Shares, scalarDec(krs[cl.Round].Share.V))
		mk, _ := krs[cl.Round].PubPoly.Commit().MarshalBinary()
		out.Master = fmt.Sprintf("%x", mk)
		_ = i
	}
	// commitments on the board per participant (every publication must carry the same commitments)
	all, _ := cl.board().GetMessages(0)
	for _, m := range all {
		if m.Event == "event_dkg_commit_confirm_received" {
			var req struct {
				ParticipantId int
				Commit        []byte
			}
			json.Unmarshal(m.Data, &req)
			if firstCommit[req.ParticipantId] == "" {
				firstCommit[req.ParticipantId] = string(req.Commit)
			} else if firstCommit[req.ParticipantId] != string(req.Commit) {
				fail("commitments-differ", fmt.Sprintf("participant %d published two different sets of commitments", req.ParticipantId), map[string]interface{}{"participant": req.ParticipantId})
			}
		}
	}
	out.Commits = firstCommit
	cl.Machines[plan.victim].VerifClose()
	final := logLength(filepath.Join(cl.MDirs[plan.victim], "db"), cl.Round)
	cl.Machines[plan.victim] = reopen(cl, plan.victim)
	script = append(script, "R")
	obs = append(obs, fmt.Sprintf("%d/%d", final, final))
	if final != answered {
		fail("log-length", fmt.Sprintf("the victim answered %d key-generation operations but its operation log holds %d entries", answered, final),
			map[string]interface{}{"participant": plan.victim, "restarts_after_operation": fmt.Sprint(plan.restarts), "in_step": fmt.Sprint(plan.inStep)})
	}
	return out, script, obs
}

func scenarioC12(c *Ctx) {
	fail := func(kind, what string, rep map[string]interface{}) {
		c.Fail(Failure{Property: "C12", Kind: kind, Signature: map[string]interface{}{"kind": kind}, What: what, Replay: rep})
	}
	n, t := 3, 2
	tag := "c12"
	twin, _, _ := runC12(c, n, t, tag, c12Plan{victim: 0}, fail)
	if twin.Master == "" {
		fail("ceremony-failed", "the uninterrupted ceremony did not finish", nil)
		return
	}
	// a second uninterrupted run from the same mnemonics: identical key material
	twin2, _, _ := runC12(c, n, t, tag, c12Plan{victim: 1}, fail)
	if twin2.Master != twin.Master || strings.Join(twin2.Shares, ",") != strings.Join(twin.Shares, ",") || strings.Join(twin2.Commits, ",") != strings.Join(twin.Commits, ",") {
		fail("seed-does-not-determine", "two sets of machines created from the same mnemonics and fed the same operations derive different keys, commitments or shares", nil)
	}
	var plans []c12Plan
	victims := []int{0}
	if !c.Quick() {
		victims = []int{0, 1, 2}
	}
	for _, v := range victims {
		for k := 1; k <= 4; k++ {
			plans = append(plans, c12Plan{victim: v, restarts: map[int]int{k: 1}})
		}
		plans = append(plans, c12Plan{victim: v, restarts: map[int]int{1: 1, 2: 1, 3: 1, 4: 1}})
		plans = append(plans, c12Plan{victim: v, restarts: map[int]int{2: 2}})
		plans = append(plans, c12Plan{victim: v, restarts: map[int]int{1: 3}})
		for k := 0; k < 4; k++ {
			plans = append(plans, c12Plan{victim: v, inStep: map[int]string{k: "computed-not-logged"}})
			plans = append(plans, c12Plan{victim: v, inStep: map[int]string{k: "logged-not-written"}})
			if k == 0 { // only before its first step has the machine no instance for the round
				plans = append(plans, c12Plan{victim: v, inStep: map[int]string{k: "misfed-before"}})
			}
		}
	}
	for pi, p := range plans {
		out, script, obs := runC12(c, n, t, tag, p, fail)
		rep := map[string]interface{}{"participant": p.victim, "restarts_after_operation": fmt.Sprint(p.restarts), "in_step": fmt.Sprint(p.inStep)}
		if out.Master != twin.Master {
			fail("group-key-differs", "after restart and replay the ceremony ends with another group key than the uninterrupted one (or does not end)", rep)
		}
		if strings.Join(out.Shares, ",") != strings.Join(twin.Shares, ",") {
			fail("share-differs", "after restart and replay a machine ends with another private share than in the uninterrupted ceremony", rep)
		}
		if strings.Join(out.Commits, ",") != strings.Join(twin.Commits, ",") {
			fail("commitments-differ", "the commitments published differ from those of the uninterrupted ceremony", rep)
		}
		// bookkeeping on the model: log length at every stop
		var mo []string
		for _, o := range obs {
			mo = append(mo, o)
		}
		c.Case(fmt.Sprintf("plan-%d", pi), true, "air "+strings.Join(script, " "), "air "+strings.Join(mo, " "))
	}
}
