package main

import (
	"encoding/json"
	"fmt"

	"github.com/lidofinance/dc4bc/fsm/types/requests"
)

func init() {
	scenarios["c10"] = scenarioC10
}

// forgeFor rebuilds the request of a genuine message so that it names participant `pid`
// (the victim) while being sent and validly signed by `attacker`.
func forgeFor(w *World, it Item, attacker string, round string) (Item, bool) {
	m := it.In.Msg
	var data []byte
	switch m.Event {
	case "event_sig_proposal_confirm_by_participant", "event_sig_proposal_decline_by_participant",
		"event_dkg_commit_confirm_received", "event_dkg_deal_confirm_received", "event_dkg_response_confirm_received",
		"event_dkg_master_key_confirm_received", "event_signing_partial_sign_received", "event_signing_start":
		data = m.Data // the request already names the victim; only sender and signature change
	default:
		return Item{}, false
	}
	return w.RawMsg(round, m.Event, data, attacker, m.RecipientAddr, attacker, it.In.Now, "impersonate"), true
}

func scenarioC10(c *Ctx) {
	w := NewWorld(3, 2, 1)
	me := w.Users[0]
	roundA, roundB := "round-c10-A", "round-c10-B"
	hA := w.Honest(roundA, me)
	hB := w.Honest(roundB, me)
	var cases []HistCase
	report := func(kind string, sig map[string]interface{}, what string, rep map[string]interface{}) {
		sig["kind"] = kind
		c.Fail(Failure{Property: "C10", Kind: kind, Signature: sig, What: what, Replay: rep})
	}
	// (1) every ordered pair (attacker S, victim P), every event, in every state where P is awaited
	for k := 1; k < len(hA); k++ {
		victim := hA[k].In.Msg.SenderAddr
		for _, attacker := range w.Users {
			if attacker == victim {
				continue
			}
			forged, ok := forgeFor(w, hA[k], attacker, roundA)
			if !ok {
				continue
			}
			items := append(append([]Item{}, hA[:k]...), forged)
			ev, pos, att := hA[k].In.Msg.Event, k, attacker
			cases = append(cases, HistCase{Kind: "impersonate", User: me, Items: items, PrefixKey: fmt.Sprintf("A/%d", k), Check: func(o RunObs) {
				if o.Classes[len(o.Classes)-1] != "err" || o.Before != o.After {
					report("impersonation-accepted", map[string]interface{}{"event": ev},
						fmt.Sprintf("%s, with its own valid signature, acted as %s in %s", att, victim, ev),
						map[string]interface{}{"position": pos, "attacker": att, "victim": victim, "before": o.Before, "after": o.After})
				}
			}})
		}
		// decline in the victim's name (a different event over the victim-shaped request)
		if hA[k].In.Msg.Event == "event_sig_proposal_confirm_by_participant" {
			for _, attacker := range w.Users {
				if attacker == victim {
					continue
				}
				forged := w.RawMsg(roundA, "event_sig_proposal_decline_by_participant", hA[k].In.Msg.Data, attacker, "", attacker, hA[k].In.Now, "impersonate-decline")
				items := append(append([]Item{}, hA[:k]...), forged)
				att, pos := attacker, k
				cases = append(cases, HistCase{Kind: "impersonate-decline", User: me, Items: items, PrefixKey: fmt.Sprintf("A/%d", k), Check: func(o RunObs) {
					if o.Classes[len(o.Classes)-1] != "err" || o.Before != o.After {
						report("impersonation-accepted", map[string]interface{}{"event": "event_sig_proposal_decline_by_participant"},
							fmt.Sprintf("%s declined in the name of %s", att, victim), map[string]interface{}{"position": pos, "before": o.Before, "after": o.After})
					}
				}})
			}
		}
	}
	// (2) a genuine message of round A re-posted (by anyone) under round B, which is in the same state
	for k := 1; k < len(hA); k++ {
		g := hA[k].In.Msg
		replay := g
		replay.DkgRoundID = roundB
		_, desc := w.sign(g.SenderAddr, g.Data)
		items := append(append([]Item{}, hB[:k]...), mkItem(replay, desc, hA[k].In.Now, "replay-round"))
		ev, pos := g.Event, k
		cases = append(cases, HistCase{Kind: "replay-round", User: me, Items: items, PrefixKey: fmt.Sprintf("B/%d", k), Check: func(o RunObs) {
			if o.Classes[len(o.Classes)-1] == "ok" && o.Before != o.After {
				report("cross-round-replay", map[string]interface{}{},
					fmt.Sprintf("a genuine %s message of one round, re-posted under another round identifier, was accepted there", ev),
					map[string]interface{}{"position": pos, "event": ev})
			}
		}})
	}
	// (3) a genuine message re-posted under another event name of the same request shape
	swap := map[string]string{
		"event_sig_proposal_confirm_by_participant": "event_sig_proposal_decline_by_participant",
		"event_dkg_commit_confirm_received":         "event_dkg_commit_confirm_canceled_by_error",
		"event_dkg_deal_confirm_received":           "event_dkg_deal_confirm_canceled_by_error",
		"event_dkg_response_confirm_received":       "event_dkg_response_confirm_canceled_by_error",
	}
	for k := 1; k < len(hA); k++ {
		g := hA[k].In.Msg
		other, ok := swap[g.Event]
		if !ok {
			continue
		}
		replay := g
		replay.Event = other
		_, desc := w.sign(g.SenderAddr, g.Data)
		items := append(append([]Item{}, hA[:k]...), mkItem(replay, desc, hA[k].In.Now, "replay-event"))
		ev, pos := g.Event, k
		cases = append(cases, HistCase{Kind: "replay-event", User: me, Items: items, PrefixKey: fmt.Sprintf("A/%d", k), Check: func(o RunObs) {
			if o.Classes[len(o.Classes)-1] == "ok" && o.Before != o.After {
				report("cross-event-replay", map[string]interface{}{},
					fmt.Sprintf("a genuine %s message re-posted as %s was accepted", ev, other),
					map[string]interface{}{"position": pos, "event": ev, "as": other})
			}
		}})
	}
	_ = json.Marshal
	_ = requests.DefaultRequest{}
	cases = append(cases, reinitCases(c, w, "C10")...)
	runCases(c, cases)
	c.Notes["histories"] = len(cases)
}
