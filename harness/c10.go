package main

import (
	"encoding/json"
	"fmt"
	"strings"

	"github.com/lidofinance/dc4bc/fsm/types/requests"
)

func init() {
	scenarios["c10"] = scenarioC10
}

// forgeFor rebuilds the request of a genuine message so that it names participant `pid`
// (the victim) while being sent and validly signed by `attacker`.
func forgeFor(w *World, it Item, attacker string, round string) (Item, bool) {
	m := it.In.Msg
	var data []byte
	switch m.Event {
	case "event_sig_proposal_confirm_by_participant", "event_sig_proposal_decline_by_participant",
		"event_dkg_commit_confirm_received", "event_dkg_deal_confirm_received", "event_dkg_response_confirm_received",
		"event_dkg_master_key_confirm_received", "event_signing_partial_sign_received", "event_signing_start":
		data = m.Data // the request already names the victim; only sender and signature change
	default:
		return Item{}, false
	}
	return w.RawMsg(round, m.Event, data, attacker, m.RecipientAddr, attacker, it.In.Now, "impersonate"), true
}

func scenarioC10(c *Ctx) {
	var cases []HistCase
	w0 := NewWorld(3, 2, 1)
	cases = append(cases, c10Cases(c, w0, w0.Users[0], "", false)...)
	if !c.Quick() {
		// every observer, further sizes, every other event name
		cases = append(cases, c10Cases(c, w0, w0.Users[1], "-o1", true)...)
		cases = append(cases, c10Cases(c, w0, w0.Users[2], "-o2", true)...)
		for wi, nt := range [][2]int{{2, 2}, {4, 3}, {5, 3}} {
			w := NewWorld(nt[0], nt[1], wi+2)
			cases = append(cases, c10Cases(c, w, w.Users[0], fmt.Sprintf("-w%d", wi), true)...)
		}
	}
	// two participants whose names differ by white space only ("user1" and "user1 ", each with its own
	// key): neither may speak for the other
	{
		wb := NewWorld(3, 2, 9)
		wb.Users[2] = wb.Users[1] + " "
		wb.Keys[wb.Users[2]] = userKey(wb.Users[2])
		report := func(kind string, sig map[string]interface{}, what string, rep map[string]interface{}) {
			sig["kind"] = kind
			c.Fail(Failure{Property: "C10", Kind: kind, Signature: sig, What: "(names differing by white space) " + what, Replay: rep})
		}
		round := "round-c10-blank-names"
		cases = append(cases, speaksForCases(wb, wb.Users[0], round, wb.Honest(round, wb.Users[0]), "-blank", report)...)
	}
	cases = append(cases, reinitCases(c, w0, "C10")...)
	runCases(c, cases)
	c.Notes["histories"] = len(cases)
}

func c10Cases(c *Ctx, w *World, me string, tag string, allEvents bool) []HistCase {
	roundA, roundB := "round-c10-A"+tag, "round-c10-B"+tag
	hA := w.Honest(roundA, me)
	hB := w.Honest(roundB, me)
	var cases []HistCase
	report := func(kind string, sig map[string]interface{}, what string, rep map[string]interface{}) {
		sig["kind"] = kind
		c.Fail(Failure{Property: "C10", Kind: kind, Signature: sig, What: what, Replay: rep})
	}
	cases = append(cases, speaksForCases(w, me, roundA, hA, tag, report)...)
	// (2) a genuine message of round A re-posted (by anyone) under round B, which is in the same state
	for k := 1; k < len(hA); k++ {
		g := hA[k].In.Msg
		replay := g
		replay.DkgRoundID = roundB
		_, desc := w.sign(g.SenderAddr, g.Data)
		items := append(append([]Item{}, hB[:k]...), mkItem(replay, desc, hA[k].In.Now, "replay-round"))
		ev, pos := g.Event, k
		cases = append(cases, HistCase{Kind: "replay-round", User: me, Items: items, PrefixKey: fmt.Sprintf("B%s/%d", tag, k), Check: func(o RunObs) {
			if o.Classes[len(o.Classes)-1] == "ok" && o.Before != o.After {
				report("cross-round-replay", map[string]interface{}{},
					fmt.Sprintf("a genuine %s message of one round, re-posted under another round identifier, was accepted there", ev),
					map[string]interface{}{"position": pos, "event": ev})
			}
		}})
	}
	return c10Rest(c, w, me, tag, allEvents, roundA, roundB, hA, hB, cases, report)
}

// speaksForCases: every ordered pair (attacker S, victim P), every event, in every state where P is
// awaited: S posts, with its own valid signature, the request that names P.
func speaksForCases(w *World, me string, roundA string, hA []Item, tag string,
	report func(kind string, sig map[string]interface{}, what string, rep map[string]interface{})) []HistCase {
	var cases []HistCase
	for k := 1; k < len(hA); k++ {
		victim := hA[k].In.Msg.SenderAddr
		for _, attacker := range w.Users {
			if attacker == victim {
				continue
			}
			forged, ok := forgeFor(w, hA[k], attacker, roundA)
			if !ok {
				continue
			}
			items := append(append([]Item{}, hA[:k]...), forged)
			ev, pos, att := hA[k].In.Msg.Event, k, attacker
			cases = append(cases, HistCase{Kind: "impersonate", User: me, Items: items, PrefixKey: fmt.Sprintf("A%s/%d", tag, k), Check: func(o RunObs) {
				if o.Classes[len(o.Classes)-1] != "err" || o.Before != o.After {
					report("impersonation-accepted", map[string]interface{}{"event": ev},
						fmt.Sprintf("%s, with its own valid signature, acted as %s in %s", att, victim, ev),
						map[string]interface{}{"position": pos, "attacker": att, "victim": victim, "before": o.Before, "after": o.After})
				}
			}})
		}
		// a signing FAILURE report in the victim's name while the victim's answer is awaited
		if hA[k].In.Msg.Event == "event_signing_partial_sign_received" {
			var pid struct{ ParticipantId int }
			json.Unmarshal(hA[k].In.Msg.Data, &pid)
			for _, attacker := range w.Users {
				if attacker == victim {
					continue
				}
				forged := w.Msg(roundA, "event_signing_partial_sign_error_received", requests.SignatureProposalConfirmationErrorRequest{Error: requests.NewFSMError(fmt.Errorf("cannot sign")), ParticipantId: pid.ParticipantId, CreatedAt: T(95)}, attacker, "", attacker, hA[k].In.Now, "impersonate-sign-error")
				items := append(append([]Item{}, hA[:k]...), forged)
				att, pos := attacker, k
				cases = append(cases, HistCase{Kind: "impersonate-sign-error", User: me, Items: items, PrefixKey: fmt.Sprintf("A%s/%d", tag, k), Check: func(o RunObs) {
					if o.Classes[len(o.Classes)-1] != "err" || o.Before != o.After {
						report("impersonation-accepted", map[string]interface{}{"event": "event_signing_partial_sign_error_received"},
							fmt.Sprintf("%s reported a signing failure in the name of %s", att, victim), map[string]interface{}{"position": pos, "before": o.Before, "after": o.After})
					}
				}})
			}
		}
		// decline in the victim's name (a different event over the victim-shaped request)
		if hA[k].In.Msg.Event == "event_sig_proposal_confirm_by_participant" {
			for _, attacker := range w.Users {
				if attacker == victim {
					continue
				}
				forged := w.RawMsg(roundA, "event_sig_proposal_decline_by_participant", hA[k].In.Msg.Data, attacker, "", attacker, hA[k].In.Now, "impersonate-decline")
				items := append(append([]Item{}, hA[:k]...), forged)
				att, pos := attacker, k
				cases = append(cases, HistCase{Kind: "impersonate-decline", User: me, Items: items, PrefixKey: fmt.Sprintf("A%s/%d", tag, k), Check: func(o RunObs) {
					if o.Classes[len(o.Classes)-1] != "err" || o.Before != o.After {
						report("impersonation-accepted", map[string]interface{}{"event": "event_sig_proposal_decline_by_participant"},
							fmt.Sprintf("%s declined in the name of %s", att, victim), map[string]interface{}{"position": pos, "before": o.Before, "after": o.After})
					}
				}})
			}
		}
	}
	return cases
}

func c10Rest(c *Ctx, w *World, me string, tag string, allEvents bool, roundA, roundB string, hA, hB []Item, cases []HistCase,
	report func(kind string, sig map[string]interface{}, what string, rep map[string]interface{})) []HistCase {
	// (3) a genuine message re-posted under another event name of the same request shape
	swap := map[string]string{
		"event_sig_proposal_confirm_by_participant": "event_sig_proposal_decline_by_participant",
		"event_dkg_commit_confirm_received":         "event_dkg_commit_confirm_canceled_by_error",
		"event_dkg_deal_confirm_received":           "event_dkg_deal_confirm_canceled_by_error",
		"event_dkg_response_confirm_received":       "event_dkg_response_confirm_canceled_by_error",
	}
	for k := 1; k < len(hA); k++ {
		g := hA[k].In.Msg
		var others []string
		if o, ok := swap[g.Event]; ok {
			others = append(others, o)
		}
		if allEvents {
			for _, e := range publicEvents {
				if e != g.Event && e != "event_sig_proposal_init" && (len(others) == 0 || e != others[0]) {
					others = append(others, e)
				}
			}
		}
		for _, other := range others {
			other := other
			replay := g
			replay.Event = other
			_, desc := w.sign(g.SenderAddr, g.Data)
			items := append(append([]Item{}, hA[:k]...), mkItem(replay, desc, hA[k].In.Now, "replay-event"))
			ev, pos := g.Event, k
			cases = append(cases, HistCase{Kind: "replay-event", User: me, Items: items, PrefixKey: fmt.Sprintf("A%s/%d", tag, k), Check: func(o RunObs) {
				if o.Classes[len(o.Classes)-1] == "ok" && o.Before != o.After {
					report("cross-event-replay", map[string]interface{}{},
						fmt.Sprintf("a genuine %s message re-posted as %s was accepted", ev, other),
						map[string]interface{}{"position": pos, "event": ev, "as": other})
				}
			}})
		}
	}
	_ = json.Marshal
	_ = requests.DefaultRequest{}
	return cases
}

// scenarioC05Node: unanimity at the node. A round advances on a participant's confirmation only when
// that participant delivered it: in every phase every other participant posts, validly signed by
// itself, the confirmation that names the awaited one - the node must refuse it and keep the round.
func scenarioC05Node(c *Ctx) {
	var cases []HistCase
	worlds := [][3]int{{3, 2, 1}}
	if !c.Quick() {
		worlds = append(worlds, [3]int{2, 2, 2}, [3]int{4, 3, 3})
	}
	for wi, nt := range worlds {
		w := NewWorld(nt[0], nt[1], nt[2])
		me := w.Users[0]
		tag := fmt.Sprintf("-c05-%d", wi)
		round := "round-c05" + tag
		report := func(kind string, sig map[string]interface{}, what string, rep map[string]interface{}) {
			sig["kind"] = "confirmation-not-delivered-by-its-participant"
			c.Fail(Failure{Property: "C05", Kind: sig["kind"].(string), Signature: sig, What: "a round took a participant's confirmation from somebody else: " + what, Replay: rep})
		}
		h := w.Honest(round, me)
		cases = append(cases, speaksForCases(w, me, round, h, tag, report)...)
		// "any failure aborts it for good": an error report by the awaited participant, in each of the
		// four key-generation phases, must reach the round through the node and cancel it
		first := func(label string) int {
			for i, it := range h {
				if it.Label == label {
					return i
				}
			}
			panic("no " + label)
		}
		for _, ph := range []struct{ label, event string }{
			{"commit", "event_dkg_commit_confirm_canceled_by_error"}, {"deal", "event_dkg_deal_confirm_canceled_by_error"},
			{"response", "event_dkg_response_confirm_canceled_by_error"}, {"master", "event_dkg_master_key_confirm_canceled_by_error"}} {
			k := first(ph.label) + 1 // one participant has already delivered in this phase
			rep := w.Msg(round, ph.event, requests.DKGProposalConfirmationErrorRequest{ParticipantId: 1, Error: requests.NewFSMError(fmt.Errorf("machine failed")), CreatedAt: T(45)}, w.Users[1], "", w.Users[1], NOWMARK, "error-report-"+ph.label)
			items := append(append([]Item{}, h[:k]...), rep)
			ph := ph
			cases = append(cases, HistCase{Kind: "error-report", User: me, Items: items, PrefixKey: fmt.Sprintf("%s/%d", round, k), Check: func(o RunObs) {
				if o.Classes[len(o.Classes)-1] != "ok" || !strings.Contains(roundProj(o.After, round), "_canceled_by_error") {
					c.Fail(Failure{Property: "C05", Kind: "failure-report-does-not-abort", Signature: map[string]interface{}{"kind": "failure-report-does-not-abort", "phase": ph.label},
						What:   fmt.Sprintf("a participant's error report in the %s phase (%s) does not cancel the round on the node (answered %s)", ph.label, ph.event, o.Classes[len(o.Classes)-1]),
						Replay: map[string]interface{}{"phase": ph.label, "event": ph.event, "after": roundProj(o.After, round)}})
				}
			}})
		}
	}
	runCases(c, cases)
	c.Notes["histories"] = len(cases)
}

func init() { scenarios["c05node"] = scenarioC05Node }

// c02node: "one group key" at node level - a participant that posts, under its own valid signature, the
// key announcements of the OTHER participants (with a key and polynomial of its choosing) before they
// answer must be refused: otherwise every node goes signing-ready holding a polynomial the machines
// never produced
func scenarioC02Node(c *Ctx) {
	w := NewWorld(3, 2, 4)
	me := w.Users[0]
	round := "round-c02-node"
	h := w.Honest(round, me)
	report := func(kind string, sig map[string]interface{}, what string, rep map[string]interface{}) {
		sig["kind"] = kind
		c.Fail(Failure{Property: "C02", Kind: kind, Signature: sig, What: what, Replay: rep})
	}
	var cases []HistCase
	for _, hc := range speaksForCases(w, me, round, h, "-c02", report) {
		last := hc.Items[len(hc.Items)-1]
		if last.In.Msg.Event == "event_dkg_master_key_confirm_received" {
			cases = append(cases, hc)
		}
	}
	runCases(c, cases)
}

func init() { scenarios["c02node"] = scenarioC02Node }
