package main

import (
	"math/rand"
	"crypto/sha256"
	"encoding/binary"
	"encoding/hex"
	"fmt"
	"math"
	"strconv"
	"strings"

	"github.com/lidofinance/dc4bc/fsm/types/requests"
	"github.com/lidofinance/dc4bc/pkg/wc_rotation"
)

func init() { scenarios["c17"] = scenarioC17 }

// ---- independent oracle: the consensus-spec signing root written directly with crypto/sha256 ----
func h2(a, b []byte) []byte { s := sha256.Sum256(append(append([]byte{}, a...), b...)); return s[:] }
func pad32b(b []byte) []byte { o := make([]byte, 32); copy(o, b); return o }

var (
	specKey, _  = hex.DecodeString("b67aca71f04b673037b54009b760f1961f3836e5714141c892afdb75ec0834dce6784d9c72ed8ad7db328cff8fe9f13e")
	specAddr, _ = hex.DecodeString("b9d7934878b5fb9610b3fe8a5e441e8fad7e293f")
	specGVR, _  = hex.DecodeString("4b363db94e286120d76eb905340fdd4e54bfe9f06bf33ff6cf5ad27f511bfe95")
)

func specSigningRoot(idx uint64) []byte {
	le := make([]byte, 8)
	binary.LittleEndian.PutUint64(le, idx)
	zero := make([]byte, 32)
	keyRoot := h2(specKey[:32], pad32b(specKey[32:]))
	obj := h2(h2(pad32b(le), keyRoot), h2(pad32b(specAddr), zero))
	forkDataRoot := h2(pad32b([]byte{0, 0, 0, 0}), specGVR)
	domain := append([]byte{0x0A, 0, 0, 0}, forkDataRoot[:28]...)
	return h2(obj, domain)
}

func obsRoot(v uint64) (string, []byte) {
	r, err := wc_rotation.GetSigningRoot(v)
	if err != nil {
		return fmt.Sprintf("root %d ERR", v), nil
	}
	return fmt.Sprintf("root %d %s", v, hex.EncodeToString(r[:])), r[:]
}

type posObs struct {
	class string // ok | err | panic
	msg   requests.MessageToSign
}

func callReconstruct(i int) (o posObs) {
	defer func() {
		if r := recover(); r != nil {
			o = posObs{class: "panic"}
		}
	}()
	m, err := requests.ReconstructBakedMessage(i)
	if err != nil {
		return posObs{class: "err"}
	}
	return posObs{class: "ok", msg: m}
}

func (o posObs) line(i int) string {
	if o.class != "ok" {
		return fmt.Sprintf("pos %d %s", i, o.class)
	}
	b := 0
	if o.msg.BakedDataPayload {
		b = 1
	}
	return fmt.Sprintf("pos %d ok id=%s file=%s payload=%s baked=%d", i,
		hex.EncodeToString([]byte(o.msg.MessageID)), hex.EncodeToString([]byte(o.msg.File)),
		hex.EncodeToString(o.msg.Payload), b)
}

func scenarioC17(c *Ctx) {
	const listLen = 18632
	// --- validator indices: boundaries + random ---
	vals := []uint64{0, 1, 2, 255, 256, 65535, 65536, 1<<32 - 1, 1 << 32, 1<<32 + 1, 1<<63 - 1, 1 << 63, 1<<63 + 1, math.MaxUint64 - 1, math.MaxUint64, 393395}
	nr := 200
	if !c.Quick() {
		nr = 3000
	}
	for i := 0; i < nr; i++ {
		switch i % 4 {
		case 0:
			vals = append(vals, c.Rng.Uint64())
		case 1:
			vals = append(vals, uint64(c.Rng.Intn(2000000)))
		case 2:
			vals = append(vals, uint64(1)<<uint(c.Rng.Intn(64))+uint64(c.Rng.Intn(3))-1)
		default:
			vals = append(vals, c.Rng.Uint64()>>uint(c.Rng.Intn(64)))
		}
	}
	for _, v := range vals {
		line, r := obsRoot(v)
		c.Case("root", true, fmt.Sprintf("root %d", v), line)
		if r == nil || hex.EncodeToString(r) != hex.EncodeToString(specSigningRoot(v)) {
			c.Fail(Failure{Property: "C17", Kind: "root-mismatch",
				Signature: map[string]interface{}{"kind": "root-mismatch"},
				What:      fmt.Sprintf("GetSigningRoot(%d) differs from the consensus-spec signing root", v),
				Replay:    map[string]interface{}{"validator_index": strconv.FormatUint(v, 10), "observed": line, "expected": hex.EncodeToString(specSigningRoot(v))}})
		}
	}
	// --- positions ---
	var positions []int
	for i := -6; i <= 40; i++ {
		positions = append(positions, i)
	}
	for i := listLen - 40; i <= listLen+8; i++ {
		positions = append(positions, i)
	}
	positions = append(positions, math.MinInt64, math.MinInt32, -listLen, 2*listLen, math.MaxInt32, math.MaxInt64)
	if c.Quick() {
		for i := 0; i < 1200; i++ {
			positions = append(positions, c.Rng.Intn(listLen))
		}
	} else {
		for i := 41; i < listLen-40; i++ {
			positions = append(positions, i)
		}
	}
	lines := strings.Split(wc_rotation.ValidatorsIndexes, "\n")
	seenID := map[string]int{}
	done := map[int]bool{}
	for _, i := range positions {
		if done[i] {
			continue
		}
		done[i] = true
		o := callReconstruct(i)
		kind := "pos-in"
		if i < 0 {
			kind = "pos-negative"
		} else if i >= listLen {
			kind = "pos-beyond"
		}
		c.Case(kind, true, fmt.Sprintf("pos %d", i), o.line(i))
		rep := map[string]interface{}{"position": i, "observed": o.line(i)}
		inRange := i >= 0 && i < listLen
		switch {
		case o.class == "panic":
			c.Fail(Failure{Property: "C17", Kind: "position-panic", Signature: map[string]interface{}{"kind": "position-panic", "negative": i < 0},
				What: fmt.Sprintf("ReconstructBakedMessage(%d) panics", i), Replay: rep})
		case inRange && o.class != "ok":
			c.Fail(Failure{Property: "C17", Kind: "position-refused", Signature: map[string]interface{}{"kind": "position-refused"},
				What: fmt.Sprintf("position %d of the baked list is refused", i), Replay: rep})
		case !inRange && o.class == "ok":
			c.Fail(Failure{Property: "C17", Kind: "outside-accepted", Signature: map[string]interface{}{"kind": "outside-accepted"},
				What: fmt.Sprintf("position %d outside the list yields a message", i), Replay: rep})
		case inRange:
			v, err := strconv.ParseUint(o.msg.MessageID, 10, 64)
			want := ""
			if err == nil {
				want = hex.EncodeToString(specSigningRoot(v))
			}
			if err != nil || hex.EncodeToString(o.msg.Payload) != want || !o.msg.BakedDataPayload ||
				o.msg.File != fmt.Sprintf("bakedrange%d", i) || (i < len(lines) && o.msg.MessageID != lines[i]) {
				c.Fail(Failure{Property: "C17", Kind: "position-wrong-message", Signature: map[string]interface{}{"kind": "position-wrong-message"},
					What: fmt.Sprintf("position %d yields a message that is not the spec signing root of its index", i), Replay: rep})
			}
			if j, dup := seenID[o.msg.MessageID]; dup {
				c.Fail(Failure{Property: "C17", Kind: "duplicate-index", Signature: map[string]interface{}{"kind": "duplicate-index"},
					What: fmt.Sprintf("validator index %s at positions %d and %d", o.msg.MessageID, j, i), Replay: rep})
			}
			seenID[o.msg.MessageID] = i
		}
	}
	// --- ranges far outside the list: every position outside is REFUSED - the expansion must not crash
	// on them either (a proposal is expanded by every node and every airgapped machine)
	for _, rg := range [][2]int{{1 << 40, math.MaxInt64}, {math.MinInt64, math.MaxInt64}, {-(1 << 62), -1}, {listLen, 1 << 62}, {math.MaxInt64 - 1, math.MaxInt64}} {
		obs, _ := expandObs([]requests.SigningTask{{MessageID: "r", RangeStart: rg[0], RangeEnd: rg[1]}})
		c.Case("range-outside", true, tasksLine([]requests.SigningTask{{MessageID: "r", RangeStart: rg[0], RangeEnd: rg[1]}}), obs)
		if obs != "tasks err" {
			kind := "outside-accepted"
			if obs == "tasks panic" {
				kind = "position-panic"
			}
			c.Fail(Failure{Property: "C17", Kind: kind, Signature: map[string]interface{}{"kind": kind, "negative": rg[0] < 0},
				What: fmt.Sprintf("expanding the baked range [%d,%d) does not end in a refusal: %s", rg[0], rg[1], obs), Replay: map[string]interface{}{"range_start": rg[0], "range_end": rg[1]}})
		}
	}
	// --- concurrent callers: the poller expands a proposal while API handlers and the reconstruction
	// expand others; every caller must still get the spec root of ITS position ---
	workers, per := 8, 150
	if !c.Quick() {
		per = 1500
	}
	type cres struct {
		i int
		o posObs
	}
	resCh := make(chan []cres, workers)
	for wk := 0; wk < workers; wk++ {
		seed := c.Rng.Int63()
		go func(seed int64) {
			r := rand.New(rand.NewSource(seed))
			var out []cres
			for j := 0; j < per; j++ {
				i := r.Intn(listLen)
				out = append(out, cres{i, callReconstruct(i)})
			}
			resCh <- out
		}(seed)
	}
	reported := false
	for wk := 0; wk < workers; wk++ {
		for _, cr := range <-resCh {
			c.Case("pos-concurrent", true, fmt.Sprintf("pos %d", cr.i), cr.o.line(cr.i))
			ok := cr.o.class == "ok"
			if ok {
				v, err := strconv.ParseUint(cr.o.msg.MessageID, 10, 64)
				ok = err == nil && cr.i < len(lines) && cr.o.msg.MessageID == lines[cr.i] &&
					hex.EncodeToString(cr.o.msg.Payload) == hex.EncodeToString(specSigningRoot(v))
			}
			if !ok && !reported {
				reported = true
				c.Fail(Failure{Property: "C17", Kind: "concurrent-wrong-message", Signature: map[string]interface{}{"kind": "concurrent-wrong-message"},
					What:   fmt.Sprintf("with %d concurrent callers position %d yields a message that is not the spec signing root of its index", workers, cr.i),
					Replay: map[string]interface{}{"position": cr.i, "observed": cr.o.line(cr.i), "concurrent_callers": workers}})
			}
		}
	}
	c.Notes["concurrent_calls"] = workers * per
	c.Notes["positions"] = len(done)
	c.Notes["indices"] = len(vals)
	c.Notes["exhaustive_positions"] = !c.Quick()
}
