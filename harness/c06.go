package main

import (
	"fmt"

	"github.com/lidofinance/dc4bc/fsm/types/requests"
)

func init() {
	scenarios["c06"] = scenarioC06
}

const (
	stIdle      = "stage_signing_idle"
	stAwaitSign = "state_signing_await_partial_signs"
	stCollected = "state_signing_partial_signs_collected"
	stSgnErr    = "state_signing_partial_signs_await_cancelled_by_error"
	stSgnTmo    = "state_signing_partial_signs_await_cancelled_by_timeout"
)

// c06Oracle judges one accepted/refused signing event (before -> after) of the implementation.
func c06Oracle(c *Ctx, n, t int, srcProj string, src []byte, ev Ev, o StepObs) {
	fail := func(kind, what string) {
		c.Fail(Failure{Property: "C06", Kind: kind, Signature: map[string]interface{}{"kind": kind},
			What: what, Replay: map[string]interface{}{"n": n, "t": t, "dump": srcProj, "event": ev.Line(), "observed": o.Line()}})
	}
	if o.Class == "panic" {
		fail("fsm-panic", "a signing event makes the round FSM panic")
		return
	}
	if o.Class != "ok" {
		return
	}
	bd := decodeDump(src)
	ad := decodeDump(o.DumpOut)
	before, after := abstractOf(bd), abstractOf(ad)
	count := func(m map[int]int, s int) int {
		k := 0
		for _, v := range m {
			if v == s {
				k++
			}
		}
		return k
	}
	switch ev.Name {
	case "event_signing_partial_sign_received":
		req := ev.Req.val.(requests.SigningProposalBatchPartialSignRequests)
		if bd.Payload.SigningProposalPayload == nil || req.BatchID != bd.Payload.SigningProposalPayload.BatchID {
			fail("stale-batch-counted", "a partial signature made for another batch was accepted and counted")
		}
		if st, ok := before.SgnStatus[req.ParticipantId]; !ok || st != 0 {
			fail("contribution-counted-twice", "a participant that is not awaited (already answered or unknown) was counted")
		}
		confirmed := count(before.SgnStatus, 1) + 1
		failed := count(before.SgnStatus, 2)
		wantCollected := confirmed >= t && failed <= n-t
		if (after.State == stCollected) != wantCollected {
			fail("collection-threshold", fmt.Sprintf("with %d distinct contributions (t=%d, n=%d) the state after the contribution is %s", confirmed, t, n, after.State))
		}
		if after.State == stCollected {
			// the response lists exactly the distinct contributors of this batch
			contributors := 0
			for _, q := range ad.Payload.SigningProposalPayload.Quorum {
				if len(q.PartialSigns) > 0 {
					contributors++
				}
			}
			if contributors != t {
				fail("collection-contributors", fmt.Sprintf("reconstruction starts with %d contributors, threshold is %d", contributors, t))
			}
		}
	case "event_signing_partial_sign_error_received":
		failed := count(before.SgnStatus, 2) + 1
		if (after.State == stSgnErr) != (failed > n-t) {
			fail("failure-threshold", fmt.Sprintf("%d failure reports (n=%d, t=%d) leave the batch in %s", failed, n, t, after.State))
		}
	case "event_signing_restart":
		if after.State != stIdle {
			fail("restart-not-idle", "a restart did not return the round to idle")
		}
	case "event_signing_start":
		if before.State != stIdle || after.State != stAwaitSign {
			fail("start-wrong-state", "a proposal was accepted outside the idle state or did not open a batch")
		}
		if count(after.SgnStatus, 0) != n {
			fail("start-quorum", "a new batch does not await every participant")
		}
	}
}

func scenarioC06(c *Ctx) {
	type cfg struct{ n, t, max int; full bool }
	var cfgs []cfg
	if c.Quick() {
		cfgs = []cfg{{2, 2, 100000, true}, {3, 2, 1500, true}, {3, 3, 1500, false}}
	} else {
		cfgs = []cfg{{2, 2, 1000000, true}, {3, 2, 1000000, true}, {3, 3, 1000000, true}, {4, 2, 8000, false}, {4, 3, 8000, false}, {4, 4, 8000, false}}
	}
	explored := []map[string]interface{}{}
	for _, cf := range cfgs {
		n, t := cf.n, cf.t
		res := exploreFrom(readyDump(n, t), alphabet(n, t, cf.full, "signing"), cf.max, func(srcProj string, src []byte, ev Ev, o StepObs) {
			c.Case(ev.Kind+"/"+o.Class, o.Class == "ok" || o.Class == "err", "fsm "+srcProj+" | "+ev.Line(), o.Line())
			c06Oracle(c, n, t, srcProj, src, ev, o)
		})
		explored = append(explored, map[string]interface{}{"n": n, "t": t, "full_alphabet": cf.full, "abstract_states": len(res.States),
			"edges": res.Edges, "fixpoint": res.Fixpoint, "states_by_name": res.Terminal})
	}
	// randomised longer sequences, n up to 7: mostly valid events, the node's restart after each batch
	walks, steps := 60, 40
	if !c.Quick() {
		walks, steps = 600, 80
	}
	for w := 0; w < walks; w++ {
		n := 4 + c.Rng.Intn(4)
		t := 2 + c.Rng.Intn(n-1)
		evs := alphabet(n, t, c.Rng.Intn(4) == 0, "signing")
		bz := readyDump(n, t)
		for s := 0; s < steps; s++ {
			ev := evs[c.Rng.Intn(len(evs))]
			proj := projOfBytes(bz)
			o := doOnDump(bz, ev)
			c.Case("walk/"+ev.Kind+"/"+o.Class, o.Class == "ok", "fsm "+proj+" | "+ev.Line(), o.Line())
			c06Oracle(c, n, t, proj, bz, ev, o)
			if o.Class == "ok" {
				bz = o.DumpOut
				st := string(decodeDump(bz).State)
				if st == stCollected || st == stSgnErr || st == stSgnTmo {
					if c.Rng.Intn(3) != 0 { // the node restarts after a finished batch
						rs := Ev{"event_signing_restart", reqDefault(T(40)), "restart"}
						proj2 := projOfBytes(bz)
						o2 := doOnDump(bz, rs)
						c.Case("walk/restart/"+o2.Class, true, "fsm "+proj2+" | "+rs.Line(), o2.Line())
						c06Oracle(c, n, t, proj2, bz, rs, o2)
						if o2.Class == "ok" {
							bz = o2.DumpOut
						}
					}
				}
			}
		}
	}
	c.Notes["explorations"] = explored
	c.Notes["random_walks"] = map[string]int{"walks": walks, "steps": steps}
}
