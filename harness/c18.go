package main

import (
	"math"
	"bytes"
	"encoding/json"
	"strings"
	"encoding/base64"
	"sort"
	"fmt"

	"github.com/lidofinance/dc4bc/fsm/types/requests"
)

func init() {
	scenarios["c18"] = scenarioC18
}

// junkAt returns malformed or unexpected inputs, validly signed by a participant where a
// signature is needed to get past verification, to be injected after a prefix of the ceremony.
func junkAt(w *World, round string, now int64, thorough bool) []Item {
	u := w.Users
	var out []Item
	raw := func(label, event string, data string, sender string) {
		out = append(out, w.RawMsg(round, event, []byte(data), sender, "", sender, now, label))
	}
	raw("unknown-event", "event_bogus", `{"ParticipantId":0}`, u[1])
	raw("empty-event", "", `{}`, u[1])
	raw("internal-event", "event_dkg_commits_confirmed_internal", `{}`, u[1])
	for _, ev := range []string{"event_sig_proposal_confirm_by_participant", "event_dkg_commit_confirm_received", "event_dkg_deal_confirm_received",
		"event_dkg_master_key_confirm_received", "event_signing_start", "event_signing_partial_sign_received",
		"event_dkg_commit_confirm_canceled_by_error", "event_signing_partial_sign_error_received", "signature_reconstructed", "signature_reconstruction_failed"} {
		raw("bad-json", ev, `{"ParticipantId":`, u[1])
		raw("json-null", ev, `null`, u[1])
		raw("json-array", ev, `[1,2,3]`, u[1])
		raw("json-empty-array", ev, `[]`, u[1]) // decodes to an EMPTY, non-nil list where a list is expected
		raw("type-confusion", ev, `{"ParticipantId":"one","CreatedAt":17}`, u[1])
		raw("negative-id", ev, `{"ParticipantId":-1,"CreatedAt":"2023-11-14T22:13:30Z","Commit":"QQ==","Deal":"QQ==","MasterKey":"QQ==","BatchID":"b"}`, u[1])
		raw("huge-id", ev, `{"ParticipantId":9223372036854775807,"CreatedAt":"2023-11-14T22:13:30Z","Commit":"QQ==","Deal":"QQ==","MasterKey":"QQ==","BatchID":"b"}`, u[1])
		raw("empty-object", ev, `{}`, u[1])
	}
	// signing proposals with hostile task lists
	mkStart := func(label string, tasks []requests.SigningTask) {
		out = append(out, w.Msg(round, "event_signing_start", requests.SigningBatchProposalStartRequest{BatchID: "batch-junk", ParticipantId: 1, CreatedAt: T(95), SigningTasks: tasks}, u[1], "", u[1], now, label))
	}
	// a well-formed, validly signed proposal: refused whenever the round is not idle
	mkStart("valid-proposal", w.Tasks("batch-junk"))
	mkStart("range-negative", []requests.SigningTask{{MessageID: "r", RangeStart: -3, RangeEnd: 1}})
	mkStart("range-beyond", []requests.SigningTask{{MessageID: "r", RangeStart: 18630, RangeEnd: 18640}})
	mkStart("range-empty", []requests.SigningTask{{MessageID: "r", RangeStart: 5, RangeEnd: 5}})
	// ranges that START at and next to the end of the embedded list (18 632 validators; the list text
	// ends with a newline, so position 18632 exists and is empty, 18633 is the first one past it)
	for _, st := range []int{18631, 18632, 18633, 18634} {
		mkStart(fmt.Sprintf("range-starts-at-%d", st), []requests.SigningTask{{MessageID: "r", RangeStart: st, RangeEnd: st + 2}})
	}
	mkStart("range-far-beyond", []requests.SigningTask{{MessageID: "r", RangeStart: 1 << 40, RangeEnd: math.MaxInt64}})
	mkStart("range-span-overflows", []requests.SigningTask{{MessageID: "r", RangeStart: math.MinInt64, RangeEnd: math.MaxInt64}})
	mkStart("range-negative-wide", []requests.SigningTask{{MessageID: "r", RangeStart: -(1 << 62), RangeEnd: -1}})
	if thorough { // expands all 18 632 baked entries before failing: seconds per case
		mkStart("range-huge", []requests.SigningTask{{MessageID: "r", RangeStart: 0, RangeEnd: 1 << 40}})
	}
	// messages for a round nobody opened
	out = append(out, w.RawMsg("round-unknown-xyz", "event_dkg_commit_confirm_received", []byte(`{"ParticipantId":0}`), u[1], "", u[1], now, "unknown-round"))
	out = append(out, w.RawMsg("ab", "event_sig_proposal_confirm_by_participant", []byte(`{"ParticipantId":0}`), "stranger", "", "", now, "short-round-id"))
	out = append(out, w.RawMsg("", "event_sig_proposal_init", []byte(`{}`), u[1], "", u[1], now, "empty-round-id"))
	return out
}


// junkOpen: hostile opening proposals and reinitialisation messages. Neither kind is
// signature-checked (they carry the keys), so anybody who can write to the board can post them.
// Each entry is a short sequence; the check applies to every item of it.
func junkOpen(w *World, me string) map[string][]Item {
	u := w.Users
	now := int64(NOWMARK)
	out := map[string][]Item{}
	ts := `"CreatedAt":"2023-11-14T22:13:20Z"`
	part := func(name string, keyLen int) string {
		key := bytes.Repeat([]byte{7}, keyLen)
		return fmt.Sprintf(`{"Username":%q,"PubKey":%q,"DkgPubKey":%q}`, name, base64.StdEncoding.EncodeToString(key), base64.StdEncoding.EncodeToString([]byte("dkgpubkey--x")))
	}
	initRaw := func(label, round, body string) Item {
		return w.RawMsg(round, "event_sig_proposal_init", []byte(body), u[1], "", u[1], now, label)
	}
	single := map[string]string{
		"init-participants-null-entries": `{"Participants":[null,null],"SigningThreshold":2,` + ts + `}`,
		"init-participants-one-null":     `{"Participants":[` + part("user0", 32) + `,null],"SigningThreshold":2,` + ts + `}`,
		"init-participants-null":         `{"Participants":null,"SigningThreshold":2,` + ts + `}`,
		"init-participants-empty":        `{"Participants":[],"SigningThreshold":0,` + ts + `}`,
		"init-threshold-zero":            `{"Participants":[` + part("user0", 32) + `,` + part("user1", 32) + `],"SigningThreshold":0,` + ts + `}`,
		"init-threshold-negative":        `{"Participants":[` + part("user0", 32) + `,` + part("user1", 32) + `],"SigningThreshold":-1,` + ts + `}`,
		"init-threshold-above-n":         `{"Participants":[` + part("user0", 32) + `,` + part("user1", 32) + `],"SigningThreshold":3,` + ts + `}`,
		"init-duplicate-usernames":       `{"Participants":[` + part("user0", 32) + `,` + part("user0", 32) + `],"SigningThreshold":2,` + ts + `}`,
		"init-empty-username":            `{"Participants":[` + part("", 32) + `,` + part("user1", 32) + `],"SigningThreshold":2,` + ts + `}`,
		"init-key-too-short":             `{"Participants":[` + part("user0", 5) + `,` + part("user1", 32) + `],"SigningThreshold":2,` + ts + `}`,
		"init-no-created-at":             `{"Participants":[` + part("user0", 32) + `,` + part("user1", 32) + `],"SigningThreshold":2}`,
		"init-json-null":                 `null`,
		"init-json-array":                `[]`,
		"init-bad-json":                  `{"Participants":[`,
		"init-type-confusion":            `{"Participants":{"a":1},"SigningThreshold":"two",` + ts + `}`,
	}
	for label, body := range single {
		out[label] = []Item{initRaw(label, "round-c18-open-"+label, body)}
	}
	// a proposal that registers a communication key of an impossible length is accepted (the
	// minimum is 10 bytes); the next message in that participant's name must be refused, not crash
	for _, kl := range []int{10, 31, 33, 64} {
		label := fmt.Sprintf("init-key-length-%d-then-message", kl)
		round := "round-c18-open-" + label
		body := `{"Participants":[` + part(me, 32) + `,` + part("user-oddkey", kl) + `],"SigningThreshold":2,` + ts + `}`
		follow := w.RawMsg(round, "event_sig_proposal_confirm_by_participant", []byte(`{"ParticipantId":1,"CreatedAt":"2023-11-14T22:13:30Z"}`), "user-oddkey", "", u[1], now, label+"/follow")
		out[label] = []Item{initRaw(label, round, body), follow}
	}
	// reinitialisation messages
	rawReinit := func(label, body string) Item { return w.ReinitItem("carrier-"+label, nil, []byte(body), label) }
	for label, body := range map[string]string{
		"reinit-empty-id":          `{"dkg_id":"","threshold":2,"participants":[],"messages":[]}`,
		"reinit-blank-id":          `{"dkg_id":" ","threshold":2,"participants":[],"messages":[]}`,
		"reinit-tab-id":            `{"dkg_id":"\t\n","threshold":2,"participants":null,"messages":null}`,
		"reinit-json-null":         `null`,
		"reinit-json-array":        `[1]`,
		"reinit-bad-json":          `{"dkg_id":`,
		"reinit-type-confusion":    `{"dkg_id":5,"threshold":"x"}`,
		"reinit-null-lists":        `{"dkg_id":"round-c18-reinit-nl","threshold":2,"participants":null,"messages":null}`,
		"reinit-embedded-junk":     `{"dkg_id":"round-c18-reinit-ej","threshold":2,"participants":[],"messages":[{"dkg_round_id":"round-c18-reinit-ej","event":"event_bogus","data":null},{"dkg_round_id":"round-c18-reinit-ej","event":"event_sig_proposal_init","data":"bnVsbA=="},{"dkg_round_id":"round-c18-reinit-ej","event":"event_sig_proposal_init","data":"eyJQYXJ0aWNpcGFudHMiOltudWxsXSwiU2lnbmluZ1RocmVzaG9sZCI6MX0="}]}`,
	} {
		out[label] = []Item{rawReinit(label, body)}
	}
	// a reinitialisation that installs a communication key of an impossible length, then a message
	// in that participant's name
	{
		label := "reinit-key-length-5-then-message"
		round := "round-c18-reinit-kl"
		body := fmt.Sprintf(`{"dkg_id":%q,"threshold":2,"participants":[{"dkg_pub_key":"AA==","old_comm_pub_key":"AA==","new_comm_pub_key":"BwcHBwc=","name":"user-oddkey"}],"messages":[]}`, round)
		follow := w.RawMsg(round, "event_sig_proposal_confirm_by_participant", []byte(`{"ParticipantId":0,"CreatedAt":"2023-11-14T22:13:30Z"}`), "user-oddkey", "", u[1], now, label+"/follow")
		out[label] = []Item{rawReinit(label, body), follow}
	}
	return out
}

func scenarioC18(c *Ctx) {
	w := NewWorld(3, 2, 1)
	me := w.Users[0]
	round := "round-c18"
	h := w.Honest(round, me)
	var cases []HistCase
	positions := []int{0, 1, 3, 4, 7, 10, 13, 16, 17, 18, len(h)}
	if !c.Quick() {
		positions = nil
		for k := 0; k <= len(h); k++ {
			positions = append(positions, k)
		}
	}
	for _, k := range positions {
		if k > len(h) {
			continue
		}
		for _, j := range junkAt(w, round, NOWMARK, !c.Quick()) {
			items := append(append([]Item{}, h[:k]...), j)
			label, pos := j.Label, k
			cases = append(cases, HistCase{Kind: "junk-" + label, User: me, Items: items, PrefixKey: fmt.Sprintf("%s/%d", round, k), Check: func(o RunObs) {
				last := o.Classes[len(o.Classes)-1]
				if last == "panic" {
					c.Fail(Failure{Property: "C18", Kind: "node-panic", Signature: map[string]interface{}{"kind": "node-panic", "input": label},
						What: "a board message crashes the node: " + label, Replay: map[string]interface{}{"position": pos, "input": label}})
				}
				if last == "err" && o.Before != o.After {
					c.Fail(Failure{Property: "C18", Kind: "rejected-input-changed-state", Signature: map[string]interface{}{"kind": "rejected-input-changed-state", "input": label},
						What:   fmt.Sprintf("a rejected board message (%s) changed the node's durable state", label),
						Replay: map[string]interface{}{"position": pos, "input": label, "before": o.Before, "after": o.After}})
				}
			}})
		}
	}
	// a signing batch cancelled by failures: the next message finds the round in a cancelled state
	h2 := append([]Item{}, h...)
	tasksB := w.Tasks("batch-B")
	h2 = append(h2, w.Msg(round, "event_signing_start", requests.SigningBatchProposalStartRequest{BatchID: "batch-B", ParticipantId: 0, CreatedAt: T(300), SigningTasks: tasksB}, w.Users[0], "", w.Users[0], NOWMARK, "start-B"))
	for _, i := range []int{1, 2} {
		h2 = append(h2, w.Msg(round, "event_signing_partial_sign_error_received", requests.SignatureProposalConfirmationErrorRequest{Error: requests.NewFSMError(fmt.Errorf("cannot sign")), ParticipantId: i, CreatedAt: T(310)}, w.Users[i], "", w.Users[i], NOWMARK, "sign-error"))
	}
	afterCancel := junkAt(w, round, NOWMARK, false)
	// the cancelled batch's own proposal once more, byte for byte (its operation is still pending)
	replayed := h2[len(h)]
	replayed.Label = "replay-of-the-cancelled-proposal"
	afterCancel = append(afterCancel, replayed)
	for _, j := range afterCancel {
		items := append(append([]Item{}, h2...), j)
		label := j.Label
		cases = append(cases, HistCase{Kind: "junk-after-cancel-" + label, User: me, Items: items, PrefixKey: round + "/cancelled", Check: func(o RunObs) {
			last := o.Classes[len(o.Classes)-1]
			if last == "panic" {
				c.Fail(Failure{Property: "C18", Kind: "node-panic", Signature: map[string]interface{}{"kind": "node-panic", "input": label},
					What: "a board message crashes the node: " + label, Replay: map[string]interface{}{"position": "after a cancelled batch", "input": label}})
			}
			if last == "err" && o.Before != o.After {
				c.Fail(Failure{Property: "C18", Kind: "rejected-input-changed-state", Signature: map[string]interface{}{"kind": "rejected-input-changed-state", "input": label},
					What:   fmt.Sprintf("a rejected board message (%s) that finds the signing round in a cancelled state changed the node's durable state", label),
					Replay: map[string]interface{}{"position": "after a batch cancelled by failures", "input": label, "before": o.Before, "after": o.After}})
			}
		}})
	}
	// hostile opening proposals and reinitialisation messages, on a fresh node and next to a live round
	open := junkOpen(w, me)
	var openLabels []string
	for l := range open {
		openLabels = append(openLabels, l)
	}
	sort.Strings(openLabels)
	for _, prefixLen := range []int{0, 5} {
		for _, label := range openLabels {
			seq := open[label]
			for upto := 1; upto <= len(seq); upto++ {
				items := append(append([]Item{}, h[:prefixLen]...), seq[:upto]...)
				label, pl := seq[upto-1].Label, prefixLen
				cases = append(cases, HistCase{Kind: "open-" + label, User: me, Items: items, Check: func(o RunObs) {
					last := o.Classes[len(o.Classes)-1]
					if last == "panic" {
						c.Fail(Failure{Property: "C18", Kind: "node-panic", Signature: map[string]interface{}{"kind": "node-panic", "input": label},
							What: "a board message crashes the node: " + label, Replay: map[string]interface{}{"after_messages_of_a_live_round": pl, "input": label}})
					}
					if last == "err" && o.Before != o.After {
						c.Fail(Failure{Property: "C18", Kind: "rejected-input-changed-state", Signature: map[string]interface{}{"kind": "rejected-input-changed-state", "input": label},
							What:   fmt.Sprintf("a rejected board message (%s) changed the node's durable state", label),
							Replay: map[string]interface{}{"after_messages_of_a_live_round": pl, "input": label, "before": o.Before, "after": o.After}})
					}
				}})
			}
		}
	}
	runCases(c, cases)
	c.Notes["histories"] = len(cases)
	// timestamps at the edge of what JSON can carry (years 0 and 9999; the deadline added to the
	// latter is not representable): oracle only - the model's clock is an unbounded integer.
	// Whatever the node answers, it must not crash and every round it holds must stay decodable.
	ext := 0
	for _, stamp := range []string{"9999-12-31T23:59:59Z", "9999-12-25T00:00:00Z", "0000-01-01T00:00:00Z", "0001-01-01T00:00:01Z"} {
		type step struct {
			prefix int
			it     Item
		}
		initBody := fmt.Sprintf(`{"Participants":[{"Username":%q,"PubKey":%q,"DkgPubKey":"ZGtncHVia2V5LS14"},{"Username":"user-x","PubKey":%q,"DkgPubKey":"ZGtncHVia2V5LS14"}],"SigningThreshold":2,"CreatedAt":%q}`,
			me, base64.StdEncoding.EncodeToString(w.Keys[me].Pub), base64.StdEncoding.EncodeToString(w.Keys[w.Users[1]].Pub), stamp)
		steps := []step{{0, w.RawMsg("round-c18-time-"+stamp, "event_sig_proposal_init", []byte(initBody), w.Users[1], "", w.Users[1], NOWMARK, "init-created-at-"+stamp)}}
		for k, ev := range map[int]string{1: "event_sig_proposal_confirm_by_participant", 4: "event_dkg_commit_confirm_received", 7: "event_dkg_deal_confirm_received",
			10: "event_dkg_response_confirm_received", 13: "event_dkg_master_key_confirm_received", 16: "event_signing_start", 17: "event_signing_partial_sign_received"} {
			var raw map[string]interface{}
			if json.Unmarshal(h[k].In.Msg.Data, &raw) != nil {
				continue
			}
			raw["CreatedAt"] = stamp
			data, _ := json.Marshal(raw)
			sender := h[k].In.Msg.SenderAddr
			steps = append(steps, step{k, w.RawMsg(round, ev, data, sender, h[k].In.Msg.RecipientAddr, sender, NOWMARK, ev+"-created-at-"+stamp)})
		}
		for _, st := range steps {
			e := NewNodeEnv(newEnvDir(c), me)
			for _, it := range h[:st.prefix] {
				applyItem(e, it)
			}
			cl := applyItem(e, st.it)
			snap := e.Snapshot()
			e.Close()
			ext++
			label := st.it.Label
			if cl == "panic" {
				c.Fail(Failure{Property: "C18", Kind: "node-panic", Signature: map[string]interface{}{"kind": "node-panic", "input": label},
					What: "a board message crashes the node: " + label, Replay: map[string]interface{}{"position": st.prefix, "input": label}})
			}
			if strings.Contains(snap, "undecodable") {
				c.Fail(Failure{Property: "C18", Kind: "undecodable-round-persisted", Signature: map[string]interface{}{"kind": "undecodable-round-persisted"},
					What:   fmt.Sprintf("after the board message %s (answered %q) the node holds a round that cannot be decoded any more", label, cl),
					Replay: map[string]interface{}{"position": st.prefix, "input": label, "after": snap}})
			}
		}
	}
	c.Notes["extreme_timestamp_inputs"] = ext
}
