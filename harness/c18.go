package main

import (
	"fmt"

	"github.com/lidofinance/dc4bc/fsm/types/requests"
)

func init() {
	scenarios["c18"] = scenarioC18
}

// junkAt returns malformed or unexpected inputs, validly signed by a participant where a
// signature is needed to get past verification, to be injected after a prefix of the ceremony.
func junkAt(w *World, round string, now int64, thorough bool) []Item {
	u := w.Users
	var out []Item
	raw := func(label, event string, data string, sender string) {
		out = append(out, w.RawMsg(round, event, []byte(data), sender, "", sender, now, label))
	}
	raw("unknown-event", "event_bogus", `{"ParticipantId":0}`, u[1])
	raw("empty-event", "", `{}`, u[1])
	raw("internal-event", "event_dkg_commits_confirmed_internal", `{}`, u[1])
	for _, ev := range []string{"event_sig_proposal_confirm_by_participant", "event_dkg_commit_confirm_received", "event_dkg_deal_confirm_received",
		"event_dkg_master_key_confirm_received", "event_signing_start", "event_signing_partial_sign_received",
		"event_dkg_commit_confirm_canceled_by_error", "event_signing_partial_sign_error_received", "signature_reconstructed", "signature_reconstruction_failed"} {
		raw("bad-json", ev, `{"ParticipantId":`, u[1])
		raw("json-null", ev, `null`, u[1])
		raw("json-array", ev, `[1,2,3]`, u[1])
		raw("type-confusion", ev, `{"ParticipantId":"one","CreatedAt":17}`, u[1])
		raw("negative-id", ev, `{"ParticipantId":-1,"CreatedAt":"2023-11-14T22:13:30Z","Commit":"QQ==","Deal":"QQ==","MasterKey":"QQ==","BatchID":"b"}`, u[1])
		raw("huge-id", ev, `{"ParticipantId":9223372036854775807,"CreatedAt":"2023-11-14T22:13:30Z","Commit":"QQ==","Deal":"QQ==","MasterKey":"QQ==","BatchID":"b"}`, u[1])
		raw("empty-object", ev, `{}`, u[1])
	}
	// signing proposals with hostile task lists
	mkStart := func(label string, tasks []requests.SigningTask) {
		out = append(out, w.Msg(round, "event_signing_start", requests.SigningBatchProposalStartRequest{BatchID: "batch-junk", ParticipantId: 1, CreatedAt: T(95), SigningTasks: tasks}, u[1], "", u[1], now, label))
	}
	// a well-formed, validly signed proposal: refused whenever the round is not idle
	mkStart("valid-proposal", w.Tasks("batch-junk"))
	mkStart("range-negative", []requests.SigningTask{{MessageID: "r", RangeStart: -3, RangeEnd: 1}})
	mkStart("range-beyond", []requests.SigningTask{{MessageID: "r", RangeStart: 18630, RangeEnd: 18640}})
	mkStart("range-empty", []requests.SigningTask{{MessageID: "r", RangeStart: 5, RangeEnd: 5}})
	if thorough { // expands all 18 632 baked entries before failing: seconds per case
		mkStart("range-huge", []requests.SigningTask{{MessageID: "r", RangeStart: 0, RangeEnd: 1 << 40}})
	}
	// messages for a round nobody opened
	out = append(out, w.RawMsg("round-unknown-xyz", "event_dkg_commit_confirm_received", []byte(`{"ParticipantId":0}`), u[1], "", u[1], now, "unknown-round"))
	out = append(out, w.RawMsg("ab", "event_sig_proposal_confirm_by_participant", []byte(`{"ParticipantId":0}`), "stranger", "", "", now, "short-round-id"))
	out = append(out, w.RawMsg("", "event_sig_proposal_init", []byte(`{}`), u[1], "", u[1], now, "empty-round-id"))
	return out
}

func scenarioC18(c *Ctx) {
	w := NewWorld(3, 2, 1)
	me := w.Users[0]
	round := "round-c18"
	h := w.Honest(round, me)
	var cases []HistCase
	positions := []int{0, 1, 3, 4, 7, 10, 13, 16, 17, 18, len(h)}
	if !c.Quick() {
		positions = nil
		for k := 0; k <= len(h); k++ {
			positions = append(positions, k)
		}
	}
	for _, k := range positions {
		if k > len(h) {
			continue
		}
		for _, j := range junkAt(w, round, NOWMARK, !c.Quick()) {
			items := append(append([]Item{}, h[:k]...), j)
			label, pos := j.Label, k
			cases = append(cases, HistCase{Kind: "junk-" + label, User: me, Items: items, PrefixKey: fmt.Sprintf("%s/%d", round, k), Check: func(o RunObs) {
				last := o.Classes[len(o.Classes)-1]
				if last == "panic" {
					c.Fail(Failure{Property: "C18", Kind: "node-panic", Signature: map[string]interface{}{"kind": "node-panic", "input": label},
						What: "a board message crashes the node: " + label, Replay: map[string]interface{}{"position": pos, "input": label}})
				}
				if last == "err" && o.Before != o.After {
					c.Fail(Failure{Property: "C18", Kind: "rejected-input-changed-state", Signature: map[string]interface{}{"kind": "rejected-input-changed-state", "input": label},
						What:   fmt.Sprintf("a rejected board message (%s) changed the node's durable state", label),
						Replay: map[string]interface{}{"position": pos, "input": label, "before": o.Before, "after": o.After}})
				}
			}})
		}
	}
	// a signing batch cancelled by failures: the next message finds the round in a cancelled state
	h2 := append([]Item{}, h...)
	tasksB := w.Tasks("batch-B")
	h2 = append(h2, w.Msg(round, "event_signing_start", requests.SigningBatchProposalStartRequest{BatchID: "batch-B", ParticipantId: 0, CreatedAt: T(300), SigningTasks: tasksB}, w.Users[0], "", w.Users[0], NOWMARK, "start-B"))
	for _, i := range []int{1, 2} {
		h2 = append(h2, w.Msg(round, "event_signing_partial_sign_error_received", requests.SignatureProposalConfirmationErrorRequest{Error: requests.NewFSMError(fmt.Errorf("cannot sign")), ParticipantId: i, CreatedAt: T(310)}, w.Users[i], "", w.Users[i], NOWMARK, "sign-error"))
	}
	for _, j := range junkAt(w, round, NOWMARK, false) {
		items := append(append([]Item{}, h2...), j)
		label := j.Label
		cases = append(cases, HistCase{Kind: "junk-after-cancel-" + label, User: me, Items: items, PrefixKey: round + "/cancelled", Check: func(o RunObs) {
			last := o.Classes[len(o.Classes)-1]
			if last == "panic" {
				c.Fail(Failure{Property: "C18", Kind: "node-panic", Signature: map[string]interface{}{"kind": "node-panic", "input": label},
					What: "a board message crashes the node: " + label, Replay: map[string]interface{}{"position": "after a cancelled batch", "input": label}})
			}
			if last == "err" && o.Before != o.After {
				c.Fail(Failure{Property: "C18", Kind: "lazy-restart-on-rejected-message", Signature: map[string]interface{}{"kind": "lazy-restart-on-rejected-message"},
					What:   "a rejected board message that finds the signing round in a cancelled state makes the node persist the restart to idle before it refuses the message",
					Replay: map[string]interface{}{"position": "after a batch cancelled by failures", "input": label}})
			}
		}})
	}
	runCases(c, cases)
	c.Notes["histories"] = len(cases)
}
