package main

import (
	"encoding/json"
	"fmt"
	"os"

	ctypes "github.com/lidofinance/dc4bc/client/types"
)

func init() { scenarios["c15file"] = scenarioC15File }

// scenarioC15File: "every result the airgapped machine can produce survives the JSON file round trip
// between the two machines unchanged" - also when the result file already exists: every key-generation
// operation of a machine is handled, answered through its file, and then handled ONCE MORE (the
// operator feeds the request again; the machine now answers with an error result, of another
// length); the file on disk must be exactly the result the machine produced last.
func scenarioC15File(c *Ctx) {
	fail := func(kind, what string, rep map[string]interface{}) {
		c.Fail(Failure{Property: "C15", Kind: kind, Signature: map[string]interface{}{"kind": kind}, What: what, Replay: rep})
	}
	cl := NewCluster(newEnvDir(c), 3, 2, "c15file")
	defer cl.Close()
	cl.Propose(0)
	victim := 1
	files := 0
	cl.RunToQuiescenceWith(func(cands []int) int { return 0 }, func(i int, o *ctypes.Operation) (bool, error) {
		if string(o.Type) == "state_sig_proposal_await_participants_confirmations" {
			_, err := cl.Answer(i, o)
			return true, err
		}
		res, err := answerViaFile(cl, i, o)
		if i != victim || err != nil {
			return true, err
		}
		_ = res
		// once more, without logging: whatever the machine answers now goes to the same file
		func() {
			defer func() { recover() }()
			path, err := cl.Machines[victim].ProcessOperation(*o, false)
			if err != nil {
				return
			}
			files++
			bz, _ := os.ReadFile(path)
			var back ctypes.Operation
			if err := json.Unmarshal(bz, &back); err != nil {
				fail("result-file-not-parsable", fmt.Sprintf("after a %s operation was handled a second time its result file no longer parses: %v", o.Type, err),
					map[string]interface{}{"operation": string(o.Type), "file_length": len(bz)})
				return
			}
			if want, err := cl.Machines[victim].GetOperationResult(*o); err == nil {
				a, _ := json.Marshal(want.ResultMsgs)
				b, _ := json.Marshal(back.ResultMsgs)
				if back.Event != want.Event || len(a) != len(b) {
					fail("result-file-differs", fmt.Sprintf("the result file of a %s operation handled a second time is not the result the machine produces", o.Type), map[string]interface{}{"operation": string(o.Type)})
				}
			}
		}()
		return true, nil
	})
	c.Case("result-file-rewritten", true, fmt.Sprintf("skip c15file %d", files), fmt.Sprintf("skip c15file %d", files))
	c.Notes["result_files_rewritten"] = files
}
