package main

import (
	"bytes"
	"encoding/hex"
	"encoding/json"
	"fmt"
	"os"
	"path/filepath"

	ctypes "github.com/lidofinance/dc4bc/client/types"
)

func init() { scenarios["c04replay"] = scenarioC04Replay }

// schnorrSigs extracts, from a result file of the responses step, the Schnorr signatures of the
// responses: nonce commitment R (first half) -> the bytes signed under it (the rest of the response)
func schnorrSigs(file []byte) map[string]string {
	out := map[string]string{}
	var res ctypes.Operation
	if json.Unmarshal(file, &res) != nil {
		return out
	}
	for _, m := range res.ResultMsgs {
		var req struct{ Response []byte }
		if json.Unmarshal(m.Data, &req) != nil || len(req.Response) == 0 {
			continue
		}
		var resps []struct {
			Index    uint32
			Response struct {
				SessionID []byte
				Index     uint32
				Status    bool
				Signature []byte
			}
		}
		if json.Unmarshal(req.Response, &resps) != nil {
			continue
		}
		for _, r := range resps {
			sig := r.Response.Signature
			if len(sig) < 2 {
				continue
			}
			half := len(sig) / 2
			out[hex.EncodeToString(sig[:half])] = fmt.Sprintf("dealer=%d session=%x verifier=%d status=%v s=%x", r.Index, r.Response.SessionID, r.Response.Index, r.Response.Status, sig[half:])
		}
	}
	return out
}

// scenarioC04Replay: what leaves the machine when it is restarted and its operation log replayed
// (the replay writes the result files again). The round's randomness is a deterministic stream, so
// the replayed files must be the files of the first run; in particular no Schnorr nonce may sign two
// different responses - two such signatures reveal the long-term private key.
func scenarioC04Replay(c *Ctx) {
	fail := func(kind, what string, rep map[string]interface{}) {
		c.Fail(Failure{Property: "C04", Kind: kind, Signature: map[string]interface{}{"kind": kind}, What: what, Replay: rep})
	}
	type cfg struct{ n, t int }
	cfgs := []cfg{{4, 2}}
	replays := 4
	if !c.Quick() {
		cfgs = []cfg{{4, 2}, {3, 2}, {5, 3}}
		replays = 10
	}
	files := 0
	for ci, cf := range cfgs {
		cl := NewCluster(newEnvDir(c), cf.n, cf.t, fmt.Sprintf("c04replay-%d", ci))
		cl.Propose(0)
		run := &c04Run{cl: cl}
		run.run(false)
		for i := range cl.Machines {
			var orig []byte
			for _, o := range run.outputs {
				if o.Machine == i && o.Type == "state_dkg_responses_await_confirmations" && !o.Err {
					orig = o.File
				}
			}
			if orig == nil {
				continue
			}
			origSigs := schnorrSigs(orig)
			cl.Machines[i].VerifClose()
			for r := 0; r < replays; r++ {
				dir := filepath.Join(cl.Dir, fmt.Sprintf("replay-%d-%d", i, r))
				p, err := newAirProbe(cl, i, dir, true) // reopen a copy of the database, replay the round's log
				if err != nil {
					fail("probe-failed", "harness: "+err.Error(), nil)
					continue
				}
				ents, _ := os.ReadDir(filepath.Join(dir, "results"))
				for _, ent := range ents {
					bz, err := os.ReadFile(filepath.Join(dir, "results", ent.Name()))
					if err != nil {
						continue
					}
					files++
					for R, msg := range schnorrSigs(bz) {
						if m0, ok := origSigs[R]; ok && m0 != msg {
							fail("nonce-reused-across-replay", "after restart and replay of the operation log a Schnorr nonce of the round signs another response than in the first run: the two result files reveal the machine's long-term private key",
								map[string]interface{}{"n": cf.n, "t": cf.t, "machine": i, "replay": r, "nonce_commitment": R, "first_run": m0, "replayed": msg})
						}
					}
					var res ctypes.Operation
					if json.Unmarshal(bz, &res) == nil && string(res.Type) == "state_dkg_responses_await_confirmations" {
						var o0 ctypes.Operation
						json.Unmarshal(orig, &o0)
						if len(res.ResultMsgs) > 0 && len(o0.ResultMsgs) > 0 && !bytes.Equal(res.ResultMsgs[0].Data, o0.ResultMsgs[0].Data) {
							fail("replay-republishes-differently", "the responses a machine publishes after restart and replay differ from those of its first run", map[string]interface{}{"n": cf.n, "t": cf.t, "machine": i, "replay": r})
						}
					}
				}
				p.close()
			}
			cl.Machines[i] = reopen(cl, i)
		}
		cl.Close()
	}
	c.Case("replayed-outputs", true, fmt.Sprintf("skip c04replay %d", len(cfgs)), fmt.Sprintf("skip c04replay %d", len(cfgs)))
	c.Notes["replayed_result_files"] = files
}
