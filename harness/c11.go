package main

import (
	"bytes"
	crand "crypto/rand"
	"encoding/binary"
	"encoding/json"
	"fmt"
	"strings"

	"crypto/aes"
	"crypto/cipher"
	"github.com/corestario/kyber"
	"github.com/corestario/kyber/encrypt/ecies"
	dkgPedersen "github.com/corestario/kyber/share/dkg/pedersen"
	vssPedersen "github.com/corestario/kyber/share/vss/pedersen"
	"github.com/corestario/kyber/sign/schnorr"
	"go.dedis.ch/protobuf"
	"golang.org/x/crypto/hkdf"

	"github.com/lidofinance/dc4bc/client/api/dto"
	ctypes "github.com/lidofinance/dc4bc/client/types"
	"github.com/lidofinance/dc4bc/fsm/types/requests"
	"github.com/lidofinance/dc4bc/fsm/types/responses"
)

func init() {
	scenarios["c11"] = scenarioC11
}

// a deviating dealer: real machines, the dealer's node posts what the harness makes of the
// machine's results (the dealer controls its own machine and node)

type c11Dev struct {
	Kind   string
	Dealer int
	Victim int
}

const (
	opCommits   = "state_dkg_commits_await_confirmations"
	opDeals     = "state_dkg_deals_await_confirmations"
	opResponses = "state_dkg_responses_await_confirmations"
	opMaster    = "state_dkg_master_key_await_confirmations"
)

type c11Obs struct {
	events    map[int]string // participant -> event of its result for the responses operation ("PANIC" when the machine crashed)
	master    map[int]string // participant -> event of its result for the master key operation
	states    []string
	keyrings  []bool
	bcScalars []string // the coefficients behind the broadcast commitments ("?" = unknown point)
	dealt     []string // the coefficients of the dealer's real polynomial
	shares    map[int]string
}

func pointOf(k kyber.Scalar) []byte {
	bz, err := c04Suite.Point().Mul(k, nil).MarshalBinary()
	if err != nil {
		panic(err)
	}
	return bz
}

func runC11(c *Ctx, n, t int, tag string, dv c11Dev) c11Obs {
	cl := NewCluster(newEnvDir(c), n, t, tag)
	defer cl.Close()
	cl.Propose(0)
	obs := c11Obs{events: map[int]string{}, master: map[int]string{}, shares: map[int]string{}}
	fresh := func(k int) kyber.Scalar { return c04Suite.Scalar().SetInt64(int64(1000 + k)) }
	submit := func(i int, res *ctypes.Operation) error {
		return cl.Nodes[i].Node.ProcessOperation(&dto.OperationDTO{ID: res.ID, Type: string(res.Type), Payload: res.Payload, ResultMsgs: res.ResultMsgs,
			CreatedAt: res.CreatedAt, DkgID: res.DKGIdentifier, To: res.To, Event: res.Event, ExtraData: res.ExtraData})
	}
	crashed := map[int]bool{}
	cl.RunToQuiescenceWith(func(cands []int) int { return 0 }, func(i int, o *ctypes.Operation) (done bool, err error) {
		if string(o.Type) == "state_sig_proposal_await_participants_confirmations" {
			_, err := cl.Answer(i, o)
			return true, err
		}
		if crashed[i] {
			return false, nil // the process is gone
		}
		var res ctypes.Operation
		func() {
			defer func() {
				if r := recover(); r != nil {
					crashed[i] = true
				}
			}()
			res, err = cl.Machines[i].GetOperationResult(*o)
		}()
		if crashed[i] {
			if string(o.Type) == opResponses {
				obs.events[i] = "PANIC"
			} else if string(o.Type) == opMaster {
				obs.master[i] = "PANIC"
			}
			return false, nil
		}
		if err != nil {
			return false, err
		}
		switch string(o.Type) {
		case opResponses:
			obs.events[i] = string(res.Event)
		case opMaster:
			obs.master[i] = string(res.Event)
		}
		if i == dv.Dealer {
			inst := cl.Machines[i].VerifDKGInstance(cl.Round)
			switch {
			case string(o.Type) == opCommits:
				coeffs := inst.VerifInstance().GetDealer().PrivatePoly().Coefficients()
				obs.dealt = nil
				for _, co := range coeffs {
					obs.dealt = append(obs.dealt, scalarDec(co))
				}
				for j := 0; j < n; j++ {
					if pd, e := inst.VerifInstance().GetDealer().PlaintextDeal(j); e == nil {
						obs.shares[j] = scalarDec(pd.SecShare.V)
					}
				}
				bc := append([]kyber.Scalar{}, coeffs...)
				switch dv.Kind {
				case "bc-all":
					for k := range bc {
						bc[k] = fresh(k)
					}
				case "bc-first":
					bc[0] = fresh(0)
				case "bc-last":
					bc[len(bc)-1] = fresh(9)
				case "bc-short":
					bc = bc[:len(bc)-1]
				case "bc-empty":
					bc = nil
				case "bc-long":
					bc = append(bc, fresh(7))
				case "higher-degree":
					// the dealer announces AND deals a polynomial with one coefficient more
					bc = append(bc, fresh(5))
					obs.dealt = append(obs.dealt, scalarDec(fresh(5)))
					for j := 0; j < n; j++ {
						if pd, e := inst.VerifInstance().GetDealer().PlaintextDeal(j); e == nil {
							obs.shares[j] = scalarDec(higherShare(pd.SecShare.V, fresh(5), j, len(coeffs)))
						}
					}
				}
				obs.bcScalars = nil
				var pts [][]byte
				for _, k := range bc {
					obs.bcScalars = append(obs.bcScalars, scalarDec(k))
					pts = append(pts, pointOf(k))
				}
				if pts == nil {
					pts = [][]byte{}
				}
				if strings.HasPrefix(dv.Kind, "bc-") || dv.Kind == "higher-degree" {
					var req map[string]json.RawMessage
					json.Unmarshal(res.ResultMsgs[0].Data, &req)
					inner, _ := json.Marshal(pts)
					req["Commit"], _ = json.Marshal(inner)
					res.ResultMsgs[0].Data, _ = json.Marshal(req)
				}
			case string(o.Type) == opDeals:
				for k := range res.ResultMsgs {
					m := &res.ResultMsgs[k]
					if dv.Kind == "higher-degree" {
						j := -1
						for x, u := range cl.Users {
							if u == m.RecipientAddr {
								j = x
							}
						}
						if j < 0 || j == dv.Dealer {
							continue
						}
						g := inst.VerifInstance()
						pd, e := g.GetDealer().PlaintextDeal(j)
						if e != nil {
							panic(e)
						}
						d2 := *pd
						sh := *pd.SecShare
						sh.V = higherShare(pd.SecShare.V, fresh(5), j, len(pd.Commitments))
						d2.SecShare = &sh
						d2.Commitments = append(append([]kyber.Point{}, pd.Commitments...), c04Suite.Point().Mul(fresh(5), nil))
						d2.SessionID = kyberSessionID(c04Suite.Point().Mul(inst.GetSecKey(), nil), g.GetConfig().NewNodes, d2.Commitments, int(pd.T))
						enc := kyberEncryptDeal(inst.GetSecKey(), g.GetConfig().NewNodes, j, &d2)
						plain, _ := json.Marshal(signedDkgDeal(inst.GetSecKey(), dv.Dealer, enc))
						ct2, _ := ecies.Encrypt(c04Suite, cl.Machines[j].GetPubKey(), plain, c04Suite.Hash)
						var req2 map[string]json.RawMessage
						json.Unmarshal(m.Data, &req2)
						req2["Deal"], _ = json.Marshal(ct2)
						m.Data, _ = json.Marshal(req2)
						continue
					}
					if m.RecipientAddr != cl.Users[dv.Victim] {
						continue
					}
					var req map[string]json.RawMessage
					json.Unmarshal(m.Data, &req)
					var ct []byte
					json.Unmarshal(req["Deal"], &ct)
					vKey := cl.Machines[dv.Victim].VerifDKGInstance(cl.Round).GetSecKey()
					switch dv.Kind {
					case "wrong-key":
						plain, e := ecies.Decrypt(c04Suite, vKey, ct, c04Suite.Hash)
						if e != nil {
							panic(e)
						}
						other := (dv.Victim + 1) % n
						if other == dv.Dealer {
							other = (other + 1) % n
						}
						if other == dv.Victim {
							other = dv.Dealer // n = 2: encrypted to the dealer itself
						}
						ct, _ = ecies.Encrypt(c04Suite, cl.Machines[other].GetPubKey(), plain, c04Suite.Hash)
					case "truncated-9":
						ct = ct[:9]
					case "truncated-tail":
						ct = ct[:len(ct)-1]
					case "truncated-60":
						ct = ct[:60]
					case "garbled":
						ct[len(ct)/2] ^= 0x40
					case "not-a-deal":
						ct, _ = ecies.Encrypt(c04Suite, cl.Machines[dv.Victim].GetPubKey(), []byte(`{"Index":"x"}`), c04Suite.Hash)
					case "null-deal":
						ct, _ = ecies.Encrypt(c04Suite, cl.Machines[dv.Victim].GetPubKey(), []byte(fmt.Sprintf(`{"Index":%d,"Deal":null}`, dv.Dealer)), c04Suite.Hash)
					case "claims-own-index":
						// a genuine deal relabelled as coming from the addressee itself
						plain, e := ecies.Decrypt(c04Suite, vKey, ct, c04Suite.Hash)
						if e != nil {
							panic(e)
						}
						var dl map[string]json.RawMessage
						json.Unmarshal(plain, &dl)
						dl["Index"], _ = json.Marshal(dv.Victim)
						plain, _ = json.Marshal(dl)
						ct, _ = ecies.Encrypt(c04Suite, cl.Machines[dv.Victim].GetPubKey(), plain, c04Suite.Hash)
					case "empty":
						ct = []byte{}
					case "share-off-polynomial":
						// the dealer's genuine deal for the victim with the share moved off the polynomial,
						// re-encrypted exactly as kyber does (commitments = the broadcast ones)
						g := inst.VerifInstance()
						pd, e := g.GetDealer().PlaintextDeal(dv.Victim)
						if e != nil {
							panic(e)
						}
						bad := *pd
						sh := *pd.SecShare
						sh.V = c04Suite.Scalar().Add(pd.SecShare.V, c04Suite.Scalar().One())
						bad.SecShare = &sh
						obs.shares[dv.Victim] = scalarDec(sh.V)
						enc := kyberEncryptDeal(inst.GetSecKey(), g.GetConfig().NewNodes, dv.Victim, &bad)
						plain, _ := json.Marshal(signedDkgDeal(inst.GetSecKey(), dv.Dealer, enc))
						ct, _ = ecies.Encrypt(c04Suite, cl.Machines[dv.Victim].GetPubKey(), plain, c04Suite.Hash)
					case "wrong-threshold", "wrong-session":
						// the dealer's genuine deal for the victim (share and commitments as broadcast) with
						// a threshold or a session identifier that is not this round's
						g := inst.VerifInstance()
						pd, e := g.GetDealer().PlaintextDeal(dv.Victim)
						if e != nil {
							panic(e)
						}
						bad := *pd
						if dv.Kind == "wrong-threshold" {
							bad.T = pd.T + 1
						} else {
							bad.SessionID = bytes.Repeat([]byte{0x5a}, len(pd.SessionID))
						}
						enc := kyberEncryptDeal(inst.GetSecKey(), g.GetConfig().NewNodes, dv.Victim, &bad)
						plain, _ := json.Marshal(signedDkgDeal(inst.GetSecKey(), dv.Dealer, enc))
						ct, _ = ecies.Encrypt(c04Suite, cl.Machines[dv.Victim].GetPubKey(), plain, c04Suite.Hash)
					}
					req["Deal"], _ = json.Marshal(ct)
					m.Data, _ = json.Marshal(req)
				}
			case string(o.Type) == opResponses && dv.Kind == "complaint":
				var req map[string]json.RawMessage
				json.Unmarshal(res.ResultMsgs[0].Data, &req)
				var inner []byte
				json.Unmarshal(req["Response"], &inner)
				var rs []*dkgPedersen.Response
				json.Unmarshal(inner, &rs)
				if len(rs) > 0 {
					rs[0].Response.Status = false
					sg, e := schnorr.Sign(c04Suite, inst.GetSecKey(), rs[0].Response.Hash(c04Suite))
					if e != nil {
						panic(e)
					}
					rs[0].Response.Signature = sg
				}
				inner, _ = json.Marshal(rs)
				req["Response"], _ = json.Marshal(inner)
				res.ResultMsgs[0].Data, _ = json.Marshal(req)
			}
		}
		return true, submit(i, &res)
	})
	for i := range cl.Nodes {
		st := cl.RoundState(i)
		f := strings.Fields(st)
		name := "?"
		for _, x := range f {
			if strings.HasPrefix(x, "state_") || strings.HasPrefix(x, "stage_") {
				name = x
				break
			}
		}
		obs.states = append(obs.states, name)
		has := false
		if !crashed[i] {
			if krs, err := cl.Machines[i].GetBLSKeyrings(); err == nil && krs[cl.Round] != nil {
				has = true
			}
		}
		obs.keyrings = append(obs.keyrings, has)
	}
	return obs
}

func scenarioC11(c *Ctx) {
	type cfg struct{ n, t int }
	cfgs := []cfg{{3, 2}}
	kinds := []string{"honest", "bc-all", "bc-first", "bc-last", "bc-short", "bc-empty", "bc-long", "wrong-key", "truncated-9", "truncated-tail", "truncated-60", "garbled", "not-a-deal", "null-deal", "share-off-polynomial", "wrong-threshold", "wrong-session", "higher-degree", "claims-own-index", "empty", "complaint"}
	if !c.Quick() {
		cfgs = []cfg{{3, 2}, {2, 2}, {4, 3}, {4, 4}, {5, 3}}
	}
	runs := 0
	for ci, cf := range cfgs {
		for ki, kind := range kinds {
			var pairs [][2]int
			for d := 0; d < cf.n; d++ {
				for v := 0; v < cf.n; v++ {
					if d != v {
						pairs = append(pairs, [2]int{d, v})
					}
				}
			}
			if kind == "honest" {
				pairs = pairs[:1]
			} else if c.Quick() {
				// every kind with two (dealer, victim) pairs chosen by the seed; thorough: every pair
				c.Rng.Shuffle(len(pairs), func(a, b int) { pairs[a], pairs[b] = pairs[b], pairs[a] })
				pairs = pairs[:2]
			} else if cf.n > 3 && len(pairs) > 4 {
				c.Rng.Shuffle(len(pairs), func(a, b int) { pairs[a], pairs[b] = pairs[b], pairs[a] })
				pairs = pairs[:4]
			}
			for _, pr := range pairs {
				dv := c11Dev{Kind: kind, Dealer: pr[0], Victim: pr[1]}
				o := runC11(c, cf.n, cf.t, fmt.Sprintf("c11-%d-%d", ci, ki), dv)
				runs++
				c11Judge(c, cf.n, cf.t, dv, o)
			}
		}
	}
	c11Reinit(c)
	c11ReportBeforeLastDeal(c)
	c.Notes["ceremonies"] = runs + 1
}

// c11ReportBeforeLastDeal: deals are one board message per addressee, so the deviating dealer chooses
// their order.  It posts the contradicting deal for the victim first and holds back the bystander's
// deal until the victim's error report is on the board.  The bystander is still waiting for deals when
// the report arrives; the report must cancel the round there too ("the round ends cancelled on every
// node"), whatever phase the bystander is in.
func c11ReportBeforeLastDeal(c *Ctx) {
	w := NewWorld(3, 2, 1)
	me, victim, dealer := w.Users[0], 1, 2
	round := "round-c11-late-deal"
	h := w.Honest(round, me)
	// init, 3 confirmations, 3 commits, deals from 0 (self), 1, 2, ...
	prefix := append([]Item{}, h[:9]...) // up to and including the victim's deal for the bystander
	lastDeal := h[9]                     // the dealer's deal for the bystander, held back
	report := w.Msg(round, "event_dkg_response_confirm_canceled_by_error",
		requests.DKGProposalConfirmationErrorRequest{ParticipantId: victim, Error: requests.NewFSMError(fmt.Errorf("failed to process deals: commits are different")), CreatedAt: T(41)},
		w.Users[victim], "", w.Users[victim], NOWMARK, "victim-reports-the-deal")
	_ = dealer
	items := append(append(prefix, report), lastDeal)
	runCases(c, []HistCase{{Kind: "report-before-last-deal", User: me, Items: items, Check: func(o RunObs) {
		st := roundProj(o.After, round)
		if !strings.Contains(st, "canceled_by_error") && !strings.Contains(st, "cancelled_by_error") {
			c.Fail(Failure{Property: "C11", Kind: "error-report-lost", Signature: map[string]interface{}{"kind": "error-report-lost", "phase": "deals"},
				What:   "the addressee's error report reaches a node that is still waiting for the dealer's (held back) deal: it is refused and lost there, the node goes on to wait for responses and its round is never cancelled (" + firstWord(st) + ")",
				Replay: map[string]interface{}{"classes": strings.Join(o.Classes, ","), "round": st}})
		}
	}}})
}

func c11Judge(c *Ctx, n, t int, dv c11Dev, o c11Obs) {
	rep := map[string]interface{}{"n": n, "t": t, "deviation": dv.Kind, "dealer": dv.Dealer, "victim": dv.Victim}
	fail := func(kind, what string) {
		c.Fail(Failure{Property: "C11", Kind: kind, Signature: map[string]interface{}{"kind": kind, "deviation": dv.Kind}, What: what, Replay: rep})
	}
	// the model's verdict for every addressee of the dealer's deal
	fault := "none"
	switch dv.Kind {
	case "wrong-key", "truncated-9", "truncated-tail", "truncated-60", "garbled", "empty":
		fault = "undecryptable"
	case "not-a-deal", "null-deal", "wrong-threshold", "wrong-session":
		fault = "malformed"
	}
	anyRefuse := false
	for j := 0; j < n; j++ {
		if j == dv.Dealer {
			continue
		}
		f := "none"
		if j == dv.Victim {
			f = fault
		}
		bc := o.bcScalars
		line := fmt.Sprintf("c11deal %d %d %s %d %s %d %s %s", t, j, f, len(bc), strings.Join(bc, " "), len(o.dealt), strings.Join(o.dealt, " "), o.shares[j])
		line = strings.Join(strings.Fields(line), " ")
		got := "accept"
		ev := o.events[j]
		if ev == "PANIC" {
			got = "crash"
		} else if strings.Contains(ev, "error") {
			got = "refuse"
		} else if ev == "" {
			got = "no-result"
		}
		if got == "refuse" || got == "crash" {
			anyRefuse = true
		}
		if dv.Kind != "empty" && dv.Kind != "claims-own-index" {
			c.Case("deal-"+dv.Kind, true, line, "c11deal "+got)
		}
		if got == "crash" {
			c.Fail(Failure{Property: "C11", Kind: "victim-crashes", Signature: map[string]interface{}{"kind": "victim-crashes", "deviation": dv.Kind},
				What: fmt.Sprintf("the addressee's machine crashes on a %s deal instead of refusing it and reporting an error", dv.Kind), Replay: rep})
		}
	}
	deviates := dv.Kind != "honest"
	if dv.Kind == "complaint" {
		// every deal WAS consistent: the complaint is a false accusation by the deviating participant.
		// The property demands nothing for it (readiness is allowed when all deals are consistent);
		// the run only shows that nothing crashes, the outcome goes into the notes.
		st := strings.Join(uniqueStrings(o.states), ",")
		if c.Notes["false_complaint_outcomes"] == nil {
			c.Notes["false_complaint_outcomes"] = map[string]int{}
		}
		c.Notes["false_complaint_outcomes"].(map[string]int)[fmt.Sprintf("n=%d t=%d: %s", n, t, st)]++
		return
	} else if deviates && !anyRefuse && dv.Kind != "empty" {
		// the error may also be reported one step later (a deal that the addressee could not
		// attribute to its dealer leaves that dealer uncertified at the master-key step)
		later := false
		for _, ev := range o.master {
			if strings.Contains(ev, "error") {
				later = true
			}
		}
		if !later {
			fail("deviation-accepted", "no addressee refused the deviating dealer's deal or reported an error for it")
		}
	}
	for i, st := range o.states {
		if dv.Kind == "empty" {
			// an empty deal is not a valid board request: the addressee's node refuses the MESSAGE, so
			// for the round the deal was never sent (the phase deadline ends such a round); what must
			// hold here is the second sentence: never signing-ready, no share
			if st == "stage_signing_idle" {
				fail("ready-without-deal", fmt.Sprintf("node %d became signing-ready although a deal was never delivered", i))
			}
			if o.keyrings[i] {
				fail("share-stored", fmt.Sprintf("participant %d stores a key share although a deal was never delivered", i))
			}
			continue
		}
		if deviates {
			if !strings.Contains(st, "canceled_by_error") {
				fail("round-not-cancelled", fmt.Sprintf("after the deviation node %d is in %s, not in a cancelled state", i, st))
			}
			if o.keyrings[i] && i != dv.Dealer {
				fail("share-stored", fmt.Sprintf("honest participant %d stores a key share for the round although a deal was inconsistent", i))
			}
		} else {
			if st != "stage_signing_idle" {
				fail("honest-round-failed", fmt.Sprintf("the honest ceremony did not finish on node %d (%s)", i, st))
			}
			if !o.keyrings[i] {
				fail("honest-round-failed", fmt.Sprintf("participant %d has no key share after the honest ceremony", i))
			}
		}
	}
	// the round's fate as the model derives it from the verdicts
	if dv.Kind == "empty" || dv.Kind == "claims-own-index" {
		return
	}
	c.Case("round-"+dv.Kind, true, fmt.Sprintf("c11round %s %v", map[bool]string{true: "deviating", false: "honest"}[deviates], dv.Kind == "complaint" || dv.Kind == "higher-degree"),
		"c11round "+strings.Join(uniqueStrings(o.states), ","))
}

func uniqueStrings(l []string) []string {
	seen := map[string]bool{}
	var out []string
	for _, x := range l {
		if !seen[x] {
			seen[x] = true
			out = append(out, x)
		}
	}
	return out
}

// kyberEncryptDeal: vss.Dealer.EncryptedDeal for an arbitrary deal (ephemeral DH key signed with
// the dealer's long-term key, HKDF-SHA256 over the shared point, AES-GCM with a zero nonce)
func kyberEncryptDeal(long kyber.Scalar, verifiers []kyber.Point, i int, d *vssPedersen.Deal) *vssPedersen.EncryptedDeal {
	suite := c04Suite
	dealerPub := suite.Point().Mul(long, nil)
	dhSecret := suite.Scalar().Pick(suite.RandomStream())
	dhPublic := suite.Point().Mul(dhSecret, nil)
	dhBuf, _ := dhPublic.MarshalBinary()
	sig, err := schnorr.Sign(suite, long, dhBuf)
	if err != nil {
		panic(err)
	}
	pre := suite.Point().Mul(dhSecret, verifiers[i])
	h := suite.Hash()
	h.Write([]byte("vss-dealer"))
	dealerPub.MarshalTo(h)
	h.Write([]byte("vss-verifiers"))
	for _, v := range verifiers {
		v.MarshalTo(h)
	}
	ctx := h.Sum(nil)
	preBuf, _ := pre.MarshalBinary()
	key := make([]byte, 32)
	if _, err := hkdf.New(suite.Hash, preBuf, nil, ctx).Read(key); err != nil {
		panic(err)
	}
	block, _ := aes.NewCipher(key)
	gcm, _ := cipher.NewGCM(block)
	nonce := make([]byte, gcm.NonceSize())
	buf, err := protobuf.Encode(d)
	if err != nil {
		panic(err)
	}
	return &vssPedersen.EncryptedDeal{DHKey: dhBuf, Signature: sig, Nonce: nonce, Cipher: gcm.Seal(nil, nonce, buf, ctx)}
}

// higherShare: f(x) + c*x^t at x = j+1
func higherShare(v kyber.Scalar, c kyber.Scalar, j int, t int) kyber.Scalar {
	x := c04Suite.Scalar().SetInt64(int64(j + 1))
	p := c04Suite.Scalar().One()
	for k := 0; k < t; k++ {
		p = c04Suite.Scalar().Mul(p, x)
	}
	return c04Suite.Scalar().Add(v, c04Suite.Scalar().Mul(c, p))
}

// kyberSessionID: vss.sessionID
func kyberSessionID(dealer kyber.Point, verifiers, commitments []kyber.Point, t int) []byte {
	h := c04Suite.Hash()
	dealer.MarshalTo(h)
	for _, v := range verifiers {
		v.MarshalTo(h)
	}
	for _, cm := range commitments {
		cm.MarshalTo(h)
	}
	binary.Write(h, binary.LittleEndian, uint32(t))
	return h.Sum(nil)
}

// signedDkgDeal: the dkg-level envelope of an encrypted deal, signed by the dealer as kyber does
func signedDkgDeal(long kyber.Scalar, dealer int, enc *vssPedersen.EncryptedDeal) *dkgPedersen.Deal {
	d := &dkgPedersen.Deal{Index: uint32(dealer), Deal: enc}
	buf, err := d.MarshalBinary()
	if err != nil {
		panic(err)
	}
	d.Signature, err = schnorr.Sign(c04Suite, long, buf)
	if err != nil {
		panic(err)
	}
	return d
}

// c11Reinit: the reinitialisation path of the addressee's check.  The operations of an honestly played
// round, as the victim's machine saw them, are replayed by a fresh machine (same mnemonic) inside one
// reinit operation - once as they were (control) and once with the last dealer's private deal for the
// victim taken from ANOTHER polynomial than the one whose commitments the dealer broadcast.  The normal
// flow refuses that deal; the reinitialisation must not build a key share from it.
func c11Reinit(c *Ctx) {
	n, t := 3, 2
	tag := "c11-reinit"
	cl := NewCluster(newEnvDir(c), n, t, tag)
	defer cl.Close()
	cl.Propose(0)
	victim, dealer := 0, n-1
	var ops []ctypes.Operation
	cl.RunToQuiescenceWith(func(cands []int) int { return 0 }, func(i int, o *ctypes.Operation) (bool, error) {
		if i == victim && string(o.Type) != "state_sig_proposal_await_participants_confirmations" {
			ops = append(ops, *o)
		}
		_, err := cl.Answer(i, o)
		return true, err
	})
	rep := map[string]interface{}{"n": n, "t": t, "dealer": dealer, "victim": victim, "path": "reinit"}
	harnessFail := func(what string) {
		c.Fail(Failure{Property: "C11", Kind: "probe-failed", Signature: map[string]interface{}{"kind": "probe-failed"}, What: "harness: " + what, Replay: rep})
	}
	if len(ops) != 4 || string(ops[2].Type) != opResponses {
		harnessFail(fmt.Sprintf("the victim saw %d operations", len(ops)))
		return
	}
	inst := cl.Machines[dealer].VerifDKGInstance(cl.Round)
	g := inst.VerifInstance()
	gen2, err := dkgPedersen.NewDistKeyGenerator(c04Suite, inst.GetSecKey(), g.GetConfig().NewNodes, t, crand.Reader)
	if err != nil {
		harnessFail(err.Error())
		return
	}
	pd, err := gen2.GetDealer().PlaintextDeal(victim)
	if err != nil {
		harnessFail(err.Error())
		return
	}
	pd.SessionID = g.GetDealer().SessionID() // names the broadcast polynomial's session
	deals2, err := gen2.Deals()
	if err != nil {
		harnessFail(err.Error())
		return
	}
	dealBz, _ := json.Marshal(deals2[victim])
	enc, _ := ecies.Encrypt(c04Suite, cl.Machines[victim].GetPubKey(), dealBz, c04Suite.Hash)
	var dealsPayload responses.DKGProposalDealParticipantResponse
	json.Unmarshal(ops[2].Payload, &dealsPayload)
	for _, e := range dealsPayload {
		if e.ParticipantId == dealer {
			e.DkgDeal = enc
		}
	}
	bad := ops[2]
	bad.Payload, _ = json.Marshal(dealsPayload)
	run := func(label string, inner []ctypes.Operation) (string, bool) {
		B := NewCluster(newEnvDir(c), n, t, tag) // fresh machines, same mnemonics
		defer B.Close()
		payload, _ := json.Marshal(inner)
		op := ctypes.Operation{ID: "c11-reinit-" + label, Type: ctypes.OperationType(ctypes.ReinitDKG), DKGIdentifier: cl.Round, Payload: payload, CreatedAt: ops[0].CreatedAt}
		ev := "PANIC"
		func() {
			defer func() { recover() }()
			res, err := B.Machines[victim].GetOperationResult(op)
			if err != nil {
				ev = "refused: " + firstLine(err.Error())
			} else {
				ev = string(res.Event)
			}
		}()
		krs, _ := B.Machines[victim].GetBLSKeyrings()
		return ev, krs[cl.Round] != nil
	}
	// the model's verdict (Air/Reinit.v): the round is token 7, ok = the step's handler accepts its payload
	airLine := func(respOK int) string {
		return fmt.Sprintf("airreinit 7 4 commits 7 1 deals 7 1 responses 7 %d master 7 1", respOK)
	}
	airObs := func(ev string, has bool) string {
		o := "airreinit refused shares="
		if ev == string(ctypes.OperationProcessed) {
			o = "airreinit processed shares="
		}
		if has {
			o += "7"
		}
		return o
	}
	ev, has := run("control", ops)
	c.Case("reinit-control", true, airLine(1), airObs(ev, has))
	if ev != string(ctypes.OperationProcessed) || !has {
		harnessFail("the reinitialisation of the consistent log ends with " + ev)
		return
	}
	ev, has = run("other-polynomial", []ctypes.Operation{ops[0], ops[1], bad, ops[3]})
	c.Case("reinit-other-polynomial", true, airLine(0), airObs(ev, has))
	rep["deviation"] = "reinit-other-polynomial"
	if ev == string(ctypes.OperationProcessed) {
		c.Fail(Failure{Property: "C11", Kind: "reinit-swallows-refusal", Signature: map[string]interface{}{"kind": "reinit-swallows-refusal", "deviation": "reinit-other-polynomial"},
			What: "the reinit operation ends with " + ev + " although the victim's private deal contradicts its dealer's broadcast commitments (the normal flow refuses it)", Replay: rep})
	}
	if has {
		c.Fail(Failure{Property: "C11", Kind: "share-stored", Signature: map[string]interface{}{"kind": "share-stored", "deviation": "reinit-other-polynomial"},
			What: "the victim's machine stores a key share for the round although a replayed deal was inconsistent", Replay: rep})
	}
}
