package main

import (
	"fmt"
	"strings"
)

func init() { scenarios["c19node"] = scenarioC19Node }

// scenarioC19Node: persist/restore through the node's own FSM service. Every board message makes the
// node load the round from its store, apply the event and save it again, so an honest history only
// completes if saving and loading agree - also for round identifiers that are unusual but legal on
// the board (leading / trailing / inner blanks, tabs, non-ASCII, very long).
func scenarioC19Node(c *Ctx) {
	w := NewWorld(3, 2, 1)
	me := w.Users[0]
	ids := []string{"round-c19n-plain", " round-c19n-leading-blank", "round-c19n-trailing-blank ", "round c19n inner blank", "\tround-c19n-tab\n",
		"раунд-c19n-ünïcode", strings.Repeat("r", 300)}
	if c.Quick() {
		ids = ids[:5]
	}
	var cases []HistCase
	for _, id := range ids {
		id := id
		h := w.Honest(id, me)
		cases = append(cases, HistCase{Kind: "odd-round-id", User: me, Items: h, Check: func(o RunObs) {
			bad := -1
			for k, cl := range o.Classes {
				if cl != "ok" && bad < 0 {
					bad = k
				}
			}
			if bad >= 0 || !strings.Contains(o.After, "stage_signing_idle") {
				c.Fail(Failure{Property: "C19", Kind: "round-not-restored-by-the-node", Signature: map[string]interface{}{"kind": "round-not-restored-by-the-node"},
					What:   fmt.Sprintf("an honest ceremony under the round identifier %q does not complete on a node that saves and reloads the round around every message (first refused message: %d)", id, bad),
					Replay: map[string]interface{}{"round_id": id, "classes": strings.Join(o.Classes, ","), "after": o.After}})
			}
		}})
	}
	runCases(c, cases)
	c.Notes["round_ids"] = len(ids)
}
