package main

import "fmt"

func init() { scenarios["clustersmoke"] = scenarioClusterSmoke }

func scenarioClusterSmoke(c *Ctx) {
	cl := NewCluster(newEnvDir(c), 3, 2, "smoke")
	defer cl.Close()
	cl.Propose(0)
	cl.RunToQuiescence(func(cands []int) int { return 0 }, nil)
	for i := range cl.Nodes {
		fmt.Println(i, cl.RoundState(i)[:120])
	}
	c.Case("smoke", true, "skip smoke", "skip smoke")
}
