package main

import (
	"fmt"

	"github.com/lidofinance/dc4bc/fsm/types/requests"
)

// c07LateError: "answers of slow participants to an already finished batch do not prevent or corrupt
// the signing of later batches" - for an ERROR answer. Batch 1 is finished by the quick participants;
// batch 2 is proposed; the slow participant's machine fails on its batch-1 operation and its node posts
// the error answer, which names its batch (fix ffa0973; before it the request carried no batch identifier
// and the answer was booked on the batch being signed); then the slow participant and one quick one
// answer batch 2 correctly. t correct answers: batch 2 must be collected.
func c07LateError(c *Ctx) {
	type cfg struct{ n, t int }
	cfgs := []cfg{{3, 2}}
	if !c.Quick() {
		cfgs = []cfg{{3, 2}, {4, 3}, {4, 2}, {5, 3}}
	}
	for _, cf := range cfgs {
		n, t := cf.n, cf.t
		bz := readyDump(n, t)
		var trace []string
		apply := func(name string, r Req) string {
			o := doOnDump(bz, Ev{name, r, "late-error"})
			st := "-"
			if o.Class == "ok" && o.DumpOut != nil {
				bz = o.DumpOut
				st = string(decodeDump(bz).State)
				if st == stCollected { // the node restarts the round after a finished batch
					if o2 := doOnDump(bz, Ev{"event_signing_restart", reqDefault(T(200)), "restart"}); o2.Class == "ok" {
						bz = o2.DumpOut
					}
				}
			}
			trace = append(trace, fmt.Sprintf("%s:%s:%s", name, o.Class, st))
			return o.Class + ":" + st
		}
		task := func(b string) []requests.SigningTask {
			return []requests.SigningTask{{MessageID: b + "-m", File: "f", Payload: []byte("payload " + b)}}
		}
		sign := func(b string, i int) Req {
			return reqPartial(b, i, []requests.PartialSign{{MessageID: b + "-m", Sign: []byte(fmt.Sprintf("psig-%s-%d", b, i))}}, T(150))
		}
		slow := n - 1
		apply("event_signing_start", reqStart("batch-1", 0, T(100), task("batch-1")))
		for i := 0; i < t; i++ {
			apply("event_signing_partial_sign_received", sign("batch-1", i))
		}
		apply("event_signing_start", reqStart("batch-2", 0, T(210), task("batch-2")))
		// the slow participant's ERROR answer to batch 1 arrives now
		late := apply("event_signing_partial_sign_error_received", reqSigError(slow, strp("batch-1: the operator's password had expired"), T(220), "batch-1"))
		// t correct answers to batch 2: the slow participant and t-1 quick ones
		res := apply("event_signing_partial_sign_received", sign("batch-2", slow))
		last := res
		for i := 0; i < t-1; i++ {
			last = apply("event_signing_partial_sign_received", sign("batch-2", i))
		}
		if last != "ok:"+stCollected {
			c.Fail(Failure{Property: "C07", Kind: "late-error-answer-booked-on-current-batch", Signature: map[string]interface{}{"kind": "late-error-answer-booked-on-current-batch"},
				What: fmt.Sprintf("n=%d t=%d: a slow participant's error answer to a FINISHED batch (naming that batch) is booked on the batch being signed: its correct partial signature for the current batch is then answered %q and the batch is not collected although %d participants answered it correctly (late error answer: %s)", n, t, res, t, late),
				Replay: map[string]interface{}{"n": n, "t": t, "steps": trace}})
		}
	}
	c.Case("late-error-answer", true, fmt.Sprintf("skip c07late %d", len(cfgs)), fmt.Sprintf("skip c07late %d", len(cfgs)))
}
