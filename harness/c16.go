package main

import (
	"bufio"
	"bytes"
	"encoding/json"
	"fmt"
	"os"
	"os/exec"
	"path/filepath"
	"sort"
	"strconv"
	"strings"
	"sync"

	"github.com/lidofinance/dc4bc/storage"
	"github.com/lidofinance/dc4bc/storage/file_storage"
)

func init() {
	scenarios["c16"] = scenarioC16
	scenarios["c16writer"] = c16Writer // helper: a writer in its own OS process
}

func c16Payload(writer, seq, size int) []byte {
	tag := []byte(fmt.Sprintf("w%d-s%d|", writer, seq))
	if size <= len(tag) {
		return tag[:size]
	}
	return append(tag, bytes.Repeat([]byte{'x'}, size-len(tag))...)
}

func c16Send(file, lock string, writer int, sizes []int) error {
	st, err := file_storage.NewFileStorage(file, lock)
	if err != nil {
		return err
	}
	defer st.Close()
	for seq, size := range sizes {
		m := storage.Message{DkgRoundID: "r", Event: fmt.Sprintf("w%d-s%d", writer, seq), Data: c16Payload(writer, seq, size), SenderAddr: fmt.Sprintf("w%d", writer)}
		if err := st.Send(m); err != nil {
			return err
		}
	}
	return nil
}

// c16Writer: `harness c16writer -out "<file>|<lock>|<writer>|<size,size,...>"`
func c16Writer(c *Ctx) {
	p := strings.Split(os.Getenv("C16_WRITER"), "|")
	w, _ := strconv.Atoi(p[2])
	var sizes []int
	for _, s := range strings.Split(p[3], ",") {
		v, _ := strconv.Atoi(s)
		sizes = append(sizes, v)
	}
	if err := c16Send(p[0], p[1], w, sizes); err != nil {
		fmt.Fprintln(os.Stderr, "writer error:", err)
		os.Exit(3)
	}
}

func rawLineLengths(file string) []int {
	f, err := os.Open(file)
	if err != nil {
		panic(err)
	}
	defer f.Close()
	var out []int
	r := bufio.NewReaderSize(f, 1<<20)
	for {
		line, err := r.ReadBytes('\n')
		if len(line) > 0 {
			out = append(out, len(bytes.TrimRight(line, "\n")))
		}
		if err != nil {
			break
		}
	}
	return out
}

// rawClaims: the offset each stored line CLAIMS (what `send` assigned to it), read from the raw file -
// the reader hands out positions whatever the lines claim, so reading back cannot show them
func rawClaims(file string) []int64 {
	f, err := os.Open(file)
	if err != nil {
		panic(err)
	}
	defer f.Close()
	var out []int64
	r := bufio.NewReaderSize(f, 1<<20)
	for {
		line, err := r.ReadBytes('\n')
		if len(line) > 0 {
			var v struct {
				Offset *int64 `json:"offset"`
			}
			if json.Unmarshal(line, &v) == nil && v.Offset != nil {
				out = append(out, *v.Offset)
			} else {
				out = append(out, -1)
			}
		}
		if err != nil {
			break
		}
	}
	return out
}

// c16PollThenSend: handles that poll between their sends (what a node does: it reads the board with
// the very handle it posts with) while another handle appends: every entry must still be assigned
// its position
func c16PollThenSend(c *Ctx, fail func(kind, what string, rep map[string]interface{})) {
	dir := filepath.Join(c.OutDir, "board-poll-send")
	os.MkdirAll(dir, 0755)
	file, lock := filepath.Join(dir, "board"), filepath.Join(dir, "lock")
	open := func() storage.Storage {
		h, err := file_storage.NewFileStorage(file, lock)
		if err != nil {
			panic(err)
		}
		return h
	}
	a, b := open(), open()
	defer a.Close()
	defer b.Close()
	n := 0
	send := func(h storage.Storage, who string) {
		ms := []storage.Message{{DkgRoundID: "r", Event: fmt.Sprintf("%s-%d", who, n), Data: []byte("x"), SenderAddr: who}}
		if err := h.Send(ms...); err != nil {
			panic(err)
		}
		if ms[0].Offset != uint64(n) {
			fail("assigned-offset-not-position", fmt.Sprintf("Send returned offset %d for the entry at position %d (handle %s, after it had polled)", ms[0].Offset, n, who),
				map[string]interface{}{"position": n, "assigned": ms[0].Offset, "handle": who})
		}
		n++
	}
	script := "AABBAqBApABqBBpAqpAB" // A/B = send through that handle, p/q = handle A/B polls the board
	for _, ch := range script {
		switch ch {
		case 'A':
			send(a, "A")
		case 'B':
			send(b, "B")
		case 'p', 'q':
			h := a
			if ch == 'q' {
				h = b
			}
			if _, err := h.GetMessages(0); err != nil {
				panic(err)
			}
		}
	}
	for i, cl := range rawClaims(file) {
		if cl != int64(i) {
			fail("offset-not-position", fmt.Sprintf("the stored entry at position %d claims offset %d", i, cl), map[string]interface{}{"position": i, "claim": cl, "scenario": "poll-then-send"})
			break
		}
	}
	c.Case("poll-then-send", true, "skip c16pollsend", "skip c16pollsend")
}

func scenarioC16(c *Ctx) {
	fail := func(kind, what string, rep map[string]interface{}) {
		c.Fail(Failure{Property: "C16", Kind: kind, Signature: map[string]interface{}{"kind": kind}, What: what, Replay: rep})
	}
	sizePool := []int{0, 1, 100, 5000, 49000, 49200, 70000, 200000}
	type run struct {
		writers, perWriter int
		procs              bool
		big                bool
	}
	runs := []run{{4, 25, false, false}, {6, 8, false, true}, {3, 6, true, false}}
	if !c.Quick() {
		runs = []run{{16, 50, false, false}, {8, 20, false, true}, {8, 12, true, true}, {2, 200, false, false},
			{16, 80, false, false}, {12, 25, false, true}, {10, 15, true, true}, {3, 300, false, false}, {32, 20, false, false}, {6, 40, true, false}}
	}
	for ri, r := range runs {
		dir := filepath.Join(c.OutDir, fmt.Sprintf("board-%d", ri))
		os.MkdirAll(dir, 0755)
		file, lock := filepath.Join(dir, "board"), filepath.Join(dir, "lock")
		plan := make([][]int, r.writers)
		for w := range plan {
			for s := 0; s < r.perWriter; s++ {
				sz := sizePool[c.Rng.Intn(len(sizePool))]
				if !r.big && sz > 50000 {
					sz = 49100 + c.Rng.Intn(200) // around the 64 KiB line boundary (base64 + envelope)
				}
				plan[w] = append(plan[w], sz)
			}
		}
		if r.big {
			plan[0][r.perWriter/2] = 700000 // a line just below the reader's 1 MiB limit
		}
		var wg sync.WaitGroup
		errs := make([]error, r.writers)
		for w := 0; w < r.writers; w++ {
			wg.Add(1)
			go func(w int) {
				defer wg.Done()
				if r.procs {
					var ss []string
					for _, v := range plan[w] {
						ss = append(ss, strconv.Itoa(v))
					}
					cmd := exec.Command(os.Args[0], "c16writer", "-out", filepath.Join(dir, fmt.Sprintf("w%d", w)))
					cmd.Env = append(os.Environ(), fmt.Sprintf("C16_WRITER=%s|%s|%d|%s", file, lock, w, strings.Join(ss, ",")))
					if out, err := cmd.CombinedOutput(); err != nil {
						errs[w] = fmt.Errorf("%v: %s", err, out)
					}
				} else {
					errs[w] = c16Send(file, lock, w, plan[w])
				}
			}(w)
		}
		wg.Wait()
		for w, e := range errs {
			if e != nil {
				fail("send-error", fmt.Sprintf("writer %d failed: %v", w, e), map[string]interface{}{"run": ri})
			}
		}
		rd, err := file_storage.NewFileStorage(file, lock)
		if err != nil {
			panic(err)
		}
		all, err := rd.GetMessages(0)
		if err != nil {
			fail("read-error", "GetMessages(0) failed on a board whose lines are all below the limit: "+err.Error(), map[string]interface{}{"run": ri})
			continue
		}
		rep := map[string]interface{}{"run": ri, "writers": r.writers, "per_writer": r.perWriter, "processes": r.procs}
		// oracle: exactly once, offsets = positions, per-writer order, payload intact
		total := r.writers * r.perWriter
		if len(all) != total {
			fail("count", fmt.Sprintf("%d messages sent, %d on the board", total, len(all)), rep)
		}
		seen := map[string]int{}
		next := make([]int, r.writers)
		claims := rawClaims(file)
		for i, m := range all {
			if m.Offset != uint64(i) || i >= len(claims) || claims[i] != int64(i) {
				cl := int64(-1)
				if i < len(claims) {
					cl = claims[i]
				}
				fail("offset-not-position", fmt.Sprintf("the entry at position %d carries offset %d (stored claim %d)", i, m.Offset, cl), rep)
				break
			}
			seen[m.Event]++
			var w, s int
			fmt.Sscanf(m.Event, "w%d-s%d", &w, &s)
			if w < r.writers && s != next[w] {
				fail("writer-order", fmt.Sprintf("writer %d's message %d appears where %d was expected", w, s, next[w]), rep)
			}
			if w < r.writers {
				next[w] = s + 1
				if !bytes.Equal(m.Data, c16Payload(w, s, plan[w][s])) {
					fail("payload-changed", fmt.Sprintf("message %s is read back with a different payload", m.Event), rep)
				}
			}
		}
		for ev, n := range seen {
			if n != 1 {
				fail("not-exactly-once", fmt.Sprintf("message %s appears %d times", ev, n), rep)
			}
		}
		// model: the observed order, sent sequentially, with queries
		lens := rawLineLengths(file)
		var sb strings.Builder
		fmt.Fprintf(&sb, "board %d", len(all))
		for i, m := range all {
			l := 0
			if i < len(lens) {
				l = lens[i]
			}
			fmt.Fprintf(&sb, " %d %d %d", tok.Tok(m.Event), tok.Tok(m.ID), l)
		}
		queries := [][3]interface{}{}
		ks := []int{0, 1, len(all) / 2, len(all) - 1, len(all), len(all) + 3}
		for _, k := range ks {
			var ids []string
			var offs []string
			if len(all) > 3 && k%2 == 0 {
				ids = []string{all[len(all)/3].ID, all[len(all)-1].ID}
				offs = []string{strconv.Itoa(len(all) / 4), "999999"}
			}
			queries = append(queries, [3]interface{}{k, ids, offs})
		}
		for _, q := range queries {
			k, ids, offs := q[0].(int), q[1].([]string), q[2].([]string)
			h, _ := file_storage.NewFileStorage(file, lock)
			h.IgnoreMessages(ids, false)
			h.IgnoreMessages(offs, true)
			got, err := h.GetMessages(uint64(k))
			h.Close()
			var offsStr, readStr []string
			for i := range all {
				// what `send` assigned: the claim stored in the line
				offsStr = append(offsStr, strconv.FormatInt(claims[i], 10))
			}
			obs := "error"
			if err == nil {
				for _, m := range got {
					readStr = append(readStr, strconv.Itoa(tok.Tok(m.Event)))
				}
				obs = strings.Join(readStr, ",")
				// oracle: exactly positions k.. minus ignored
				var want []string
				for i, m := range all {
					ign := false
					for _, id := range ids {
						if m.ID == id {
							ign = true
						}
					}
					for _, o := range offs {
						if strconv.FormatUint(m.Offset, 10) == o {
							ign = true
						}
					}
					if i >= k && !ign {
						want = append(want, strconv.Itoa(tok.Tok(m.Event)))
					}
				}
				if strings.Join(want, ",") != obs {
					fail("read-from-k", fmt.Sprintf("reading from offset %d does not return exactly the entries from that position on minus the ignored ones", k), rep)
				}
			}
			var q strings.Builder
			fmt.Fprintf(&q, " | %d %d", k, len(ids))
			for _, id := range ids {
				fmt.Fprintf(&q, " %d", tok.Tok(id))
			}
			fmt.Fprintf(&q, " %d", len(offs))
			for _, o := range offs {
				fmt.Fprintf(&q, " %s", o)
			}
			c.Case(fmt.Sprintf("run%d", ri), true, sb.String()+q.String(), fmt.Sprintf("board offsets=%s read=%s", strings.Join(offsStr, ","), obs))
		}
		rd.Close()
	}
	// a line above the reader's limit: the reader refuses the log (outside the property's range);
	// model and implementation must agree on that, and offsets of earlier entries stay positions
	dir := filepath.Join(c.OutDir, "board-over")
	os.MkdirAll(dir, 0755)
	file, lock := filepath.Join(dir, "board"), filepath.Join(dir, "lock")
	c16Send(file, lock, 0, []int{10, 800000, 10})
	h, _ := file_storage.NewFileStorage(file, lock)
	_, err := h.GetMessages(0)
	h.Close()
	lens := rawLineLengths(file)
	obs := "ok"
	if err != nil {
		obs = "error"
	}
	var offsObs []string
	if fh, err := os.Open(file); err == nil {
		r := bufio.NewReaderSize(fh, 1<<21)
		for {
			line, err := r.ReadBytes('\n')
			if len(line) > 1 {
				var m storage.Message
				if json.Unmarshal(line, &m) == nil {
					offsObs = append(offsObs, strconv.FormatUint(m.Offset, 10))
				}
			}
			if err != nil {
				break
			}
		}
		fh.Close()
	}
	c.Case("over-limit", true, fmt.Sprintf("board 3 1 1 %d 2 2 %d 3 3 %d | 0 0 0", lens[0], lens[1], lens[2]), "board offsets="+strings.Join(offsObs, ",")+" read="+obs)
	c16SparseLines(c, fail)
	c16PollThenSend(c, fail)
	c16RawFiles(c)
}

// c16RawFiles: arbitrary board files against the model's reader (Board/Raw.v).  Lines are genuine
// sends, hand-written entries that claim any offset (or none), and lines that do not decode; every
// file is read from several offsets with and without ignore lists.  Whether a line decodes is
// decided with the project's own message type; what is compared is what the reader makes of it:
// which entries it hands out, in which order, under which offsets.
func c16RawFiles(c *Ctx) {
	nfiles := 8
	if !c.Quick() {
		nfiles = 60
	}
	for fi := 0; fi < nfiles; fi++ {
		dir := filepath.Join(c.OutDir, fmt.Sprintf("board-raw-%d", fi))
		os.MkdirAll(dir, 0755)
		file, lock := filepath.Join(dir, "board"), filepath.Join(dir, "lock")
		n := 3 + c.Rng.Intn(9)
		long := fi == 1 // one file with a line beyond the reader's limit
		for i := 0; i < n; i++ {
			tag := i + 1
			r := c.Rng.Intn(12)
			if long && i == n/2 {
				r = 11
			}
			switch {
			case r < 3: // a genuine send (its offset claim is its position)
				st, err := file_storage.NewFileStorage(file, lock)
				if err != nil {
					panic(err)
				}
				st.Send(storage.Message{DkgRoundID: "r", Event: fmt.Sprintf("t%d", tag), Data: []byte("payload"), SenderAddr: "w"})
				st.Close()
			default:
				fh, _ := os.OpenFile(file, os.O_APPEND|os.O_CREATE|os.O_WRONLY, 0644)
				id := fmt.Sprintf("id-%d", 1+c.Rng.Intn(4))
				claims := []string{fmt.Sprint(i), "0", "900", "18446744073709551615", "18446744073709551616", "-1", `"4"`, fmt.Sprint(i + 1)}
				switch {
				case r < 8:
					fmt.Fprintf(fh, `{"id":"%s","dkg_round_id":"r","offset":%s,"event":"t%d"}`+"\n", id, claims[c.Rng.Intn(len(claims))], tag)
				case r == 8:
					fmt.Fprintf(fh, `{"id":"%s","event":"t%d"}`+"\n", id, tag) // no offset claim at all
				case r == 9:
					fmt.Fprintln(fh, []string{"this line is not JSON at all", "[1,2]", "7", `"text"`, "", `{"id":"id-1","data":"!!not base64!!"}`}[c.Rng.Intn(6)])
				case r == 10:
					fmt.Fprintln(fh, []string{"{}", "null"}[c.Rng.Intn(2)]) // decodes: an entry with every field empty
				default:
					if long {
						fmt.Fprintln(fh, strings.Repeat("x", 1200000))
					} else {
						fmt.Fprintf(fh, `{"id":"%s","offset":%d,"event":"t%d","data":"%s"}`+"\n", id, i, tag, strings.Repeat("QUJD", c.Rng.Intn(2000)))
					}
				}
				fh.Close()
			}
		}
		raw, _ := os.ReadFile(file)
		rows := strings.Split(strings.TrimSuffix(string(raw), "\n"), "\n")
		idTok := map[string]int{"": 0}
		var desc []string
		for _, row := range rows {
			var m storage.Message
			if err := json.Unmarshal([]byte(row), &m); err != nil {
				desc = append(desc, fmt.Sprintf("J %d", len(row)))
				continue
			}
			if _, ok := idTok[m.ID]; !ok {
				idTok[m.ID] = len(idTok) + 10
			}
			tag := 0
			fmt.Sscanf(m.Event, "t%d", &tag)
			desc = append(desc, fmt.Sprintf("E %d %d %d %d", tag, m.Offset, idTok[m.ID], len(row)))
		}
		var idNames []string
		for name := range idTok {
			if name != "" {
				idNames = append(idNames, name)
			}
		}
		sort.Strings(idNames)
		ks := []int{0, len(rows), len(rows) + 3}
		for j := 0; j < 3; j++ {
			ks = append(ks, c.Rng.Intn(len(rows)+1))
		}
		for qi, k := range ks {
			var ids []string
			var offs []int
			if qi%2 == 1 {
				for _, name := range idNames {
					if c.Rng.Intn(3) == 0 {
						ids = append(ids, name)
					}
				}
				for j := 0; j < c.Rng.Intn(3); j++ {
					offs = append(offs, c.Rng.Intn(len(rows)+1))
				}
			}
			h, err := file_storage.NewFileStorage(file, lock)
			if err != nil {
				panic(err)
			}
			h.IgnoreMessages(ids, false)
			var offStr, idStr, offDesc []string
			for _, o := range offs {
				offStr = append(offStr, fmt.Sprint(o))
				offDesc = append(offDesc, fmt.Sprint(o))
			}
			for _, name := range ids {
				idStr = append(idStr, fmt.Sprint(idTok[name]))
			}
			h.IgnoreMessages(offStr, true)
			ms, err := h.GetMessages(uint64(k))
			h.Close()
			obs := "boardraw error"
			if err == nil {
				var l []string
				for _, m := range ms {
					tag := 0
					fmt.Sscanf(m.Event, "t%d", &tag)
					l = append(l, fmt.Sprintf("%d@%d", tag, m.Offset))
				}
				obs = "boardraw read=" + strings.Join(l, ",")
			}
			line := fmt.Sprintf("boardraw %d %s | %d %d %s %d %s", len(rows), strings.Join(desc, " "), k, len(ids), strings.Join(idStr, " "), len(offs), strings.Join(offDesc, " "))
			c.Case("raw-file", true, strings.Join(strings.Fields(line), " "), obs)
		}
	}
}

// c16SparseLines: what an entry says must not depend on where the reader started. Anybody who can
// write to the board file can append a line that lacks some keys; read together with the entry
// before it and read on its own it must be the same (empty-fielded) entry.
func c16SparseLines(c *Ctx, fail func(kind, what string, rep map[string]interface{})) {
	dir := filepath.Join(c.OutDir, "board-sparse")
	os.MkdirAll(dir, 0755)
	file, lock := filepath.Join(dir, "board"), filepath.Join(dir, "lock")
	st, err := file_storage.NewFileStorage(file, lock)
	if err != nil {
		panic(err)
	}
	st.Send(storage.Message{DkgRoundID: "round-a", Event: "event_full", Data: []byte("payload of the full entry"), Signature: []byte("sig"), SenderAddr: "alice", RecipientAddr: "bob"})
	st.Close()
	fh, _ := os.OpenFile(file, os.O_APPEND|os.O_WRONLY, 0644)
	fmt.Fprintln(fh, `{"id":"sparse-1","dkg_round_id":"round-b","offset":1}`)
	fmt.Fprintln(fh, `{"id":"sparse-2","offset":2,"event":"event_only"}`)
	fmt.Fprintln(fh, `this line is not JSON at all`)
	fmt.Fprintln(fh, `{"id":"confused","offset":"4","data":"!!not base64!!"}`)
	fmt.Fprintln(fh, `{"id":"claims-a-far-offset","dkg_round_id":"round-b","offset":900,"event":"event_far"}`)
	fh.Close()
	// a line that cannot be decoded must not make the read fail (the node's polling loop ends on such an
	// error and its offset never passes the line), and what the reader hands out as an entry's offset
	// must be the entry's position - the node resumes at offset+1 of the last entry it was given
	{
		h, _ := file_storage.NewFileStorage(file, lock)
		ms, err := h.GetMessages(0)
		h.Close()
		if err != nil {
			fail("undecodable-line-fails-the-read", "one board line that cannot be decoded makes every read of the board fail: "+err.Error(), map[string]interface{}{"lines": 6})
		} else {
			pos := map[string]uint64{"sparse-1": 1, "sparse-2": 2, "claims-a-far-offset": 5}
			for _, m := range ms {
				if want, ok := pos[m.ID]; ok && m.Offset != want {
					fail("offset-is-not-position", fmt.Sprintf("the entry at position %d is handed out with offset %d (what the line claims)", want, m.Offset), map[string]interface{}{"id": m.ID, "position": want, "offset": m.Offset})
				}
			}
		}
	}
	proj := func(m storage.Message) string {
		return fmt.Sprintf("id=%s round=%s event=%s data=%q sig=%q sender=%s recipient=%s", m.ID, m.DkgRoundID, m.Event, m.Data, m.Signature, m.SenderAddr, m.RecipientAddr)
	}
	read := func(k uint64) []storage.Message {
		h, _ := file_storage.NewFileStorage(file, lock)
		defer h.Close()
		ms, _ := h.GetMessages(k)
		return ms
	}
	all := read(0)
	for k := 1; k < len(all); k++ {
		alone := read(uint64(k))
		if len(alone) == 0 || proj(alone[0]) != proj(all[k]) {
			got := "nothing"
			if len(alone) > 0 {
				got = proj(alone[0])
			}
			fail("entry-depends-on-read-offset", fmt.Sprintf("the entry at position %d reads differently from offset 0 and from offset %d", k, k),
				map[string]interface{}{"position": k, "read_from_0": proj(all[k]), "read_from_k": got})
		}
	}
	c.Case("sparse-lines", true, "skip c16sparse", "skip c16sparse")
}
