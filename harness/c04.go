package main

import (
	"bytes"
	"encoding/base64"
	"encoding/hex"
	"encoding/json"
	"fmt"
	"math/big"
	"os"
	"path/filepath"
	"sort"
	"strings"
	"time"

	"github.com/corestario/kyber"
	"github.com/corestario/kyber/encrypt/ecies"
	bls12381 "github.com/corestario/kyber/pairing/bls12381"
	dkgPedersen "github.com/corestario/kyber/share/dkg/pedersen"

	"github.com/lidofinance/dc4bc/airgapped"
	ctypes "github.com/lidofinance/dc4bc/client/types"
	"github.com/lidofinance/dc4bc/fsm/types/requests"
)

func init() {
	scenarios["c04"] = scenarioC04
}

// ---------------------------------------------------------------------------------------------
// secrets of a machine, and the search for them in everything that leaves it

type secretVal struct {
	Name string
	Raw  []byte // big-endian scalar / seed bytes
}

func scalarBytes(s kyber.Scalar) []byte {
	bz, err := s.MarshalBinary()
	if err != nil {
		panic(err)
	}
	return bz
}

func machineSecrets(cl *Cluster, i int, round string) []secretVal {
	var out []secretVal
	m := cl.Machines[i]
	out = append(out, secretVal{"seed", m.VerifBaseSeed()})
	inst := m.VerifDKGInstance(round)
	if inst != nil {
		out = append(out, secretVal{"long-term private key", scalarBytes(inst.GetSecKey())})
		if g := inst.VerifInstance(); g != nil {
			for k, co := range g.GetDealer().PrivatePoly().Coefficients() {
				out = append(out, secretVal{fmt.Sprintf("coefficient %d of the secret polynomial", k), scalarBytes(co)})
			}
			for j := 0; j < cl.N; j++ {
				if d, err := g.GetDealer().PlaintextDeal(j); err == nil {
					out = append(out, secretVal{fmt.Sprintf("sub-share for participant %d", j), scalarBytes(d.SecShare.V)})
				}
			}
		}
	}
	if krs, err := m.GetBLSKeyrings(); err == nil && krs[round] != nil {
		out = append(out, secretVal{"BLS share", scalarBytes(krs[round].Share.V)})
	}
	return out
}

func reverseBytes(b []byte) []byte {
	o := make([]byte, len(b))
	for i := range b {
		o[len(b)-1-i] = b[i]
	}
	return o
}

// needles: the encodings of a secret that are searched for in one layer of a blob
func needles(raw []byte) [][]byte {
	var out [][]byte
	for _, v := range [][]byte{raw, reverseBytes(raw)} {
		out = append(out, v)
		out = append(out, []byte(hex.EncodeToString(v)), []byte(strings.ToUpper(hex.EncodeToString(v))))
		out = append(out, []byte(new(big.Int).SetBytes(v).String()))
		// base64 at the three alignments, both alphabets (boundary characters dropped)
		for pad := 0; pad < 3; pad++ {
			src := append(make([]byte, pad), v...)
			for _, enc := range []*base64.Encoding{base64.RawStdEncoding, base64.RawURLEncoding} {
				e := enc.EncodeToString(src)
				lo := (pad*8 + 5) / 6
				hi := len(e)
				if (len(src)*8)%6 != 0 {
					hi--
				}
				if hi-lo >= 16 {
					out = append(out, []byte(e[lo:hi]))
				}
			}
		}
	}
	return out
}

func isB64(c byte) bool {
	return c >= 'A' && c <= 'Z' || c >= 'a' && c <= 'z' || c >= '0' && c <= '9' || c == '+' || c == '/' || c == '-' || c == '_' || c == '='
}

// layers: the blob itself and everything obtained from it by decoding runs of base64 / hex
// characters, recursively (JSON-nested base64, base64 inside base64, hex inside JSON ...)
func layers(blob []byte, depth int, out *[][]byte) {
	*out = append(*out, blob)
	if depth == 0 {
		return
	}
	for i := 0; i < len(blob); {
		if !isB64(blob[i]) {
			i++
			continue
		}
		j := i
		for j < len(blob) && isB64(blob[j]) {
			j++
		}
		run := string(blob[i:j])
		i = j
		if len(run) < 16 {
			continue
		}
		trim := strings.TrimRight(run, "=")
		for _, enc := range []*base64.Encoding{base64.RawStdEncoding, base64.RawURLEncoding} {
			if d, err := enc.DecodeString(trim); err == nil && len(d) >= 8 {
				layers(d, depth-1, out)
			}
		}
		if d, err := hex.DecodeString(run); err == nil && len(d) >= 8 {
			layers(d, depth-1, out)
		}
	}
}

func findSecret(blob []byte, secrets []secretVal) (string, bool) {
	var ls [][]byte
	layers(blob, 4, &ls)
	for _, s := range secrets {
		if len(s.Raw) < 16 {
			continue
		}
		for _, nd := range needles(s.Raw) {
			for _, l := range ls {
				if bytes.Contains(l, nd) {
					return s.Name, true
				}
			}
		}
	}
	return "", false
}

// ---------------------------------------------------------------------------------------------
// shapes: the structure of everything a result operation carries, with every encrypted part
// opened by whoever can open it

type shaper struct {
	cl     *Cluster
	round  string
	suite  kyber.Group
	fail   func(kind, what string, rep map[string]interface{})
	sender int
}

var c04Suite = bls12381.NewBLS12381Suite(nil)

func (sh *shaper) indexOfUser(u string) int {
	for i, x := range sh.cl.Users {
		if x == u {
			return i
		}
	}
	return -1
}

func sortedKeys(m map[string]interface{}) []string {
	var ks []string
	for k := range m {
		ks = append(ks, k)
	}
	sort.Strings(ks)
	return ks
}

var textFields = map[string]bool{"CreatedAt": true, "Error": true, "MessageID": true, "BatchID": true}

func (sh *shaper) val(v interface{}, field string, rcpt int) string {
	switch x := v.(type) {
	case nil:
		return "null"
	case bool:
		return "t"
	case float64, json.Number:
		return "n"
	case string:
		if textFields[field] || x == "" {
			return "s"
		}
		bz, err := base64.StdEncoding.DecodeString(x)
		if err != nil {
			return "s"
		}
		return sh.bytes(bz, field, rcpt)
	case []interface{}:
		var parts []string
		for _, e := range x {
			parts = append(parts, sh.val(e, field, rcpt))
		}
		return "[" + strings.Join(parts, ",") + "]"
	case map[string]interface{}:
		var parts []string
		for _, k := range sortedKeys(x) {
			parts = append(parts, k+":"+sh.val(x[k], k, rcpt))
		}
		return "{" + strings.Join(parts, ",") + "}"
	}
	return "?"
}

func (sh *shaper) jsonShape(bz []byte, field string, rcpt int) (string, bool) {
	t := bytes.TrimSpace(bz)
	if len(t) == 0 || (t[0] != '{' && t[0] != '[') {
		return "", false
	}
	var v interface{}
	if err := json.Unmarshal(bz, &v); err != nil {
		return "", false
	}
	return sh.val(v, field, rcpt), true
}

func (sh *shaper) bytes(bz []byte, field string, rcpt int) string {
	if field == "Deal" {
		if string(bz) == "self-confirm" {
			return "selfconfirm"
		}
		return sh.openDeal(bz, rcpt)
	}
	if s, ok := sh.jsonShape(bz, field, rcpt); ok {
		return s
	}
	return fmt.Sprintf("b%d", len(bz))
}

// openDeal: who can open the ECIES layer and the inner VSS layer of a deal
func (sh *shaper) openDeal(ct []byte, rcpt int) string {
	var openers []int
	var plain []byte
	for j, m := range sh.cl.Machines {
		inst := m.VerifDKGInstance(sh.round)
		if inst == nil {
			continue
		}
		if p, err := ecies.Decrypt(c04Suite, inst.GetSecKey(), ct, c04Suite.Hash); err == nil {
			openers = append(openers, j)
			plain = p
		}
	}
	if len(openers) != 1 || openers[0] != rcpt {
		sh.fail("deal-opens-for-others", fmt.Sprintf("a deal addressed to participant %d can be opened with the keys of participants %v", rcpt, openers),
			map[string]interface{}{"dealer": sh.sender, "addressee": rcpt, "openers": fmt.Sprint(openers)})
		return fmt.Sprintf("enc-openers%v", openers)
	}
	var deal dkgPedersen.Deal
	if err := json.Unmarshal(plain, &deal); err != nil || deal.Deal == nil {
		return "enc(undecodable)"
	}
	// the inner layer: every participant's verifier for this dealer tries to open it
	var inner []int
	innerShape := ""
	for j, m := range sh.cl.Machines {
		inst := m.VerifDKGInstance(sh.round)
		if inst == nil || inst.VerifInstance() == nil {
			continue
		}
		v := inst.VerifInstance().Verifiers()[deal.Index]
		if v == nil {
			continue
		}
		if d, err := v.DecryptDeal(deal.Deal); err == nil {
			inner = append(inner, j)
			sec := "UNKNOWN"
			dealerInst := sh.cl.Machines[sh.sender].VerifDKGInstance(sh.round)
			if pd, err := dealerInst.VerifInstance().GetDealer().PlaintextDeal(j); err == nil && pd.SecShare.V.Equal(d.SecShare.V) {
				sec = "SECRET"
			}
			var cs []string
			for _, cm := range d.Commitments {
				bz, _ := cm.MarshalBinary()
				cs = append(cs, fmt.Sprintf("b%d", len(bz)))
			}
			innerShape = fmt.Sprintf("{Commitments:[%s],SecShare:%s,SessionID:b%d,T:n}", strings.Join(cs, ","), sec, len(d.SessionID))
		}
	}
	if len(inner) != 1 || inner[0] != rcpt {
		sh.fail("deal-opens-for-others", fmt.Sprintf("the inner layer of a deal addressed to participant %d can be opened by participants %v", rcpt, inner),
			map[string]interface{}{"dealer": sh.sender, "addressee": rcpt, "openers": fmt.Sprint(inner)})
		return fmt.Sprintf("enc(vss-openers%v)", inner)
	}
	var pv interface{}
	json.Unmarshal(plain, &pv)
	outer := pv.(map[string]interface{})
	dm := outer["Deal"].(map[string]interface{})
	var parts []string
	for _, k := range sortedKeys(dm) {
		if k == "Cipher" {
			parts = append(parts, "Cipher:enc("+innerShape+")")
		} else {
			parts = append(parts, k+":"+sh.val(dm[k], k, rcpt))
		}
	}
	return "enc({Deal:{" + strings.Join(parts, ",") + "},Index:" + sh.val(outer["Index"], "Index", rcpt) + "})"
}

// opShape: what a result operation carries besides the request it answers
func (sh *shaper) opShape(i int, res *ctypes.Operation) string {
	sh.sender = i
	var msgs []string
	for _, m := range res.ResultMsgs {
		cls, rcpt := "bcast", -1
		if m.RecipientAddr != "" {
			rcpt = sh.indexOfUser(m.RecipientAddr)
			if rcpt == i {
				cls = "self"
			} else {
				cls = "to"
			}
		}
		s, ok := sh.jsonShape(m.Data, "", rcpt)
		if !ok {
			s = fmt.Sprintf("b%d", len(m.Data))
		}
		msgs = append(msgs, cls+" "+orDash(m.Event)+" "+s)
	}
	sort.SliceStable(msgs, func(a, b int) bool { return msgs[a] < msgs[b] })
	extra := "null"
	if len(res.ExtraData) > 0 {
		if s, ok := sh.jsonShape(res.ExtraData, "", -1); ok {
			extra = s
		} else {
			extra = fmt.Sprintf("b%d", len(res.ExtraData))
		}
	}
	return fmt.Sprintf("event=%s extra=%s msgs=[%s]", orDash(string(res.Event)), extra, strings.Join(msgs, "; "))
}

func orDash(s string) string {
	if s == "" {
		return "-"
	}
	return s
}

// ---------------------------------------------------------------------------------------------

type c04Run struct {
	cl      *Cluster
	outputs []c04Output
}

type c04Output struct {
	Machine int
	Type    string
	File    []byte
	Res     *ctypes.Operation
	Err     bool
}

// answerRecorded: the real ProcessOperation; the result FILE is what is inspected
func (r *c04Run) answerRecorded(i int, o *ctypes.Operation, isErr bool) (*ctypes.Operation, error) {
	path, err := r.cl.Machines[i].ProcessOperation(*o, !isErr)
	if err != nil {
		return nil, err
	}
	bz, err := os.ReadFile(path)
	if err != nil {
		return nil, err
	}
	var res ctypes.Operation
	if err := json.Unmarshal(bz, &res); err != nil {
		return nil, err
	}
	r.outputs = append(r.outputs, c04Output{Machine: i, Type: string(o.Type), File: bz, Res: &res, Err: isErr})
	os.Remove(path)
	if isErr {
		return &res, nil
	}
	return submitResultFile2(r.cl, i, &res)
}

func (r *c04Run) run(withErrors bool) {
	r.cl.RunToQuiescenceWith(func(cands []int) int { return 0 }, func(i int, o *ctypes.Operation) (bool, error) {
		if string(o.Type) == "state_sig_proposal_await_participants_confirmations" {
			_, err := r.cl.Answer(i, o)
			return true, err
		}
		if withErrors && string(o.Type) != "state_dkg_commits_await_confirmations" && string(o.Type) != "reinit_dkg" {
			// an undecodable request of the same type first: the error result leaves the machine too
			bad := *o
			bad.Payload = []byte("{")
			r.answerRecorded(i, &bad, true)
		}
		_, err := r.answerRecorded(i, o, false)
		return true, err
	})
}

func c04Line(o c04Output, n, t int) string {
	nm := 0
	if o.Type == "state_signing_await_partial_signs" && !o.Err {
		var p struct{ SrcPayload []byte }
		json.Unmarshal(o.Res.Payload, &p)
		var tasks []requests.SigningTask
		json.Unmarshal(p.SrcPayload, &tasks)
		if ms, err := requests.TasksToMessages(tasks); err == nil {
			nm = len(ms)
		}
	}
	e := 0
	if o.Err {
		e = 1
	}
	return fmt.Sprintf("c04shape %s %d %d %d %d", o.Type, n, t, nm, e)
}

func scenarioC04(c *Ctx) {
	fail := func(kind, what string, rep map[string]interface{}) {
		c.Fail(Failure{Property: "C04", Kind: kind, Signature: map[string]interface{}{"kind": kind}, What: what, Replay: rep})
	}
	type cfg struct{ n, t int }
	cfgs := []cfg{{3, 2}}
	if !c.Quick() {
		cfgs = []cfg{{3, 2}, {2, 2}, {4, 3}, {5, 3}, {4, 4}}
	}
	scanned, blobs := 0, 0
	for ci, cf := range cfgs {
		tag := fmt.Sprintf("c04-%d", ci)
		A := NewCluster(newEnvDir(c), cf.n, cf.t, tag)
		A.Propose(0)
		ra := &c04Run{cl: A}
		ra.run(true)
		A.ProposeBatch(0, "batch-a", []requests.SigningTask{{MessageID: "doc-1", File: "a.txt", Payload: []byte("first document")}, {MessageID: "doc-2", File: "b.txt", Payload: []byte("second document")}})
		ra.run(true)
		ready := true
		for i := range A.Nodes {
			if !strings.Contains(A.RoundState(i), "stage_signing_idle") {
				ready = false
			}
		}
		if !ready {
			fail("ceremony-failed", "the ceremony did not finish", map[string]interface{}{"n": cf.n, "t": cf.t})
			A.Close()
			continue
		}
		// the reinitialisation of fresh machines from the same mnemonics
		B, _, err := startReinit(c, A, tag, false, false)
		rb := &c04Run{cl: B}
		if err == nil {
			rb.run(false)
		} else {
			fail("reinit-file", err.Error(), nil)
		}
		for _, r := range []*c04Run{ra, rb} {
			if r.cl == nil {
				continue
			}
			secrets := make([][]secretVal, cf.n)
			for i := range r.cl.Machines {
				secrets[i] = machineSecrets(r.cl, i, r.cl.Round)
				secrets[i] = append(secrets[i], secretVal{"operator password", r.cl.Password})
			}
			sh := &shaper{cl: r.cl, round: r.cl.Round, fail: fail}
			for _, o := range r.outputs {
				// (1) no secret of the producing machine in the result file, in any encoding
				blobs++
				if name, found := findSecret(o.File, secrets[o.Machine]); found {
					fail("secret-in-output", fmt.Sprintf("the result file of a %s operation contains the machine's %s", o.Type, name),
						map[string]interface{}{"operation": o.Type, "secret": name, "n": cf.n, "t": cf.t, "error_result": o.Err})
				}
				scanned += len(secrets[o.Machine])
				// (2) the structure of what leaves the machine, encrypted parts opened by whoever can
				c.Case("shape-"+o.Type, true, c04Line(o, cf.n, cf.t), "c04shape "+sh.opShape(o.Machine, o.Res))
			}
			// (3) the database: private key and shares only encrypted; wrong passwords
			for i, m := range r.cl.Machines {
				dbDir := filepath.Join(r.cl.MDirs[i], "db")
				var dbSecrets []secretVal
				for _, s := range secrets[i] {
					if s.Name == "long-term private key" || s.Name == "BLS share" || s.Name == "operator password" {
						dbSecrets = append(dbSecrets, s)
					}
				}
				m.VerifClose()
				files, _ := os.ReadDir(dbDir)
				for _, f := range files {
					bz, err := os.ReadFile(filepath.Join(dbDir, f.Name()))
					if err != nil {
						continue
					}
					blobs++
					if name, found := findSecret(bz, dbSecrets); found {
						fail("secret-in-database", fmt.Sprintf("the database file %s contains the machine's %s in the clear", f.Name(), name),
							map[string]interface{}{"secret": name, "n": cf.n, "t": cf.t})
					}
				}
				nw := 4
				if !c.Quick() {
					nw = 12
				}
				for _, pw := range wrongPasswords(c, r.cl.Password, nw) {
					if what := opensWith(dbDir, pw, r.cl.Round); what != "" {
						fail("opens-with-wrong-password", what, map[string]interface{}{"password_kind": describePw(pw, r.cl.Password)})
					}
				}
				if what := opensWith(dbDir, r.cl.Password, r.cl.Round); what == "" {
					fail("right-password-refused", "the database does not open with the operator's password", nil)
				}
				r.cl.Machines[i] = reopen(r.cl, i)
			}
		}
		A.Close()
		if B != nil {
			B.Close()
		}
	}
	c.Notes["blobs_scanned"] = blobs
	c.Notes["secret_searches"] = scanned
	c04Lock(c, fail)
	c04Rounds(c, fail)
}

func submitResultFile2(cl *Cluster, i int, res *ctypes.Operation) (*ctypes.Operation, error) {
	bz, _ := json.Marshal(res)
	tmp := filepath.Join(cl.MDirs[i], "results", "resubmit.json")
	os.WriteFile(tmp, bz, 0600)
	defer os.Remove(tmp)
	return submitResultFile(cl, i, tmp)
}

func wrongPasswords(c *Ctx, pw []byte, n int) [][]byte {
	// (a trailing NUL byte is not tried: scrypt's HMAC pads short keys with zeros, so "pw" and
	// "pw\x00" are the same key by construction; a password typed at a terminal has no NUL)
	out := [][]byte{{}, append([]byte{}, pw[:len(pw)-1]...), append(append([]byte{}, pw...), 'x'), bytes.ToUpper(pw)}
	for len(out) < n {
		b := make([]byte, 1+c.Rng.Intn(24))
		c.Rng.Read(b)
		out = append(out, b)
	}
	return out[:n]
}

func describePw(pw, right []byte) string {
	switch {
	case len(pw) == 0:
		return "empty"
	case bytes.HasPrefix(right, pw):
		return "prefix of the right one"
	case bytes.HasPrefix(pw, right):
		return "right one with a trailing byte"
	case bytes.EqualFold(pw, right):
		return "case-changed"
	}
	return "random"
}

// opensWith: opens a CLOSED database with the given password; returns what could be loaded
// ("" when nothing could). The database is opened on a copy, so a mistaken key generation cannot
// overwrite anything.
func opensWith(dbDir string, pw []byte, round string) string {
	cp := dbDir + "-probe"
	os.RemoveAll(cp)
	copyDir(dbDir, cp)
	defer os.RemoveAll(cp)
	am, err := airgapped.NewMachine(cp)
	if err != nil {
		return ""
	}
	defer am.VerifClose()
	am.SetEncryptionKey(pw)
	var got []string
	if err := am.LoadKeysFromDB(); err == nil {
		got = append(got, "the long-term key pair was loaded")
	}
	if krs, err := am.GetBLSKeyrings(); err == nil && len(krs) > 0 {
		got = append(got, "the BLS keyrings were loaded")
	}
	return strings.Join(got, "; ")
}

// c04Lock: the operator's command holds the machine lock from its start to its end (cmd/airgapped);
// the password-expiry tick (DropSensitiveData) must wait for it, so a share is never saved under
// a dropped (empty) password.
func c04Lock(c *Ctx, fail func(kind, what string, rep map[string]interface{})) {
	cl := NewCluster(newEnvDir(c), 3, 2, "c04-lock")
	defer cl.Close()
	cl.Propose(0)
	victim := 1
	cl.RunToQuiescenceWith(func(cands []int) int { return 0 }, func(i int, o *ctypes.Operation) (bool, error) {
		if i != victim || string(o.Type) != "state_dkg_master_key_await_confirmations" {
			_, err := cl.Answer(i, o)
			return true, err
		}
		m := cl.Machines[i]
		m.Lock() // the command starts
		done := make(chan struct{})
		go func() { m.DropSensitiveData(); close(done) }() // the tick fires while the command runs
		waited := false
		select {
		case <-done:
		case <-time.After(150 * time.Millisecond):
			waited = true
		}
		c.Case("lock-tick-waits", true, "c04lock tick-during-command", fmt.Sprintf("c04lock waits=%v", waited))
		_, err := cl.Answer(i, o)
		m.Unlock()
		<-done
		return true, err
	})
	// whatever was saved must open with the operator's password only
	m := cl.Machines[victim]
	m.VerifClose()
	dbDir := filepath.Join(cl.MDirs[victim], "db")
	if what := opensWith(dbDir, []byte{}, cl.Round); strings.Contains(what, "keyrings") {
		fail("share-saved-without-password", "a password-expiry tick during the master-key command made the machine save the BLS share under an EMPTY password", map[string]interface{}{"schedule": "tick between command start and saveBLSKeyring"})
	}
	if what := opensWith(dbDir, cl.Password, cl.Round); !strings.Contains(what, "keyrings") {
		fail("share-saved-without-password", "after a password-expiry tick during the master-key command the saved BLS share does not open with the operator's password", map[string]interface{}{"schedule": "tick between command start and saveBLSKeyring"})
	}
	cl.Machines[victim] = reopen(cl, victim)
	c04Gap(c, fail)
}

// c04Gap: the prompt of cmd/airgapped checks the password in one critical section
// (enterEncryptionPasswordIfNeeded: Lock ... Unlock) and runs the command in the next (terExe: Lock ...
// Unlock).  The same sequence of machine calls with a password-expiry tick in between:
func c04Gap(c *Ctx, fail func(kind, what string, rep map[string]interface{})) {
	cl := NewCluster(newEnvDir(c), 3, 2, "c04-gap")
	defer cl.Close()
	cl.Propose(0)
	victim := 2
	cl.RunToQuiescenceWith(func(cands []int) int { return 0 }, func(i int, o *ctypes.Operation) (bool, error) {
		if i != victim || string(o.Type) != "state_dkg_master_key_await_confirmations" {
			_, err := cl.Answer(i, o)
			return true, err
		}
		m := cl.Machines[i]
		// run(): enterEncryptionPasswordIfNeeded
		m.Lock()
		needs := m.SensitiveDataRemoved()
		m.Unlock()
		if needs {
			panic("the password is expected to be present")
		}
		// the tick (dropSensitiveDataByTicker) fires here
		m.DropSensitiveData()
		// run(): terExe
		m.Lock()
		_, err := cl.Answer(i, o)
		m.Unlock()
		return true, err
	})
	m := cl.Machines[victim]
	m.VerifClose()
	dbDir := filepath.Join(cl.MDirs[victim], "db")
	withEmpty := strings.Contains(opensWith(dbDir, []byte{}, cl.Round), "keyrings")
	c.Case("lock-gap", true, "c04gap tick-between-password-check-and-command", fmt.Sprintf("c04gap saved-without-password=%v", withEmpty))
	if withEmpty {
		c.Fail(Failure{Property: "C04", Kind: "password-check-outside-command-lock",
			Signature: map[string]interface{}{"kind": "password-check-outside-command-lock", "call_site": "cmd/airgapped/main.go run(): enterEncryptionPasswordIfNeeded then terExe"},
			What:      "a password-expiry tick between the prompt's password check and the command (the machine lock is released in between) lets the master-key command run without the password: the BLS share is saved under an EMPTY password",
			Replay:    map[string]interface{}{"schedule": "Lock; SensitiveDataRemoved()=false; Unlock; DropSensitiveData(); Lock; master-key operation; Unlock", "opens_with": "empty password"}})
	}
	cl.Machines[victim] = reopen(cl, victim)
}

// c04Rounds: two rounds on the same machines; which key material coincides
func c04Rounds(c *Ctx, fail func(kind, what string, rep map[string]interface{})) {
	type variant struct {
		name   string
		idx    []int
		t      int
	}
	base := variant{"base", []int{0, 1, 2}, 2}
	vars := []variant{{"same", []int{0, 1, 2}, 2}, {"permuted", []int{2, 0, 1}, 2}, {"partly-different", []int{0, 1, 3}, 2}, {"other-threshold", []int{0, 1, 2}, 3}}
	if !c.Quick() {
		vars = append(vars, variant{"subset", []int{0, 1}, 2}, variant{"superset", []int{0, 1, 2, 3}, 2}, variant{"permuted-other-threshold", []int{1, 2, 0}, 3})
	}
	type mat struct {
		ok     bool
		group  string
		share  map[int]string   // machine -> share
		coeffs map[int][]string // machine -> coefficients
	}
	runOne := func(v variant) mat {
		cl := NewClusterIdx(newEnvDir(c), v.t, "c04-rounds", v.idx)
		defer cl.Close()
		cl.Propose(0)
		cl.RunToQuiescence(func(cands []int) int { return 0 }, nil)
		out := mat{share: map[int]string{}, coeffs: map[int][]string{}, ok: true}
		for k, m := range cl.Machines {
			krs, _ := m.GetBLSKeyrings()
			if krs[cl.Round] == nil {
				out.ok = false
				continue
			}
			out.share[v.idx[k]] = scalarDec(krs[cl.Round].Share.V)
			gk, _ := krs[cl.Round].PubPoly.Commit().MarshalBinary()
			out.group = hex.EncodeToString(gk)
			for _, co := range m.VerifDKGInstance(cl.Round).VerifInstance().GetDealer().PrivatePoly().Coefficients() {
				out.coeffs[v.idx[k]] = append(out.coeffs[v.idx[k]], scalarDec(co))
			}
		}
		return out
	}
	b := runOne(base)
	if !b.ok {
		fail("ceremony-failed", "the base round did not finish", nil)
		return
	}
	ints := func(l []int) string {
		var s []string
		for _, x := range l {
			s = append(s, fmt.Sprint(x))
		}
		return strings.Join(s, ",")
	}
	for _, v := range vars {
		o := runOne(v)
		if !o.ok {
			fail("ceremony-failed", "a round of the two-round matrix did not finish", map[string]interface{}{"variant": v.name})
			continue
		}
		// per common machine: common coefficients equal? share equal?   group key equal?
		var common []int
		for _, i := range base.idx {
			if _, ok := o.share[i]; ok {
				common = append(common, i)
			}
		}
		var coeffEq, shareEq []string
		anyCoeff := false
		for _, i := range common {
			eq := true
			for k := 0; k < len(b.coeffs[i]) && k < len(o.coeffs[i]); k++ {
				if b.coeffs[i][k] != o.coeffs[i][k] {
					eq = false
				}
			}
			anyCoeff = anyCoeff || eq
			coeffEq = append(coeffEq, b2s(eq))
			shareEq = append(shareEq, b2s(b.share[i] == o.share[i]))
		}
		groupEq := b.group == o.group
		c.Case("rounds-"+v.name, true, fmt.Sprintf("c04rounds %d %s %d %s", base.t, ints(base.idx), v.t, ints(v.idx)),
			fmt.Sprintf("c04rounds coeffs=%s group=%s shares=%s", strings.Join(coeffEq, ""), b2s(groupEq), strings.Join(shareEq, "")))
		if anyCoeff || groupEq || strings.Contains(strings.Join(shareEq, ""), "1") {
			c.Fail(Failure{Property: "C04", Kind: "same-dealer-polynomial",
				Signature: map[string]interface{}{"kind": "same-dealer-polynomial", "rounds": "any two ids, same machine"},
				What:      "two rounds with different identifiers on the same machines: every dealer draws the same secret polynomial (coefficients from the seed alone); with the same participant set the group key, with the same list and threshold also every share, coincide",
				Replay:    map[string]interface{}{"variant": v.name, "first": map[string]interface{}{"t": base.t, "machines": ints(base.idx)}, "second": map[string]interface{}{"t": v.t, "machines": ints(v.idx)}, "coefficients_equal": strings.Join(coeffEq, ""), "group_key_equal": groupEq, "shares_equal": strings.Join(shareEq, "")}})
		}
	}
}

func b2s(b bool) string {
	if b {
		return "1"
	}
	return "0"
}
