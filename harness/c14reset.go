package main

import (
	"context"
	"fmt"
	"path/filepath"
	"strings"
	"sync"
	"time"

	"github.com/lidofinance/dc4bc/client/api/dto"
	"github.com/lidofinance/dc4bc/client/config"
	"github.com/lidofinance/dc4bc/client/modules/state"
	oprepo "github.com/lidofinance/dc4bc/client/repositories/operation"
	sigrepo "github.com/lidofinance/dc4bc/client/repositories/signature"
	"github.com/lidofinance/dc4bc/client/services"
	"github.com/lidofinance/dc4bc/client/services/fsmservice"
	"github.com/lidofinance/dc4bc/client/services/node"
	opservice "github.com/lidofinance/dc4bc/client/services/operation"
	sigservice "github.com/lidofinance/dc4bc/client/services/signature"
)

// hookState lets the scenario place an API request at a chosen point of the poller's work: `before`
// runs just before the poller saves a board offset.
type hookState struct {
	state.State
	before func(offset uint64)
}

func (s hookState) SaveOffset(o uint64) error {
	if s.before != nil {
		s.before(o)
	}
	return s.State.SaveOffset(o)
}

// c14Reset: "resetting the state through the local API while the poller is applying board messages
// has the same effect as some sequential order of the two". Either order ends with a node that has
// replayed the whole board on the fresh state. The request is placed between the poller's handling of
// a message and its saving of the offset (the real Poll loop, the real ResetFSMState).
func c14Reset(c *Ctx, fail func(kind string, sig map[string]interface{}, what string, rep map[string]interface{})) {
	w := NewWorld(3, 2, 1)
	me := w.Users[0]
	round := "round-c14-reset"
	h := w.Honest(round, me)[:4] // the proposal and the three confirmations
	// reference: the same board applied without any reset
	ref := NewNodeEnv(newEnvDir(c), me)
	for _, it := range h {
		applyItem(ref, it)
	}
	want := roundProj(ref.Snapshot(), round)
	ref.Close()
	// at = 1, 3: the reset arrives when the poller is about to save this offset (inside a tick);
	// at = 0: before the poller has started (sequential order reset;poll); at = 99: after the poller has
	// worked through the board and is between two ticks (sequential order poll;reset)
	for _, at := range []uint64{1, 3, 0, 99} {
		e := NewNodeEnv(newEnvDir(c), me)
		e.Rounds[round] = true
		for _, it := range h {
			if err := e.Board.Send(it.In.Msg); err != nil {
				panic(err)
			}
		}
		ctx, cancel := context.WithCancel(context.Background())
		var once sync.Once
		var resetErr error
		var fsmSvc fsmservice.FSMService
		hs := hookState{State: e.St}
		resetNow := func() {
			_, resetErr = fsmSvc.ResetFSMState(&dto.ResetStateDTO{NewStateDBDSN: filepath.Join(e.Dir, fmt.Sprintf("state-after-reset-%d", at))})
		}
		hs.before = func(o uint64) {
			if o == at && at != 0 && at != 99 {
				once.Do(func() {
					_, resetErr = fsmSvc.ResetFSMState(&dto.ResetStateDTO{NewStateDBDSN: filepath.Join(e.Dir, fmt.Sprintf("state-after-reset-%d", at))})
				})
			}
		}
		sp := services.ServiceProvider{}
		sp.SetLogger(quietLogger{})
		sp.SetState(hs)
		sp.SetStorage(e.Board)
		sp.SetKeyStore(memKeyStore{e.KP})
		fsmSvc = fsmservice.NewFSMService(hs, e.Board, topic)
		sp.SetFSMService(fsmSvc)
		or, err := oprepo.NewOperationRepo(hs, topic)
		if err != nil {
			panic(err)
		}
		sp.SetOperationService(opservice.NewOperationService(or))
		sp.SetSignatureService(sigservice.NewSignatureService(sigrepo.NewSignatureRepo(hs)))
		n, err := node.NewNode(ctx, &config.Config{Username: e.User}, &sp)
		if err != nil {
			panic(err)
		}
		if at == 0 {
			once.Do(resetNow)
		}
		done := make(chan struct{})
		go func() { defer close(done); n.Poll() }()
		if at == 99 {
			// let the poller finish the board on the old state, then reset between two ticks
			for dl := time.Now().Add(10 * time.Second); time.Now().Before(dl); time.Sleep(200 * time.Millisecond) {
				if off, _ := e.St.LoadOffset(); off == uint64(len(h)) {
					break
				}
			}
			time.Sleep(300 * time.Millisecond) // the tick that found the last message has returned
			once.Do(resetNow)
		}
		// the poller works through the board (one tick per second); a correct node ends with the
		// whole board replayed on the fresh state - wait for that, generously
		got := ""
		deadline := time.Now().Add(10 * time.Second)
		for time.Now().Before(deadline) {
			time.Sleep(400 * time.Millisecond)
			got = roundProj(e.Snapshot(), round)
			if off, _ := e.St.LoadOffset(); got == want && off == uint64(len(h)) {
				break
			}
		}
		off, _ := e.St.LoadOffset()
		cancel()
		<-done
		snap := e.Snapshot()
		e.Close()
		// the model (Node/ResetPoll.v): a board of len(h) messages, none handled before, the request served
		// after p steps of the poller (fetch = 1 step, then handle / save-offset alternate)
		p := 2 * int(at)
		if at == 99 {
			p = 2*len(h) + 1
		}
		obsRep := "lost"
		if got == want {
			obsRep = "all"
		}
		c.Case("reset-vs-poll", true, fmt.Sprintf("resetpoll %d 0 %d", len(h), p), fmt.Sprintf("resetpoll offset=%d replayed=%s", off, obsRep))
		if resetErr != nil {
			fail("probe-failed", map[string]interface{}{}, "harness: ResetFSMState failed: "+resetErr.Error(), nil)
			continue
		}
		if got != want {
			fail("not-serialisable", map[string]interface{}{"pair": "reset-state || poll", "symptom": "board-not-replayed-after-reset"},
				fmt.Sprintf("reset-state || poll: a state reset served between the poller's handling of a message and its saving of offset %d leaves a fresh state that carries the old offset (%d): the board is never replayed, the round is %s", at, off, orNone(firstWord(got))),
				map[string]interface{}{"reset_before_saving_offset": at, "offset_afterwards": off, "expected_round": want, "observed_round": got, "snapshot": snap})
		}
	}
}

func orNone(s string) string {
	if strings.TrimSpace(s) == "" {
		return "missing"
	}
	return s
}
