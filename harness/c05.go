package main

import (
	"bytes"
	"fmt"
	"github.com/lidofinance/dc4bc/fsm/types/requests"
	"strings"

	"github.com/lidofinance/dc4bc/fsm/state_machines"
)

func init() {
	scenarios["c05"] = scenarioC05
}

// abstract view of a dump used by the oracles (decoded from the implementation's own JSON)
type absDump struct {
	State     string
	N         int
	SigStatus map[int]int
	DkgStatus map[int]int
	Commit    map[int]bool
	Deal      map[int]bool
	Response  map[int]bool
	Master    map[int]string
	SgnStatus map[int]int
	HasDkg    bool
	HasSgn    bool
}

func abstractOf(d *state_machines.FSMDump) absDump {
	a := absDump{State: string(d.State), SigStatus: map[int]int{}, DkgStatus: map[int]int{}, Commit: map[int]bool{}, Deal: map[int]bool{},
		Response: map[int]bool{}, Master: map[int]string{}, SgnStatus: map[int]int{}}
	p := d.Payload
	if p.SignatureProposalPayload != nil {
		a.N = len(p.SignatureProposalPayload.Quorum)
		for id, q := range p.SignatureProposalPayload.Quorum {
			a.SigStatus[id] = int(q.Status)
		}
	}
	if p.DKGProposalPayload != nil {
		a.HasDkg = true
		for id, q := range p.DKGProposalPayload.Quorum {
			a.DkgStatus[id] = int(q.Status)
			a.Commit[id] = len(q.DkgCommit) > 0
			a.Deal[id] = len(q.DkgDeal) > 0
			a.Response[id] = len(q.DkgResponse) > 0
			a.Master[id] = string(q.DkgMasterKey)
		}
	}
	if p.SigningProposalPayload != nil {
		a.HasSgn = true
		for id, q := range p.SigningProposalPayload.Quorum {
			a.SgnStatus[id] = int(q.Status)
		}
	}
	return a
}

func isCancelledDkg(s string) bool {
	return strings.HasPrefix(s, "state_sig_proposal_canceled") || (strings.HasPrefix(s, "state_dkg_") && strings.Contains(s, "canceled"))
}

var signingReadyStates = map[string]bool{
	"state_dkg_master_key_collected": true, "stage_signing_idle": true, "state_signing_await_partial_signs": true,
	"state_signing_partial_signs_collected": true, "state_signing_partial_signs_await_cancelled_by_timeout": true,
	"state_signing_partial_signs_await_cancelled_by_error": true,
}

var phaseAwaitState = []string{"state_dkg_commits_await_confirmations", "state_dkg_deals_await_confirmations",
	"state_dkg_responses_await_confirmations", "state_dkg_master_key_await_confirmations"}

// readyShapeViolation: C05 (1) as an invariant of reachable round states
func readyShapeViolation(a absDump) string {
	allIn := func(m map[int]int, ok ...int) bool {
		for _, s := range m {
			found := false
			for _, o := range ok {
				if s == o {
					found = true
				}
			}
			if !found {
				return false
			}
		}
		return true
	}
	allTrue := func(m map[int]bool) bool {
		if len(m) != a.N {
			return false
		}
		for _, v := range m {
			if !v {
				return false
			}
		}
		return true
	}
	for k, st := range phaseAwaitState {
		if a.State == st {
			if !allIn(a.DkgStatus, 3*k, 3*k+1) {
				return fmt.Sprintf("phase %d awaits contributions but a participant has a status of another phase or an error status", k)
			}
			if !allIn(a.SigStatus, 1) {
				return "a DKG phase is running although not every participant confirmed the invitation"
			}
			if k >= 1 && !allTrue(a.Commit) || k >= 2 && !allTrue(a.Deal) || k >= 3 && !allTrue(a.Response) {
				return fmt.Sprintf("phase %d is running although a contribution of an earlier phase is missing", k)
			}
		}
	}
	if signingReadyStates[a.State] {
		if len(a.SigStatus) < 2 || !allIn(a.SigStatus, 1) {
			return "signing-ready without unanimous confirmation of the invitation"
		}
		if !a.HasDkg || len(a.DkgStatus) != a.N || !allIn(a.DkgStatus, 10) {
			return "signing-ready although a participant has not confirmed the group key"
		}
		if !allTrue(a.Commit) || !allTrue(a.Deal) || !allTrue(a.Response) {
			return "signing-ready although a phase contribution is missing"
		}
		first := ""
		for _, k := range a.Master {
			if k == "" {
				return "signing-ready with an empty announced group key"
			}
			if first == "" {
				first = k
			} else if k != first {
				return "signing-ready with two different announced group keys"
			}
		}
	}
	return ""
}

func payloadPart(proj string) string {
	i := strings.Index(proj, " ")
	if i < 0 {
		return proj
	}
	return proj[i+1:]
}

func scenarioC05(c *Ctx) {
	type cfg struct {
		n, t, max int
		full      bool
	}
	var cfgs []cfg
	if c.Quick() {
		cfgs = []cfg{{2, 2, 100000, true}, {3, 2, 2500, true}, {3, 3, 100000, false}}
	} else {
		cfgs = []cfg{{2, 2, 1000000, true}, {3, 2, 1000000, true}, {3, 3, 1000000, true}, {4, 2, 6000, false}, {4, 3, 6000, false}, {4, 4, 6000, false}}
	}
	fail := func(kind, what, src string, ev Ev, o StepObs) {
		c.Fail(Failure{Property: "C05", Kind: kind, Signature: map[string]interface{}{"kind": kind},
			What: what, Replay: map[string]interface{}{"dump": src, "event": ev.Line(), "observed": o.Line()}})
	}
	explored := []map[string]interface{}{}
	for _, cf := range cfgs {
		res := explore(cf.n, cf.t, cf.full, cf.max, func(srcProj string, src []byte, ev Ev, o StepObs) {
			nontrivial := o.Class == "ok" || o.Class == "err"
			c.Case(ev.Kind+"/"+o.Class, nontrivial, "fsm "+srcProj+" | "+ev.Line(), o.Line())
			before := abstractOf(decodeDump(src))
			switch o.Class {
			case "panic":
				fail("fsm-panic", "an event makes the round FSM panic", srcProj, ev, o)
			case "route", "err":
				// (4) a rejected event changes nothing
				if payloadPart(o.After) != payloadPart(srcProj) || o.MState != before.State {
					fail("reject-changes-state", "a rejected event changed the round (state or payload)", srcProj, ev, o)
				}
			case "loaderr":
				// cancelled-by-timeout / declined rounds cannot be restored: C19's subject
			case "ok":
				after := abstractOf(decodeDump(o.DumpOut))
				// (2) abort is final
				if isCancelledDkg(before.State) && !isCancelledDkg(after.State) {
					fail("cancel-not-final", "an event moved a cancelled round to "+after.State, srcProj, ev, o)
				}
				// (3) causes
				switch {
				case ev.Kind == "decline" && after.State != "state_sig_proposal_canceled_by_participant":
					fail("decline-not-cancelled", "an accepted decline did not cancel the round", srcProj, ev, o)
				case ev.Kind == "dkg-error" && !strings.HasSuffix(after.State, "canceled_by_error"):
					fail("error-not-cancelled", "an accepted error report did not cancel the round", srcProj, ev, o)
				case (ev.Kind == "confirm-late" || ev.Kind == "decline-late" || ev.Kind == "dkg-confirm-late" || ev.Kind == "master-late") && !strings.HasSuffix(after.State, "canceled_by_timeout"):
					fail("late-not-cancelled", "an accepted contribution stamped after the deadline did not cancel the round", srcProj, ev, o)
				}
				// (3') a key announcement that leaves the master-key phase although it differs from one already
				// announced (compared in full, whatever lengths the keys have) must end in the cancelled state
				if req, isMaster := ev.Req.val.(requests.DKGProposalMasterKeyConfirmationRequest); isMaster && ev.Name == dkgConfirmEv[3] {
					if d := decodeDump(src); d.Payload != nil && d.Payload.DKGProposalPayload != nil {
						differs := false
						for id, q := range d.Payload.DKGProposalPayload.Quorum {
							if id != req.ParticipantId && len(q.DkgMasterKey) > 0 && !bytes.Equal(q.DkgMasterKey, req.MasterKey) {
								differs = true
							}
						}
						if differs && !strings.Contains(after.State, "master_key_await") && !strings.HasSuffix(after.State, "canceled_by_error") && !strings.HasSuffix(after.State, "canceled_by_timeout") {
							fail("differing-keys-accepted", "the last key announcement differs from one announced before, yet the round left the master-key phase without being cancelled ("+after.State+")", srcProj, ev, o)
						}
					}
				}
				// (1) exactly once: an accepted contribution comes from a participant that was still awaited
				// (a repeated answer stamped after the deadline is a deadline event: it cancels by timeout)
				if pid, ok := reqPid(ev.Req.val); ok && !strings.HasSuffix(after.State, "canceled_by_timeout") {
					switch {
					case ev.Name == "event_sig_proposal_confirm_by_participant" || ev.Name == "event_sig_proposal_decline_by_participant":
						if st, in := before.SigStatus[pid]; in && st != 0 {
							fail("delivered-twice", fmt.Sprintf("participant %d's answer to the invitation was accepted although it had already answered", pid), srcProj, ev, o)
						}
					default:
						for k := 0; k < 4; k++ {
							if ev.Name == dkgConfirmEv[k] || ev.Name == dkgErrorEv[k] {
								if st, in := before.DkgStatus[pid]; in && st != 3*k {
									fail("delivered-twice", fmt.Sprintf("a phase-%d contribution of participant %d was accepted although that participant was not awaited in this phase", k, pid), srcProj, ev, o)
								}
							}
						}
					}
				}
				// (1) shape
				if v := readyShapeViolation(after); v != "" {
					fail("ready-shape", v, srcProj, ev, o)
				}
			}
		})
		explored = append(explored, map[string]interface{}{"n": cf.n, "t": cf.t, "full_alphabet": cf.full, "abstract_states": len(res.States),
			"edges": res.Edges, "fixpoint": res.Fixpoint, "states_by_name": res.Terminal})
	}
	c.Notes["explorations"] = explored
}

func reqPid(v interface{}) (int, bool) {
	switch r := v.(type) {
	case requests.SignatureProposalParticipantRequest:
		return r.ParticipantId, true
	case requests.DKGProposalCommitConfirmationRequest:
		return r.ParticipantId, true
	case requests.DKGProposalDealConfirmationRequest:
		return r.ParticipantId, true
	case requests.DKGProposalResponseConfirmationRequest:
		return r.ParticipantId, true
	case requests.DKGProposalMasterKeyConfirmationRequest:
		return r.ParticipantId, true
	case requests.DKGProposalConfirmationErrorRequest:
		return r.ParticipantId, true
	}
	return 0, false
}
