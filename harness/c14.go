package main

import (
	"crypto/ed25519"
	"encoding/json"
	"time"
	"runtime"
	"os"
	"fmt"
	"sort"
	"strings"
	"sync"

	"github.com/lidofinance/dc4bc/client/api/dto"
	"github.com/lidofinance/dc4bc/client/modules/state"
	"github.com/lidofinance/dc4bc/fsm/fsm"
	"github.com/lidofinance/dc4bc/fsm/types/requests"
	"github.com/lidofinance/dc4bc/storage"
)

func init() {
	scenarios["c14"] = scenarioC14
}

// ---- a deterministic scheduler at the granularity of state-store calls ----
type sched struct {
	mu      sync.Mutex
	req     [2]chan string
	grant   [2]chan struct{}
	ack     [2]chan struct{}
	done    [2]chan struct{}
	trace   []string // "<who>:<label>" in execution order
	enabled bool
	threads map[string]int // goroutine id -> thread (0: the API request, 1: the poller)
	blocked int            // how often the scheduled thread was found waiting for a lock
}

func newSched() *sched {
	s := &sched{threads: map[string]int{}}
	for i := 0; i < 2; i++ {
		s.req[i] = make(chan string)
		s.grant[i] = make(chan struct{})
		s.ack[i] = make(chan struct{})
		s.done[i] = make(chan struct{})
	}
	return s
}

type schedState struct {
	state.State
	s   *sched
	who int // unused (one node, one service provider: the thread is identified by its goroutine)
}

func goid() string {
	var buf [64]byte
	n := runtime.Stack(buf[:], false)
	f := strings.Fields(string(buf[:n]))
	if len(f) >= 2 {
		return f[1]
	}
	return "?"
}

// point blocks until the scheduler grants the call; the returned function reports its completion
func (w schedState) point(label string) func() {
	if !w.s.enabled {
		return func() {}
	}
	w.s.mu.Lock()
	who, ok := w.s.threads[goid()]
	w.s.mu.Unlock()
	if !ok {
		return func() {} // a call from outside the two scheduled threads
	}
	w.s.req[who] <- label
	<-w.s.grant[who]
	return func() { w.s.ack[who] <- struct{}{} }
}
func (w schedState) Get(key string) ([]byte, error) {
	defer w.point("Get " + strings.TrimPrefix(keyLabel(key), "Set "))()
	return w.State.Get(key)
}
func (w schedState) GetOrError(key string) ([]byte, error) {
	defer w.point("Get " + strings.TrimPrefix(keyLabel(key), "Set "))()
	return w.State.GetOrError(key)
}
func (w schedState) Set(key string, value []byte) error {
	defer w.point(keyLabel(key))()
	return w.State.Set(key, value)
}

// run executes fa (who=0) and fb (who=1) under the given schedule (a list of who-ids, one per
// store call); when the designated side has finished, the other side continues.
func (s *sched) run(schedule []int, fa, fb func()) []string {
	s.enabled = true
	fs := [2]func(){fa, fb}
	for i := 0; i < 2; i++ {
		started := make(chan struct{})
		go func(i int) {
			defer close(s.done[i])
			s.mu.Lock()
			s.threads[goid()] = i
			s.mu.Unlock()
			close(started)
			fs[i]()
		}(i)
		<-started
	}
	finished := [2]bool{}
	step := 0
	for !(finished[0] && finished[1]) {
		who := 0
		if step < len(schedule) {
			who = schedule[step]
		} else if finished[0] {
			who = 1
		}
		if finished[who] {
			who = 1 - who
		}
		select {
		case label := <-s.req[who]:
			s.trace = append(s.trace, fmt.Sprintf("%d:%s", who, label))
			s.grant[who] <- struct{}{}
			<-s.ack[who] // the store call has completed before anybody else is scheduled
			step++
		case <-s.done[who]:
			finished[who] = true
		case <-time.After(40 * time.Millisecond):
			// the scheduled thread makes no store call: it waits for a lock the other one holds
			// (or is just slow - then the other one goes first, which is an interleaving too)
			other := 1 - who
			if finished[other] {
				continue
			}
			s.blocked++
			select {
			case label := <-s.req[other]:
				s.trace = append(s.trace, fmt.Sprintf("%d:%s", other, label))
				s.grant[other] <- struct{}{}
				<-s.ack[other]
			case <-s.done[other]:
				finished[other] = true
			case label := <-s.req[who]:
				s.trace = append(s.trace, fmt.Sprintf("%d:%s", who, label))
				s.grant[who] <- struct{}{}
				<-s.ack[who]
				step++
			}
		}
	}
	s.enabled = false
	return s.trace
}

// schedules with at most `switches` context switches over na + nb steps
func boundedSchedules(na, nb, switches int) [][]int {
	var out [][]int
	var rec func(cur []int, a, b, sw, last int)
	rec = func(cur []int, a, b, sw, last int) {
		if a == na && b == nb {
			out = append(out, append([]int{}, cur...))
			return
		}
		for _, who := range []int{0, 1} {
			if (who == 0 && a == na) || (who == 1 && b == nb) {
				continue
			}
			nsw := sw
			if last >= 0 && who != last {
				// a switch forced because the other side has finished is free
				if !((last == 0 && a == na) || (last == 1 && b == nb)) {
					nsw++
				}
			}
			if nsw > switches {
				continue
			}
			na2, nb2 := a, b
			if who == 0 {
				na2++
			} else {
				nb2++
			}
			rec(append(cur, who), na2, nb2, nsw, who)
		}
	}
	rec(nil, 0, 0, 0, -1)
	return out
}

// durableView: what C14 compares: pending operations, tombstones, round states, signatures, board as a multiset
func durableView(snapshot string) string {
	board := sectionOf(snapshot, " BOARD ", "")
	parts := strings.Split(board, "] [")
	sort.Strings(parts)
	return sectionOf(snapshot, "ROUNDS", " OPS ") + sectionOf(snapshot, " DEL ", " BOARD ") + " BOARD{" + strings.Join(parts, "|") + "}"
}

func scenarioC14(c *Ctx) {
	w := NewWorld(3, 2, 1)
	me := w.Users[0]
	round := "round-c14"
	h := w.Honest(round, me)
	fail := func(kind string, sig map[string]interface{}, what string, rep map[string]interface{}) {
		sig["kind"] = kind
		c.Fail(Failure{Property: "C14", Kind: kind, Signature: sig, What: what, Replay: rep})
	}
	type pair struct {
		name   string
		prefix []Item
		msg    Item // the board message the poller applies
		model  bool // compared call by call with the small-step model
		class  string
		approve bool // the request is ApproveParticipation (the invitation) instead of an operation result
		reinit  bool // the request finishes a reinitialisation (operation_processed_successfully)
	}
	pairs := []pair{
		// the invitation operation is answered while the poller applies a confirmation that creates nothing
		{"result || plain-message", h[:1], h[2], false, "result || plain-message", false, false},
		{"approve-participation || plain-message", h[:1], h[2], false, "result || plain-message", true, false},
		{"approve-participation || operation-producing-message", append(append([]Item{}, h[:1]...), h[2], h[3]), h[1], false, "result || operation-producing-message", true, false},
		// ... while the poller applies the LAST confirmation, which creates the commits operation
		{"result || operation-producing-message", append(append([]Item{}, h[:1]...), h[2], h[3]), h[1], true, "result || operation-producing-message", false, false},
	}
	// two rounds alive on the node: a request for round A while the poller applies a message of round B
	// (the pool, the tombstones and the round store are node-wide)
	hB := w.Honest("round-c14-B", me)
	pairs = append(pairs,
		pair{"approve-participation (round A) || opening proposal of round B", h[:1], hB[0], false, "result || operation-producing-message", true, false},
		pair{"result (round A) || opening proposal of round B", h[:1], hB[0], false, "result || operation-producing-message", false, false})
	// finishing a reinitialisation (the request loads the round, installs the public polynomial and
	// saves it) while the poller applies a batch proposal for that round
	{
		roundOld := "round-c14-reinit"
		body := w.ReDKGOf(dkgPart(w.Honest(roundOld, me)))
		tasks := w.Tasks("batch-R")
		data, _ := json.Marshal(requests.SigningBatchProposalStartRequest{BatchID: "batch-R", ParticipantId: 1, CreatedAt: T(400), SigningTasks: tasks})
		nk := w.NewKey(w.Users[1])
		prop := storage.Message{DkgRoundID: roundOld, Event: "event_signing_start", Data: data, SenderAddr: w.Users[1], Signature: ed25519.Sign(nk.Priv, data)}
		pairs = append(pairs, pair{"finish-reinit || batch proposal for the reinitialised round", []Item{w.ReinitItem(roundOld, body, nil, "reinit")},
			mkItem(prop, fmt.Sprintf("by %d %d", tok.TokB(nk.Pub), tok.TokB(data)), NOWMARK, "start-after-reinit"), false, "result || operation-producing-message", false, true})
	}
	// a result for round A while the poller handles a REINIT message of another round (the reinit handler
	// replays the round, puts its operation and saves the round: it must be serialised with the API like
	// the handler of an ordinary message)
	{
		roundR := "round-c14-reinit-msg"
		bodyR := w.ReDKGOf(dkgPart(w.Honest(roundR, me)))
		pairs = append(pairs, pair{"result (round A) || reinit message of another round", h[:1], w.ReinitItem(roundR, bodyR, nil, "reinit-while-answering"), false, "result || operation-producing-message", false, false})
	}
	if !c.Quick() {
		// every (request kind, message kind) pair of the ceremony: the oldest pending operation is
		// answered while the poller applies the next message of the history
		idx := func(label string, k int) int { // index of the k-th message with this label
			n := 0
			for i, it := range h {
				if it.Label == label {
					if n == k {
						return i
					}
					n++
				}
			}
			panic("no such message " + label)
		}
		add := func(name string, upto int, class string) {
			pairs = append(pairs, pair{name, h[:upto], h[upto], false, class, false, false})
		}
		add("result || commit (plain)", idx("commit", 1), "result || plain-message")
		add("result || last commit (creates the deals operation)", idx("commit", w.N-1), "result || operation-producing-message")
		add("result || last deal (creates the responses operation)", idx("deal", w.N-1), "result || operation-producing-message")
		add("result || last response (creates the master-key operation)", idx("response", w.N-1), "result || operation-producing-message")
		add("result || last master key (hand-over to signing)", idx("master", w.N-1), "result || plain-message")
		add("result || batch proposal (creates the signing operation)", idx("start", 0), "result || operation-producing-message")
		add("result || collecting partial signature (reconstruction, broadcast)", idx("partial", w.T-1), "result || plain-message")
	}
	switches := 2
	if !c.Quick() {
		switches = 3
	}
	_ = switches
	explored := 0
	for _, p := range pairs {
		base := NewNodeEnv(newEnvDir(c), me)
		for _, it := range p.prefix {
			applyItem(base, it)
		}
		ops := pendingOps(base)
		if len(ops) == 0 {
			panic("no pending operation for pair " + p.name)
		}
		o := ops[0]
		ev := resultEventFor(string(o.Type))
		mkRes := func() *dto.OperationDTO {
			return &dto.OperationDTO{ID: o.ID, Type: string(o.Type), Payload: o.Payload, CreatedAt: o.CreatedAt, DkgID: o.DKGIdentifier, Event: fsm.Event(ev),
				ResultMsgs: []storage.Message{{Event: ev, Data: []byte(`{"ParticipantId":0,"answer":"one"}`), DkgRoundID: o.DKGIdentifier}}}
		}
		oProj := projOp(o)
		// one execution under a schedule on a fork of the base state
		execute := func(schedule []int, seqOrder int) (string, []string) {
			e := base.Fork(newEnvDir(c))
			defer e.Close()
			s := newSched()
			// ONE node and one service provider, as in the daemon: the API handlers and the poller share
			// the repositories and the node's locks
			na := e.buildNode(schedState{e.St, s, 0}, e.Board)
			nb := na
			var errA, errB error
			fa := func() { errA = na.ProcessOperation(mkRes()) }
			if p.approve {
				fa = func() { errA = na.ApproveParticipation(&dto.OperationIdDTO{OperationID: o.ID}) }
			}
			if p.reinit {
				fa = func() {
					errA = na.ProcessOperation(&dto.OperationDTO{ID: o.ID, Type: string(o.Type), Payload: o.Payload, CreatedAt: o.CreatedAt, DkgID: o.DKGIdentifier,
						Event: "operation_processed_successfully", ExtraData: w.KS.PolyBz})
				}
			}
			fb := func() { errB = nb.ProcessMessage(p.msg.In.Msg) }
			if os.Getenv("C14_DEBUG") != "" {
				defer func() { fmt.Fprintln(os.Stderr, "schedule", schedule, "errA", errA, "errB", errB) }()
			}
			switch seqOrder {
			case 1:
				fa()
				fb()
				return e.Snapshot(), nil
			case 2:
				fb()
				fa()
				return e.Snapshot(), nil
			}
			tr := s.run(schedule, fa, fb)
			return e.Snapshot(), tr
		}
		ab, _ := execute(nil, 1)
		ba, _ := execute(nil, 2)
		// lengths of the two call sequences
		_, trA := execute(make([]int, 64), 0) // all zeros: A first, then B
		na, nb := 0, 0
		for _, t := range trA {
			if strings.HasPrefix(t, "0:") {
				na++
			} else {
				nb++
			}
		}
		if p.model {
			// the store-call sequences of the two sides, as labels of the small-step model
			lab := func(who string) string {
				var l []string
				for _, t := range trA {
					if strings.HasPrefix(t, who) {
						switch t[2:] {
						case "Get deleted_operations":
							l = append(l, "1")
						case "Get operations":
							l = append(l, "2")
						case "Set deleted_operations":
							l = append(l, "3")
						case "Set operations":
							l = append(l, "4")
						}
					}
				}
				return strings.Join(l, ",")
			}
			c.Case("labels", true, "rmwlabels", "rmwlabels request="+lab("0:")+" poller="+lab("1:"))
		}
		sw := switches
		if c.Quick() && (p.reinit || strings.Contains(p.name, "round B") || strings.Contains(p.name, "reinit message")) {
			sw = 1 // quick: one pre-emption (the pre-empting side runs to its end) for the pairs added last
		}
		if !c.Quick() && strings.Contains(p.name, "reinit message") {
			sw = 2 // the reinit handler issues some forty store calls: three pre-emptions are tens of thousands of runs
		}
		for _, sc := range boundedSchedules(na, nb, sw) {
			snap, tr := execute(sc, 0)
			explored++
			if p.model {
				// the same schedule restricted to the calls on the two pool keys, on the model
				var bits []byte
				for _, t := range tr {
					if strings.Contains(t, "operations") {
						if t[0] == '0' {
							bits = append(bits, 'A')
						} else {
							bits = append(bits, 'B')
						}
					}
				}
				vis := sectionOf(snap, " VIS ", " SIGS")
				var pend []string
				if strings.Contains(vis, oProj) {
					pend = append(pend, "1")
				}
				if strings.Contains(vis, "state_dkg_commits_await_confirmations") {
					pend = append(pend, "2")
				}
				c.Case("schedule", true, "rmw "+string(bits), "rmw pending="+strings.Join(pend, ","))
			}
			v := durableView(snap)
			if v == durableView(ab) || v == durableView(ba) {
				continue
			}
			// classify the symptom
			vis := sectionOf(snap, " VIS ", " SIGS")
			symptom := "other"
			if strings.Contains(vis, oProj) {
				symptom = "retired-operation-offered-again"
			} else if strings.Count(vis, " x") < strings.Count(sectionOf(ab, " VIS ", " SIGS"), " x") {
				symptom = "new-operation-lost"
			}
			// window: A's calls around B's write to the operations key
			aBefore, aAfter := "start", "end"
			bw := -1
			for i, t := range tr {
				if t == "1:Set operations" {
					bw = i
				}
			}
			if bw >= 0 {
				for i := bw - 1; i >= 0; i-- {
					if strings.HasPrefix(tr[i], "0:") {
						aBefore = tr[i][2:]
						break
					}
				}
				for i := bw + 1; i < len(tr); i++ {
					if strings.HasPrefix(tr[i], "0:") {
						aAfter = tr[i][2:]
						break
					}
				}
			}
			fail("not-serialisable", map[string]interface{}{"pair": p.class, "symptom": symptom, "request_before": aBefore, "request_after": aAfter},
				fmt.Sprintf("%s: an interleaving is equivalent to neither sequential order (%s; the poller's pool write falls between the request's '%s' and '%s')", p.name, symptom, aBefore, aAfter),
				map[string]interface{}{"pair": p.name, "schedule": fmt.Sprint(sc), "trace": tr, "observed": snap, "request_then_message": ab, "message_then_request": ba})
		}
		// the two sequential orders are differential cases for the model
		base.Close()
	}
	c14Reset(c, fail)
	c.Notes["schedules_explored"] = explored
	c.Notes["max_context_switches"] = switches
	c.Case("pairs", true, fmt.Sprintf("skip c14 %d pairs", len(pairs)), fmt.Sprintf("skip c14 %d pairs", len(pairs)))
}
