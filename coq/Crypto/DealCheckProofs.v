From Coq Require Import String List ZArith Bool Lia.
Require Import Crypto.Zr Crypto.DealCheck.
Import ListNotations.
Local Open Scope Z_scope.

Lemma commits_eqb_spec a b : commits_eqb a b = true <-> map zr a = map zr b.
Proof.
  revert b. induction a as [|x a IH]; intros [|y b]; cbn; try (split; [discriminate|discriminate]); [tauto|].
  rewrite andb_true_iff, Z.eqb_eq, IH. split; [intros [-> ->]; reflexivity|intros H; inversion H; auto].
Qed.

Lemma eval_poly_zr_ext a b x : map zr a = map zr b -> eval_poly a x = eval_poly b x.
Proof.
  revert b. induction a as [|c a IH]; intros [|d b] H; cbn in H; try discriminate; [reflexivity|].
  inversion H as [[Hc Hr]]. cbn [eval_poly]. rewrite (IH b Hr). unfold zadd, zmul, zr in *.
  rewrite <- (Zplus_mod_idemp_l c), Hc, Zplus_mod_idemp_l. reflexivity.
Qed.

(* a deal is accepted exactly when it is readable, well-formed, carries the broadcast commitments
   (same number, same values) and its share lies on the polynomial THEY commit to *)
Theorem accept_iff_consistent t bc d i :
  accepts t bc d i = true <->
  dl_fault d = FNone /\ map zr (dl_commits d) = map zr bc /\
  zr (dl_share d) = eval_poly bc (i + 1).
Proof.
  unfold accepts, vss_ok. destruct (dl_fault d); try (split; [discriminate|intros (H & _); discriminate]).
  rewrite !andb_true_iff, Z.eqb_eq, commits_eqb_spec. split.
  - intros (Hs & Hc). split; [reflexivity|]. split; [auto|].
    rewrite Hs. symmetry. apply eval_poly_zr_ext. exact Hc.
  - intros (_ & Hc & Hs). split; auto.
    rewrite Hs. symmetry. apply eval_poly_zr_ext. auto.
Qed.

(* the honest dealer's deal is accepted *)
Theorem honest_deal_accepted coeffs i :
  accepts (length coeffs) coeffs {| dl_fault := FNone; dl_commits := coeffs; dl_share := eval_poly coeffs (i + 1) |} i = true.
Proof.
  apply accept_iff_consistent. cbn. repeat split.
  assert (H : forall c x, zr (eval_poly c x) = eval_poly c x).
  { intros c x. destruct c; cbn; [reflexivity|]. unfold zadd, zr. apply Z.mod_mod. discriminate. }
  apply H.
Qed.

(* every kind of deviation is refused *)
Theorem undecryptable_refused t bc d i : dl_fault d <> FNone -> accepts t bc d i = false.
Proof. unfold accepts. destruct (dl_fault d); [contradiction|reflexivity|reflexivity]. Qed.
Theorem wrong_length_refused t bc d i : length bc <> length (dl_commits d) -> accepts t bc d i = false.
Proof.
  intros H. destruct (accepts t bc d i) eqn:E; [|reflexivity].
  apply accept_iff_consistent in E as (_ & Hc & _). exfalso. apply H.
  rewrite <- (map_length zr bc), <- Hc, map_length. reflexivity.
Qed.
Lemma nth_zr_ext a b k : map zr a = map zr b -> zr (nth k a 0) = zr (nth k b 0).
Proof.
  revert b k. induction a as [|x a IH]; intros [|y b] k H; cbn in H; try discriminate; [reflexivity|].
  inversion H. destruct k; cbn; auto.
Qed.
Theorem different_commitment_refused t bc d i k :
  zr (nth k bc 0) <> zr (nth k (dl_commits d) 0) -> accepts t bc d i = false.
Proof.
  intros H. destruct (accepts t bc d i) eqn:E; [|reflexivity].
  apply accept_iff_consistent in E as (_ & Hc & _). exfalso. apply H. symmetry. apply nth_zr_ext. exact Hc.
Qed.
Theorem share_off_polynomial_refused t bc d i :
  zr (dl_share d) <> eval_poly bc (i + 1) -> accepts t bc d i = false.
Proof.
  intros H. destruct (accepts t bc d i) eqn:E; [|reflexivity].
  apply accept_iff_consistent in E as (_ & _ & Hs). contradiction.
Qed.

(* an addressee reports the error as soon as one of its deals is not accepted *)
Theorem one_bad_deal_is_reported t deals i bc d :
  In (bc, d) deals -> accepts t bc d i = false -> responses_result t deals i = ev_resp_err.
Proof.
  intros Hin Hb. unfold responses_result.
  destruct (forallb (fun bd => accepts t (fst bd) (snd bd) i) deals) eqn:E; [|reflexivity].
  rewrite forallb_forall in E. specialize (E _ Hin). cbn in E. congruence.
Qed.
Theorem response_ok_all_consistent t deals i :
  responses_result t deals i = ev_resp_ok ->
  forall bc d, In (bc, d) deals ->
    dl_fault d = FNone /\ map zr (dl_commits d) = map zr bc /\ zr (dl_share d) = eval_poly bc (i + 1).
Proof.
  unfold responses_result. destruct (forallb _ deals) eqn:E; [|discriminate]. intros _ bc d Hin.
  rewrite forallb_forall in E. apply (accept_iff_consistent t bc d i). apply (E _ Hin).
Qed.

(* what the check does NOT look at: the number of coefficients.  A dealer that broadcasts and deals
   a polynomial with more coefficients than the threshold passes the addressee's check (the
   master-key step then fails in kyber and cancels the round - run on real machines) *)
Theorem higher_degree_deal_accepted coeffs extra i t :
  accepts t (coeffs ++ [extra])
          {| dl_fault := FNone; dl_commits := coeffs ++ [extra]; dl_share := eval_poly (coeffs ++ [extra]) (i + 1) |} i = true.
Proof.
  apply accept_iff_consistent. cbn. repeat split.
  assert (H : forall c x, zr (eval_poly c x) = eval_poly c x).
  { intros c x. destruct c; cbn; [reflexivity|]. unfold zadd, zr. apply Z.mod_mod. discriminate. }
  apply H.
Qed.
