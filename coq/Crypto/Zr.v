(* Executable arithmetic in the scalar field of BLS12-381 (integers modulo the group order r) and
   the functions of Crypto/Lagrange.v / Crypto/Pedersen.v written over it, run by the harness on the
   real share values.  Definitions only.  That these operations form a field needs `prime r`
   (not proved here: no primality certificate library is installed); the correspondence run checks
   the results against kyber's on every run. *)
From Coq Require Import List ZArith.
Import ListNotations.
Local Open Scope Z_scope.

Definition r_order : Z := 0x73eda753299d7d483339d80809a1d80553bda402fffe5bfeffffffff00000001.

Definition zr (a : Z) : Z := a mod r_order.
Definition zadd (a b : Z) : Z := zr (a + b).
Definition zsub (a b : Z) : Z := zr (a - b).
Definition zmul (a b : Z) : Z := zr (a * b).

(* extended Euclid with fuel: returns (g, x) with a*x = g (mod b) *)
Fixpoint egcd (fuel : nat) (a b x0 x1 : Z) : Z * Z :=
  match fuel with
  | O => (a, x0)
  | S f => if b =? 0 then (a, x0)
           else let q := a / b in egcd f b (a - q * b) x1 (x0 - q * x1)
  end.
Definition zinv (a : Z) : Z := zr (snd (egcd 600 (zr a) r_order 1 0)).

(* Horner evaluation of c0 + c1 X + ... *)
Fixpoint eval_poly (coeffs : list Z) (x : Z) : Z :=
  match coeffs with
  | [] => 0
  | c :: r => zadd c (zmul x (eval_poly r x))
  end.

(* w0 xs x = prod_{y in xs, y <> x} y / (y - x) *)
Definition w0_z (xs : list Z) (x : Z) : Z :=
  fold_left (fun acc y => if y =? x then acc else zmul acc (zmul y (zinv (zsub y x)))) xs 1.

(* Lagrange combination at 0 of points (x, y) *)
Definition lagrange0_z (pts : list (Z * Z)) : Z :=
  let xs := map fst pts in
  fold_left (fun acc p => zadd acc (zmul (w0_z xs (fst p)) (snd p))) pts 0.

(* Pedersen: participant with index i (abscissa i+1) receives f_j(i+1) from every dealer j *)
Definition share_z (dealers : list (list Z)) (i : Z) : Z :=
  fold_left (fun acc f => zadd acc (eval_poly f (i + 1))) dealers 0.
Definition group_secret_z (dealers : list (list Z)) : Z :=
  fold_left (fun acc f => zadd acc (eval_poly f 0)) dealers 0.

(* kyber's recovery from partial signatures by participant indices: the first t distinct ones *)
Definition recover_scalar_z (t : nat) (shares : list (Z * Z)) : option Z :=
  let pts := map (fun s => (fst s + 1, snd s)) (firstn t shares) in
  if Nat.ltb (length pts) t then None else Some (lagrange0_z pts).
