(* Pedersen / joint-Feldman key generation as linear algebra over any field F, with the group
   written as a left module V over F (commitment of a scalar a is a *: g).
   Dealers j have secret polynomials f_j of size <= t; deal to participant i is f_j(i+1);
   participant i's share is the sum of the deals; the public polynomial is the sum of the
   commitment polynomials. *)
From mathcomp Require Import all_ssreflect all_algebra.
Require Import Crypto.Lagrange.
Set Implicit Arguments. Unset Strict Implicit. Unset Printing Implicit Defensive.
Import GRing.Theory.
Local Open Scope ring_scope.

Section Pedersen.
Variable F : fieldType.
Variable V : lmodType F.
Variable g : V.
Variable J : finType.                 (* the dealers (= the participants) *)
Variable f : J -> {poly F}.           (* their secret polynomials *)
Variable t : nat.
Hypothesis size_f : forall j, (size (f j) <= t)%N.

Definition joint : {poly F} := \sum_j f j.                  (* the (never materialised) joint polynomial *)
Definition share (x : F) : F := \sum_j (f j).[x].            (* sum of the deals received at abscissa x *)
Definition commit_eval (p : {poly F}) (x : F) : V := p.[x] *: g.   (* evaluation of the committed polynomial "in the exponent" *)
Definition pub_eval (x : F) : V := \sum_j commit_eval (f j) x.     (* public polynomial = sum of the dealers' commitments *)

Lemma share_joint x : share x = joint.[x].
Proof. by rewrite /share /joint horner_sum. Qed.

(* every participant's share lies on the public polynomial *)
Theorem share_on_poly x : share x *: g = pub_eval x.
Proof. by rewrite /pub_eval /commit_eval /share scaler_suml. Qed.

(* the public polynomial's constant term is the commitment of the sum of the dealers' secrets *)
Theorem group_key : pub_eval 0 = (\sum_j (f j).[0]) *: g.
Proof. by rewrite -share_on_poly. Qed.

Theorem degree_joint : (size joint <= t)%N.
Proof.
rewrite /joint; elim/big_ind: _ => [|a b ha hb|j _]; first by rewrite size_poly0.
- by apply: leq_trans (size_add _ _) _; rewrite geq_max ha hb.
- exact: size_f.
Qed.

(* any t shares at distinct abscissae sign consistently: the Lagrange combination of the partial
   signatures share(x) *: h is joint(0) *: h, whatever the subset and order (C01) *)
Theorem t_shares_sign (W : lmodType F) (h : W) (xs : seq F) :
  uniq xs -> (t <= size xs)%N ->
  \sum_(x <- xs) w0 xs x *: (share x *: h) = joint.[0] *: h.
Proof.
move=> ux st.
have sj : (size joint <= size xs)%N by apply: leq_trans degree_joint st.
rewrite -(lagrange0_lmod h ux sj).
by apply: eq_bigr => x _; rewrite share_joint.
Qed.

(* t-1 shares are consistent with every group secret v: there is a polynomial of size <= t through
   them with constant term v (so they determine nothing about the key) *)
Theorem t_minus_one_blind (xs : seq F) (v : F) :
  uniq xs -> 0 \notin xs -> (size xs).+1 = t ->
  exists q : {poly F}, [/\ (size q <= t)%N, q.[0] = v & forall x, x \in xs -> q.[x] = share x].
Proof.
move=> ux z0 st.
have [q [sq q0 qx]] := blind joint v ux z0.
exists q; split=> //; first by rewrite -st.
by move=> x xin; rewrite qx // share_joint.
Qed.

End Pedersen.
