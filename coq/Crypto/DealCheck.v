(* C11 - what an addressee does with a private deal (dkg/dkg.go ProcessDeals + processDealCommits,
   airgapped/dkg.go handleStateDkgResponsesAwaitConfirmations, kyber's VerifyDeal), in the exponent:
   a commitment g^a is represented by a (mod r) - the map a |-> g^a is injective on Z_r, so equality
   of commitments is equality of these numbers (trusted: prime order of the group).
   Definitions only. *)
From Coq Require Import String List ZArith Bool.
Require Import Crypto.Zr.
Import ListNotations.
Local Open Scope Z_scope.

Inductive deal_fault := FNone | FUndecryptable | FMalformed.

Record deal := { dl_fault : deal_fault;
                 dl_commits : list Z;     (* the commitments carried inside the deal *)
                 dl_share : Z }.          (* the addressee's evaluation *)

Fixpoint commits_eqb (a b : list Z) : bool :=
  match a, b with
  | [], [] => true
  | x :: a', y :: b' => (zr x =? zr y) && commits_eqb a' b'
  | _, _ => false
  end.

(* kyber (VerifyDeal): the share lies on the polynomial committed to inside the deal.  The NUMBER of
   commitments is not compared with the threshold here (a dealer that announces and deals a
   polynomial with more coefficients passes this check; kyber notices at the master-key step) *)
Definition vss_ok (t : nat) (d : deal) (i : Z) : bool :=
  zr (dl_share d) =? eval_poly (dl_commits d) (i + 1).

(* dc4bc: the commitments inside the deal are the ones the dealer broadcast *)
Definition accepts (t : nat) (broadcast : list Z) (d : deal) (i : Z) : bool :=
  match dl_fault d with
  | FNone => vss_ok t d i && commits_eqb broadcast (dl_commits d)
  | _ => false
  end.

(* the addressee's result for the responses operation: every deal it received is checked *)
Definition ev_resp_ok : string := "event_dkg_response_confirm_received".
Definition ev_resp_err : string := "event_dkg_response_confirm_canceled_by_error".
Definition responses_result (t : nat) (deals : list (list Z * deal)) (i : Z) : string :=
  if forallb (fun bd => accepts t (fst bd) (snd bd) i) deals then ev_resp_ok else ev_resp_err.

(* the fate of the round, as the FSM theorems give it: an error report cancels the phase *)
Definition round_outcome (deviating at_master_key : bool) : string :=
  if at_master_key then "state_dkg_master_key_await_canceled_by_error"
  else if deviating then "state_dkg_responses_await_canceled_by_error"
  else "stage_signing_idle".
