(* Lagrange interpolation at 0 over any field: the algebra behind share.RecoverCommit / tbls.Recover.
   (checked during design, DESIGN.md Appendix A) *)
From mathcomp Require Import all_ssreflect all_algebra.
Set Implicit Arguments. Unset Strict Implicit. Unset Printing Implicit Defensive.
Import GRing.Theory.
Local Open Scope ring_scope.

Section Lagrange.
Variable F : fieldType.
Implicit Types (p q : {poly F}) (xs : seq F) (x y : F).

Definition others xs x := [seq y <- xs | y != x].
Definition lcoef xs x : F := \prod_(y <- others xs x) (x - y)^-1.
Definition lnum xs x : {poly F} := \prod_(y <- others xs x) ('X - y%:P).
Definition lbasis xs x : {poly F} := lcoef xs x *: lnum xs x.
Definition interp xs (f : F -> F) : {poly F} := \sum_(x <- xs) f x *: lbasis xs x.
Definition w0 xs x : F := \prod_(y <- others xs x) (y / (y - x)).

Lemma size_others xs x : uniq xs -> x \in xs -> (size (others xs x)).+1 = size xs.
Proof.
move=> uxs xin; rewrite /others size_filter.
have := count_predC (pred1 x) xs; rewrite (count_uniq_mem x uxs) xin /= add1n => <-.
by congr (_.+1); apply: eq_count => y.
Qed.

Lemma size_lbasis xs x : uniq xs -> x \in xs -> (size (lbasis xs x) <= size xs)%N.
Proof.
move=> uxs xin; apply: leq_trans (size_scale_leq _ _) _.
by rewrite /lnum size_prod_XsubC size_others.
Qed.

Lemma size_interp xs f : uniq xs -> (size (interp xs f) <= size xs)%N.
Proof.
move=> uxs; rewrite /interp big_seq.
elim/big_ind: _ => [|a b ha hb|x xin]; first by rewrite size_poly0.
- by apply: leq_trans (size_add _ _) _; rewrite geq_max ha hb.
- by apply: leq_trans (size_scale_leq _ _) _; apply: size_lbasis.
Qed.

Lemma lnum_eval xs x z : (lnum xs x).[z] = \prod_(y <- others xs x) (z - y).
Proof.
rewrite /lnum; elim: (others xs x) => [|y s IH]; first by rewrite !big_nil hornerC.
by rewrite !big_cons hornerM IH hornerXsubC.
Qed.

Lemma lbasis_same xs x : (lbasis xs x).[x] = 1.
Proof.
rewrite /lbasis hornerZ lnum_eval /lcoef -big_split /=.
rewrite big_seq big1 // => y; rewrite mem_filter => /andP[yx _].
by rewrite mulVf // subr_eq0 eq_sym.
Qed.

Lemma lbasis_other xs x z : z \in xs -> z != x -> (lbasis xs x).[z] = 0.
Proof.
move=> zin zx; rewrite /lbasis hornerZ lnum_eval.
have zo : z \in others xs x by rewrite mem_filter zx zin.
by rewrite (big_rem z zo) /= subrr mul0r mulr0.
Qed.

Lemma interp_eval xs f z : uniq xs -> z \in xs -> (interp xs f).[z] = f z.
Proof.
move=> uxs zin; rewrite /interp horner_sum (big_rem z zin) /=.
rewrite hornerZ lbasis_same mulr1 big_seq big1 ?addr0 // => x xin.
have xz : z != x.
  apply/eqP => zx; move: xin; rewrite -zx => zrem.
  by move: (rem_uniq z uxs) (mem_rem_uniqF z uxs); rewrite zrem.
have zin' : z \in xs by [].
by rewrite hornerZ lbasis_other ?mulr0.
Qed.

Theorem interp_unique xs p : uniq xs -> (size p <= size xs)%N -> interp xs (horner p) = p.
Proof.
move=> uxs sp; apply/eqP; rewrite -subr_eq0; apply/negPn/negP => nz.
have sz : (size (interp xs (horner p) - p)%R <= size xs)%N.
  by apply: leq_trans (size_add _ _) _; rewrite size_opp geq_max size_interp.
have roots : all (root (interp xs (horner p) - p)) xs.
  by apply/allP => z zin; rewrite /root hornerD hornerN interp_eval // subrr.
by have := max_poly_roots nz roots uxs; rewrite ltnNge sz.
Qed.

Lemma lbasis_at0 xs x : (lbasis xs x).[0] = w0 xs x.
Proof.
rewrite /lbasis hornerZ lnum_eval /lcoef /w0 -big_split /=.
apply: eq_big_seq => y; rewrite mem_filter => /andP[yx _].
by rewrite sub0r mulrN -mulNr -invrN opprB mulrC.
Qed.

Theorem lagrange0 xs p : uniq xs -> (size p <= size xs)%N ->
  \sum_(x <- xs) w0 xs x * p.[x] = p.[0].
Proof.
move=> uxs sp; rewrite -{2}(interp_unique uxs sp) /interp horner_sum.
by apply: eq_bigr => x _; rewrite hornerZ lbasis_at0 mulrC.
Qed.

(* any two admissible node sets give the same value *)
Corollary lagrange0_agree xs ys p : uniq xs -> uniq ys ->
  (size p <= size xs)%N -> (size p <= size ys)%N ->
  \sum_(x <- xs) w0 xs x * p.[x] = \sum_(y <- ys) w0 ys y * p.[y].
Proof. by move=> ux uy sx sy; rewrite !lagrange0. Qed.

(* module version: partial signatures sigma_x = p(x) *: h combine to p(0) *: h *)
Corollary lagrange0_lmod (V : lmodType F) (h : V) xs p :
  uniq xs -> (size p <= size xs)%N ->
  \sum_(x <- xs) w0 xs x *: (p.[x] *: h) = p.[0] *: h.
Proof.
move=> ux sp; rewrite -(lagrange0 ux sp) scaler_suml.
by apply: eq_bigr => x _; rewrite scalerA.
Qed.

(* t-1 shares are consistent with every secret v *)
Theorem blind xs p v : uniq xs -> 0 \notin xs ->
  exists q : {poly F}, [/\ (size q <= (size xs).+1)%N, q.[0] = v
                        & forall x, x \in xs -> q.[x] = p.[x]].
Proof.
move=> ux z0.
pose f := fun x => if x == 0 then v else p.[x].
have uz : uniq (0 :: xs) by rewrite /= z0 ux.
exists (interp (0 :: xs) f); split.
- exact: size_interp.
- by rewrite interp_eval ?mem_head // /f eqxx.
- move=> x xin; rewrite interp_eval ?in_cons ?xin ?orbT // /f.
  by case: eqP => // x0; move: z0; rewrite -x0 xin.
Qed.
End Lagrange.
