(* C07 (system level): nodes are deterministic consumers of one append-only log.  Whatever the
   delivery order, and however messages are appended in between, a node that has consumed the
   whole board is in the state obtained by folding its step function over the board - so every
   statement about "the node's state after this log" (the C07 theorems on the signing round, the
   C08 theorems on sub-logs) holds on every node at quiescence. *)
From Coq Require Import List Arith Lia.
Import ListNotations.

Section System.
  Variables (state msg : Type) (step : state -> msg -> state).

  Record sys := { board : list msg; nodes : list (state * nat) }.   (* per node: its state, how much it consumed *)

  Inductive action :=
  | Post (m : msg)          (* anybody appends a message *)
  | Deliver (i : nat).      (* node i consumes its next message, if there is one *)

  Fixpoint upd {A} (l : list A) (i : nat) (f : A -> A) : list A :=
    match l, i with
    | [], _ => []
    | x :: r, O => f x :: r
    | x :: r, S j => x :: upd r j f
    end.

  Definition deliver1 (b : list msg) (n : state * nat) : state * nat :=
    match nth_error b (snd n) with
    | Some m => (step (fst n) m, S (snd n))
    | None => n
    end.

  Definition act (s : sys) (a : action) : sys :=
    match a with
    | Post m => {| board := board s ++ [m]; nodes := nodes s |}
    | Deliver i => {| board := board s; nodes := upd (nodes s) i (deliver1 (board s)) |}
    end.

  Variable init : list state.
  Definition start : sys := {| board := []; nodes := map (fun s => (s, 0)) init |}.
  Definition run (sched : list action) : sys := fold_left act sched start.

  (* every node's state is the fold of its step over the prefix of the board it has consumed *)
  Definition node_ok (b : list msg) (s0 : state) (n : state * nat) : Prop :=
    snd n <= length b /\ fst n = fold_left step (firstn (snd n) b) s0.

  Lemma firstn_app_le {A} (l r : list A) k : k <= length l -> firstn k (l ++ r) = firstn k l.
  Proof. intros H. rewrite firstn_app. replace (k - length l) with 0 by lia. cbn. apply app_nil_r. Qed.

  Lemma firstn_S_nth {A} (l : list A) k x : nth_error l k = Some x -> firstn (S k) l = firstn k l ++ [x].
  Proof.
    revert k. induction l as [|a l IH]; intros [|k] H; cbn in *; try discriminate.
    - inversion H. reflexivity.
    - rewrite (IH k H). reflexivity.
  Qed.

  Lemma node_ok_post b m s0 n : node_ok b s0 n -> node_ok (b ++ [m]) s0 n.
  Proof. intros [H1 H2]. split; [rewrite app_length; lia|]. rewrite firstn_app_le by exact H1. exact H2. Qed.

  Lemma node_ok_deliver b s0 n : node_ok b s0 n -> node_ok b s0 (deliver1 b n).
  Proof.
    intros [H1 H2]. unfold deliver1. destruct (nth_error b (snd n)) as [m|] eqn:E; [|split; assumption].
    split; cbn [fst snd].
    - assert (snd n < length b) by (apply nth_error_Some; congruence). lia.
    - rewrite (firstn_S_nth _ _ _ E), fold_left_app. cbn [fold_left]. rewrite <- H2. reflexivity.
  Qed.

  Lemma Forall2_upd {A B} (R : A -> B -> Prop) (la : list A) (lb : list B) i f :
    Forall2 R la lb -> (forall a b, R a b -> R a (f b)) -> Forall2 R la (upd lb i f).
  Proof.
    intros H Hf. revert i. induction H as [|a b la lb Hab H IH]; intros i; [destruct i; constructor|].
    destruct i; cbn [upd]; constructor; auto.
  Qed.

  Theorem run_inv sched : Forall2 (node_ok (board (run sched))) init (nodes (run sched)).
  Proof.
    unfold run.
    assert (H0 : Forall2 (node_ok (board start)) init (nodes start)).
    { unfold start. cbn. induction init; constructor; [split; cbn; [lia|reflexivity]|assumption]. }
    revert H0. generalize start. induction sched as [|a r IH]; intros s Hs; cbn [fold_left]; [exact Hs|].
    apply IH. destruct a as [m|i]; cbn [act board nodes].
    - clear -Hs. induction Hs; constructor; [apply node_ok_post; assumption|assumption].
    - apply Forall2_upd; [exact Hs|]. intros s0 n. apply node_ok_deliver.
  Qed.

  (* at quiescence: every node that has consumed the whole board holds the fold over the board *)
  Theorem quiescent_nodes_hold_the_fold sched :
    Forall2 (fun s0 n => snd n = length (board (run sched)) -> fst n = fold_left step (board (run sched)) s0)
            init (nodes (run sched)).
  Proof.
    pose proof (run_inv sched) as H. induction H as [|s0 n l l' [H1 H2] H IH]; constructor; [|exact IH].
    intros Hq. rewrite H2, Hq, firstn_all. reflexivity.
  Qed.

  (* the board only grows *)
  Theorem board_append_only sched a : exists suffix, board (run (sched ++ [a])) = board (run sched) ++ suffix.
  Proof.
    unfold run. rewrite fold_left_app. cbn [fold_left]. destruct a; cbn [act board].
    - eexists. reflexivity.
    - exists []. rewrite app_nil_r. reflexivity.
  Qed.
End System.

Lemma Forall2_nth {A B} (P : A -> B -> Prop) l l' k a b :
  Forall2 P l l' -> nth_error l k = Some a -> nth_error l' k = Some b -> P a b.
Proof.
  intros H. revert k. induction H as [|x y l l' Hxy H IH]; intros k Ha Hb; destruct k; cbn in *; try discriminate.
  - inversion Ha; inversion Hb; subst. exact Hxy.
  - eapply IH; eassumption.
Qed.

(* corollaries used for C08: two nodes with the same initial state that consumed equally long
   prefixes hold the same state (whatever the schedules were: batching of polls, interleaving with
   postings); in particular a node replaying the log from its initial state reaches the state of a
   node that followed it live *)
Section Determinism.
  Variables (state msg : Type) (step : state -> msg -> state).

  Theorem same_prefix_same_state (init : list state) sched i j si sj ni nj :
    nth_error init i = Some si -> nth_error init j = Some sj -> si = sj ->
    nth_error (nodes _ _ (run _ _ step init sched)) i = Some ni ->
    nth_error (nodes _ _ (run _ _ step init sched)) j = Some nj ->
    snd ni = snd nj -> fst ni = fst nj.
  Proof.
    intros Hi Hj Heq Hni Hnj Hlen.
    pose proof (run_inv _ _ step init sched) as H.
    destruct (Forall2_nth _ _ _ _ _ _ H Hi Hni) as [_ Ei]. destruct (Forall2_nth _ _ _ _ _ _ H Hj Hnj) as [_ Ej].
    rewrite Ei, Ej, Heq, Hlen. reflexivity.
  Qed.

  (* across two different runs (e.g. a live run and a later replay) with boards that agree on the
     consumed prefix *)
  Theorem replay_reaches_live_state (init1 init2 : list state) sched1 sched2 i j s n1 n2 k :
    nth_error init1 i = Some s -> nth_error init2 j = Some s ->
    nth_error (nodes _ _ (run _ _ step init1 sched1)) i = Some n1 ->
    nth_error (nodes _ _ (run _ _ step init2 sched2)) j = Some n2 ->
    snd n1 = k -> snd n2 = k ->
    firstn k (board _ _ (run _ _ step init1 sched1)) = firstn k (board _ _ (run _ _ step init2 sched2)) ->
    fst n1 = fst n2.
  Proof.
    intros Hi Hj Hn1 Hn2 Hk1 Hk2 Hb.
    destruct (Forall2_nth _ _ _ _ _ _ (run_inv _ _ step init1 sched1) Hi Hn1) as [_ E1].
    destruct (Forall2_nth _ _ _ _ _ _ (run_inv _ _ step init2 sched2) Hj Hn2) as [_ E2].
    rewrite E1, E2, Hk1, Hk2, Hb. reflexivity.
  Qed.
End Determinism.
