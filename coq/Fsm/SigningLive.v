(* C07: a batch answered correctly by t participants is collected, whatever else arrives in
   between; late answers are refused; the next proposal is accepted.  All statements are about
   round_step / do_on_dump, the functions the node model drives the signing FSM with (compared
   with the real FSM on every run), and about the regenerated signing table. *)
From Coq Require Import String List NArith ZArith Bool Lia.
Require Import Fsm.EngineDefs Fsm.Types Fsm.Engine Fsm.EngineFacts Fsm.Actions Fsm.Provider Fsm.Handover Fsm.RejectNoop Fsm.SigningFacts.
Require Gen.Tables.
Import ListNotations.
Local Open Scope string_scope.
Local Open Scope Z_scope.

Definition st_await := "state_signing_await_partial_signs".
Definition st_idle := "stage_signing_idle".
Definition st_cancel_err := "state_signing_partial_signs_await_cancelled_by_error".
Definition ev_validate := "event_signing_partial_signs_await_validate".
Definition mkd (s : string) (p : payload) : dump := {| d_state := s; d_payload := p |}.

Ltac crunch := cbv -[action_sgn_partial action_sgn_validate action_sgn_start action_sgn_error action_sgn_restart action_sgn_init].

(* ---- the engine on the regenerated signing table, one event at a time ---- *)
Lemma do_partial_stays p req p' :
  action_sgn_partial ev_sgn_partial p req = CbOk "" None p' ->
  action_sgn_validate ev_validate p' req = CbOk "" None p' ->
  do_on_dump (mkd st_await p) ev_sgn_partial req = SOk (mkd st_await p') st_await None.
Proof.
  intros H1 H2. cbv [ev_sgn_partial ev_validate] in H1, H2.
  unfold do_on_dump. crunch. rewrite H1. crunch. rewrite H2. crunch. reflexivity.
Qed.

Lemma do_partial_collects p req p' resp p'' :
  action_sgn_partial ev_sgn_partial p req = CbOk "" None p' ->
  action_sgn_validate ev_validate p' req = CbOk ev_sgn_confirmed (Some resp) p'' ->
  do_on_dump (mkd st_await p) ev_sgn_partial req = SOk (mkd st_partial_collected p'') st_partial_collected (Some resp).
Proof.
  intros H1 H2. cbv [ev_sgn_partial ev_validate ev_sgn_confirmed] in H1, H2.
  unfold do_on_dump. crunch. rewrite H1. crunch. rewrite H2. crunch. reflexivity.
Qed.

Lemma do_partial_rejected p req p' :
  action_sgn_partial ev_sgn_partial p req = CbErr p' ->
  do_on_dump (mkd st_await p) ev_sgn_partial req = SRej.
Proof.
  intros H1. cbv [ev_sgn_partial] in H1.
  unfold do_on_dump. crunch. rewrite H1. crunch. reflexivity.
Qed.

Lemma do_error_stays p req p' :
  action_sgn_error ev_sgn_error p req = CbOk "" None p' ->
  action_sgn_validate ev_validate p' req = CbOk "" None p' ->
  do_on_dump (mkd st_await p) ev_sgn_error req = SOk (mkd st_await p') st_await None.
Proof.
  intros H1 H2. cbv [ev_sgn_error ev_validate] in H1, H2.
  unfold do_on_dump. crunch. rewrite H1. crunch. rewrite H2. crunch. reflexivity.
Qed.

Lemma do_error_rejected p req p' :
  action_sgn_error ev_sgn_error p req = CbErr p' ->
  do_on_dump (mkd st_await p) ev_sgn_error req = SRej.
Proof.
  intros H1. cbv [ev_sgn_error] in H1.
  unfold do_on_dump. crunch. rewrite H1. crunch. reflexivity.
Qed.

Lemma do_restart_collected p now :
  do_on_dump (mkd st_partial_collected p) ev_sgn_restart (RDefault now) = SOk (mkd st_idle p) st_idle None.
Proof. unfold do_on_dump. cbv. reflexivity. Qed.

(* in the awaiting state only the two answer events are routed to a callback *)
Lemma await_transitions tr :
  In tr (ft_transitions Gen.Tables.signing_table) -> t_src tr = st_await ->
  t_internal tr = true \/ t_ev tr = ev_sgn_partial \/ t_ev tr = ev_sgn_error.
Proof.
  cbn. intros H Hs.
  repeat (destruct H as [<-|H]; [cbn in Hs |- *; first [discriminate Hs | auto]|]). destruct H.
Qed.

Lemma await_other_events p ev req :
  ev <> ev_sgn_partial -> ev <> ev_sgn_error -> do_on_dump (mkd st_await p) ev req = SRej.
Proof.
  intros H1 H2. unfold do_on_dump.
  change (from_dump (mkd st_await p)) with
    (LoadOk {| i_mach := "signing_proposal_fsm"; i_cur := st_await; i_dstate := st_await; i_payload := p |}).
  cbv beta iota.
  rewrite (inst_do_owner _ Gen.Tables.signing_table) by reflexivity.
  unfold inst_do_core. cbn [i_mach i_cur i_payload].
  change (table_by_name "signing_proposal_fsm") with (Some Gen.Tables.signing_table).
  unfold fsm_do.
  destruct (find_trans (ft_transitions Gen.Tables.signing_table) st_await ev) as [tr|] eqn:E; [|reflexivity].
  apply find_trans_In in E as (Hin & Hs & He).
  destruct (await_transitions tr Hin Hs) as [Hi|[Hp|Hp]].
  - rewrite Hi. reflexivity.
  - congruence.
  - congruence.
Qed.

(* idle refuses answers; awaiting refuses proposals *)
Lemma do_idle_rejects_partial p req : do_on_dump (mkd st_idle p) ev_sgn_partial req = SRej.
Proof. unfold do_on_dump. cbv. reflexivity. Qed.
Lemma do_idle_rejects_error p req : do_on_dump (mkd st_idle p) ev_sgn_error req = SRej.
Proof. unfold do_on_dump. cbv. reflexivity. Qed.

(* ---- the callbacks ---- *)
Definition Aw (p : payload) (g : sgn_conf) (b : tok) : Prop :=
  p_sgn p = Some g /\ gc_batch g = b /\ b <> 0%N /\ p_sig p <> None /\
  expired (gc_expires g) (gc_updated g) = false.

Definition good_req (b : tok) (i : Z) (req : request) : Prop :=
  exists signs created, req = RPartial b i signs created /\ signs <> [] /\ signs_valid signs = true /\
                        is_zero_time created = false /\ 0 <= i.

Definition confirm_part (part : sgn_part) (signs : list (tok * tok)) (created : Z) : sgn_part :=
  {| gp_name := gp_name part; gp_status := SgnConfirmed;
     gp_signs := fold_left (fun acc s => tput acc (fst s) (snd s)) signs (gp_signs part);
     gp_error := gp_error part; gp_updated := created |}.

(* whatever a partial-signature event carries, it is either refused or confirms one participant
   that was still awaited, for the batch being signed *)
Lemma partial_outcomes ev p g b req :
  Aw p g b ->
  action_sgn_partial ev p req = CbErr p \/
  exists pid signs created part p' g',
    req = RPartial b pid signs created /\
    qget (gc_quorum g) pid = Some part /\ gp_status part = SgnAwait /\
    action_sgn_partial ev p req = CbOk "" None p' /\ Aw p' g' b /\
    gc_quorum g' = qset (gc_quorum g) pid (confirm_part part signs created) /\
    gc_src g' = gc_src g /\ p_threshold p' = p_threshold p /\ p_dkg p' = p_dkg p.
Proof.
  intros (Hg & Hb & Hb0 & Hs & Hl). unfold action_sgn_partial.
  destruct req as [| | | | | | | |batch pid signs created|]; try (left; reflexivity).
  destruct (N.eqb batch 0 || is_zero_time created || (pid <? 0) ||
            match signs with [] => true | _ :: _ => false end || negb (signs_valid signs)); [left; reflexivity|].
  rewrite Hg.
  destruct (N.eqb_spec batch (gc_batch g)) as [Eb|Eb]; cbn [negb]; [|left; reflexivity].
  destruct (qget (gc_quorum g) pid) as [part|] eqn:Eq; [|left; reflexivity].
  destruct (N.eqb_spec (gp_status part) SgnAwait) as [Es|Es]; cbn [negb]; [|left; reflexivity].
  right. unfold set_sig_updated, set_sgn. cbn [p_sig].
  destruct (p_sig p) as [sc|] eqn:Esig; [|contradiction].
  exists pid, signs, created, part. do 2 eexists. split; [rewrite Eb, Hb; reflexivity|]. split; [exact Eq|]. split; [exact Es|].
  split; [reflexivity|]. split.
  - unfold Aw. cbn [p_sgn p_sig gc_batch gc_expires gc_updated]. repeat split; try assumption; discriminate.
  - cbn [p_sgn p_threshold p_dkg gc_quorum gc_src]. repeat split; reflexivity.
Qed.

(* a well-formed answer for the batch from a participant still awaited is accepted *)
Lemma good_partial_accepted ev p g b i req part :
  Aw p g b -> good_req b i req -> qget (gc_quorum g) i = Some part -> gp_status part = SgnAwait ->
  action_sgn_partial ev p req <> CbErr p.
Proof.
  intros (Hg & Hb & Hb0 & Hs & Hl) (signs & created & -> & Hne & Hv & Hz & Hi) Hq Hst.
  unfold action_sgn_partial.
  destruct (N.eqb_spec b 0) as [|_]; [contradiction|]. rewrite Hz.
  destruct (Z.ltb_spec i 0) as [|_]; [lia|]. rewrite Hv. cbn [orb negb].
  destruct signs as [|s0 sr]; [contradiction|].
  rewrite Hg, <- Hb, N.eqb_refl. cbn [negb]. rewrite Hq, Hst. cbn [N.eqb negb].
  unfold set_sig_updated, set_sgn. cbn [p_sig]. destruct (p_sig p); [discriminate|contradiction].
Qed.

Definition error_part (part : sgn_part) (e : tok) (created : Z) : sgn_part :=
  {| gp_name := gp_name part; gp_status := SgnError; gp_signs := gp_signs part;
     gp_error := Some e; gp_updated := created |}.

Lemma error_outcomes ev p g b req :
  Aw p g b ->
  action_sgn_error ev p req = CbErr p \/
  exists pid e created bb part p' g',
    req = RSigError pid (Some e) created bb /\ (bb = 0%N \/ bb = b) /\
    qget (gc_quorum g) pid = Some part /\ gp_status part = SgnAwait /\
    action_sgn_error ev p req = CbOk "" None p' /\ Aw p' g' b /\
    gc_quorum g' = qset (gc_quorum g) pid (error_part part e created) /\
    gc_src g' = gc_src g /\ p_threshold p' = p_threshold p /\ p_dkg p' = p_dkg p.
Proof.
  intros (Hg & Hb & Hb0 & Hs & Hl). unfold action_sgn_error.
  destruct req as [| | | | | |pid err created bb| | |]; try (left; reflexivity).
  destruct err as [e|]; [|left; reflexivity].
  destruct ((pid <? 0) || is_zero_time created); [left; reflexivity|].
  rewrite Hg.
  destruct (qget (gc_quorum g) pid) as [part|] eqn:Eq; [|left; reflexivity].
  assert (Hbb : negb (N.eqb bb 0) && negb (N.eqb bb (gc_batch g)) = false -> bb = 0%N \/ bb = b).
  { rewrite Hb. destruct (N.eqb_spec bb 0); [auto|]. destruct (N.eqb_spec bb b); [auto|discriminate]. }
  destruct (negb (N.eqb bb 0) && negb (N.eqb bb (gc_batch g))) eqn:Ebb; [left; reflexivity|]. specialize (Hbb eq_refl).
  destruct (N.eqb_spec (gp_status part) SgnAwait) as [Es|Es]; cbn [negb]; [|left; reflexivity].
  right. unfold set_sig_updated, set_sgn. cbn [p_sig].
  destruct (p_sig p) as [sc|] eqn:Esig; [|contradiction].
  exists pid, e, created, bb, part. do 2 eexists. split; [reflexivity|]. split; [exact Hbb|]. split; [exact Eq|]. split; [exact Es|].
  split; [reflexivity|]. split.
  - unfold Aw. cbn [p_sgn p_sig gc_batch gc_expires gc_updated]. repeat split; try assumption; discriminate.
  - cbn [p_sgn p_threshold p_dkg gc_quorum gc_src]. repeat split; reflexivity.
Qed.

(* the validation that follows every accepted answer *)
Lemma validate_cases ev p g b req :
  Aw p g b ->
  let n := Z.of_nat (length (gc_quorum g)) in
  let c := count_status SgnConfirmed (gc_quorum g) in
  let f := count_status SgnError (gc_quorum g) in
  (n - p_threshold p < f /\ action_sgn_validate ev p req = CbOk ev_sgn_cancel_error None p) \/
  (f <= n - p_threshold p /\ c < p_threshold p /\ action_sgn_validate ev p req = CbOk "" None p) \/
  (f <= n - p_threshold p /\ p_threshold p <= c /\
   exists entries p'', action_sgn_validate ev p req = CbOk ev_sgn_confirmed (Some (RespSigningProcess b (gc_src g) entries)) p'' /\
     p_dkg p'' = p_dkg p /\ p_sig p'' = p_sig p /\ p_threshold p'' = p_threshold p /\
     (exists g'', p_sgn p'' = Some g'' /\ gc_expires g'' = gc_expires g /\ gc_updated g'' = gc_updated g) /\
     entries = map (fun x => (fst x, (gp_name (snd x), gp_signs (snd x))))
                   (filter (fun x => match gp_signs (snd x) with [] => false | _ => true end)
                           (qmap (fun x => {| gp_name := gp_name x; gp_status := SgnProcess; gp_signs := gp_signs x;
                                              gp_error := gp_error x; gp_updated := gp_updated x |}) (gc_quorum g)))).
Proof.
  intros (Hg & Hb & Hb0 & Hs & Hl) n c f. unfold action_sgn_validate. rewrite Hg, Hl.
  fold n. fold f. fold c.
  destruct (Z.ltb_spec (n - p_threshold p) f) as [H1|H1]; [left; split; [exact H1|reflexivity]|].
  destruct (Z.ltb_spec (n - p_threshold p) (n - c)) as [H2|H2].
  - right. left. repeat split; [exact H1|lia].
  - right. right. split; [exact H1|]. split; [lia|]. rewrite Hb. do 2 eexists. split; [reflexivity|].
    unfold set_sgn. cbn [p_dkg p_sig p_threshold p_sgn]. repeat split; try reflexivity. eexists. cbn. repeat split; reflexivity.
Qed.

(* ---- quorum bookkeeping ---- *)
Lemma qget_qset_same {A} (q : list (Z * A)) i a a' : qget q i = Some a -> qget (qset q i a') i = Some a'.
Proof.
  induction q as [|[j b] r IH]; cbn [qget qset]; [discriminate|].
  destruct (j =? i) eqn:E; cbn [qget]; rewrite E; [reflexivity|exact IH].
Qed.
Lemma qget_qset_other {A} (q : list (Z * A)) i j a' : i <> j -> qget (qset q j a') i = qget q i.
Proof.
  intros Hn. induction q as [|[k b] r IH]; cbn [qget qset]; [reflexivity|].
  destruct (k =? j) eqn:E; cbn [qget].
  - apply Z.eqb_eq in E. subst k. destruct (Z.eqb_spec j i); [congruence|reflexivity].
  - rewrite IH. reflexivity.
Qed.
Lemma qset_length {A} (q : list (Z * A)) i a : length (qset q i a) = length q.
Proof. induction q as [|[j b] r IH]; cbn [qset length]; [reflexivity|]. destruct (j =? i); cbn [length]; congruence. Qed.

(* distinct participants found in the quorum with a property: at least that many entries have it *)
Lemma count_ge {A} (P : A -> bool) (q : list (Z * A)) : forall H : list Z,
  NoDup H -> (forall i, In i H -> exists a, qget q i = Some a /\ P a = true) ->
  (length H <= length (filter (fun x => P (snd x)) q))%nat.
Proof.
  induction q as [|[j b] r IH]; intros H Hnd Hall.
  - destruct H as [|i H]; [cbn; lia|]. destruct (Hall i (or_introl eq_refl)) as (a & Hq & _). discriminate.
  - cbn [filter snd].
    destruct (in_dec Z.eq_dec j H) as [Hin|Hnin].
    + destruct (Hall j Hin) as (a & Hq & HP). cbn [qget] in Hq. rewrite Z.eqb_refl in Hq. inversion Hq; subst a.
      rewrite HP. cbn [length].
      assert (Hlen : (length H = S (length (remove Z.eq_dec j H)))%nat).
      { clear -Hnd Hin. induction H as [|x H IH]; [destruct Hin|].
        inversion Hnd as [|? ? Hx Hnd']; subst. cbn [remove]. destruct (Z.eq_dec j x) as [->|Hne].
        - cbn [length]. f_equal. rewrite notin_remove; [reflexivity|exact Hx].
        - cbn [length]. f_equal. apply IH; [exact Hnd'|]. destruct Hin as [->|]; [contradiction|assumption]. }
      rewrite Hlen. apply le_n_S. apply IH.
      * clear -Hnd. induction H as [|x H IH]; [constructor|]. inversion Hnd; subst. cbn [remove].
        destruct (Z.eq_dec j x); [apply IH; assumption|]. constructor; [|apply IH; assumption].
        intros Hx. apply in_remove in Hx as [Hx _]. contradiction.
      * intros i Hi. apply in_remove in Hi as [Hi Hne]. destruct (Hall i Hi) as (a & Hq' & HP').
        cbn [qget] in Hq'. destruct (Z.eqb_spec j i); [congruence|]. exists a. auto.
    + assert (Hr : (length H <= length (filter (fun x => P (snd x)) r))%nat).
      { apply IH; [exact Hnd|]. intros i Hi. destruct (Hall i Hi) as (a & Hq & HP).
        cbn [qget] in Hq. destruct (Z.eqb_spec j i); [subst; contradiction|]. exists a. auto. }
      destruct (P b); cbn [length]; lia.
Qed.

Lemma count_split (q : list (Z * sgn_part)) :
  (length (filter (fun x => N.eqb (gp_status (snd x)) SgnError) q)
   + length (filter (fun x => negb (N.eqb (gp_status (snd x)) SgnError)) q) = length q)%nat.
Proof. induction q as [|x r IH]; cbn [filter length]; [reflexivity|]. destruct (N.eqb _ _); cbn [negb length]; lia. Qed.

Lemma do_error_collects p req p' resp p'' :
  action_sgn_error ev_sgn_error p req = CbOk "" None p' ->
  action_sgn_validate ev_validate p' req = CbOk ev_sgn_confirmed (Some resp) p'' ->
  do_on_dump (mkd st_await p) ev_sgn_error req = SOk (mkd st_partial_collected p'') st_partial_collected (Some resp).
Proof.
  intros H1 H2. cbv [ev_sgn_error ev_validate ev_sgn_confirmed] in H1, H2.
  unfold do_on_dump. crunch. rewrite H1. crunch. rewrite H2. crunch. reflexivity.
Qed.

(* ---- the node's round step (restore, event, hand-overs, restart after collection) ---- *)
Lemma round_step_rej now d ev req : do_on_dump d ev req = SRej -> round_step now d ev req = SRej.
Proof. intros H. unfold round_step. rewrite H. reflexivity. Qed.
Lemma round_step_stays now d ev req p' :
  do_on_dump d ev req = SOk (mkd st_await p') st_await None ->
  round_step now d ev req = SOk (mkd st_await p') st_await None.
Proof. intros H. unfold round_step. rewrite H. reflexivity. Qed.
Lemma round_step_stays_gen now d ev req p' x :
  do_on_dump d ev req = SOk (mkd st_await p') st_await x ->
  round_step now d ev req = SOk (mkd st_await p') st_await x.
Proof. intros H. unfold round_step. rewrite H. reflexivity. Qed.
Lemma round_step_collects now d ev req p'' resp :
  do_on_dump d ev req = SOk (mkd st_partial_collected p'') st_partial_collected (Some resp) ->
  round_step now d ev req = SOk (mkd st_idle p'') st_partial_collected (Some resp).
Proof.
  intros H. unfold round_step. rewrite H.
  change (String.eqb st_partial_collected st_collected) with false. cbv beta iota zeta.
  change (String.eqb st_partial_collected st_master_collected) with false. cbv beta iota zeta.
  change (String.eqb st_partial_collected st_partial_collected) with true. cbv beta iota zeta.
  rewrite do_restart_collected. reflexivity.
Qed.

(* what a node does with a list of inputs for the round: the batches it collects, in order *)
Definition input := (string * request)%type.
Fixpoint collected (now : Z) (d : dump) (l : list input) : list tok :=
  match l with
  | [] => []
  | x :: r =>
      match round_step now d (fst x) (snd x) with
      | SOk d' rs (Some (RespSigningProcess b _ _)) =>
          (if String.eqb rs st_partial_collected then [b] else []) ++ collected now d' r
      | SOk d' _ _ => collected now d' r
      | _ => collected now d r
      end
  end.

(* the participants in H are honest for batch b: nothing in the input list speaks for them except
   well-formed answers to b (their late answers to other batches may be there too) *)
Definition honest_only (b : tok) (H : list Z) (x : input) : Prop :=
  forall i, In i H ->
    (fst x = ev_sgn_error -> forall e c bb, snd x = RSigError i e c bb -> bb <> 0%N /\ bb <> b) /\
    (fst x = ev_sgn_partial -> forall signs c, snd x = RPartial b i signs c -> good_req b i (snd x)).

Definition h_status (b : tok) (g : sgn_conf) (l : list input) (i : Z) : Prop :=
  exists part, qget (gc_quorum g) i = Some part /\
    (gp_status part = SgnConfirmed \/
     (gp_status part = SgnAwait /\ exists req, In (ev_sgn_partial, req) l /\ good_req b i req)).

Lemma errors_bounded (q : list (Z * sgn_part)) (H : list Z) :
  NoDup H -> (forall i, In i H -> exists a, qget q i = Some a /\ gp_status a <> SgnError) ->
  count_status SgnError q <= Z.of_nat (length q) - Z.of_nat (length H).
Proof.
  intros Hnd Hall. unfold count_status.
  pose proof (count_split q) as Hs.
  assert (Hge : (length H <= length (filter (fun x => negb (N.eqb (gp_status (snd x)) SgnError)) q))%nat).
  { apply (count_ge (fun a => negb (N.eqb (gp_status a) SgnError))); [exact Hnd|].
    intros i Hi. destruct (Hall i Hi) as (a & Hq & Hne). exists a. split; [exact Hq|].
    destruct (N.eqb_spec (gp_status a) SgnError); [contradiction|reflexivity]. }
  lia.
Qed.

Lemma h_not_error b g l H : (forall i, In i H -> h_status b g l i) ->
  forall i, In i H -> exists a, qget (gc_quorum g) i = Some a /\ gp_status a <> SgnError.
Proof.
  intros Hall i Hi. destruct (Hall i Hi) as (part & Hq & [Hc|[Ha _]]); exists part; split; try exact Hq;
    rewrite ?Hc, ?Ha; discriminate.
Qed.

Theorem batch_collects now b H t : forall (l : list input) p g,
  Aw p g b -> p_threshold p = t -> NoDup H -> t <= Z.of_nat (length H) ->
  (forall i, In i H -> h_status b g l i) ->
  count_status SgnConfirmed (gc_quorum g) < t ->
  Forall (honest_only b H) l ->
  In b (collected now (mkd st_await p) l).
Proof.
  induction l as [|x r IH]; intros p g Haw Ht Hnd HtH Hst Hc Hhon.
  - (* nothing left: every member of H is confirmed, so the threshold had been reached *)
    exfalso.
    assert (Hge : (length H <= length (filter (fun x => N.eqb (gp_status (snd x)) SgnConfirmed) (gc_quorum g)))%nat).
    { apply (count_ge (fun a => N.eqb (gp_status a) SgnConfirmed)); [exact Hnd|].
      intros i Hi. destruct (Hst i Hi) as (part & Hq & [Hcf|[_ (req & [] & _)]]). exists part. rewrite Hcf. auto. }
    unfold count_status in Hc. lia.
  - destruct x as [ev req]. apply Forall_cons_iff in Hhon as [Hx Hr].
    cbn [collected fst snd].
    (* the witnesses of the still awaited members of H, when the head input is not consumed as theirs *)
    assert (Hkeep : forall g', gc_quorum g' = gc_quorum g ->
                     (forall i, In i H -> forall part, qget (gc_quorum g) i = Some part -> gp_status part = SgnAwait ->
                                forall rq, good_req b i rq -> (ev, req) <> (ev_sgn_partial, rq)) ->
                     forall i, In i H -> h_status b g' r i).
    { intros g' Hq' Hne i Hi. destruct (Hst i Hi) as (part & Hq & [Hcf|[Ha (rq & Hin & Hgood)]]).
      - exists part. rewrite Hq'. auto.
      - exists part. rewrite Hq'. split; [exact Hq|]. right. split; [exact Ha|]. exists rq. split; [|exact Hgood].
        destruct Hin as [Heq|Hin]; [|exact Hin]. exfalso. apply (Hne i Hi part Hq Ha rq Hgood). exact Heq. }
    destruct (String.eqb_spec ev ev_sgn_partial) as [->|Hnp].
    + destruct (partial_outcomes ev_sgn_partial p g b req Haw) as [Herr|(pid & signs & created & part & p' & g' & -> & Hq & Hsa & Hok & Haw' & Hq' & Hsrc & Hthr & Hdkg)].
      * rewrite (round_step_rej _ _ _ _ (do_partial_rejected _ _ _ Herr)).
        apply (IH p g Haw Ht Hnd HtH); [|exact Hc|exact Hr].
        apply (Hkeep g eq_refl). intros i Hi parti Hqi Hai rq Hgood Heq. inversion Heq; subst rq.
        exact (good_partial_accepted ev_sgn_partial p g b i req parti Haw Hgood Hqi Hai Herr).
      * (* one more participant confirmed *)
        assert (Hst' : forall i, In i H -> h_status b g' r i).
        { intros i Hi. destruct (Z.eq_dec i pid) as [->|Hne].
          - eexists. rewrite Hq'. split; [apply (qget_qset_same _ _ _ _ Hq)|]. left. reflexivity.
          - destruct (Hst i Hi) as (parti & Hqi & [Hcf|[Ha (rq & Hin & Hgood)]]);
              exists parti; rewrite Hq', (qget_qset_other _ _ _ _ Hne); (split; [exact Hqi|]); [left; exact Hcf|].
            right. split; [exact Ha|]. exists rq. split; [|exact Hgood].
            destruct Hin as [Heq|Hin]; [|exact Hin]. exfalso. inversion Heq; subst rq.
            destruct Hgood as (s2 & c2 & Hreq & _). inversion Hreq. congruence. }
        destruct (validate_cases ev_validate p' g' b (RPartial b pid signs created) Haw')
          as [(Hcancel & _)|[(Hf & Hc' & Hval)|(Hf & Hc' & entries & p'' & Hval & _)]].
        -- exfalso. pose proof (errors_bounded (gc_quorum g') H Hnd (h_not_error b g' r H Hst')) as Hb. lia.
        -- rewrite (round_step_stays _ _ _ _ _ (do_partial_stays _ _ _ Hok Hval)).
           apply (IH p' g' Haw'); try assumption; congruence.
        -- rewrite (round_step_collects _ _ _ _ _ _ (do_partial_collects _ _ _ _ _ Hok Hval)).
           change (String.eqb st_partial_collected st_partial_collected) with true. left. reflexivity.
    + destruct (String.eqb_spec ev ev_sgn_error) as [->|Hne].
      * destruct (error_outcomes ev_sgn_error p g b req Haw) as [Herr|(pid & e & created & bb & part & p' & g' & -> & Hbb & Hq & Hsa & Hok & Haw' & Hq' & Hsrc & Hthr & Hdkg)].
        -- rewrite (round_step_rej _ _ _ _ (do_error_rejected _ _ _ Herr)).
           apply (IH p g Haw Ht Hnd HtH); [|exact Hc|exact Hr].
           apply (Hkeep g eq_refl). intros i Hi parti Hqi Hai rq Hgood Heq. inversion Heq.
        -- assert (Hnot : ~ In pid H).
           { intros Hin. destruct (Hx pid Hin) as (He & _). destruct (He eq_refl (Some e) created bb eq_refl) as [H0 Hb']. destruct Hbb; contradiction. }
           assert (Hst' : forall i, In i H -> h_status b g' r i).
           { intros i Hi. assert (Hne : i <> pid) by (intros ->; contradiction).
             destruct (Hst i Hi) as (parti & Hqi & [Hcf|[Ha (rq & Hin & Hgood)]]);
               exists parti; rewrite Hq', (qget_qset_other _ _ _ _ Hne); (split; [exact Hqi|]); [left; exact Hcf|].
             right. split; [exact Ha|]. exists rq. split; [|exact Hgood].
             destruct Hin as [Heq|Hin]; [|exact Hin]. inversion Heq. }
           destruct (validate_cases ev_validate p' g' b (RSigError pid (Some e) created bb) Haw')
             as [(Hcancel & _)|[(Hf & Hc' & Hval)|(Hf & Hc' & entries & p'' & Hval & _)]].
           ++ exfalso. pose proof (errors_bounded (gc_quorum g') H Hnd (h_not_error b g' r H Hst')) as Hb. lia.
           ++ rewrite (round_step_stays _ _ _ _ _ (do_error_stays _ _ _ Hok Hval)).
              apply (IH p' g' Haw'); try assumption; congruence.
           ++ rewrite (round_step_collects _ _ _ _ _ _ (do_error_collects _ _ _ _ _ Hok Hval)).
              change (String.eqb st_partial_collected st_partial_collected) with true. left. reflexivity.
      * rewrite (round_step_rej _ _ _ _ (await_other_events p ev req Hnp Hne)).
        apply (IH p g Haw Ht Hnd HtH); [|exact Hc|exact Hr].
        apply (Hkeep g eq_refl). intros i Hi parti Hqi Hai rq Hgood Heq. inversion Heq. contradiction.
Qed.

(* ---- proposals: idle accepts a well-formed proposal and awaits every participant ---- *)
Lemma do_start_accepts p req p' resp :
  action_sgn_start ev_sgn_start p req = CbOk ev_sgn_start (Some resp) p' ->
  action_sgn_validate ev_validate p' req = CbOk "" None p' ->
  do_on_dump (mkd st_idle p) ev_sgn_start req = SOk (mkd st_await p') st_await (Some resp).
Proof.
  intros H1 H2. cbv [ev_sgn_start ev_validate] in H1, H2.
  unfold do_on_dump. crunch. rewrite H1. crunch. rewrite H2. crunch. reflexivity.
Qed.

(* a payload that can sign: key generation finished, signing initialised, deadline not armed *)
Definition Ready (p : payload) (d : dkg_conf) (t : Z) : Prop :=
  p_dkg p = Some d /\ p_threshold p = t /\ p_sig p <> None /\
  exists g, p_sgn p = Some g /\ expired (gc_expires g) (gc_updated g) = false.

Definition start_quorum (d : dkg_conf) (created : Z) : list (Z * sgn_part) :=
  qmap (fun x => {| gp_name := dp_name x; gp_status := SgnAwait; gp_signs := [];
                    gp_error := None; gp_updated := created |}) (dc_quorum d).

Lemma qget_qmap {A B} (f : A -> B) (q : list (Z * A)) i : qget (qmap f q) i = option_map f (qget q i).
Proof. unfold qmap. induction q as [|[j a] r IH]; cbn; [reflexivity|]. destruct (j =? i); [reflexivity|exact IH]. Qed.

Lemma count_start_quorum d created s : s <> SgnAwait -> count_status s (start_quorum d created) = 0.
Proof.
  intros Hs. unfold count_status, start_quorum, qmap.
  induction (dc_quorum d) as [|[j a] r IH]; [reflexivity|].
  cbn [map filter snd gp_status]. destruct (N.eqb_spec SgnAwait s); [congruence|]. exact IH.
Qed.

Theorem start_opens_batch now p d t batch pid created tasks src :
  Ready p d t -> 0 < t -> t <= Z.of_nat (length (dc_quorum d)) ->
  batch <> 0%N -> tasks <> [] -> 0 <= pid -> is_zero_time created = false -> tasks_valid tasks = true ->
  exists p' g' resp,
    round_step now (mkd st_idle p) ev_sgn_start (RStart batch pid created tasks src) = SOk (mkd st_await p') st_await (Some resp) /\
    Aw p' g' batch /\ Ready p' d t /\ gc_quorum g' = start_quorum d created /\ gc_src g' = src.
Proof.
  intros (Hd & Ht & Hs & g & Hg & Hl) Hpos Hn Hb Htk Hpid Hz Hv.
  assert (Hlen : length (start_quorum d created) = length (dc_quorum d)) by (unfold start_quorum, qmap; apply map_length).
  assert (Hstart : action_sgn_start ev_sgn_start p (RStart batch pid created tasks src) =
                   CbOk ev_sgn_start
                        (Some (RespSigningInvite batch pid src
                                 (map (fun x => (fst x, (gp_name (snd x), gp_status (snd x)))) (start_quorum d created))))
                        (set_sgn p {| gc_batch := batch; gc_initiator := pid; gc_quorum := start_quorum d created; gc_src := src;
                                      gc_created := created; gc_updated := gc_updated g; gc_expires := gc_expires g |})).
  { unfold action_sgn_start. destruct (N.eqb_spec batch 0); [contradiction|]. destruct tasks; [contradiction|].
    destruct (Z.ltb_spec pid 0) as [Hlt|_]; [exfalso; clear -Hlt Hpid; lia|]. rewrite Hz, Hv. cbn [orb negb]. rewrite Hg, Hd. reflexivity. }
  set (g' := {| gc_batch := batch; gc_initiator := pid; gc_quorum := start_quorum d created; gc_src := src;
                gc_created := created; gc_updated := gc_updated g; gc_expires := gc_expires g |}) in *.
  assert (Haw : Aw (set_sgn p g') g' batch).
  { unfold Aw, set_sgn. cbn [p_sgn p_sig]. repeat split; try assumption. }
  destruct (validate_cases ev_validate (set_sgn p g') g' batch (RStart batch pid created tasks src) Haw)
    as [(Hcancel & _)|[(Hf & Hc' & Hval)|(Hf & Hc' & _)]].
  - exfalso. subst g'. cbn [gc_quorum] in Hcancel. rewrite count_start_quorum in Hcancel by discriminate.
    cbn [p_threshold set_sgn] in Hcancel. rewrite Hlen in Hcancel. lia.
  - exists (set_sgn p g'), g', (RespSigningInvite batch pid src
                                 (map (fun x => (fst x, (gp_name (snd x), gp_status (snd x)))) (start_quorum d created))).
    split; [apply round_step_stays_gen; apply (do_start_accepts _ _ _ _ Hstart Hval)|].
    split; [exact Haw|]. split; [|split; reflexivity].
    unfold Ready, set_sgn. cbn [p_dkg p_threshold p_sig p_sgn]. repeat split; try assumption. exists g'. split; [reflexivity|exact Hl].
  - exfalso. subst g'. cbn [gc_quorum] in Hc'. rewrite count_start_quorum in Hc' by discriminate.
    cbn [p_threshold set_sgn] in Hc'. lia.
Qed.

(* ---- from the proposal to the collection ---- *)
Theorem proposed_batch_collects now p d t H batch pid created tasks src (l : list input) :
  Ready p d t -> 0 < t -> t <= Z.of_nat (length (dc_quorum d)) ->
  batch <> 0%N -> tasks <> [] -> 0 <= pid -> is_zero_time created = false -> tasks_valid tasks = true ->
  NoDup H -> t <= Z.of_nat (length H) ->
  (forall i, In i H -> (exists a, qget (dc_quorum d) i = Some a) /\
                       exists req, In (ev_sgn_partial, req) l /\ good_req batch i req) ->
  Forall (honest_only batch H) l ->
  In batch (collected now (mkd st_idle p) ((ev_sgn_start, RStart batch pid created tasks src) :: l)).
Proof.
  intros Hr Hpos Hn Hb Htk Hpid Hz Hv Hnd HtH Hmem Hhon.
  destruct (start_opens_batch now p d t batch pid created tasks src Hr Hpos Hn Hb Htk Hpid Hz Hv)
    as (p' & g' & resp & Hstep & Haw & (_ & Ht' & _) & Hq & _).
  cbn [collected fst snd]. rewrite Hstep.
  assert (Hgoal : In batch (collected now (mkd st_await p') l)).
  { apply (batch_collects now batch H t l p' g' Haw Ht' Hnd HtH).
    - intros i Hi. destruct (Hmem i Hi) as ((a & Ha) & req & Hin & Hgood).
      eexists. rewrite Hq. unfold start_quorum. rewrite qget_qmap, Ha. cbn [option_map]. split; [reflexivity|].
      right. split; [reflexivity|]. exists req. auto.
    - rewrite Hq, count_start_quorum by discriminate. exact Hpos.
    - exact Hhon. }
  destruct resp; exact Hgoal.
Qed.

(* ---- late answers ---- *)
(* an answer to a batch other than the one being signed is refused (nothing is persisted) *)
Theorem stale_answer_refused now p g b b' pid signs created :
  Aw p g b -> b' <> b ->
  round_step now (mkd st_await p) ev_sgn_partial (RPartial b' pid signs created) = SRej.
Proof.
  intros Haw Hne. apply round_step_rej.
  destruct (partial_outcomes ev_sgn_partial p g b (RPartial b' pid signs created) Haw)
    as [Herr|(pid0 & s0 & c0 & part & p' & g' & Heq & _)].
  - exact (do_partial_rejected _ _ _ Herr).
  - inversion Heq. contradiction.
Qed.
(* after the collection the round is idle, where every answer is refused *)
Theorem answer_at_idle_refused now p req :
  round_step now (mkd st_idle p) ev_sgn_partial req = SRej /\ round_step now (mkd st_idle p) ev_sgn_error req = SRej.
Proof. split; apply round_step_rej; [apply do_idle_rejects_partial|apply do_idle_rejects_error]. Qed.

(* ---- the next batch: the collecting step leaves a payload that can sign again ---- *)
Theorem collecting_answer_leaves_ready now p g b d t pid signs created part :
  Aw p g b -> Ready p d t ->
  qget (gc_quorum g) pid = Some part -> gp_status part = SgnAwait -> good_req b pid (RPartial b pid signs created) ->
  t <= count_status SgnConfirmed (qset (gc_quorum g) pid (confirm_part part signs created)) ->
  count_status SgnError (qset (gc_quorum g) pid (confirm_part part signs created)) <= Z.of_nat (length (gc_quorum g)) - t ->
  exists p'' entries,
    round_step now (mkd st_await p) ev_sgn_partial (RPartial b pid signs created)
    = SOk (mkd st_idle p'') st_partial_collected (Some (RespSigningProcess b (gc_src g) entries)) /\
    Ready p'' d t.
Proof.
  intros Haw (Hd & Ht & Hs & g0 & Hg0 & Hl0) Hq Hsa Hgood Hc Hf.
  destruct (partial_outcomes ev_sgn_partial p g b (RPartial b pid signs created) Haw)
    as [Herr|(pid0 & s0 & c0 & part0 & p' & g' & Heq & Hq0 & _ & Hok & Haw' & Hq' & Hsrc & Hthr & Hdkg)].
  - exfalso. exact (good_partial_accepted _ _ _ _ _ _ _ Haw Hgood Hq Hsa Herr).
  - inversion Heq; subst pid0 s0 c0. rewrite Hq in Hq0. inversion Hq0; subst part0.
    destruct (validate_cases ev_validate p' g' b (RPartial b pid signs created) Haw')
      as [(Hcancel & _)|[(_ & Hc' & _)|(_ & _ & entries & p'' & Hval & Hd'' & Hs'' & Ht'' & (g'' & Hg'' & He'' & Hu'') & _)]].
    + exfalso. rewrite Hq', qset_length, Hthr, Ht in Hcancel. lia.
    + exfalso. rewrite Hq', Hthr, Ht in Hc'. lia.
    + exists p'', entries. split.
      * rewrite <- Hsrc. apply round_step_collects. apply (do_partial_collects _ _ _ _ _ Hok Hval).
      * destruct Haw' as (Hg' & _ & _ & Hsig' & Hl').
        unfold Ready. rewrite Hd'', Hdkg, Hs'', Ht'', Hthr. repeat split; try assumption.
        exists g''. split; [exact Hg''|]. rewrite He'', Hu''. exact Hl'.
Qed.

(* the signing deadline is never armed: initialisation sets UpdatedAt to the zero time, and no
   signing callback writes it (each of the lemmas above carries `expired = false` along) *)
Theorem init_not_expired ev p created out resp p' :
  TZERO <= created + sgn_deadline ->
  action_sgn_init ev p (RDefault created) = CbOk out resp p' ->
  exists g, p_sgn p' = Some g /\ expired (gc_expires g) (gc_updated g) = false.
Proof.
  intros Hc. unfold action_sgn_init. destruct (is_zero_time created); [discriminate|].
  intros H. inversion H; subst. eexists. split; [reflexivity|]. cbn. unfold expired. apply Z.ltb_ge. exact Hc.
Qed.

(* ---- non-vacuity: three participants, threshold two; participants 0 and 2 are honest ---- *)
Definition ex_dpart (n : tok) : dkg_part :=
  {| dp_name := n; dp_dkgpub := 1%N; dp_commit := 1%N; dp_deal := 1%N; dp_response := 1%N; dp_master := 1%N;
     dp_status := dkg_confirmed 3; dp_error := None; dp_updated := 5 |}.
Definition ex_dkg : dkg_conf :=
  {| dc_quorum := [(0, ex_dpart 10%N); (1, ex_dpart 11%N); (2, ex_dpart 12%N)]; dc_created := 1; dc_updated := 5;
     dc_expires := 700000; dc_pubpoly := 3000001%N |}.
Definition ex_ready : payload :=
  {| p_threshold := 2;
     p_sig := Some {| sc_quorum := []; sc_created := 1; sc_updated := 2; sc_expires := 700000 |};
     p_dkg := Some ex_dkg;
     p_sgn := Some {| gc_batch := 0%N; gc_initiator := 0; gc_quorum := []; gc_src := 0%N;
                      gc_created := 6; gc_updated := TZERO; gc_expires := 6 + sgn_deadline |};
     p_pubkeys := []; p_ids := [] |}.
Definition ex_good (b : tok) (i : Z) : input := (ev_sgn_partial, RPartial b i [(7%N, 8%N)] 100).
Definition ex_inputs : list input :=
  [ (ev_sgn_partial, RPartial 40%N 2 [(7%N, 8%N)] 90);        (* a late answer to an older batch *)
    ex_good 41%N 0;
    (ev_sgn_start, RStart 42%N 1 95 [{| tv_idlen := 3; tv_paylen := 3; tv_start := 0; tv_end := 0 |}] 77%N);  (* a proposal while signing *)
    (ev_sgn_error, RSigError 1 (Some 9%N) 96 41%N);           (* participant 1 reports a failure *)
    (ev_sgn_error, RSigError 2 (Some 9%N) 96 40%N);           (* honest participant 2's late failure report for batch 40 *)
    ex_good 41%N 0;                                            (* a duplicate *)
    ex_good 41%N 2;
    ex_good 41%N 1 ].                                          (* an answer after the collection *)

Example ex_hypotheses :
  Ready ex_ready ex_dkg 2 /\ NoDup [0; 2] /\ Forall (honest_only 41%N [0; 2]) ex_inputs /\
  (forall i, In i [0; 2] -> (exists a, qget (dc_quorum ex_dkg) i = Some a) /\
                            exists req, In (ev_sgn_partial, req) ex_inputs /\ good_req 41%N i req).
Proof.
  split; [|split; [|split]].
  - unfold Ready. cbn. repeat split; try discriminate. eexists. split; [reflexivity|]. reflexivity.
  - repeat constructor; cbn; intuition discriminate.
  - unfold ex_inputs, ex_good.
    repeat (apply Forall_cons;
            [intros i Hi; split;
             [intros He; try discriminate He; intros e c bb Heq; inversion Heq; subst; cbn in Hi; first [intuition discriminate | split; discriminate]
             |intros He; try discriminate He; intros signs c Heq; inversion Heq; subst;
              exists [(7%N, 8%N)], 100; repeat split; try discriminate; cbn in Hi; intuition lia]|]).
    apply Forall_nil.
  - intros i [<-|[<-|[]]]; (split; [eexists; reflexivity|]); eexists; (split; [|exists [(7%N, 8%N)], 100; repeat split; try discriminate; lia]);
      cbn; intuition.
Qed.
Example ex_collects :
  collected 1000 (mkd st_idle ex_ready)
            ((ev_sgn_start, RStart 41%N 1 80 [{| tv_idlen := 3; tv_paylen := 3; tv_start := 0; tv_end := 0 |}] 76%N) :: ex_inputs)
  = [41%N].
Proof. vm_compute. reflexivity. Qed.

(* a failure report that NAMES a batch other than the one being signed is refused (nothing is
   persisted): the late report of a slow participant for a batch that is over is harmless *)
Theorem stale_failure_report_refused now p g b b' pid e created :
  Aw p g b -> b' <> 0%N -> b' <> b ->
  round_step now (mkd st_await p) ev_sgn_error (RSigError pid e created b') = SRej.
Proof.
  intros Haw H0 Hne. apply round_step_rej.
  destruct (error_outcomes ev_sgn_error p g b (RSigError pid e created b') Haw)
    as [Herr|(pid0 & e0 & c0 & bb & part & p' & g' & Heq & Hbb & _)].
  - exact (do_error_rejected _ _ _ Herr).
  - inversion Heq; subst. destruct Hbb; contradiction.
Qed.

(* ---- the hypothesis on failure reports in an honest participant's name is not idle.  A report
   written by an OLDER version carries no batch identifier (batch 0 here); the (honest, slow)
   participant 2's report for a FINISHED batch, arriving while batch 41 is being signed, is then
   booked on batch 41 - participants 2 and 0 answer batch 41 correctly (t = 2 correct answers) and
   nothing is collected.  The same report naming its batch (40) is refused and the batch is collected;
   so it is without any report ---- *)
Definition ex_start41 : input :=
  (ev_sgn_start, RStart 41%N 1 80 [{| tv_idlen := 3; tv_paylen := 3; tv_start := 0; tv_end := 0 |}] 76%N).
Example late_error_answer_blocks_the_batch :
  collected 1000 (mkd st_idle ex_ready) [ex_start41; (ev_sgn_error, RSigError 2 (Some 9%N) 96 0%N); ex_good 41%N 2; ex_good 41%N 0] = [] /\
  collected 1000 (mkd st_idle ex_ready) [ex_start41; (ev_sgn_error, RSigError 2 (Some 9%N) 96 40%N); ex_good 41%N 2; ex_good 41%N 0] = [41%N] /\
  collected 1000 (mkd st_idle ex_ready) [ex_start41; ex_good 41%N 2; ex_good 41%N 0] = [41%N].
Proof. vm_compute. repeat split; reflexivity. Qed.
