(* C02 (FSM side): the key-confirmation phase is confirmed only if every participant announced the
   SAME group key, and an announcement is accepted only if its public polynomial equals the one
   already retained - so the polynomial a hot node keeps is the one every accepted announcement
   carried. *)
From Coq Require Import String List NArith ZArith Bool Lia.
Require Import Fsm.EngineDefs Fsm.Types Fsm.Engine Fsm.Actions Fsm.Provider Fsm.Unanimous.
Import ListNotations.
Local Open Scope string_scope.

Lemma forallb_all {A} (f : A -> bool) l : forallb f l = true -> forall x, In x l -> f x = true.
Proof. intros H. apply forallb_forall. exact H. Qed.

Lemma filter_all {A} (f : A -> bool) l : (forall x, In x l -> f x = true) -> filter f l = l.
Proof.
  induction l as [|a l IH]; intros H; cbn; [reflexivity|]. rewrite (H a (or_introl eq_refl)). f_equal.
  apply IH. intros x Hx. apply H. right. exact Hx.
Qed.

Theorem master_keys_must_agree ev p req resp p' :
  action_dkg_validate 3 ev p req = CbOk (ev_dkg_confirmed 3) resp p' ->
  exists c, p_dkg p = Some c /\
    forall x y, In x (dc_quorum c) -> In y (dc_quorum c) -> dp_master (snd x) = dp_master (snd y).
Proof.
  intros H.
  destruct (dkg_phase_confirmed_unanimous 3 ev p req resp p' eq_refl H) as (c & Hc & Hall).
  exists c. split; [exact Hc|].
  unfold action_dkg_validate in H. rewrite Hc in H.
  destruct (expired _ _); [inversion H; discriminate|].
  destruct (existsb (fun x => N.eqb (dp_status (snd x)) (dkg_error 3)) (dc_quorum c)); [inversion H; discriminate|].
  cbn [N.eqb andb] in H.
  destruct (keys_agree (dc_quorum c)) eqn:Ek; cbn [negb] in H; [|inversion H; discriminate].
  unfold keys_agree in Ek.
  rewrite (filter_all (fun x => N.eqb (dp_status (snd x)) (dkg_confirmed 3)) (dc_quorum c)) in Ek.
  2:{ intros x Hx. rewrite (Hall x Hx). apply N.eqb_refl. }
  intros x y Hx Hy.
  destruct (map (fun x => dp_master (snd x)) (dc_quorum c)) as [|k0 ks] eqn:Em.
  - destruct (dc_quorum c); [destruct Hx|discriminate].
  - assert (Hk : forall z, In z (dc_quorum c) -> dp_master (snd z) = k0).
    { intros z Hz. assert (Hin : In (dp_master (snd z)) (k0 :: ks)) by (rewrite <- Em; apply (in_map (fun x => dp_master (snd x))); exact Hz).
      destruct Hin as [<-|Hin]; [reflexivity|].
      pose proof (forallb_all _ _ Ek _ Hin) as E. apply N.eqb_eq in E. symmetry. exact E. }
    rewrite (Hk x Hx), (Hk y Hy). reflexivity.
Qed.

(* an accepted key announcement (the participant becomes confirmed) carries the retained polynomial:
   either nothing was retained yet and it is retained now, or it equals what was retained *)
Theorem accepted_announcement_carries_retained_polynomial p pid key poly created out resp p' c :
  p_dkg p = Some c ->
  dkg_confirm 3 p pid key (Some poly) created = CbOk out resp p' ->
  (exists c' d', p_dkg p' = Some c' /\ qget (dc_quorum c') pid = Some d' /\
     ((dp_status d' = dkg_confirmed 3 /\ dc_pubpoly c' = poly /\ (dc_pubpoly c = 0%N \/ dc_pubpoly c = poly)) \/
      (dp_status d' = dkg_error 3 /\ dc_pubpoly c' = dc_pubpoly c /\ dc_pubpoly c <> poly))).
Proof.
  intros Hc. unfold dkg_confirm. destruct ((pid <? 0)%Z || N.eqb key 0 || is_zero_time created); [discriminate|].
  rewrite Hc. destruct (qget (dc_quorum c) pid) as [d|] eqn:Eq; [|discriminate].
  destruct (negb (N.eqb (dp_status d) (dkg_await 3))); [discriminate|].
  assert (Hset : forall d', qget (qset (dc_quorum c) pid d') pid = Some d').
  { intros d'. clear -Eq. induction (dc_quorum c) as [|[j b] r IH]; cbn [qget qset] in *; [discriminate|].
    destruct (Z.eqb j pid) eqn:E; cbn [qget]; rewrite E; [reflexivity|apply IH; exact Eq]. }
  destruct (N.eqb_spec (dc_pubpoly c) 0) as [E0|E0]; cbn [negb andb].
  - intros H. inversion H; subst. do 2 eexists. unfold set_dkg, dkg_with. cbn [p_dkg dc_quorum dc_pubpoly].
    split; [reflexivity|]. split; [apply Hset|]. left. unfold dkg_set_data. repeat split; auto.
  - destruct (N.eqb_spec (dc_pubpoly c) poly) as [E1|E1]; cbn [negb].
    + intros H. inversion H; subst. do 2 eexists. unfold set_dkg, dkg_with. cbn [p_dkg dc_quorum dc_pubpoly].
      split; [reflexivity|]. split; [apply Hset|]. left. unfold dkg_set_data. repeat split; auto.
    + intros H. inversion H; subst. do 2 eexists. unfold set_dkg, dkg_with. cbn [p_dkg dc_quorum dc_pubpoly].
      split; [reflexivity|]. split; [apply Hset|]. right. repeat split; auto.
Qed.
