(* Payload, requests and responses of the round FSMs: a mirror of
   fsm/state_machines/internal/types.go and fsm/types/{requests,responses}.
   Byte strings are interned tokens (N; 0 = empty or nil); times are seconds relative to the
   harness epoch, TZERO stands for Go's zero time.Time.  Definitions only. *)
From Coq Require Import String List NArith ZArith.
Import ListNotations.

Definition tok := N.
Definition TZERO : Z := (-63835596800)%Z.  (* Go zero time (year 1) relative to the harness epoch 1700000000 *)

Record sig_part := { sp_name : tok; sp_pubkey : tok; sp_dkgpub : tok; sp_status : N;
                     sp_threshold : Z; sp_updated : Z }.
Record sig_conf := { sc_quorum : list (Z * sig_part); sc_created : Z; sc_updated : Z; sc_expires : Z }.

Record dkg_part := { dp_name : tok; dp_dkgpub : tok; dp_commit : tok; dp_deal : tok;
                     dp_response : tok; dp_master : tok; dp_status : N;
                     dp_error : option tok; dp_updated : Z }.
Record dkg_conf := { dc_quorum : list (Z * dkg_part); dc_created : Z; dc_updated : Z;
                     dc_expires : Z; dc_pubpoly : tok }.

Record sgn_part := { gp_name : tok; gp_status : N; gp_signs : list (tok * tok);
                     gp_error : option tok; gp_updated : Z }.
Record sgn_conf := { gc_batch : tok; gc_initiator : Z; gc_quorum : list (Z * sgn_part);
                     gc_src : tok; gc_created : Z; gc_updated : Z; gc_expires : Z }.

Record payload := { p_threshold : Z; p_sig : option sig_conf; p_dkg : option dkg_conf;
                    p_sgn : option sgn_conf; p_pubkeys : list (tok * tok); p_ids : list (tok * Z) }.

Definition empty_payload : payload :=
  {| p_threshold := 0; p_sig := None; p_dkg := None; p_sgn := None; p_pubkeys := []; p_ids := [] |}.

(* participant statuses: the Go iota values *)
Definition SigAwait : N := 0. Definition SigConfirmed : N := 1.
Definition SigDeclined : N := 2. Definition SigError : N := 3.
(* DKG: phase k in 0..3 (commit, deal, response, master key): 3k = await, 3k+1 = confirmed, 3k+2 = error *)
Definition dkg_await (k : N) : N := (3 * k)%N.
Definition dkg_confirmed (k : N) : N := (3 * k + 1)%N.
Definition dkg_error (k : N) : N := (3 * k + 2)%N.
Definition SgnAwait : N := 0. Definition SgnConfirmed : N := 1.
Definition SgnError : N := 2. Definition SgnProcess : N := 3.

Record part_entry := { pe_name : tok; pe_name_len : Z; pe_pk : tok; pe_pk_len : Z;
                       pe_dpk : tok; pe_dpk_len : Z }.
Record task_v := { tv_idlen : Z; tv_paylen : Z; tv_start : Z; tv_end : Z }.

Inductive request :=
| RList (ps : list part_entry) (thr : Z) (created : Z)
| RPart (pid : Z) (created : Z)
| RDefault (created : Z)
| RData (k : N) (pid : Z) (data : tok) (created : Z)     (* commit / deal / response confirmation, phase k *)
| RMaster (pid : Z) (key : tok) (poly : tok) (created : Z)
| RError (pid : Z) (err : option tok) (created : Z)      (* DKGProposalConfirmationErrorRequest *)
| RSigError (pid : Z) (err : option tok) (created : Z) (batch : tok)   (* SignatureProposalConfirmationErrorRequest; batch 0 = the report names no batch (older versions) *)
| RStart (batch : tok) (pid : Z) (created : Z) (tasks : list task_v) (src : tok)
| RPartial (batch : tok) (pid : Z) (signs : list (tok * tok)) (created : Z)
| RBad.                                                  (* the error value returned on a JSON error *)

Inductive response :=
| RespInvitations (l : list (Z * (tok * (Z * (tok * tok)))))   (* pid, name, threshold, dkgpub, pubkey *)
| RespSigStatus (l : list (Z * (tok * N)))
| RespDkgPubKeys (l : list (Z * (tok * (tok * Z))))            (* pid, name, dkgpub, threshold *)
| RespDkgData (k : N) (l : list (Z * (tok * tok)))             (* commits (0) / deals (1) / responses (2) *)
| RespSigningInvite (batch : tok) (initiator : Z) (src : tok) (l : list (Z * (tok * N)))
| RespSigningProcess (batch : tok) (src : tok) (l : list (Z * (tok * list (tok * tok)))).

Inductive cbres :=
| CbOk (out : string) (resp : option response) (p : payload)
| CbErr (p : payload)
| CbPanic.
