(* Facts about the regenerated tables (Gen/Tables.v), by computation, and generic lemmas that
   turn a successful table lookup into a finite case analysis. *)
From Coq Require Import String List NArith ZArith Bool Lia.
Require Import Fsm.EngineDefs Fsm.Types Fsm.Engine Fsm.EngineFacts Fsm.Actions Fsm.Provider.
Require Gen.Tables.
Import ListNotations.
Local Open Scope string_scope.

Lemma slookup_In k l v : slookup k l = Some v -> In (k, v) l.
Proof.
  induction l as [|[a b] r IH]; cbn [slookup]; [discriminate|].
  destruct (String.eqb a k) eqn:E.
  - intros H. inversion H; subst. apply String.eqb_eq in E. subst. auto with datatypes.
  - intros H. auto with datatypes.
Qed.

(* the model of fsm_pool.Init computes the live state map (as a set) *)
Fixpoint incl_b (a b : list (string * string)) : bool :=
  match a with
  | [] => true
  | (k, v) :: r => (match slookup k b with Some v' => String.eqb v v' | None => false end) && incl_b r b
  end.

Lemma pool_states_model_ok :
  incl_b pool_states_model Gen.Tables.pool_states && incl_b Gen.Tables.pool_states pool_states_model = true.
Proof. vm_compute. reflexivity. Qed.

(* the deadlines are whole seconds (the model counts seconds) and seven days *)
Lemma deadlines_ok :
  Gen.Tables.cfg_SigConfirmationDeadline = (604800 * 1000000000)%Z /\
  Gen.Tables.cfg_DkgConfirmationDeadline = (604800 * 1000000000)%Z /\
  Gen.Tables.cfg_SigningConfirmationDeadline = (604800 * 1000000000)%Z.
Proof. repeat split; reflexivity. Qed.

Lemma sig_deadline_val : sig_deadline = 604800%Z. Proof. reflexivity. Qed.
Lemma dkg_deadline_val : dkg_deadline = 604800%Z. Proof. reflexivity. Qed.

(* entry point *)
Lemma entry_machine_ok : Gen.Tables.pool_entry_machine = ft_name Gen.Tables.sigprop_table.
Proof. reflexivity. Qed.

(* every callback the model dispatches on is registered in the live table and vice versa *)
Definition model_cb_events_sig := [ev_sig_init; ev_sig_confirm; ev_sig_decline; ev_sig_validate].
Definition model_cb_events_dkg :=
  ev_dkg_init :: flat_map (fun k => [ev_dkg_confirm k; ev_dkg_error k; ev_dkg_validate k]) [0; 1; 2; 3]%N.
Definition model_cb_events_sgn := [ev_sgn_init; ev_sgn_start; ev_sgn_partial; ev_sgn_validate; ev_sgn_error; ev_sgn_restart].

Definition same_set (a b : list string) : bool :=
  forallb (fun x => mem_str x b) a && forallb (fun x => mem_str x a) b.

Lemma callbacks_registered :
  same_set model_cb_events_sig (ft_callbacks Gen.Tables.sigprop_table) &&
  same_set model_cb_events_dkg (ft_callbacks Gen.Tables.dkgprop_table) &&
  same_set model_cb_events_sgn (ft_callbacks Gen.Tables.signing_table) = true.
Proof. vm_compute. reflexivity. Qed.
