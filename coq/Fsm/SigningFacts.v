(* C06: the signing FSM's counting rules. *)
From Coq Require Import String List NArith ZArith Bool Lia.
Require Import Fsm.EngineDefs Fsm.Types Fsm.Engine Fsm.EngineFacts Fsm.Actions Fsm.Provider Fsm.RejectNoop.
Require Gen.Tables.
Import ListNotations.
Local Open Scope Z_scope.

(* the automatic validation after each accepted signing event *)
Theorem sgn_validate_spec ev p req g :
  p_sgn p = Some g ->
  let n := Z.of_nat (length (gc_quorum g)) in
  let confirmed := count_status SgnConfirmed (gc_quorum g) in
  let failed := count_status SgnError (gc_quorum g) in
  exists out resp p',
    action_sgn_validate ev p req = CbOk out resp p' /\
    (out = ev_sgn_confirmed <->
       expired (gc_expires g) (gc_updated g) = false /\ failed <= n - p_threshold p /\ p_threshold p <= confirmed) /\
    (out = ev_sgn_cancel_error <->
       expired (gc_expires g) (gc_updated g) = false /\ n - p_threshold p < failed).
Proof.
  intros Hg n confirmed failed. unfold action_sgn_validate. rewrite Hg.
  fold n. fold failed. fold confirmed.
  destruct (expired (gc_expires g) (gc_updated g)) eqn:Ee.
  - do 3 eexists. split; [reflexivity|]. split; split; intros H; try discriminate; destruct H; discriminate.
  - destruct (n - p_threshold p <? failed) eqn:E1.
    + apply Z.ltb_lt in E1. do 3 eexists. split; [reflexivity|].
      split; split; intros H; try discriminate; try (split; [reflexivity|lia]); try reflexivity.
      destruct H as (_ & H & _). lia.
    + apply Z.ltb_ge in E1.
      destruct (n - p_threshold p <? n - confirmed) eqn:E2.
      * apply Z.ltb_lt in E2. do 3 eexists. split; [reflexivity|].
        split; split; intros H; try discriminate; destruct H as (_ & H); lia.
      * apply Z.ltb_ge in E2. do 3 eexists. split; [reflexivity|].
        split; split; intros H; try discriminate; try reflexivity.
        -- split; [reflexivity|lia].
        -- destruct H as (_ & H). lia.
Qed.

Lemma count_qset_confirm (q : list (Z * sgn_part)) pid part part' :
  qget q pid = Some part -> gp_status part = SgnAwait -> gp_status part' = SgnConfirmed ->
  count_status SgnConfirmed (qset q pid part') = count_status SgnConfirmed q + 1 /\
  count_status SgnError (qset q pid part') = count_status SgnError q /\
  length (qset q pid part') = length q.
Proof.
  unfold count_status. induction q as [|[j b] r IH]; cbn [qget qset]; [discriminate|].
  destruct (j =? pid) eqn:E.
  - intros H Ha Hc. inversion H; subst. cbn [filter snd length]. rewrite Ha, Hc. cbn. repeat split; lia.
  - intros H Ha Hc. specialize (IH H Ha Hc). destruct IH as (I1 & I2 & I3).
    cbn [filter snd length]. destruct (N.eqb (gp_status b) SgnConfirmed); destruct (N.eqb (gp_status b) SgnError);
      cbn [length]; repeat split; lia.
Qed.

(* a partial signature is only ever accepted for the batch being signed, from a participant of
   the quorum that is still awaited; it is then counted exactly once *)
Theorem partial_accept_spec ev p batch pid signs created out resp p' :
  action_sgn_partial ev p (RPartial batch pid signs created) = CbOk out resp p' ->
  exists g part g', p_sgn p = Some g /\ batch = gc_batch g /\ batch <> 0%N /\
                 qget (gc_quorum g) pid = Some part /\ gp_status part = SgnAwait /\
                 p_sgn p' = Some g' /\ gc_batch g' = gc_batch g /\
                 count_status SgnConfirmed (gc_quorum g') = count_status SgnConfirmed (gc_quorum g) + 1 /\
                 count_status SgnError (gc_quorum g') = count_status SgnError (gc_quorum g) /\
                 length (gc_quorum g') = length (gc_quorum g) /\ p_threshold p' = p_threshold p.
Proof.
  unfold action_sgn_partial.
  destruct (N.eqb batch 0) eqn:E0; [discriminate|]. cbn [orb].
  destruct (_ || _ || _ || _); [discriminate|].
  destruct (p_sgn p) as [g|] eqn:Eg; [|discriminate].
  destruct (negb (N.eqb batch (gc_batch g))) eqn:Eb; [discriminate|].
  destruct (qget (gc_quorum g) pid) as [part|] eqn:Eq; [|discriminate].
  destruct (negb (N.eqb (gp_status part) SgnAwait)) eqn:Es; [discriminate|].
  apply negb_false_iff in Eb. apply N.eqb_eq in Eb.
  apply negb_false_iff in Es. apply N.eqb_eq in Es. apply N.eqb_neq in E0.
  unfold set_sig_updated, set_sgn. cbn [p_sig].
  destruct (p_sig p); [|discriminate].
  intros H. inversion H; subst. cbn [p_sgn p_threshold gc_quorum gc_batch].
  destruct (count_qset_confirm (gc_quorum g) pid part
              {| gp_name := gp_name part; gp_status := SgnConfirmed;
                 gp_signs := fold_left (fun acc s => tput acc (fst s) (snd s)) signs (gp_signs part);
                 gp_error := gp_error part; gp_updated := created |} Eq Es eq_refl) as (C1 & C2 & C3).
  do 3 eexists. repeat split; try eassumption; try reflexivity; auto.
Qed.

(* after a batch is collected or cancelled only a restart is routed, and it returns to idle *)
Local Open Scope string_scope.
Lemma finished_batch_only_restart :
  forallb (fun s => forallb (fun tr => negb (String.eqb (t_src tr) s) ||
                                       (String.eqb (t_ev tr) ev_sgn_restart && String.eqb (t_dst tr) "stage_signing_idle"))
                            (ft_transitions Gen.Tables.signing_table))
          ["state_signing_partial_signs_collected"; "state_signing_partial_signs_await_cancelled_by_error";
           "state_signing_partial_signs_await_cancelled_by_timeout"] = true.
Proof. vm_compute. reflexivity. Qed.

(* in idle only a proposal is routed *)
Lemma idle_only_start :
  forallb (fun tr => negb (String.eqb (t_src tr) "stage_signing_idle") ||
                     (String.eqb (t_ev tr) ev_sgn_start && String.eqb (t_dst tr) "state_signing_await_partial_signs"))
          (ft_transitions Gen.Tables.signing_table) = true.
Proof. vm_compute. reflexivity. Qed.
