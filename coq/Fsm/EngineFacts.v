(* Generic facts about the engine (any table, any callbacks): after Do the machine state is at
   most three table hops away from where it was, and a successful Do reports the machine state. *)
From Coq Require Import String List NArith ZArith Bool Lia.
Require Import Fsm.EngineDefs Fsm.Types Fsm.Engine.
Import ListNotations.
Local Open Scope string_scope.

Definition hop (t : ftable) (s s' : string) : Prop :=
  exists tr, In tr (ft_transitions t) /\ t_src tr = s /\ t_dst tr = s'.
Definition hop0 (t : ftable) (s s' : string) : Prop := s' = s \/ hop t s s'.

Lemma find_trans_In ts s e tr :
  find_trans ts s e = Some tr -> In tr ts /\ t_src tr = s /\ t_ev tr = e.
Proof.
  induction ts as [|t r IH]; cbn [find_trans]; [discriminate|].
  destruct (String.eqb (t_src t) s && String.eqb (t_ev t) e) eqn:E.
  - intros H. inversion H; subst. apply andb_prop in E as [E1 E2].
    apply String.eqb_eq in E1. apply String.eqb_eq in E2. auto with datatypes.
  - intros H. destruct (IH H) as (Hin & Hs & He). auto with datatypes.
Qed.

Lemma set_state_hop t cur e dst : set_state t cur e = Some dst -> hop t cur dst.
Proof.
  unfold set_state. destruct (find_trans (ft_transitions t) cur e) as [tr|] eqn:E; [|discriminate].
  intros H. inversion H; subst. apply find_trans_In in E as (Hin & Hs & _).
  exists tr. auto.
Qed.

Lemma process_auto_hop t cb m cur p req out data err cur' p' :
  process_auto t cb m cur p req = AutoRes out data err cur' p' -> hop0 t cur cur'.
Proof.
  unfold process_auto. destruct (find_auto (ft_auto t) cur m) as [aev|]; [|discriminate].
  destruct (mem_str aev (ft_callbacks t)).
  - destruct (cb aev p req) as [o d q|q|]; try discriminate.
    + destruct (set_state t cur _) as [dst|] eqn:E; intros H; inversion H; subst.
      * right. eapply set_state_hop; eassumption.
      * left; reflexivity.
    + intros H; inversion H; subst. left; reflexivity.
  - destruct (set_state t cur _) as [dst|] eqn:E; intros H; inversion H; subst.
    + right. eapply set_state_hop; eassumption.
    + left; reflexivity.
Qed.

Lemma process_auto_ok_state t cb m cur p req out data cur' p' :
  process_auto t cb m cur p req = AutoRes out data false cur' p' -> hop t cur cur'.
Proof.
  unfold process_auto. destruct (find_auto (ft_auto t) cur m) as [aev|]; [|discriminate].
  destruct (mem_str aev (ft_callbacks t)).
  - destruct (cb aev p req) as [o d q|q|]; try discriminate.
    destruct (set_state t cur _) as [dst|] eqn:E; intros H; inversion H; subst.
    eapply set_state_hop; eassumption.
  - destruct (set_state t cur _) as [dst|] eqn:E; intros H; inversion H; subst.
    eapply set_state_hop; eassumption.
Qed.

Definition hops3 (t : ftable) (s s' : string) : Prop :=
  exists a b, hop0 t s a /\ hop0 t a b /\ hop0 t b s'.

Theorem fsm_do_hops t cb cur p ev req cur' rs rd err p' :
  fsm_do t cb cur p ev req = DoRes cur' rs rd err p' -> hops3 t cur cur'.
Proof.
  unfold fsm_do.
  destruct (find_trans (ft_transitions t) cur ev) as [tr|]; [|discriminate].
  destruct (t_internal tr); [discriminate|].
  destruct (process_auto t cb 1 cur p req) as [|o1 d1 e1 c1 p1|] eqn:Eb; [| |discriminate].
  - (* no before-auto *)
    assert (Hm : forall main,
      match main with
      | Some (inl (out, rdata1, p2)) =>
          match set_state t cur (if (out =? "") || (t_ev tr =? out) then t_ev tr else out) with
          | Some cur2 =>
              match process_auto t cb 2 cur2 p2 req with
              | AutoNone => DoRes cur2 cur2 rdata1 false p2
              | AutoRes _ data err0 cur3 p3 => DoRes cur3 cur3 (or_data rdata1 data) err0 p3
              | AutoPanic => DoPanic
              end
          | None => DoRes cur "" rdata1 true p2
          end
      | Some (inr p2) => DoRes cur "" None true p2
      | None => DoPanic
      end = DoRes cur' rs rd err p' -> hops3 t cur cur').
    { intros [[[[out rd1] p2]|p2]|]; [| |discriminate].
      - destruct (set_state t cur _) as [cur2|] eqn:Es.
        + apply set_state_hop in Es.
          destruct (process_auto t cb 2 cur2 p2 req) as [|o3 d3 e3 c3 p3|] eqn:Ea; [| |discriminate].
          * intros H; injection H as Hc _ _ _ _; subst cur'.
            exists cur, cur2. repeat split; [left; reflexivity|right; exact Es|left; reflexivity].
          * apply process_auto_hop in Ea. intros H; injection H as Hc _ _ _ _; subst cur'.
            exists cur, cur2. repeat split; [left; reflexivity|right; exact Es|exact Ea].
        + intros H; injection H as Hc _ _ _ _; subst cur'. exists cur, cur. repeat split; left; reflexivity.
      - intros H; injection H as Hc _ _ _ _; subst cur'. exists cur, cur. repeat split; left; reflexivity. }
    destruct (mem_str (t_ev tr) (ft_callbacks t)).
    + destruct (cb (t_ev tr) p req) as [o d q|q|]; intros H.
      * apply (Hm (Some (inl (o, d, q)))). exact H.
      * apply (Hm (Some (inr q))). exact H.
      * discriminate.
    + intros H. apply (Hm (Some (inl ("", None, p)))). exact H.
  - (* a before-auto ran *)
    pose proof (process_auto_hop _ _ _ _ _ _ _ _ _ _ _ Eb) as Hb.
    destruct e1.
    + intros H; injection H as Hc _ _ _ _; subst cur'.
      exists cur, cur. repeat split; [left; reflexivity|left; reflexivity|exact Hb].
    + assert (Hm : forall main,
        match main with
        | Some (inl (out, rdata1, p2)) =>
            match set_state t c1 (if (out =? "") || (t_ev tr =? out) then t_ev tr else out) with
            | Some cur2 =>
                match process_auto t cb 2 cur2 p2 req with
                | AutoNone => DoRes cur2 cur2 rdata1 false p2
                | AutoRes _ data err0 cur3 p3 => DoRes cur3 cur3 (or_data rdata1 data) err0 p3
                | AutoPanic => DoPanic
                end
            | None => DoRes c1 c1 rdata1 true p2
            end
        | Some (inr p2) => DoRes c1 c1 None true p2
        | None => DoPanic
        end = DoRes cur' rs rd err p' -> hops3 t cur cur').
      { intros [[[[out rd1] p2]|p2]|]; [| |discriminate].
        - destruct (set_state t c1 _) as [cur2|] eqn:Es.
          + apply set_state_hop in Es.
            destruct (process_auto t cb 2 cur2 p2 req) as [|o3 d3 e3 c3 p3|] eqn:Ea; [| |discriminate].
            * intros H; injection H as Hc _ _ _ _; subst cur'.
              exists c1, cur2. repeat split; [exact Hb|right; exact Es|left; reflexivity].
            * apply process_auto_hop in Ea. intros H; injection H as Hc _ _ _ _; subst cur'.
              exists c1, cur2. repeat split; [exact Hb|right; exact Es|exact Ea].
          + intros H; injection H as Hc _ _ _ _; subst cur'. exists c1, c1. repeat split; [exact Hb|left|left]; reflexivity.
        - intros H; injection H as Hc _ _ _ _; subst cur'. exists c1, c1. repeat split; [exact Hb|left|left]; reflexivity. }
      destruct (mem_str (t_ev tr) (ft_callbacks t)).
      * destruct (cb (t_ev tr) p1 req) as [o d q|q|]; intros H.
        -- apply (Hm (Some (inl (o, d, q)))). exact H.
        -- apply (Hm (Some (inr q))). exact H.
        -- discriminate.
      * intros H. apply (Hm (Some (inl (o1, d1, p1)))). exact H.
Qed.

(* a set of states closed under the table's transitions is closed under Do *)
Definition closed_b (t : ftable) (S : list string) : bool :=
  forallb (fun tr => negb (mem_str (t_src tr) S) || mem_str (t_dst tr) S) (ft_transitions t).

Lemma mem_str_In x l : mem_str x l = true <-> In x l.
Proof.
  induction l as [|y r IH]; cbn [mem_str]; [split; [discriminate|contradiction]|].
  rewrite orb_true_iff, IH, String.eqb_eq. cbn. intuition congruence.
Qed.

Lemma closed_hop0 t S s s' : closed_b t S = true -> In s S -> hop0 t s s' -> In s' S.
Proof.
  intros Hc Hs [->|(tr & Hin & Hsrc & Hdst)]; [exact Hs|].
  unfold closed_b in Hc. rewrite forallb_forall in Hc. specialize (Hc tr Hin).
  apply orb_true_iff in Hc as [Hc|Hc].
  - apply negb_true_iff in Hc. subst s. apply mem_str_In in Hs. congruence.
  - subst s'. apply mem_str_In. exact Hc.
Qed.

Theorem fsm_do_closed t cb S cur p ev req cur' rs rd err p' :
  closed_b t S = true -> In cur S ->
  fsm_do t cb cur p ev req = DoRes cur' rs rd err p' -> In cur' S.
Proof.
  intros Hc Hs H. apply fsm_do_hops in H as (a & b & H1 & H2 & H3).
  eapply closed_hop0; [exact Hc| |exact H3].
  eapply closed_hop0; [exact Hc| |exact H2].
  eapply closed_hop0; [exact Hc|exact Hs|exact H1].
Qed.

(* a successful Do reports the state the machine is in *)
Theorem fsm_do_ok_rstate t cb cur p ev req cur' rs rd p' :
  fsm_do t cb cur p ev req = DoRes cur' rs rd false p' -> rs = cur'.
Proof.
  unfold fsm_do.
  destruct (find_trans (ft_transitions t) cur ev) as [tr|]; [|discriminate].
  destruct (t_internal tr); [discriminate|].
  assert (Hm : forall c1 rstate0 main,
    match main with
    | Some (inl (out, rdata1, p2)) =>
        match set_state t c1 (if (out =? "") || (t_ev tr =? out) then t_ev tr else out) with
        | Some cur2 =>
            match process_auto t cb 2 cur2 p2 req with
            | AutoNone => DoRes cur2 cur2 rdata1 false p2
            | AutoRes _ data err0 cur3 p3 => DoRes cur3 cur3 (or_data rdata1 data) err0 p3
            | AutoPanic => DoPanic
            end
        | None => DoRes c1 rstate0 rdata1 true p2
        end
    | Some (inr p2) => DoRes c1 rstate0 None true p2
    | None => DoPanic
    end = DoRes cur' rs rd false p' -> rs = cur').
  { intros c1 rstate0 [[[[out rd1] p2]|p2]|]; [| |discriminate].
    - destruct (set_state t c1 _) as [cur2|]; [|discriminate].
      destruct (process_auto t cb 2 cur2 p2 req) as [|o3 d3 e3 c3 p3|]; [| |discriminate];
        intros H; congruence.
    - discriminate. }
  destruct (process_auto t cb 1 cur p req) as [|o1 d1 e1 c1 p1|]; [| |discriminate].
  - destruct (mem_str (t_ev tr) (ft_callbacks t)).
    + destruct (cb (t_ev tr) p req) as [o d q|q|]; intros H.
      * apply (Hm cur "" (Some (inl (o, d, q)))). exact H.
      * discriminate.
      * discriminate.
    + intros H. apply (Hm cur "" (Some (inl ("", None, p)))). exact H.
  - destruct e1; [discriminate|].
    destruct (mem_str (t_ev tr) (ft_callbacks t)).
    + destruct (cb (t_ev tr) p1 req) as [o d q|q|]; intros H.
      * apply (Hm c1 c1 (Some (inl (o, d, q)))). exact H.
      * discriminate.
      * discriminate.
    + intros H. apply (Hm c1 c1 (Some (inl (o1, d1, p1)))). exact H.
Qed.
