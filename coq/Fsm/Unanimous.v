(* C05 (1): unanimity and order.  A phase is left towards the next one only when EVERY participant
   has confirmed it (callbacks), and the regenerated tables leave no way from the entry state to
   signing-ready that avoids any of the phases or takes them in another order (graph check by
   computation on Gen.Tables, re-done on every run). *)
From Coq Require Import String List NArith ZArith Bool Lia.
Require Import Fsm.EngineDefs Fsm.Types Fsm.Engine Fsm.Actions Fsm.Provider.
Require Gen.Tables.
Import ListNotations.
Local Open Scope string_scope.

Lemma existsb_false_forall {A} (f : A -> bool) l : existsb f l = false -> forall x, In x l -> f x = false.
Proof.
  induction l as [|a l IH]; intros H x Hx; [destruct Hx|]. cbn in H. apply orb_false_iff in H as [Ha Hl].
  destruct Hx as [<-|Hx]; auto.
Qed.

(* the proposal is validated only when every invited participant has accepted *)
Theorem sig_validated_unanimous ev p req resp p' :
  action_sig_validate ev p req = CbOk ev_sig_set_validated resp p' ->
  exists conf, p_sig p = Some conf /\ forall x, In x (sc_quorum conf) -> sp_status (snd x) = SigConfirmed.
Proof.
  unfold action_sig_validate. destruct (p_sig p) as [conf|]; [|discriminate].
  destruct (expired _ _); [intros H; inversion H; discriminate|].
  destruct (existsb (fun x => N.eqb (sp_status (snd x)) SigDeclined) (sc_quorum conf)); [intros H; inversion H; discriminate|].
  destruct (existsb (fun x => negb (N.eqb (sp_status (snd x)) SigConfirmed)) (sc_quorum conf)) eqn:E; [intros H; inversion H; discriminate|].
  intros _. exists conf. split; [reflexivity|]. intros x Hx.
  pose proof (existsb_false_forall _ _ E x Hx) as Hf. apply negb_false_iff in Hf. apply N.eqb_eq in Hf. exact Hf.
Qed.

(* DKG phase k (commits, deals, responses, master keys) is confirmed only when every participant
   of the quorum has confirmed it *)
Theorem dkg_phase_confirmed_unanimous k ev p req resp p' :
  (k < 4)%N ->
  action_dkg_validate k ev p req = CbOk (ev_dkg_confirmed k) resp p' ->
  exists c, p_dkg p = Some c /\ forall x, In x (dc_quorum c) -> dp_status (snd x) = dkg_confirmed k.
Proof.
  intros Hk. unfold action_dkg_validate. destruct (p_dkg p) as [c|]; [|discriminate].
  assert (Hc : k = 0%N \/ k = 1%N \/ k = 2%N \/ k = 3%N) by lia.
  destruct (expired _ _); [intros H; inversion H as [[He _ _]]; destruct Hc as [E|[E|[E|E]]]; subst k; discriminate He|].
  destruct (existsb (fun x => N.eqb (dp_status (snd x)) (dkg_error k)) (dc_quorum c));
    [intros H; inversion H as [[He _ _]]; destruct Hc as [E|[E|[E|E]]]; subst k; discriminate He|].
  destruct (N.eqb k 3 && negb (keys_agree (dc_quorum c)));
    [intros H; inversion H as [[He _ _]]; destruct Hc as [E1|[E1|[E1|E1]]]; subst k; discriminate He|].
  destruct (existsb (fun x => negb (N.eqb (dp_status (snd x)) (dkg_confirmed k))) (dc_quorum c)) eqn:E;
    [intros H; inversion H as [[He _ _]]; destruct Hc as [E1|[E1|[E1|E1]]]; subst k; discriminate He|].
  intros _. exists c. split; [reflexivity|]. intros x Hx.
  pose proof (existsb_false_forall _ _ E x Hx) as Hf. apply negb_false_iff in Hf. apply N.eqb_eq in Hf. exact Hf.
Qed.

(* ---- order: the state graph of the three regenerated tables ---- *)
Definition all_transitions : list trans :=
  ft_transitions Gen.Tables.sigprop_table ++ ft_transitions Gen.Tables.dkgprop_table ++ ft_transitions Gen.Tables.signing_table.

Definition succs (avoid : string) (s : string) : list string :=
  map t_dst (filter (fun tr => String.eqb (t_src tr) s && negb (String.eqb (t_dst tr) avoid)) all_transitions).

Fixpoint bfs (fuel : nat) (avoid : string) (frontier visited : list string) : list string :=
  match fuel with
  | O => visited
  | S f =>
      let next := filter (fun s => negb (mem_str s visited)) (flat_map (succs avoid) frontier) in
      match next with
      | [] => visited
      | _ => bfs f avoid next (visited ++ next)
      end
  end.
(* can `dst` be reached from `src` without ever entering `avoid` *)
Definition reach_avoiding (avoid src dst : string) : bool :=
  negb (String.eqb src avoid) && mem_str dst (bfs 64 avoid [src] [src]).

Definition phase_order : list string :=
  [ "state_sig_proposal_await_participants_confirmations"; "state_sig_proposal_collected";
    "state_dkg_commits_await_confirmations"; "state_dkg_deals_await_confirmations";
    "state_dkg_responses_await_confirmations"; "state_dkg_master_key_await_confirmations";
    "state_dkg_master_key_collected" ].

Fixpoint consecutive (l : list string) : list (string * string) :=
  match l with a :: (b :: _) as r => (a, b) :: consecutive r | _ => [] end.

(* signing-ready is reachable; it is not reachable around any phase; no phase is reachable around
   its predecessor: the phases are passed, all of them, in this order *)
Theorem phases_in_order :
  reach_avoiding "" "__idle" "stage_signing_idle" = true /\
  forallb (fun s => negb (reach_avoiding s "__idle" "stage_signing_idle")) phase_order = true /\
  forallb (fun ab => negb (reach_avoiding (fst ab) "__idle" (snd ab))) (consecutive phase_order) = true /\
  (* once signing-ready, no key-generation state is reachable again *)
  forallb (fun s => negb (reach_avoiding "" "stage_signing_idle" s)) phase_order = true.
Proof. vm_compute. repeat split. Qed.
