(* C05 (2): a cancelled key-generation round stays cancelled, whatever arrives. *)
From Coq Require Import String List NArith ZArith Bool Lia.
Require Import Fsm.EngineDefs Fsm.Types Fsm.Engine Fsm.EngineFacts Fsm.Actions Fsm.Provider Fsm.Handover Fsm.TableFacts.
Require Gen.Tables.
Import ListNotations.
Local Open Scope string_scope.

(* cancelled rounds in a final state of their machine (no transition leaves them) *)
Definition dead_states : list string :=
  [ "state_sig_proposal_canceled_by_participant"; "state_sig_proposal_canceled_by_timeout";
    "state_dkg_commits_await_canceled_by_timeout"; "state_dkg_deals_await_canceled_by_timeout";
    "state_dkg_responses_sending_canceled_by_timeout"; "state_dkg_master_key_await_canceled_by_timeout" ].
(* cancelled by a reported error: owned by the DKG machine, only error reports are still routed *)
Definition error_states : list string :=
  [ "state_dkg_commits_await_canceled_by_error"; "state_dkg_deals_await_canceled_by_error";
    "state_dkg_responses_await_canceled_by_error"; "state_dkg_master_key_await_canceled_by_error" ].
Definition cancelled_states : list string := dead_states ++ error_states.

(* every cancelled state is owned by a machine whose table never leaves it *)
Lemma cancelled_states_owner :
  forallb (fun s => match machine_by_state s with
                    | Some t => closed_b t [s] && copy_with_state_ok t s && negb (String.eqb s "") &&
                                match table_by_name (ft_name t) with
                                | Some t' => closed_b t' [s]
                                | None => false
                                end
                    | None => false end) cancelled_states = true.
Proof. vm_compute. reflexivity. Qed.

Lemma do_on_cancelled s p ev req d' rs rd :
  In s cancelled_states ->
  do_on_dump {| d_state := s; d_payload := p |} ev req = SOk d' rs rd ->
  d_state d' = s /\ rs = s.
Proof.
  intros Hin H.
  pose proof cancelled_states_owner as Ho. rewrite forallb_forall in Ho. specialize (Ho s Hin).
  unfold do_on_dump, from_dump in H. cbn [d_state d_payload] in H.
  destruct (machine_by_state s) as [t|] eqn:Em; [|discriminate].
  apply andb_prop in Ho as [Ho Htab]. apply andb_prop in Ho as [Ho Hne]. apply andb_prop in Ho as [_ Hcopy].
  apply negb_true_iff in Hne.
  rewrite Hcopy, Hne in H.
  rewrite (inst_do_owner _ t) in H by (cbn; first [exact Em|reflexivity]).
  unfold inst_do_core in H. cbn [i_mach i_cur i_payload i_dstate] in H.
  destruct (table_by_name (ft_name t)) as [t'|]; [|discriminate].
  destruct (fsm_do t' _ s p ev req) as [|cur' rs' rd' err p'|] eqn:Ed;
    [discriminate| |discriminate].
  destruct err; [discriminate|].
  pose proof (fsm_do_ok_rstate _ _ _ _ _ _ _ _ _ _ Ed) as Hrs.
  pose proof (fsm_do_closed _ _ [s] _ _ _ _ _ _ _ _ _ Htab (or_introl eq_refl) Ed) as Hc.
  destruct Hc as [Hc|[]]. subst cur' rs'.
  inversion H; subst. cbn. split; reflexivity.
Qed.

Lemma cancelled_no_handover s : In s cancelled_states ->
  String.eqb s st_collected = false /\ String.eqb s st_master_collected = false /\
  String.eqb s st_partial_collected = false.
Proof.
  intros H. cbn in H. repeat (destruct H as [<-|H]; [repeat split; reflexivity|]). contradiction.
Qed.

(* whatever event, request and wall-clock time: a cancelled round is either left untouched
   (rejected) or persisted in the same cancelled state *)
Theorem cancel_final_step now s p ev req d' rs rd :
  In s cancelled_states ->
  round_step now {| d_state := s; d_payload := p |} ev req = SOk d' rs rd ->
  d_state d' = s.
Proof.
  intros Hin H. unfold round_step in H.
  destruct (do_on_dump {| d_state := s; d_payload := p |} ev req) as [d1 r1 x1| |] eqn:E1; try discriminate.
  destruct (do_on_cancelled _ _ _ _ _ _ _ Hin E1) as [Hs Hr]. subst r1.
  destruct (cancelled_no_handover s Hin) as (H1 & H2 & H3).
  rewrite H1, H2, H3 in H. injection H as Hd _ _. rewrite <- Hd. exact Hs.
Qed.

(* every history: once cancelled, no continuation is ever signing-ready *)
Fixpoint run_round (d : dump) (tr : list (Z * string * request)) : dump :=
  match tr with
  | [] => d
  | (now, ev, req) :: r =>
      match round_step now d ev req with
      | SOk d' _ _ => run_round d' r
      | _ => run_round d r
      end
  end.

Theorem cancel_final d tr :
  In (d_state d) cancelled_states -> d_state (run_round d tr) = d_state d.
Proof.
  revert d. induction tr as [|[[now ev] req] tr IH]; intros d Hin; [reflexivity|].
  cbn [run_round].
  destruct (round_step now d ev req) as [d' rs rd| |] eqn:E; try (apply IH; exact Hin).
  destruct d as [s p]. cbn [d_state] in *.
  pose proof (cancel_final_step _ _ _ _ _ _ _ _ Hin E) as Hs.
  rewrite IH; rewrite Hs; [reflexivity|exact Hin].
Qed.
