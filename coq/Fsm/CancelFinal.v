(* C05 (2): a cancelled key-generation round stays cancelled, whatever arrives. *)
From Coq Require Import String List NArith ZArith Bool Lia.
Require Import Fsm.EngineDefs Fsm.Types Fsm.Engine Fsm.EngineFacts Fsm.Actions Fsm.Provider Fsm.TableFacts.
Require Gen.Tables.
Import ListNotations.
Local Open Scope string_scope.

(* cancelled rounds that cannot even be restored (no machine owns the state) *)
Definition dead_states : list string :=
  [ "state_sig_proposal_canceled_by_participant"; "state_sig_proposal_canceled_by_timeout";
    "state_dkg_commits_await_canceled_by_timeout"; "state_dkg_deals_await_canceled_by_timeout";
    "state_dkg_responses_sending_canceled_by_timeout"; "state_dkg_master_key_await_canceled_by_timeout" ].
(* cancelled by a reported error: owned by the DKG machine, only error reports are still routed *)
Definition error_states : list string :=
  [ "state_dkg_commits_await_canceled_by_error"; "state_dkg_deals_await_canceled_by_error";
    "state_dkg_responses_await_canceled_by_error"; "state_dkg_master_key_await_canceled_by_error" ].
Definition cancelled_states : list string := dead_states ++ error_states.

Lemma dead_not_loadable :
  forallb (fun s => match machine_by_state s with None => true | Some _ => false end) dead_states = true.
Proof. vm_compute. reflexivity. Qed.

Lemma error_states_owner :
  forallb (fun s => match machine_by_state s with
                    | Some t => String.eqb (ft_name t) (ft_name Gen.Tables.dkgprop_table) &&
                                closed_b Gen.Tables.dkgprop_table [s] && copy_with_state_ok t s &&
                                negb (String.eqb s "")
                    | None => false end) error_states = true.
Proof. vm_compute. reflexivity. Qed.

Lemma table_by_name_dkg : table_by_name (ft_name Gen.Tables.dkgprop_table) = Some Gen.Tables.dkgprop_table.
Proof. reflexivity. Qed.

Lemma do_on_cancelled s p ev req d' rs rd :
  In s cancelled_states ->
  do_on_dump {| d_state := s; d_payload := p |} ev req = SOk d' rs rd ->
  d_state d' = s /\ rs = s.
Proof.
  intros Hin H. unfold cancelled_states in Hin. apply in_app_or in Hin as [Hd|He].
  - pose proof dead_not_loadable as Hn. rewrite forallb_forall in Hn. specialize (Hn s Hd).
    unfold do_on_dump, from_dump in H. cbn [d_state] in H.
    destruct (machine_by_state s); [discriminate|discriminate].
  - pose proof error_states_owner as Ho. rewrite forallb_forall in Ho. specialize (Ho s He).
    unfold do_on_dump, from_dump in H. cbn [d_state d_payload] in H.
    destruct (machine_by_state s) as [t|]; [|discriminate].
    apply andb_prop in Ho as [Ho Hne]. apply andb_prop in Ho as [Ho Hcopy].
    apply andb_prop in Ho as [Hname Hclosed].
    apply String.eqb_eq in Hname. apply negb_true_iff in Hne.
    rewrite Hcopy, Hne in H. unfold inst_do in H. cbn [i_mach i_cur i_payload i_dstate] in H.
    rewrite Hname, table_by_name_dkg in H.
    destruct (fsm_do Gen.Tables.dkgprop_table _ s p ev req) as [|cur' rs' rd' err p'|] eqn:Ed;
      [discriminate| |discriminate].
    destruct err; [discriminate|].
    pose proof (fsm_do_ok_rstate _ _ _ _ _ _ _ _ _ _ Ed) as Hrs.
    pose proof (fsm_do_closed _ _ [s] _ _ _ _ _ _ _ _ _ Hclosed (or_introl eq_refl) Ed) as Hc.
    destruct Hc as [Hc|[]]. subst cur' rs'.
    inversion H; subst. cbn. split; reflexivity.
Qed.

Lemma cancelled_no_handover s : In s cancelled_states ->
  String.eqb s st_collected = false /\ String.eqb s st_master_collected = false /\
  String.eqb s st_partial_collected = false.
Proof.
  intros H. cbn in H. repeat (destruct H as [<-|H]; [repeat split; reflexivity|]). contradiction.
Qed.

(* whatever event, request and wall-clock time: a cancelled round is either left untouched
   (rejected) or persisted in the same cancelled state *)
Theorem cancel_final_step now s p ev req d' rs rd :
  In s cancelled_states ->
  round_step now {| d_state := s; d_payload := p |} ev req = SOk d' rs rd ->
  d_state d' = s.
Proof.
  intros Hin H. unfold round_step in H.
  destruct (do_on_dump {| d_state := s; d_payload := p |} ev req) as [d1 r1 x1| |] eqn:E1; try discriminate.
  destruct (do_on_cancelled _ _ _ _ _ _ _ Hin E1) as [Hs Hr]. subst r1.
  destruct (cancelled_no_handover s Hin) as (H1 & H2 & H3).
  rewrite H1, H2, H3 in H. injection H as Hd _ _. rewrite <- Hd. exact Hs.
Qed.

(* every history: once cancelled, no continuation is ever signing-ready *)
Fixpoint run_round (d : dump) (tr : list (Z * string * request)) : dump :=
  match tr with
  | [] => d
  | (now, ev, req) :: r =>
      match round_step now d ev req with
      | SOk d' _ _ => run_round d' r
      | _ => run_round d r
      end
  end.

Theorem cancel_final d tr :
  In (d_state d) cancelled_states -> d_state (run_round d tr) = d_state d.
Proof.
  revert d. induction tr as [|[[now ev] req] tr IH]; intros d Hin; [reflexivity|].
  cbn [run_round].
  destruct (round_step now d ev req) as [d' rs rd| |] eqn:E; try (apply IH; exact Hin).
  destruct d as [s p]. cbn [d_state] in *.
  pose proof (cancel_final_step _ _ _ _ _ _ _ _ Hin E) as Hs.
  rewrite IH; rewrite Hs; [reflexivity|exact Hin].
Qed.
