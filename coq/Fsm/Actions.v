(* Model of the callbacks in fsm/state_machines/{signature,dkg,signing}_proposal_fsm/actions.go
   and of the request validators.  The four DKG phases are one generic phase indexed by
   k in {0 commit, 1 deal, 2 response, 3 master key}.  Definitions only. *)
From Coq Require Import String List NArith ZArith Bool.
Require Import Fsm.EngineDefs Fsm.Types Fsm.Engine.
Require Gen.Tables.
Import ListNotations.
Local Open Scope Z_scope.

(* ---- association lists keyed by participant id (Go: map[int]*Participant) ---- *)
Fixpoint qget {A} (q : list (Z * A)) (i : Z) : option A :=
  match q with [] => None | (j, a) :: r => if j =? i then Some a else qget r i end.
Fixpoint qset {A} (q : list (Z * A)) (i : Z) (a : A) : list (Z * A) :=
  match q with [] => [] | (j, b) :: r => if j =? i then (j, a) :: r else (j, b) :: qset r i a end.
Definition qmap {A B} (f : A -> B) (q : list (Z * A)) : list (Z * B) :=
  map (fun x => (fst x, f (snd x))) q.
Fixpoint tget {A} (q : list (tok * A)) (i : tok) : option A :=
  match q with [] => None | (j, a) :: r => if N.eqb j i then Some a else tget r i end.
(* map assignment m[k] = v on a list kept in insertion order with unique keys *)
Fixpoint tput {A} (q : list (tok * A)) (i : tok) (a : A) : list (tok * A) :=
  match q with
  | [] => [(i, a)]
  | (j, b) :: r => if N.eqb j i then (j, a) :: r else (j, b) :: tput r i a
  end.

Definition deadline_secs (ns : Z) : Z := ns / 1000000000.
Definition sig_deadline : Z := deadline_secs Gen.Tables.cfg_SigConfirmationDeadline.
Definition dkg_deadline : Z := deadline_secs Gen.Tables.cfg_DkgConfirmationDeadline.
Definition sgn_deadline : Z := deadline_secs Gen.Tables.cfg_SigningConfirmationDeadline.

(* ExpiresAt.Before(UpdatedAt) *)
Definition expired (expires updated : Z) : bool := expires <? updated.
Definition is_zero_time (t : Z) : bool := t =? TZERO.

(* ---- event / state names the callbacks return or test (unexported Go constants) ---- *)
Local Open Scope string_scope.
Definition ev_sig_init := "event_sig_proposal_init".
Definition ev_sig_confirm := "event_sig_proposal_confirm_by_participant".
Definition ev_sig_decline := "event_sig_proposal_decline_by_participant".
Definition ev_sig_validate := "event_sig_proposal_validate".
Definition ev_sig_set_validated := "event_sig_proposal_set_validated".
Definition ev_sig_cancel_timeout := "event_sig_proposal_canceled_timeout".
Definition ev_sig_cancel_participant := "event_sig_proposal_canceled_participant".
Definition ev_dkg_init := "event_dkg_init_process".

Definition ev_dkg_confirm (k : N) : string :=
  match k with
  | 0%N => "event_dkg_commit_confirm_received" | 1%N => "event_dkg_deal_confirm_received"
  | 2%N => "event_dkg_response_confirm_received" | _ => "event_dkg_master_key_confirm_received" end.
Definition ev_dkg_error (k : N) : string :=
  match k with
  | 0%N => "event_dkg_commit_confirm_canceled_by_error" | 1%N => "event_dkg_deal_confirm_canceled_by_error"
  | 2%N => "event_dkg_response_confirm_canceled_by_error" | _ => "event_dkg_master_key_confirm_canceled_by_error" end.
Definition ev_dkg_validate (k : N) : string :=
  match k with
  | 0%N => "event_dkg_commits_validate_internal" | 1%N => "event_dkg_deals_validate_internal"
  | 2%N => "event_dkg_responses_validate_internal" | _ => "event_dkg_master_key_validate_internal" end.
Definition ev_dkg_cancel_timeout (k : N) : string :=
  match k with
  | 0%N => "event_dkg_commits_confirm_canceled_by_timeout_internal"
  | 1%N => "event_dkg_deals_confirm_canceled_by_timeout_internal"
  | 2%N => "event_dkg_response_confirm_canceled_by_timeout_internal"
  | _ => "event_dkg_master_key_confirm_canceled_by_timeout_internal" end.
Definition ev_dkg_cancel_error (k : N) : string :=
  match k with
  | 0%N => "event_dkg_commits_confirm_canceled_by_error_internal"
  | 1%N => "event_dkg_deals_confirm_canceled_by_error_internal"
  | 2%N => "event_dkg_response_confirm_canceled_by_error_internal"
  | _ => "event_dkg_master_key_confirm_canceled_by_error_internal" end.
Definition ev_dkg_confirmed (k : N) : string :=
  match k with
  | 0%N => "event_dkg_commits_confirmed_internal" | 1%N => "event_dkg_deals_confirmed_internal"
  | 2%N => "event_dkg_responses_confirmed_internal" | _ => "event_dkg_master_key_confirmed_internal" end.

Definition ev_sgn_init := "event_signing_init".
Definition ev_sgn_start := "event_signing_start".
Definition ev_sgn_partial := "event_signing_partial_sign_received".
Definition ev_sgn_error := "event_signing_partial_sign_error_received".
Definition ev_sgn_validate := "event_signing_partial_signs_await_validate".
Definition ev_sgn_cancel_timeout := "event_signing_partial_signs_await_cancel_by_timeout_internal".
Definition ev_sgn_cancel_error := "event_signing_partial_signs_await_sign_cancel_by_error_internal".
Definition ev_sgn_confirmed := "event_signing_partial_signs_confirmed_internal".
Definition ev_sgn_restart := "event_signing_restart".
Local Close Scope string_scope.

(* ================= signature proposal ================= *)
Fixpoint names_unique (seen : list tok) (ps : list part_entry) : bool :=
  match ps with
  | [] => true
  | p :: r => if existsb (N.eqb (pe_name p)) seen then false else names_unique (pe_name p :: seen) r
  end.

(* SignatureProposalParticipantsListRequest.Validate *)
Definition validate_list (ps : list part_entry) (thr created : Z) : bool :=
  let n := Z.of_nat (length ps) in
  (Gen.Tables.cfg_ParticipantsMinCount <=? n) &&
  (Gen.Tables.cfg_ThresholdMinCount <=? thr) &&
  (thr <=? n) &&
  names_unique [] ps &&
  forallb (fun p => (Gen.Tables.cfg_UsernameMinLength <=? pe_name_len p) &&
                    (pe_name_len p <=? Gen.Tables.cfg_UsernameMaxLength) &&
                    (Gen.Tables.cfg_ParticipantPubKeyMinLength <=? pe_pk_len p) &&
                    (Gen.Tables.cfg_DkgPubKeyMinLength <=? pe_dpk_len p)) ps &&
  negb (is_zero_time created).

Fixpoint index_from {A} (i : Z) (l : list A) : list (Z * A) :=
  match l with [] => [] | a :: r => (i, a) :: index_from (i + 1) r end.

Definition action_sig_init (ev : string) (p : payload) (req : request) : cbres :=
  match req with
  | RList ps thr created =>
      if negb (validate_list ps thr created) then CbErr p else
      let quorum := index_from 0 (map (fun e =>
                      {| sp_name := pe_name e; sp_pubkey := pe_pk e; sp_dkgpub := pe_dpk e;
                         sp_status := SigAwait; sp_threshold := thr; sp_updated := created |}) ps) in
      let conf := {| sc_quorum := quorum; sc_created := created; sc_updated := TZERO;
                     sc_expires := created + sig_deadline |} in
      let pubkeys := fold_left (fun acc e => tput acc (pe_name e) (pe_pk e)) ps (p_pubkeys p) in
      let ids := fold_left (fun acc ie => tput acc (pe_name (snd ie)) (fst ie)) (index_from 0 ps) (p_ids p) in
      let p' := {| p_threshold := thr; p_sig := Some conf; p_dkg := p_dkg p; p_sgn := p_sgn p;
                   p_pubkeys := pubkeys; p_ids := ids |} in
      CbOk ev (Some (RespInvitations (map (fun x => (fst x, (sp_name (snd x), (sp_threshold (snd x),
                         (sp_dkgpub (snd x), sp_pubkey (snd x)))))) quorum))) p'
  | _ => CbErr p
  end.

Definition action_sig_response (ev : string) (p : payload) (req : request) : cbres :=
  match req with
  | RPart pid created =>
      if (pid <? 0) || is_zero_time created then CbErr p else
      match p_sig p with
      | None => CbPanic
      | Some conf =>
          match qget (sc_quorum conf) pid with
          | None => CbErr p
          | Some part =>
              if sp_updated part + sig_deadline <? created then CbOk ev_sig_cancel_timeout None p
              else if negb (N.eqb (sp_status part) SigAwait) then CbErr p
              else
                let st := if String.eqb ev ev_sig_confirm then Some SigConfirmed
                          else if String.eqb ev ev_sig_decline then Some SigDeclined else None in
                match st with
                | None => CbErr p
                | Some s =>
                    let part' := {| sp_name := sp_name part; sp_pubkey := sp_pubkey part;
                                    sp_dkgpub := sp_dkgpub part; sp_status := s;
                                    sp_threshold := sp_threshold part; sp_updated := created |} in
                    let conf' := {| sc_quorum := qset (sc_quorum conf) pid part';
                                    sc_created := sc_created conf; sc_updated := created;
                                    sc_expires := sc_expires conf |} in
                    CbOk "" None {| p_threshold := p_threshold p; p_sig := Some conf'; p_dkg := p_dkg p;
                                    p_sgn := p_sgn p; p_pubkeys := p_pubkeys p; p_ids := p_ids p |}
                end
          end
      end
  | _ => CbErr p
  end.

Definition action_sig_validate (ev : string) (p : payload) (req : request) : cbres :=
  match p_sig p with
  | None => CbPanic
  | Some conf =>
      if expired (sc_expires conf) (sc_updated conf) then CbOk ev_sig_cancel_timeout None p else
      let q := sc_quorum conf in
      let declined := existsb (fun x => N.eqb (sp_status (snd x)) SigDeclined) q in
      let unconfirmed := existsb (fun x => negb (N.eqb (sp_status (snd x)) SigConfirmed)) q in
      if declined then CbOk ev_sig_cancel_participant None p
      else if unconfirmed then CbOk "" None p
      else CbOk ev_sig_set_validated
             (Some (RespSigStatus (map (fun x => (fst x, (sp_name (snd x), sp_status (snd x)))) q))) p
  end.

(* ================= DKG proposal ================= *)
Definition set_dkg (p : payload) (c : dkg_conf) : payload :=
  {| p_threshold := p_threshold p; p_sig := p_sig p; p_dkg := Some c; p_sgn := p_sgn p;
     p_pubkeys := p_pubkeys p; p_ids := p_ids p |}.

Definition action_dkg_init (ev : string) (p : payload) (req : request) : cbres :=
  match p_dkg p with
  | Some _ => CbOk "" None p
  | None =>
      match req with
      | RDefault created =>
          match p_sig p with
          | None => CbPanic
          | Some sc =>
              let q := qmap (fun s => {| dp_name := sp_name s; dp_dkgpub := sp_dkgpub s; dp_commit := 0%N;
                                         dp_deal := 0%N; dp_response := 0%N; dp_master := 0%N;
                                         dp_status := dkg_await 0; dp_error := None;
                                         dp_updated := sp_updated s |}) (sc_quorum sc) in
              let conf := {| dc_quorum := q; dc_created := created; dc_updated := TZERO;
                             dc_expires := created + dkg_deadline; dc_pubpoly := 0%N |} in
              match qget (sc_quorum sc) 0 with
              | None => match q with [] => CbOk ev (Some (RespDkgPubKeys [])) (set_dkg p conf) | _ => CbPanic end
              | Some p0 =>
                  CbOk ev (Some (RespDkgPubKeys (map (fun x => (fst x, (dp_name (snd x), (dp_dkgpub (snd x),
                                      sp_threshold p0)))) q))) (set_dkg p conf)
              end
          end
      | _ => CbErr p
      end
  end.

Definition dkg_set_data (k : N) (d : dkg_part) (data : tok) (status : N) (updated : Z) : dkg_part :=
  {| dp_name := dp_name d; dp_dkgpub := dp_dkgpub d;
     dp_commit := if N.eqb k 0 then data else dp_commit d;
     dp_deal := if N.eqb k 1 then data else dp_deal d;
     dp_response := if N.eqb k 2 then data else dp_response d;
     dp_master := if N.eqb k 3 then data else dp_master d;
     dp_status := status; dp_error := dp_error d; dp_updated := updated |}.

Definition dkg_data (k : N) (d : dkg_part) : tok :=
  if N.eqb k 0 then dp_commit d else if N.eqb k 1 then dp_deal d
  else if N.eqb k 2 then dp_response d else dp_master d.

Definition dkg_with (c : dkg_conf) (q : list (Z * dkg_part)) (updated : Z) (poly : tok) : dkg_conf :=
  {| dc_quorum := q; dc_created := dc_created c; dc_updated := updated;
     dc_expires := dc_expires c; dc_pubpoly := poly |}.

(* token the harness assigns to the text "public polynomial is mismatched" *)
Definition tok_poly_mismatch : tok := 2%N.

(* action{Commit,Deal,Response,MasterKey}ConfirmationReceived; poly = Some t only for phase 3 *)
Definition dkg_confirm (k : N) (p : payload) (pid : Z) (data : tok) (poly : option tok) (created : Z) : cbres :=
  if (pid <? 0) || N.eqb data 0 || is_zero_time created then CbErr p else
  match p_dkg p with
  | None => CbPanic
  | Some c =>
      match qget (dc_quorum c) pid with
      | None => CbErr p
      | Some d =>
          if negb (N.eqb (dp_status d) (dkg_await k)) then CbErr p else
          (* a key announcement whose public polynomial differs from the one already retained:
             the participant is marked with an error (the validation then cancels the round) *)
          let mismatch := match poly with
                          | Some t => negb (N.eqb (dc_pubpoly c) 0) && negb (N.eqb (dc_pubpoly c) t)
                          | None => false end in
          if mismatch then
            let d' := {| dp_name := dp_name d; dp_dkgpub := dp_dkgpub d; dp_commit := dp_commit d;
                         dp_deal := dp_deal d; dp_response := dp_response d; dp_master := dp_master d;
                         dp_status := dkg_error k; dp_error := Some tok_poly_mismatch; dp_updated := created |} in
            CbOk "" None (set_dkg p (dkg_with c (qset (dc_quorum c) pid d') created (dc_pubpoly c)))
          else
          let d' := dkg_set_data k d data (dkg_confirmed k) created in
          let poly' := match poly with Some t => t | None => dc_pubpoly c end in
          CbOk "" None (set_dkg p (dkg_with c (qset (dc_quorum c) pid d') created poly'))
      end
  end.

Definition action_dkg_confirm (k : N) (ev : string) (p : payload) (req : request) : cbres :=
  match req with
  | RData k' pid data created =>
      if N.eqb k' k && N.ltb k 3 then dkg_confirm k p pid data None created else CbErr p
  | RMaster pid key poly created =>
      if N.eqb k 3 then dkg_confirm 3 p pid key (Some poly) created else CbErr p
  | _ => CbErr p
  end.

(* actionConfirmationError for phase k *)
Definition action_dkg_error (k : N) (ev : string) (p : payload) (req : request) : cbres :=
  match req with
  | RError pid err created =>
      match err with
      | None => CbErr p
      | Some e =>
          if (pid <? 0) || is_zero_time created then CbErr p else
          match p_dkg p with
          | None => CbPanic
          | Some c =>
              match qget (dc_quorum c) pid with
              | None => CbErr p
              | Some d =>
                  if negb (N.eqb (dp_status d) (dkg_await k)) then CbErr p else
                  let d' := {| dp_name := dp_name d; dp_dkgpub := dp_dkgpub d; dp_commit := dp_commit d;
                               dp_deal := dp_deal d; dp_response := dp_response d; dp_master := dp_master d;
                               dp_status := dkg_error k; dp_error := Some e; dp_updated := created |} in
                  CbOk "" None (set_dkg p (dkg_with c (qset (dc_quorum c) pid d') created (dc_pubpoly c)))
              end
          end
      end
  | _ => CbErr p
  end.

Definition dkg_set_status (s : N) (d : dkg_part) : dkg_part :=
  {| dp_name := dp_name d; dp_dkgpub := dp_dkgpub d; dp_commit := dp_commit d; dp_deal := dp_deal d;
     dp_response := dp_response d; dp_master := dp_master d; dp_status := s; dp_error := dp_error d;
     dp_updated := dp_updated d |}.
Definition dkg_set_status_err (s : N) (e : tok) (d : dkg_part) : dkg_part :=
  {| dp_name := dp_name d; dp_dkgpub := dp_dkgpub d; dp_commit := dp_commit d; dp_deal := dp_deal d;
     dp_response := dp_response d; dp_master := dp_master d; dp_status := s; dp_error := Some e;
     dp_updated := dp_updated d |}.

(* token the harness assigns to the text "master key is mismatched" *)
Definition tok_mismatch : tok := 1%N.

(* all master keys announced so far equal the first one (reflect.DeepEqual on byte slices) *)
Definition keys_agree (q : list (Z * dkg_part)) : bool :=
  let ks := map (fun x => dp_master (snd x))
                (filter (fun x => N.eqb (dp_status (snd x)) (dkg_confirmed 3)) q) in
  match ks with
  | [] => true
  | k0 :: r => forallb (N.eqb k0) r
  end.

(* actionValidateDkgProposalAwait{Commits,Deals,Responses,MasterKey} *)
Definition action_dkg_validate (k : N) (ev : string) (p : payload) (req : request) : cbres :=
  match p_dkg p with
  | None => CbPanic
  | Some c =>
      if expired (dc_expires c) (dc_updated c) then CbOk (ev_dkg_cancel_timeout k) None p else
      let q := dc_quorum c in
      let has_err := existsb (fun x => N.eqb (dp_status (snd x)) (dkg_error k)) q in
      let unconfirmed := existsb (fun x => negb (N.eqb (dp_status (snd x)) (dkg_confirmed k))) q in
      if has_err then CbOk (ev_dkg_cancel_error k) None p
      else if N.eqb k 3 && negb (keys_agree q) then
        CbOk (ev_dkg_cancel_error 3) None
             (set_dkg p (dkg_with c (qmap (dkg_set_status_err (dkg_error 3) tok_mismatch) q) (dc_updated c) (dc_pubpoly c)))
      else if unconfirmed then CbOk "" None p
      else if N.eqb k 3 then
        CbOk (ev_dkg_confirmed 3) None
             (set_dkg p (dkg_with c (qmap (dkg_set_status (dkg_confirmed 3)) q) (dc_updated c) (dc_pubpoly c)))
      else
        let q' := qmap (dkg_set_status (dkg_await (k + 1))) q in
        let entries := map (fun x => (fst x, (dp_name (snd x), dkg_data k (snd x)))) q' in
        (* the deals response skips participants without a deal *)
        let entries' := if N.eqb k 1 then filter (fun e => negb (N.eqb (snd (snd e)) 0)) entries else entries in
        CbOk (ev_dkg_confirmed k) (Some (RespDkgData k entries'))
             (set_dkg p (dkg_with c q' (dc_updated c) (dc_pubpoly c)))
  end.

(* ================= signing proposal ================= *)
Definition set_sgn (p : payload) (c : sgn_conf) : payload :=
  {| p_threshold := p_threshold p; p_sig := p_sig p; p_dkg := p_dkg p; p_sgn := Some c;
     p_pubkeys := p_pubkeys p; p_ids := p_ids p |}.
Definition set_sig_updated (p : payload) (t : Z) : cbres + payload :=
  match p_sig p with
  | None => inl CbPanic
  | Some sc => inr {| p_threshold := p_threshold p;
                      p_sig := Some {| sc_quorum := sc_quorum sc; sc_created := sc_created sc;
                                       sc_updated := t; sc_expires := sc_expires sc |};
                      p_dkg := p_dkg p; p_sgn := p_sgn p; p_pubkeys := p_pubkeys p; p_ids := p_ids p |}
  end.

Definition action_sgn_init (ev : string) (p : payload) (req : request) : cbres :=
  match req with
  | RDefault created =>
      (* DefaultRequest.Validate *)
      if is_zero_time created then CbErr p else
      CbOk "" None (set_sgn p {| gc_batch := 0%N; gc_initiator := 0; gc_quorum := []; gc_src := 0%N;
                                 gc_created := created; gc_updated := TZERO;
                                 gc_expires := created + sgn_deadline |})
  | _ => CbErr p
  end.

Definition task_valid (t : task_v) : bool :=
  (* tv_paylen: the payload's length, -1 for no payload at all (Go's nil: a baked range) *)
  negb (tv_idlen t =? 0) && negb ((tv_paylen t <=? 0) && (tv_end t <? tv_start t)).
(* the task names at least one message: it carries a payload, or its range is not empty *)
Definition task_names (t : task_v) : bool :=
  negb (tv_paylen t =? -1) || (tv_start t <? tv_end t).
(* SigningBatchProposalStartRequest.Validate: every task well-formed, and the batch names a message *)
Definition tasks_valid (tasks : list task_v) : bool :=
  forallb task_valid tasks && existsb task_names tasks.

Definition action_sgn_start (ev : string) (p : payload) (req : request) : cbres :=
  match req with
  | RStart batch pid created tasks src =>
      if N.eqb batch 0 || (match tasks with [] => true | _ => false end) || (pid <? 0) ||
         is_zero_time created || negb (tasks_valid tasks) then CbErr p else
      match p_sgn p, p_dkg p with
      | Some g, Some d =>
          let q := qmap (fun x => {| gp_name := dp_name x; gp_status := SgnAwait; gp_signs := [];
                                     gp_error := None; gp_updated := created |}) (dc_quorum d) in
          let g' := {| gc_batch := batch; gc_initiator := pid; gc_quorum := q; gc_src := src;
                       gc_created := created; gc_updated := gc_updated g; gc_expires := gc_expires g |} in
          CbOk ev (Some (RespSigningInvite batch pid src
                           (map (fun x => (fst x, (gp_name (snd x), gp_status (snd x)))) q)))
               (set_sgn p g')
      | _, _ => CbPanic
      end
  | _ => CbErr p
  end.

Definition signs_valid (signs : list (tok * tok)) : bool :=
  forallb (fun s => negb (N.eqb (fst s) 0) && negb (N.eqb (snd s) 0)) signs.

Definition action_sgn_partial (ev : string) (p : payload) (req : request) : cbres :=
  match req with
  | RPartial batch pid signs created =>
      if N.eqb batch 0 || is_zero_time created || (pid <? 0) ||
         (match signs with [] => true | _ => false end) || negb (signs_valid signs) then CbErr p else
      match p_sgn p with
      | None => CbPanic
      | Some g =>
          if negb (N.eqb batch (gc_batch g)) then CbErr p else
          match qget (gc_quorum g) pid with
          | None => CbErr p
          | Some part =>
              if negb (N.eqb (gp_status part) SgnAwait) then CbErr p else
              let signs' := fold_left (fun acc s => tput acc (fst s) (snd s)) signs (gp_signs part) in
              let part' := {| gp_name := gp_name part; gp_status := SgnConfirmed; gp_signs := signs';
                              gp_error := gp_error part; gp_updated := created |} in
              let g' := {| gc_batch := gc_batch g; gc_initiator := gc_initiator g;
                           gc_quorum := qset (gc_quorum g) pid part'; gc_src := gc_src g;
                           gc_created := gc_created g; gc_updated := gc_updated g; gc_expires := gc_expires g |} in
              match set_sig_updated (set_sgn p g') created with
              | inl r => r
              | inr p' => CbOk "" None p'
              end
          end
      end
  | _ => CbErr p
  end.

Definition action_sgn_error (ev : string) (p : payload) (req : request) : cbres :=
  match req with
  | RSigError pid err created batch =>
      match err with
      | None => CbErr p
      | Some e =>
          if (pid <? 0) || is_zero_time created then CbErr p else
          match p_sgn p with
          | None => CbPanic
          | Some g =>
              match qget (gc_quorum g) pid with
              | None => CbErr p
              | Some part =>
                  (* a report that names a batch belongs to that batch only *)
                  if negb (N.eqb batch 0) && negb (N.eqb batch (gc_batch g)) then CbErr p else
                  if negb (N.eqb (gp_status part) SgnAwait) then CbErr p else
                  let part' := {| gp_name := gp_name part; gp_status := SgnError; gp_signs := gp_signs part;
                                  gp_error := Some e; gp_updated := created |} in
                  let g' := {| gc_batch := gc_batch g; gc_initiator := gc_initiator g;
                               gc_quorum := qset (gc_quorum g) pid part'; gc_src := gc_src g;
                               gc_created := gc_created g; gc_updated := gc_updated g; gc_expires := gc_expires g |} in
                  match set_sig_updated (set_sgn p g') created with
                  | inl r => r
                  | inr p' => CbOk "" None p'
                  end
              end
          end
      end
  | _ => CbErr p
  end.

Definition count_status (s : N) (q : list (Z * sgn_part)) : Z :=
  Z.of_nat (length (filter (fun x => N.eqb (gp_status (snd x)) s) q)).

Definition action_sgn_validate (ev : string) (p : payload) (req : request) : cbres :=
  match p_sgn p with
  | None => CbPanic
  | Some g =>
      if expired (gc_expires g) (gc_updated g) then CbOk ev_sgn_cancel_timeout None p else
      let q := gc_quorum g in
      let n := Z.of_nat (length q) in
      let failed := count_status SgnError q in
      let unconfirmed := n - count_status SgnConfirmed q in
      if n - p_threshold p <? failed then CbOk ev_sgn_cancel_error None p
      else if n - p_threshold p <? unconfirmed then CbOk "" None p
      else
        let q' := qmap (fun x => {| gp_name := gp_name x; gp_status := SgnProcess; gp_signs := gp_signs x;
                                    gp_error := gp_error x; gp_updated := gp_updated x |}) q in
        let g' := {| gc_batch := gc_batch g; gc_initiator := gc_initiator g; gc_quorum := q';
                     gc_src := gc_src g; gc_created := gc_created g; gc_updated := gc_updated g;
                     gc_expires := gc_expires g |} in
        let entries := map (fun x => (fst x, (gp_name (snd x), gp_signs (snd x))))
                           (filter (fun x => match gp_signs (snd x) with [] => false | _ => true end) q') in
        CbOk ev_sgn_confirmed (Some (RespSigningProcess (gc_batch g) (gc_src g) entries)) (set_sgn p g')
  end.

Definition action_sgn_restart (ev : string) (p : payload) (req : request) : cbres := CbOk "" None p.

(* ---- dispatch: which callback is registered for which event, per machine ---- *)
Definition cb_sigprop : callback := fun ev p req =>
  if String.eqb ev ev_sig_init then action_sig_init ev p req
  else if String.eqb ev ev_sig_confirm || String.eqb ev ev_sig_decline then action_sig_response ev p req
  else if String.eqb ev ev_sig_validate then action_sig_validate ev p req
  else CbErr p.

Fixpoint dkg_dispatch (ks : list N) (ev : string) (p : payload) (req : request) : cbres :=
  match ks with
  | [] => CbErr p
  | k :: r =>
      if String.eqb ev (ev_dkg_confirm k) then action_dkg_confirm k ev p req
      else if String.eqb ev (ev_dkg_error k) then action_dkg_error k ev p req
      else if String.eqb ev (ev_dkg_validate k) then action_dkg_validate k ev p req
      else dkg_dispatch r ev p req
  end.

Definition cb_dkgprop : callback := fun ev p req =>
  if String.eqb ev ev_dkg_init then action_dkg_init ev p req
  else dkg_dispatch [0; 1; 2; 3]%N ev p req.

Definition cb_signing : callback := fun ev p req =>
  if String.eqb ev ev_sgn_init then action_sgn_init ev p req
  else if String.eqb ev ev_sgn_start then action_sgn_start ev p req
  else if String.eqb ev ev_sgn_partial then action_sgn_partial ev p req
  else if String.eqb ev ev_sgn_validate then action_sgn_validate ev p req
  else if String.eqb ev ev_sgn_error then action_sgn_error ev p req
  else if String.eqb ev ev_sgn_restart then action_sgn_restart ev p req
  else CbErr p.
