(* Model of fsm/fsm/fsm.go: Do / do / processAutoEvent / SetState, generic in the table and
   the callback function.  Definitions only. *)
From Coq Require Import String List NArith ZArith Bool.
Require Import Fsm.EngineDefs Fsm.Types.
Import ListNotations.
Local Open Scope string_scope.

Fixpoint find_trans (ts : list trans) (s e : string) : option trans :=
  match ts with
  | [] => None
  | t :: r => if String.eqb (t_src t) s && String.eqb (t_ev t) e then Some t else find_trans r s e
  end.

Fixpoint find_auto (l : list (string * nat * string)) (s : string) (mode : nat) : option string :=
  match l with
  | [] => None
  | (st, m, ev) :: r => if String.eqb st s && Nat.eqb m mode then Some ev else find_auto r s mode
  end.

Fixpoint mem_str (x : string) (l : list string) : bool :=
  match l with [] => false | y :: r => String.eqb x y || mem_str x r end.

(* SetState(event): follow the transition of (current, event) *)
Definition set_state (t : ftable) (cur ev : string) : option string :=
  match find_trans (ft_transitions t) cur ev with
  | Some tr => Some (t_dst tr)
  | None => None
  end.

Definition callback := string -> payload -> request -> cbres.

Inductive auto_res :=
| AutoNone                                                     (* no auto event for (state, mode) *)
| AutoRes (out : string) (data : option response) (err : bool) (cur : string) (p : payload)
| AutoPanic.

Definition process_auto (t : ftable) (cb : callback) (mode : nat) (cur : string) (p : payload)
           (req : request) : auto_res :=
  match find_auto (ft_auto t) cur mode with
  | None => AutoNone
  | Some aev =>
      let fin (out : string) (data : option response) (p' : payload) :=
        let ev := if (String.eqb out "" || String.eqb aev out) then aev else out in
        match set_state t cur ev with
        | Some dst => AutoRes out data false dst p'
        | None => AutoRes out data true cur p'
        end in
      if mem_str aev (ft_callbacks t) then
        match cb aev p req with
        | CbOk out data p' => fin out data p'
        | CbErr p' => AutoRes "" None true cur p'
        | CbPanic => AutoPanic
        end
      else fin "" None p
  end.

(* result of FSM.Do *)
Inductive do_res :=
| DoRoute                                                      (* resp = nil: no transition / internal event *)
| DoRes (cur : string) (rstate : string) (rdata : option response) (err : bool) (p : payload)
| DoPanic.

Definition or_data (a b : option response) : option response :=
  match b with Some _ => b | None => a end.

Definition fsm_do (t : ftable) (cb : callback) (cur : string) (p : payload) (ev : string)
           (req : request) : do_res :=
  match find_trans (ft_transitions t) cur ev with
  | None => DoRoute
  | Some tr =>
      if t_internal tr then DoRoute else
      (* before-mode auto event *)
      let before := process_auto t cb 1 cur p req in
      match before with
      | AutoPanic => DoPanic
      | AutoRes _ data true cur1 p1 => DoRes cur1 cur1 data true p1
      | _ =>
        let '(out0, rstate0, rdata0, cur1, p1) :=
          match before with
          | AutoRes out data _ c1 p1 => (out, c1, data, c1, p1)
          | _ => ("", "", None, cur, p)
          end in
        (* the event's own callback *)
        let main :=
          if mem_str (t_ev tr) (ft_callbacks t) then
            match cb (t_ev tr) p1 req with
            | CbOk out data p2 => Some (inl (out, data, p2))
            | CbErr p2 => Some (inr p2)
            | CbPanic => None
            end
          else Some (inl (out0, rdata0, p1)) in
        match main with
        | None => DoPanic
        | Some (inr p2) => DoRes cur1 rstate0 None true p2
        | Some (inl (out, rdata1, p2)) =>
            let ev' := if (String.eqb out "" || String.eqb (t_ev tr) out) then t_ev tr else out in
            match set_state t cur1 ev' with
            | None => DoRes cur1 rstate0 rdata1 true p2
            | Some cur2 =>
                match process_auto t cb 2 cur2 p2 req with
                | AutoPanic => DoPanic
                | AutoNone => DoRes cur2 cur2 rdata1 false p2
                | AutoRes _ data err cur3 p3 => DoRes cur3 cur3 (or_data rdata1 data) err p3
                end
            end
        end
      end
  end.

(* StatesList: source states only *)
Definition states_list (t : ftable) : list string := map t_src (ft_transitions t).
