(* Data types of the regenerated FSM tables (Gen/Tables.v). Definitions only. *)
From Coq Require Import String List.
Import ListNotations.

Record trans := mk_trans {
  t_src : string; t_ev : string; t_dst : string;
  t_internal : bool; t_auto : bool; t_mode : nat (* 0 default, 1 before, 2 after *) }.

Record ftable := {
  ft_name : string;
  ft_initial : string;
  ft_initial_event : string;
  ft_transitions : list trans;
  ft_auto : list (string * nat * string);   (* (state, run mode, event) *)
  ft_fin : list string;
  ft_callbacks : list string }.
