(* Model of fsm_pool.Init / MachineByState / EntryPointMachine and of
   state_machines.Create / FromDump / FSMInstance.Do.  Definitions only. *)
From Coq Require Import String List NArith ZArith Bool.
Require Import Fsm.EngineDefs Fsm.Types Fsm.Engine Fsm.Actions.
Require Gen.Tables.
Import ListNotations.
Local Open Scope string_scope.

Definition machines : list ftable :=
  [Gen.Tables.sigprop_table; Gen.Tables.dkgprop_table; Gen.Tables.signing_table].

Fixpoint slookup (k : string) (l : list (string * string)) : option string :=
  match l with [] => None | (a, b) :: r => if String.eqb a k then Some b else slookup k r end.

Definition table_by_name (n : string) : option ftable :=
  find (fun t => String.eqb (ft_name t) n) machines.

Definition cb_by_name (n : string) : callback :=
  if String.eqb n (ft_name Gen.Tables.sigprop_table) then cb_sigprop
  else if String.eqb n (ft_name Gen.Tables.dkgprop_table) then cb_dkgprop
  else cb_signing.

(* fsm_pool.Init, second loop: every state of StatesList (source states; never a fin state of the
   same machine) is owned by its machine.  Computed from the regenerated tables and proved equal
   (as a set) to the live map in Fsm/TableFacts.v. *)
Definition is_entry_state (s : string) : bool := existsb (fun t => String.eqb (ft_initial t) s) machines.
Definition pool_states_model : list (string * string) :=
  flat_map (fun t => map (fun s => (s, ft_name t))
                         (states_list t ++ filter (fun s => negb (is_entry_state s)) (ft_fin t))) machines.

(* MachineByState on the live map *)
Definition machine_by_state (s : string) : option ftable :=
  match slookup s Gen.Tables.pool_states with
  | Some n => table_by_name n
  | None => None
  end.

Record dump := { d_state : string; d_payload : payload }.

Record instance := { i_mach : string; i_cur : string; i_dstate : string; i_payload : payload }.

(* MustCopyWithState: the state must be in StatesList or a final state of the machine, unless empty *)
Definition copy_with_state_ok (t : ftable) (s : string) : bool :=
  String.eqb s "" || mem_str s (states_list t) || mem_str s (ft_fin t).

Inductive load_res := LoadOk (i : instance) | LoadErr | LoadPanic.

(* state_machines.Create *)
Definition create : load_res :=
  match table_by_name Gen.Tables.pool_entry_machine with
  | None => LoadErr
  | Some t =>
      if copy_with_state_ok t "__idle"
      then LoadOk {| i_mach := ft_name t; i_cur := "__idle"; i_dstate := "__idle"; i_payload := empty_payload |}
      else LoadPanic
  end.

(* state_machines.FromDump (after JSON decoding) *)
Definition from_dump (d : dump) : load_res :=
  match machine_by_state (d_state d) with
  | None => LoadErr
  | Some t =>
      if copy_with_state_ok t (d_state d)
      then LoadOk {| i_mach := ft_name t;
                     i_cur := if String.eqb (d_state d) "" then ft_initial t else d_state d;
                     i_dstate := d_state d; i_payload := d_payload d |}
      else LoadPanic
  end.

Definition dump_of (i : instance) : dump := {| d_state := i_dstate i; d_payload := i_payload i |}.

Inductive inst_res :=
| IRoute (i : instance)                                 (* result = nil, error: nothing changed *)
| IRes (i : instance) (rstate : string) (rdata : option response) (err : bool)
| IPanic.

(* FSMInstance.Do, first part: a machine sitting in one of its final states that is the entry state
   of another machine hands the round over to that machine (as FromDump does for a persisted round) *)
Definition handover (i : instance) : instance :=
  match table_by_name (i_mach i) with
  | Some t =>
      if mem_str (i_cur i) (ft_fin t) then
        match machine_by_state (i_cur i) with
        | Some t' => if String.eqb (ft_name t') (i_mach i) then i
                     else {| i_mach := ft_name t'; i_cur := i_cur i; i_dstate := i_dstate i; i_payload := i_payload i |}
        | None => i
        end
      else i
  | None => i
  end.

(* FSMInstance.Do on the machine the instance holds *)
Definition inst_do_core (i : instance) (ev : string) (req : request) : inst_res :=
  match table_by_name (i_mach i) with
  | None => IRoute i
  | Some t =>
      match fsm_do t (cb_by_name (i_mach i)) (i_cur i) (i_payload i) ev req with
      | DoRoute => IRoute i
      | DoPanic => IPanic
      | DoRes cur rstate rdata err p =>
          (* the dump records the machine's state (also after a refused event) *)
          IRes {| i_mach := i_mach i; i_cur := cur; i_dstate := cur; i_payload := p |} rstate rdata err
      end
  end.

(* FSMInstance.Do *)
Definition inst_do (i : instance) (ev : string) (req : request) : inst_res :=
  inst_do_core (handover i) ev req.

(* ---- the part of node.processMessage that drives the FSM (without signatures, operations and
   storage): restore, apply the event, issue the two manual hand-overs and the restart ---- *)
Inductive step_res :=
| SOk (d : dump) (rstate : string) (rdata : option response)   (* what the node would persist *)
| SRej                                                         (* error: nothing is persisted *)
| SPanic.

Definition st_collected := "state_sig_proposal_collected".
Definition st_master_collected := "state_dkg_master_key_collected".
Definition st_partial_collected := "state_signing_partial_signs_collected".

Definition do_on_dump (d : dump) (ev : string) (req : request) : step_res :=
  match from_dump d with
  | LoadErr => SRej
  | LoadPanic => SPanic
  | LoadOk i =>
      match inst_do i ev req with
      | IRoute _ => SRej
      | IPanic => SPanic
      | IRes i' rstate rdata true => SRej
      | IRes i' rstate rdata false => SOk (dump_of i') rstate rdata
      end
  end.

Definition round_step (now : Z) (d : dump) (ev : string) (req : request) : step_res :=
  match do_on_dump d ev req with
  | SOk d1 r1 x1 =>
      let s2 := if String.eqb r1 st_collected then do_on_dump d1 ev_dkg_init (RDefault now)
                else SOk d1 r1 x1 in
      match s2 with
      | SOk d2 r2 x2 =>
          let s3 := if String.eqb r2 st_master_collected then do_on_dump d2 ev_sgn_init (RDefault now)
                    else SOk d2 r2 x2 in
          match s3 with
          | SOk d3 r3 x3 =>
              if String.eqb r3 st_partial_collected then
                match do_on_dump d3 ev_sgn_restart (RDefault now) with
                | SOk d4 _ _ => SOk d4 r3 x3
                | other => other
                end
              else SOk d3 r3 x3
          | other => other
          end
      | other => other
      end
  | other => other
  end.

(* ---- one differential case: FromDump followed by Do, with everything observable ---- *)
Inductive case_obs :=
| CLoadErr
| CPanic
| CObs (class : nat) (i : instance) (rstate : string) (rdata : option response).  (* 0 route, 1 err, 2 ok *)

Definition obs_of_do (r : inst_res) : case_obs :=
  match r with
  | IRoute i' => CObs 0 i' "" None
  | IPanic => CPanic
  | IRes i' rs rd err => CObs (if err then 1 else 2) i' rs rd
  end.

Definition fsm_case (d : dump) (ev : string) (req : request) : case_obs :=
  match from_dump d with
  | LoadErr => CLoadErr
  | LoadPanic => CPanic
  | LoadOk i => obs_of_do (inst_do i ev req)
  end.

(* ---- continuing in memory versus continuing after dump + restore (C19) ---- *)
Fixpoint mem_walk (i : instance) (steps : list (string * request)) : list (case_obs * case_obs) :=
  match steps with
  | [] => []
  | (ev, req) :: r =>
      let restored := fsm_case (dump_of i) ev req in
      let live := inst_do i ev req in
      (obs_of_do live, restored) ::
        match live with
        | IRes i' _ _ _ => mem_walk i' r
        | IRoute i' => mem_walk i' r
        | IPanic => []
        end
  end.

Definition mem_case (d : dump) (steps : list (string * request)) : option (list (case_obs * case_obs)) :=
  match from_dump d with
  | LoadOk i => Some (mem_walk i steps)
  | _ => None
  end.
