(* C05 (4), callback level: a callback that refuses a request leaves the payload as it was. *)
From Coq Require Import String List NArith ZArith Bool Lia.
Require Import Fsm.EngineDefs Fsm.Types Fsm.Engine Fsm.EngineFacts Fsm.Actions Fsm.Provider Fsm.Handover.
Import ListNotations.

Ltac crush_err :=
  repeat match goal with
         | |- context [match ?x with _ => _ end] =>
             lazymatch x with
             | context [match _ with _ => _ end] => fail
             | _ => destruct x
             end
         end; intros H; try discriminate; try (inversion H; reflexivity).

Lemma sig_init_err ev p req p' : action_sig_init ev p req = CbErr p' -> p' = p.
Proof. unfold action_sig_init. crush_err. Qed.
Lemma sig_response_err ev p req p' : action_sig_response ev p req = CbErr p' -> p' = p.
Proof. unfold action_sig_response. crush_err. Qed.
Lemma sig_validate_err ev p req p' : action_sig_validate ev p req = CbErr p' -> p' = p.
Proof. unfold action_sig_validate. crush_err. Qed.
Lemma dkg_init_err ev p req p' : action_dkg_init ev p req = CbErr p' -> p' = p.
Proof. unfold action_dkg_init. crush_err. Qed.
Lemma dkg_confirm_err k ev p req p' : action_dkg_confirm k ev p req = CbErr p' -> p' = p.
Proof. unfold action_dkg_confirm, dkg_confirm. crush_err. Qed.
Lemma dkg_error_err k ev p req p' : action_dkg_error k ev p req = CbErr p' -> p' = p.
Proof. unfold action_dkg_error. crush_err. Qed.
Lemma dkg_validate_err k ev p req p' : action_dkg_validate k ev p req = CbErr p' -> p' = p.
Proof. unfold action_dkg_validate. crush_err. Qed.
Lemma sgn_init_err ev p req p' : action_sgn_init ev p req = CbErr p' -> p' = p.
Proof. unfold action_sgn_init. crush_err. Qed.
Lemma sgn_start_err ev p req p' : action_sgn_start ev p req = CbErr p' -> p' = p.
Proof. unfold action_sgn_start. crush_err. Qed.
Lemma sgn_partial_err ev p req p' : action_sgn_partial ev p req = CbErr p' -> p' = p.
Proof. unfold action_sgn_partial, set_sig_updated, set_sgn; cbn [p_sig]. crush_err. Qed.
Lemma sgn_error_err ev p req p' : action_sgn_error ev p req = CbErr p' -> p' = p.
Proof. unfold action_sgn_error, set_sig_updated, set_sgn; cbn [p_sig]. crush_err. Qed.
Lemma sgn_validate_err ev p req p' : action_sgn_validate ev p req = CbErr p' -> p' = p.
Proof. unfold action_sgn_validate. crush_err. Qed.

Lemma dkg_dispatch_err ks ev p req p' : dkg_dispatch ks ev p req = CbErr p' -> p' = p.
Proof.
  induction ks as [|k r IH]; cbn [dkg_dispatch]; [intros H; inversion H; reflexivity|].
  destruct (String.eqb ev (ev_dkg_confirm k)); [apply dkg_confirm_err|].
  destruct (String.eqb ev (ev_dkg_error k)); [apply dkg_error_err|].
  destruct (String.eqb ev (ev_dkg_validate k)); [apply dkg_validate_err|]. exact IH.
Qed.

(* every registered callback of the three machines *)
Theorem callback_refusal_keeps_payload mach ev p req p' :
  cb_by_name mach ev p req = CbErr p' -> p' = p.
Proof.
  unfold cb_by_name.
  destruct (String.eqb mach _).
  - unfold cb_sigprop.
    destruct (String.eqb ev ev_sig_init); [apply sig_init_err|].
    destruct (_ || _); [apply sig_response_err|].
    destruct (String.eqb ev ev_sig_validate); [apply sig_validate_err|].
    intros H; inversion H; reflexivity.
  - destruct (String.eqb mach _).
    + unfold cb_dkgprop. destruct (String.eqb ev ev_dkg_init); [apply dkg_init_err|apply dkg_dispatch_err].
    + unfold cb_signing.
      destruct (String.eqb ev ev_sgn_init); [apply sgn_init_err|].
      destruct (String.eqb ev ev_sgn_start); [apply sgn_start_err|].
      destruct (String.eqb ev ev_sgn_partial); [apply sgn_partial_err|].
      destruct (String.eqb ev ev_sgn_validate); [apply sgn_validate_err|].
      destruct (String.eqb ev ev_sgn_error); [apply sgn_error_err|].
      destruct (String.eqb ev ev_sgn_restart); [|intros H; inversion H; reflexivity].
      unfold action_sgn_restart. discriminate.
Qed.

(* hence: an event whose own callback refuses it leaves machine state and payload untouched,
   and so does an event without a route (nothing is called at all) *)
Theorem do_route_or_refusal_noop (i : instance) ev req :
  match inst_do i ev req with
  | IRoute i' => dump_of i' = dump_of i
  | _ => True
  end.
Proof.
  unfold inst_do, inst_do_core. destruct (table_by_name (i_mach (handover i))); [|apply dump_of_handover].
  destruct (fsm_do _ _ _ _ _ _); auto. apply dump_of_handover.
Qed.
