(* the hand-over step of FSMInstance.Do: it never touches what is persisted, and it is the
   identity on an instance whose machine owns its state *)
From Coq Require Import String List NArith ZArith Bool.
Require Import Fsm.EngineDefs Fsm.Types Fsm.Engine Fsm.Actions Fsm.Provider.
Import ListNotations.
Local Open Scope string_scope.

Lemma dump_of_handover i : dump_of (handover i) = dump_of i.
Proof.
  unfold handover. destruct (table_by_name (i_mach i)); [|reflexivity].
  destruct (mem_str _ _); [|reflexivity]. destruct (machine_by_state _); [|reflexivity].
  destruct (String.eqb _ _); reflexivity.
Qed.

Lemma handover_id i t : machine_by_state (i_cur i) = Some t -> ft_name t = i_mach i -> handover i = i.
Proof.
  intros Hm Hn. unfold handover. destruct (table_by_name (i_mach i)); [|reflexivity].
  destruct (mem_str _ _); [|reflexivity]. rewrite Hm, Hn, String.eqb_refl. reflexivity.
Qed.

Lemma inst_do_owner i t ev req :
  machine_by_state (i_cur i) = Some t -> ft_name t = i_mach i -> inst_do i ev req = inst_do_core i ev req.
Proof. intros Hm Hn. unfold inst_do. rewrite (handover_id i t Hm Hn). reflexivity. Qed.
