(* C19: which round states can be restored, and that restoring does not change behaviour. *)
From Coq Require Import String List NArith ZArith Bool Lia.
Require Import Fsm.EngineDefs Fsm.Types Fsm.Engine Fsm.EngineFacts Fsm.Actions Fsm.Provider
               Fsm.TableFacts Fsm.CancelFinal Fsm.Handover.
Require Gen.Tables.
Import ListNotations.
Local Open Scope string_scope.

(* every state named by any table *)
Definition all_states : list string :=
  flat_map (fun t => flat_map (fun tr => [t_src tr; t_dst tr]) (ft_transitions t)) machines.

Lemma all_states_closed :
  forallb (fun t => closed_b t all_states) machines = true.
Proof. vm_compute. reflexivity. Qed.

(* every state of the tables is owned by a machine that accepts it (after the repair of the pool:
   the six final states of cancelled rounds included) *)
Lemma states_loadable_or_dead :
  forallb (fun s => false ||
                    match machine_by_state s with
                    | Some t => copy_with_state_ok t s && negb (String.eqb s "") &&
                                match table_by_name (ft_name t) with Some t' => true | None => false end
                    | None => false
                    end) all_states = true.
Proof. vm_compute. reflexivity. Qed.

Lemma table_by_name_In n t : table_by_name n = Some t -> In t machines.
Proof.
  unfold table_by_name. intros H. apply find_some in H. tauto.
Qed.

Lemma machine_by_state_In s t : machine_by_state s = Some t -> In t machines.
Proof.
  unfold machine_by_state. destruct (slookup s _); [|discriminate]. apply table_by_name_In.
Qed.

(* one FSM call keeps the state inside the tables' states *)
Lemma do_on_dump_states d ev req d' rs rd :
  In (d_state d) all_states -> do_on_dump d ev req = SOk d' rs rd -> In (d_state d') all_states.
Proof.
  intros Hin H. unfold do_on_dump, from_dump in H.
  destruct (machine_by_state (d_state d)) as [t|] eqn:Em; [|discriminate].
  destruct (copy_with_state_ok t (d_state d)); [|discriminate].
  destruct (String.eqb (d_state d) "") eqn:Ee0.
  { apply String.eqb_eq in Ee0. exfalso. rewrite Ee0 in Hin. revert Hin. vm_compute. intuition discriminate. }
  rewrite (inst_do_owner _ t) in H by (cbn [i_cur i_mach]; first [exact Em|reflexivity]).
  unfold inst_do_core in H. cbn [i_mach i_cur i_payload] in H.
  destruct (table_by_name (ft_name t)) as [t'|] eqn:Et; [|discriminate].
  destruct (String.eqb (d_state d) "") eqn:Ee.
  { apply String.eqb_eq in Ee.
    (* the empty string is not a state of the tables *)
    exfalso. rewrite Ee in Hin. revert Hin. vm_compute. intuition discriminate. }
  destruct (fsm_do t' _ (d_state d) (d_payload d) ev req) as [|cur' rs' rd' err p'|] eqn:Ed; try discriminate.
  destruct err; [discriminate|].
  pose proof all_states_closed as Hc. rewrite forallb_forall in Hc.
  specialize (Hc t' (table_by_name_In _ _ Et)).
  pose proof (fsm_do_closed _ _ _ _ _ _ _ _ _ _ _ _ Hc Hin Ed) as Hin'.
  inversion H; subst. exact Hin'.
Qed.

Lemma round_step_states now d ev req d' rs rd :
  In (d_state d) all_states -> round_step now d ev req = SOk d' rs rd -> In (d_state d') all_states.
Proof.
  intros Hin H. unfold round_step in H.
  destruct (do_on_dump d ev req) as [d1 r1 x1| |] eqn:E1; try discriminate.
  pose proof (do_on_dump_states _ _ _ _ _ _ Hin E1) as H1.
  destruct (String.eqb r1 st_collected).
  - destruct (do_on_dump d1 ev_dkg_init _) as [d2 r2 x2| |] eqn:E2; try discriminate.
    pose proof (do_on_dump_states _ _ _ _ _ _ H1 E2) as H2.
    destruct (String.eqb r2 st_master_collected).
    + destruct (do_on_dump d2 ev_sgn_init _) as [d3 r3 x3| |] eqn:E3; try discriminate.
      pose proof (do_on_dump_states _ _ _ _ _ _ H2 E3) as H3.
      destruct (String.eqb r3 st_partial_collected).
      * destruct (do_on_dump d3 ev_sgn_restart _) as [d4 r4 x4| |] eqn:E4; try discriminate.
        inversion H; subst. eapply do_on_dump_states; eassumption.
      * inversion H; subst. exact H3.
    + destruct (String.eqb r2 st_partial_collected).
      * destruct (do_on_dump d2 ev_sgn_restart _) as [d4 r4 x4| |] eqn:E4; try discriminate.
        inversion H; subst. eapply do_on_dump_states; eassumption.
      * inversion H; subst. exact H2.
  - destruct (String.eqb r1 st_master_collected).
    + destruct (do_on_dump d1 ev_sgn_init _) as [d3 r3 x3| |] eqn:E3; try discriminate.
      pose proof (do_on_dump_states _ _ _ _ _ _ H1 E3) as H3.
      destruct (String.eqb r3 st_partial_collected).
      * destruct (do_on_dump d3 ev_sgn_restart _) as [d4 r4 x4| |] eqn:E4; try discriminate.
        inversion H; subst. eapply do_on_dump_states; eassumption.
      * inversion H; subst. exact H3.
    + destruct (String.eqb r1 st_partial_collected).
      * destruct (do_on_dump d1 ev_sgn_restart _) as [d4 r4 x4| |] eqn:E4; try discriminate.
        inversion H; subst. eapply do_on_dump_states; eassumption.
      * inversion H; subst. exact H1.
Qed.

Definition initial_dump : dump := {| d_state := "__idle"; d_payload := empty_payload |}.

Lemma run_round_states d tr : In (d_state d) all_states -> In (d_state (run_round d tr)) all_states.
Proof.
  revert d. induction tr as [|[[now ev] req] tr IH]; intros d Hin; [exact Hin|].
  cbn [run_round]. destruct (round_step now d ev req) as [d' rs rd| |] eqn:E; try (apply IH; exact Hin).
  apply IH. eapply round_step_states; eassumption.
Qed.

(* the history that used to end in an unloadable state (defect repaired: fix bd98172) *)
Definition declined_history : list (Z * string * request) :=
  [ (0%Z, ev_sig_init,
     RList [ {| pe_name := 2; pe_name_len := 5; pe_pk := 3; pe_pk_len := 12; pe_dpk := 4; pe_dpk_len := 12 |};
             {| pe_name := 5; pe_name_len := 5; pe_pk := 6; pe_pk_len := 12; pe_dpk := 7; pe_dpk_len := 12 |} ]%N 2 0);
    (20%Z, ev_sig_decline, RPart 1 10) ].

Example declined_round_is_loadable :
  d_state (run_round initial_dump declined_history) = "state_sig_proposal_canceled_by_participant" /\
  exists i, from_dump (run_round initial_dump declined_history) = LoadOk i.
Proof. split; [vm_compute; reflexivity|]. eexists. vm_compute. reflexivity. Qed.

(* every round reachable by any history can be loaded back *)
Theorem all_loadable tr : exists i, from_dump (run_round initial_dump tr) = LoadOk i.
Proof.
  set (d := run_round initial_dump tr).
  assert (Hin : In (d_state d) all_states).
  { apply run_round_states. vm_compute. tauto. }
  pose proof states_loadable_or_dead as Hl. rewrite forallb_forall in Hl. specialize (Hl _ Hin).
  cbn [orb] in Hl.
  unfold from_dump. destruct (machine_by_state (d_state d)) as [t|]; [|discriminate].
  apply andb_prop in Hl as [Hl _]. apply andb_prop in Hl as [Hc _]. rewrite Hc. eexists. reflexivity.
Qed.


(* restoring does not change behaviour: an instance whose machine owns its current state
   answers every event exactly like the instance rebuilt from its dump *)
Definition owned (i : instance) : Prop :=
  i_dstate i = i_cur i /\ i_cur i <> "" /\
  exists t, machine_by_state (i_cur i) = Some t /\ ft_name t = i_mach i /\ copy_with_state_ok t (i_cur i) = true.

Theorem restore_same_instance i : owned i -> from_dump (dump_of i) = LoadOk i.
Proof.
  intros (Hd & Hne & t & Hm & Hn & Hc). unfold from_dump, dump_of. cbn [d_state d_payload].
  rewrite Hd, Hm, Hc. apply String.eqb_neq in Hne. rewrite Hne.
  destruct i as [m c ds p]. cbn in *. subst. reflexivity.
Qed.

Theorem restore_step i ev req :
  owned i -> fsm_case (dump_of i) ev req = obs_of_do (inst_do i ev req).
Proof. intros H. unfold fsm_case. rewrite (restore_same_instance i H). reflexivity. Qed.

(* a freshly restored instance is owned; so two consecutive restores agree *)
Theorem restored_is_owned d i : from_dump d = LoadOk i -> d_state d <> "" -> owned i.
Proof.
  unfold from_dump. destruct (machine_by_state (d_state d)) as [t|] eqn:Em; [|discriminate].
  destruct (copy_with_state_ok t (d_state d)) eqn:Ec; [|discriminate].
  intros H Hne. apply String.eqb_neq in Hne. rewrite Hne in H. inversion H; subst.
  unfold owned. cbn. apply String.eqb_neq in Hne. repeat split; auto. exists t. auto.
Qed.

(* ---- every live instance (since the hand-over repair): no ownership hypothesis ---- *)
Definition live (i : instance) : Prop :=
  i_dstate i = i_cur i /\ i_cur i <> "" /\
  exists t, table_by_name (i_mach i) = Some t /\
            (mem_str (i_cur i) (states_list t) || mem_str (i_cur i) (ft_fin t)) = true.

Lemma table_by_name_name n t : table_by_name n = Some t -> ft_name t = n.
Proof. unfold table_by_name. intros H. apply find_some in H as [_ H]. apply String.eqb_eq in H. exact H. Qed.

(* every state of every table is owned by a machine that accepts it: by the table itself, or - when
   it is a final state of the table - possibly by the next machine *)
Lemma live_states_owned :
  forallb (fun t => forallb (fun s => match machine_by_state s with
                                      | Some t' => copy_with_state_ok t' s &&
                                                   (String.eqb (ft_name t') (ft_name t) || mem_str s (ft_fin t))
                                      | None => false
                                      end) (states_list t ++ ft_fin t)) machines = true.
Proof. vm_compute. reflexivity. Qed.

Lemma handover_owned i : live i -> owned (handover i).
Proof.
  intros (Hd & Hne & t & Ht & Hs).
  pose proof live_states_owned as Hl. rewrite forallb_forall in Hl.
  specialize (Hl t (table_by_name_In _ _ Ht)). rewrite forallb_forall in Hl.
  assert (Hin : In (i_cur i) (states_list t ++ ft_fin t)).
  { apply in_or_app. apply orb_true_iff in Hs as [H|H]; [left|right]; apply mem_str_In; exact H. }
  specialize (Hl _ Hin).
  destruct (machine_by_state (i_cur i)) as [t'|] eqn:Em; [|discriminate].
  apply andb_prop in Hl as [Hc Hor].
  pose proof (table_by_name_name _ _ Ht) as Hn.
  unfold handover. rewrite Ht.
  destruct (mem_str (i_cur i) (ft_fin t)) eqn:Ef.
  - rewrite Em. destruct (String.eqb (ft_name t') (i_mach i)) eqn:En.
    + apply String.eqb_eq in En. unfold owned. repeat split; auto. exists t'. auto.
    + unfold owned. cbn [i_dstate i_cur i_mach]. repeat split; auto. exists t'. auto.
  - rewrite orb_false_r in Hor. apply String.eqb_eq in Hor.
    unfold owned. repeat split; auto. exists t'. repeat split; auto. congruence.
Qed.

Lemma handover_idem i : owned i -> handover i = i.
Proof. intros (_ & _ & t & Hm & Hn & _). apply (handover_id i t Hm Hn). Qed.

Theorem restore_step_live i ev req :
  live i -> fsm_case (dump_of i) ev req = obs_of_do (inst_do i ev req).
Proof.
  intros Hl. pose proof (handover_owned i Hl) as Ho.
  rewrite <- (dump_of_handover i). rewrite (restore_step (handover i) ev req Ho).
  unfold inst_do. rewrite (handover_idem _ Ho). reflexivity.
Qed.
