(* C11: an error report of an awaited participant ends the phase cancelled (regenerated DKG table,
   actionConfirmationError), for the responses phase (a refused deal) and the master-key phase
   (a complaint). *)
From Coq Require Import String List NArith ZArith Bool Lia.
Require Import Fsm.EngineDefs Fsm.Types Fsm.Engine Fsm.EngineFacts Fsm.Actions Fsm.Provider.
Require Gen.Tables.
Import ListNotations.
Local Open Scope string_scope.
Local Open Scope Z_scope.

Definition dmk (s : string) (p : payload) : dump := {| d_state := s; d_payload := p |}.
Definition st_await_of (k : N) : string :=
  match k with
  | 0%N => "state_dkg_commits_await_confirmations" | 1%N => "state_dkg_deals_await_confirmations"
  | 2%N => "state_dkg_responses_await_confirmations" | _ => "state_dkg_master_key_await_confirmations" end.
Definition st_cancelled_of (k : N) : string :=
  match k with
  | 0%N => "state_dkg_commits_await_canceled_by_error" | 1%N => "state_dkg_deals_await_canceled_by_error"
  | 2%N => "state_dkg_responses_await_canceled_by_error" | _ => "state_dkg_master_key_await_canceled_by_error" end.

Ltac crunchd := cbv -[action_dkg_error action_dkg_validate action_dkg_confirm action_dkg_init].

Lemma do_error_cancels k p req p' :
  (k < 4)%N ->
  action_dkg_error k (ev_dkg_error k) p req = CbOk "" None p' ->
  do_on_dump (dmk (st_await_of k) p) (ev_dkg_error k) req = SOk (dmk (st_cancelled_of k) p') (st_cancelled_of k) None.
Proof.
  intros Hk H.
  assert (Hc : k = 0%N \/ k = 1%N \/ k = 2%N \/ k = 3%N) by lia.
  destruct Hc as [E|[E|[E|E]]]; subst k; cbv [ev_dkg_error] in H; unfold do_on_dump; crunchd; rewrite H; crunchd; reflexivity.
Qed.

(* the report of a participant that is still awaited in phase k is accepted *)
Lemma error_report_accepted k p c pid e created d :
  p_dkg p = Some c -> qget (dc_quorum c) pid = Some d -> dp_status d = dkg_await k ->
  0 <= pid -> is_zero_time created = false ->
  exists p', action_dkg_error k (ev_dkg_error k) p (RError pid (Some e) created) = CbOk "" None p' /\
             exists c' d', p_dkg p' = Some c' /\ qget (dc_quorum c') pid = Some d' /\ dp_status d' = dkg_error k /\
                           p_sgn p' = p_sgn p.
Proof.
  intros Hc Hq Hs Hp Hz. unfold action_dkg_error.
  destruct (Z.ltb_spec pid 0); [lia|]. rewrite Hz. cbn [orb]. rewrite Hc, Hq, Hs, N.eqb_refl. cbn [negb].
  eexists. split; [reflexivity|].
  exists (dkg_with c (qset (dc_quorum c) pid
                        {| dp_name := dp_name d; dp_dkgpub := dp_dkgpub d; dp_commit := dp_commit d;
                           dp_deal := dp_deal d; dp_response := dp_response d; dp_master := dp_master d;
                           dp_status := dkg_error k; dp_error := Some e; dp_updated := created |}) created (dc_pubpoly c)).
  eexists. unfold set_dkg, dkg_with. cbn [p_dkg dc_quorum p_sgn].
  split; [reflexivity|]. split.
  - clear -Hq. induction (dc_quorum c) as [|[j b] r IH]; cbn [qget qset] in *; [discriminate|].
    destruct (j =? pid) eqn:E; cbn [qget]; rewrite E; [reflexivity|]. apply IH. exact Hq.
  - split; reflexivity.
Qed.

Theorem error_report_cancels_phase now k p c pid e created d :
  (k < 4)%N -> p_dkg p = Some c -> qget (dc_quorum c) pid = Some d -> dp_status d = dkg_await k ->
  0 <= pid -> is_zero_time created = false ->
  exists p', round_step now (dmk (st_await_of k) p) (ev_dkg_error k) (RError pid (Some e) created)
             = SOk (dmk (st_cancelled_of k) p') (st_cancelled_of k) None.
Proof.
  intros Hk Hc Hq Hs Hp Hz.
  destruct (error_report_accepted k p c pid e created d Hc Hq Hs Hp Hz) as (p' & Hok & _).
  exists p'. unfold round_step. rewrite (do_error_cancels k p _ p' Hk Hok).
  assert (Hcs : k = 0%N \/ k = 1%N \/ k = 2%N \/ k = 3%N) by lia.
  destruct Hcs as [E|[E|[E|E]]]; subst k; reflexivity.
Qed.

(* OPEN FINDING (C11): the report of a LATER phase is refused by a round that is still in an earlier
   one - there is no route for it in the regenerated table - whatever the round holds.  A dealer that
   holds back one addressee's deal until another addressee has reported its contradicting deal makes
   the first one miss the report: it is still waiting for deals when the report arrives. *)
Theorem later_phase_report_refused now k j p req :
  (k < j)%N -> (j < 4)%N ->
  round_step now (dmk (st_await_of k) p) (ev_dkg_error j) req = SRej.
Proof.
  intros Hkj Hj.
  assert (Hc : ((k = 0 /\ j = 1) \/ (k = 0 /\ j = 2) \/ (k = 0 /\ j = 3) \/ (k = 1 /\ j = 2) \/ (k = 1 /\ j = 3) \/ (k = 2 /\ j = 3))%N) by lia.
  destruct Hc as [[Ek Ej]|[[Ek Ej]|[[Ek Ej]|[[Ek Ej]|[[Ek Ej]|[Ek Ej]]]]]]; subst k j;
    unfold round_step, do_on_dump; crunchd; reflexivity.
Qed.
