(* An instance that is live (its machine knows its state) stays live under FSMInstance.Do, and every
   restored instance is live: so "continuing in memory = continuing after dump + restore" (C19)
   holds along every in-memory continuation of a restored round. *)
From Coq Require Import String List NArith ZArith Bool.
Require Import Fsm.EngineDefs Fsm.Types Fsm.Engine Fsm.EngineFacts Fsm.Actions Fsm.Provider Fsm.Handover Fsm.Loadable.
Import ListNotations.
Local Open Scope string_scope.

Lemma owned_live i : owned i -> live i.
Proof.
  intros (Hd & Hne & t & Hm & Hn & Hc). unfold live. split; [exact Hd|]. split; [exact Hne|].
  exists t. unfold machine_by_state in Hm. destruct (slookup (i_cur i) Gen.Tables.pool_states) as [n|]; [|discriminate].
  pose proof (table_by_name_name _ _ Hm) as Hname. split; [congruence|].
  unfold copy_with_state_ok in Hc. apply String.eqb_neq in Hne. rewrite Hne in Hc. exact Hc.
Qed.

(* the states a machine knows are closed under its transitions, and none is the empty string
   (computed on the regenerated tables) *)
Lemma known_states_closed :
  forallb (fun t => closed_b t (states_list t ++ ft_fin t) &&
                    negb (mem_str "" (states_list t ++ ft_fin t))) machines = true.
Proof. vm_compute. reflexivity. Qed.

Lemma mem_str_app x a b : mem_str x (a ++ b) = mem_str x a || mem_str x b.
Proof. induction a as [|y r IH]; cbn [mem_str app]; [reflexivity|]. rewrite IH, orb_assoc. reflexivity. Qed.

Lemma inst_do_core_live i ev req i' rs rd err :
  live i -> inst_do_core i ev req = IRes i' rs rd err -> live i'.
Proof.
  intros (Hd & Hne & t & Ht & Hs) H. unfold inst_do_core in H. rewrite Ht in H.
  destruct (fsm_do t _ _ _ _ _) eqn:Ef; try discriminate.
  inversion H; subst. clear H.
  pose proof known_states_closed as Hk. rewrite forallb_forall in Hk.
  specialize (Hk t (table_by_name_In _ _ Ht)). apply andb_prop in Hk as [Hc Hn].
  assert (Hin : In (i_cur i) (states_list t ++ ft_fin t)).
  { apply mem_str_In. rewrite mem_str_app. exact Hs. }
  pose proof (fsm_do_closed _ _ _ _ _ _ _ _ _ _ _ _ Hc Hin Ef) as Hin'.
  unfold live. cbn [i_dstate i_cur i_mach]. split; [reflexivity|]. split.
  - intros ->. apply mem_str_In in Hin'. rewrite Hin' in Hn. discriminate.
  - exists t. split; [exact Ht|]. rewrite <- mem_str_app. apply mem_str_In. exact Hin'.
Qed.

Theorem inst_do_live i ev req i' rs rd err :
  live i -> inst_do i ev req = IRes i' rs rd err -> live i'.
Proof.
  intros Hl H. unfold inst_do in H. eapply inst_do_core_live; [|exact H].
  apply owned_live. apply handover_owned. exact Hl.
Qed.
