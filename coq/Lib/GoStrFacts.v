(* facts about Go decimal formatting: printing then parsing is the identity, so printing is injective *)
From Coq Require Import List NArith ZArith Lia ZifyN ZifyNat ZifyBool.
Require Import Lib.GoStr.
Import ListNotations.
Ltac Zify.zify_post_hook ::= Z.div_mod_to_equations.

Lemma parse_dec_digits fuel : forall n acc, (n < 2 ^ N.of_nat fuel)%N ->
  parse_digits (dec_digits fuel n acc) 0 = parse_digits acc (Z.of_N n).
Proof.
  induction fuel as [|f IH]; intros n acc Hn.
  - cbn [dec_digits]. change (2 ^ N.of_nat 0)%N with 1%N in Hn. replace n with 0%N by lia. reflexivity.
  - cbn [dec_digits].
    assert (Hp : (2 ^ N.of_nat (S f) = 2 * 2 ^ N.of_nat f)%N).
    { rewrite Nat2N.inj_succ, N.pow_succ_r'; reflexivity. }
    assert (Hd : (48 <= 48 + n mod 10)%N /\ (48 + n mod 10 <= 57)%N) by lia.
    destruct (N.eqb (n / 10) 0) eqn:Eq.
    + cbn [parse_digits].
      destruct Hd as [H1 H2]. apply N.leb_le in H1, H2. rewrite H1, H2. cbn [andb].
      f_equal. apply N.eqb_eq in Eq. lia.
    + rewrite IH.
      * cbn [parse_digits]. destruct Hd as [H1 H2]. apply N.leb_le in H1, H2. rewrite H1, H2. cbn [andb].
        f_equal. lia.
      * apply N.eqb_neq in Eq. lia.
Qed.

Lemma parse_dec_of_N n : parse_digits (dec_of_N n) 0 = Some (Z.of_N n).
Proof.
  unfold dec_of_N. rewrite parse_dec_digits; [reflexivity|].
  destruct n as [|p]; [reflexivity|].
  rewrite Nat2N.inj_succ, N2Nat.id. apply N.log2_spec. reflexivity.
Qed.

Lemma dec_of_N_inj a b : dec_of_N a = dec_of_N b -> a = b.
Proof. intros H. pose proof (parse_dec_of_N a) as Ha. rewrite H, parse_dec_of_N in Ha. injection Ha. lia. Qed.

Lemma dec_of_Z_inj a b : dec_of_Z a = dec_of_Z b -> a = b.
Proof.
  unfold dec_of_Z. destruct (a <? 0)%Z eqn:Ea, (b <? 0)%Z eqn:Eb; intros H.
  - injection H as H. apply dec_of_N_inj in H. lia.
  - pose proof (parse_dec_of_N (Z.to_N b)) as Hb. rewrite <- H in Hb. cbn in Hb. discriminate.
  - pose proof (parse_dec_of_N (Z.to_N a)) as Hb. rewrite H in Hb. cbn in Hb. discriminate.
  - apply dec_of_N_inj in H. lia.
Qed.
