(* Go strings as byte lists (list N), decimal formatting and strconv.ParseInt(s, 10, 64).
   Model file: definitions only. *)
From Coq Require Import List NArith ZArith.
Import ListNotations.
Local Open Scope Z_scope.

Definition gostring := list N.

Fixpoint bytes_eqb (a b : list N) : bool :=
  match a, b with
  | [], [] => true
  | x :: a', y :: b' => N.eqb x y && bytes_eqb a' b'
  | _, _ => false
  end.

(* decimal digits of a natural number (fuel = number of binary digits + 1 is enough) *)
Fixpoint dec_digits (fuel : nat) (n : N) (acc : list N) : list N :=
  match fuel with
  | O => acc
  | S f => let q := N.div n 10 in
           let d := (48 + N.modulo n 10)%N in
           if N.eqb q 0 then d :: acc else dec_digits f q (d :: acc)
  end.
Definition dec_of_N (n : N) : list N := dec_digits (S (N.to_nat (N.log2 n))) n [].
(* fmt.Sprintf("%d", z) *)
Definition dec_of_Z (z : Z) : list N :=
  if z <? 0 then 45%N :: dec_of_N (Z.to_N (- z)) else dec_of_N (Z.to_N z).

(* digits only, non-empty *)
Fixpoint parse_digits (bs : list N) (acc : Z) : option Z :=
  match bs with
  | [] => Some acc
  | c :: r => if andb (N.leb 48 c) (N.leb c 57)
              then parse_digits r (acc * 10 + Z.of_N (c - 48))
              else None
  end.

Definition int64_min : Z := - 9223372036854775808.
Definition int64_max : Z := 9223372036854775807.

(* strconv.ParseInt(s, 10, 64): optional sign, at least one digit, decimal digits only,
   value must fit int64 (otherwise ErrRange) *)
Definition parse_int64 (s : list N) : option Z :=
  let go (neg : bool) (ds : list N) :=
    match ds with
    | [] => None
    | _ => match parse_digits ds 0 with
           | Some v => let v' := if neg then - v else v in
                       if andb (int64_min <=? v') (v' <=? int64_max) then Some v' else None
           | None => None
           end
    end in
  match s with
  | [] => None
  | 43%N :: r => go false r
  | 45%N :: r => go true r
  | _ => go false s
  end.

(* Go conversion uint64(int64) *)
Definition uint64_of_int64 (v : Z) : N := Z.to_N (v mod 18446744073709551616).
