(* client/types/types.go GenerateReDKGMessage (the tool that turns the board log of a finished key
   generation into a reinit file; repaired by 34530eb): every opening proposal in the log sets the
   round identifier and the threshold of the file and APPENDS its participants; the messages of the
   signing phase are left out one by one; everything else is copied, in order.  Definitions only. *)
From Coq Require Import String List NArith ZArith Bool.
Require Import Fsm.EngineDefs Fsm.Types Fsm.Actions Node.Types Node.Process.
Import ListNotations.
Local Open Scope string_scope.
Local Open Scope list_scope.

(* what the generator looks at in a board message *)
Record gmsg := { gm_event : string; gm_round : tok; gm_tag : N;
                 gm_threshold : Z; gm_parts : list tok }.   (* the last two: of an opening proposal *)

Record gfile := { gf_id : tok; gf_threshold : Z; gf_parts : list tok; gf_msgs : list gmsg }.

Definition gen_step (f : gfile) (m : gmsg) : gfile :=
  let f1 := if String.eqb (gm_event m) ev_sig_init
            then {| gf_id := gm_round m; gf_threshold := gm_threshold m; gf_parts := gf_parts f ++ gm_parts m; gf_msgs := gf_msgs f |}
            else f in
  if is_signing_event (gm_event m) then f1
  else {| gf_id := gf_id f1; gf_threshold := gf_threshold f1; gf_parts := gf_parts f1; gf_msgs := gf_msgs f1 ++ [m] |}.

Definition gen_redkg (log : list gmsg) : gfile :=
  fold_left gen_step log {| gf_id := 0%N; gf_threshold := 0%Z; gf_parts := []; gf_msgs := [] |}.
