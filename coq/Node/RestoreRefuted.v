(* C20, the part that is FALSE of the code (open finding C20-reinit-replays-unverified-message):
   "a node restored from the dump of a round holds that round as the live nodes do" fails for a
   dump containing a message the live nodes refused for its signature.  Concrete witness on the
   example node of Node/Local.v: a decline in participant 0's name, signed by nobody, lies on the
   board after the opening proposal; every live node refuses it and keeps waiting for
   confirmations, the node restored from the very same log cancels the round. *)
From Coq Require Import String List NArith ZArith Bool.
Require Import Fsm.EngineDefs Fsm.Types Fsm.Engine Fsm.Actions Fsm.Provider Node.Types Node.Process Node.Crash Node.Local.
Import ListNotations.

Definition forged_decline : message :=
  {| m_round := 9%N; m_event := ev_sig_decline; m_data := 11%N; m_req := MFsm (RPart 0 10); m_sig := SigJunk;
     m_sender := 2%N; m_recipient := 0%N; m_tasks := None |}.

Definition the_log : list message := [ex_prop 9%N; forged_decline].

Definition round_state (st : nstate) (r : tok) : option string :=
  match tget' (ns_rounds st) r with Some d => Some (d_state d) | None => None end.

(* a live node polls a log, verification on *)
Definition live_of (log : list message) : nstate := run_msgs (empty_node 2%N 3%N) (map (fun m => (777%Z, m)) log).

(* a fresh node is handed the same log as a reinit file of round 9 (same participants, same keys) *)
Definition restored_of (log : list message) : option nstate :=
  state_after (empty_node 2%N 3%N)
    (reinit_dkg 777%Z {| h_st := empty_node 2%N 3%N; h_tr := [] |}
       (Some {| rd_id := 9%N; rd_parts := [{| rp_name := 2%N; rp_newkey := 3%N |}; {| rp_name := 5%N; rp_newkey := 6%N |}];
                rd_msgs := log; rd_hash := 0%N |})).

Definition restored_state (log : list message) : option string :=
  match restored_of log with Some st => round_state st 9%N | None => None end.

Local Open Scope string_scope.
Local Open Scope list_scope.

(* the live nodes refused the forged decline, writing nothing ... *)
Theorem live_nodes_refuse_the_forged_decline :
  exists h, (process_message true 777%Z {| h_st := live_of [ex_prop 9%N]; h_tr := [] |} forged_decline = RErr h) /\ (h_tr h = []).
Proof. eexists. split; vm_compute; reflexivity. Qed.

(* ... so the live round is still waiting for confirmations, while the restored one is cancelled *)
Theorem restored_round_differs_from_live_round :
  round_state (live_of the_log) 9%N = Some "state_sig_proposal_await_participants_confirmations" /\
  restored_state the_log = Some "state_sig_proposal_canceled_by_participant".
Proof. split; vm_compute; reflexivity. Qed.

(* control: without the forged message the two agree *)
Theorem without_the_forged_message_they_agree :
  restored_state [ex_prop 9%N] = round_state (live_of [ex_prop 9%N]) 9%N /\ restored_state [ex_prop 9%N] <> None.
Proof. split; vm_compute; [reflexivity|discriminate]. Qed.

Theorem restore_reaches_live_state_refuted :
  exists log, restored_state log <> round_state (live_of log) 9%N.
Proof.
  exists the_log. destruct restored_round_differs_from_live_round as [A B]. rewrite A, B. discriminate.
Qed.
