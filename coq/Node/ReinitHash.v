(* The confirmation hash of a reinit file (client/types.CalcStartReInitDKGMessageHash): SHA-1 of the
   concatenation, without separators, of the fields below.  Definitions only. *)
From Coq Require Import List NArith ZArith.
Require Import Lib.GoStr Ssz.Sha1.
Import ListNotations.

Record rh_part := { hp_new : list N; hp_old : list N; hp_dkg : list N; hp_name : list N }.
Record rh_msg := { hm_data : list N; hm_sig : list N; hm_rcpt : list N; hm_event : list N;
                   hm_sender : list N; hm_round : list N; hm_offset : Z }.
Record rh_file := { hf_id : list N; hf_threshold : Z; hf_parts : list rh_part; hf_msgs : list rh_msg }.

(* the fields in the order they are written into the hash input; numbers as "%d" *)
Definition part_fields (p : rh_part) : list (list N) := [hp_new p; hp_old p; hp_dkg p; hp_name p].
Definition msg_fields (m : rh_msg) : list (list N) :=
  [hm_data m; hm_sig m; hm_rcpt m; hm_event m; hm_sender m; hm_round m; dec_of_Z (hm_offset m)].
Definition fields (f : rh_file) : list (list N) :=
  [hf_id f; dec_of_Z (hf_threshold f)] ++ flat_map part_fields (hf_parts f) ++ flat_map msg_fields (hf_msgs f).

Definition hash_input (f : rh_file) : list N := concat (fields f).
Definition reinit_hash (f : rh_file) : list N := sha1 (hash_input f).
