(* C13: crash points of the node's handlers. *)
From Coq Require Import String List NArith ZArith Bool Lia.
Require Import Fsm.EngineDefs Fsm.Types Fsm.Engine Fsm.Actions Fsm.Provider Node.Types Node.Process.
Import ListNotations.
Local Open Scope string_scope.
Local Open Scope list_scope.

Definition writes_rounds (w : write) : bool := match w with WRounds _ => true | _ => false end.

(* a crash before the handler's first write to the round map leaves every round as it was: the
   message is simply handled again, from the same round state, after the restart *)
Lemma fold_no_rounds tr st :
  forallb (fun w => negb (writes_rounds w)) tr = true ->
  ns_rounds (fold_left apply_write tr st) = ns_rounds st.
Proof.
  revert st. induction tr as [|w r IH]; intros st H; cbn [fold_left]; [reflexivity|].
  cbn [forallb] in H. apply andb_prop in H as [Hw Hr]. rewrite IH by exact Hr.
  destruct w; cbn in *; try reflexivity; discriminate.
Qed.

Theorem crash_before_round_write_keeps_rounds {A} st k (r : res A) h u :
  forallb (fun w => negb (writes_rounds w)) (take_durable k (trace_of r)) = true ->
  crash_after st k r = ROk h u -> ns_rounds (h_st h) = ns_rounds st.
Proof.
  intros Hn H. unfold crash_after in H. inversion H; subst. cbn [emit h_st apply_write ns_rounds].
  apply fold_no_rounds. exact Hn.
Qed.

(* a restart only clears the volatile verification flag *)
Theorem restart_keeps_durable_state now st h u :
  node_step now st InRestart = ROk h u ->
  ns_rounds (h_st h) = ns_rounds st /\ ns_ops (h_st h) = ns_ops st /\ ns_deleted (h_st h) = ns_deleted st /\
  ns_sigs (h_st h) = ns_sigs st /\ ns_board (h_st h) = ns_board st.
Proof. cbn. intros H. inversion H; subst. cbn. auto. Qed.

(* ---- the witness of the former finding: the opening proposal, killed after its first durable write.
   (Before the repair the handler saved the round FIRST: the redelivered proposal was refused by the
   advanced round and the operation was never offered.) ---- *)
Definition w_ps : list part_entry :=
  [ {| pe_name := 2; pe_name_len := 5; pe_pk := 3; pe_pk_len := 32; pe_dpk := 4; pe_dpk_len := 12 |};
    {| pe_name := 5; pe_name_len := 5; pe_pk := 6; pe_pk_len := 32; pe_dpk := 7; pe_dpk_len := 12 |} ]%N.
Definition w_proposal : message :=
  {| m_round := 9%N; m_event := ev_sig_init; m_data := 10%N; m_req := MFsm (RList w_ps 2 0); m_sig := SigNone;
     m_sender := 2%N; m_recipient := 0%N; m_tasks := None |}.

Definition final_state (st : nstate) (ins : list ninput) : nstate :=
  fold_left (fun s i => match state_after s (node_step 777%Z s i) with Some s' => s' | None => s end) ins st.

Definition pending (st : nstate) : nat := length (ops_visible st).

(* the durable writes of the proposal's handler, in order: PutOperation then SaveFSM *)
Example proposal_trace_shape :
  map (fun w => match w with WRounds _ => 1 | WOps _ => 2 | _ => 0 end)%nat
      (trace_of (node_step 777 (empty_node 2%N 3%N) (InMsg w_proposal))) = [2; 1]%nat.
Proof. vm_compute. reflexivity. Qed.

(* killed at either point inside the handler, restarted, the proposal delivered again: the node
   ends in the very state of the run that was not killed *)
Theorem former_witness_resumes :
  let st0 := empty_node 2%N 3%N in
  pending (final_state st0 [InMsg w_proposal]) = 1%nat /\
  final_state st0 [InCrashMsg 0 w_proposal; InMsg w_proposal] = final_state st0 [InMsg w_proposal] /\
  final_state st0 [InCrashMsg 1 w_proposal; InMsg w_proposal] = final_state st0 [InMsg w_proposal] /\
  final_state st0 [InCrashMsg 2 w_proposal; InMsg w_proposal] = final_state st0 [InMsg w_proposal].
Proof. vm_compute. repeat split. Qed.

(* ---- effect orders regenerated from node_service.go ---- *)
Require Import Board.File.
Require Gen.Skeletons.

(* Poll: a message is handled before the offset past it is saved; hence a crash while handling
   the message at offset o leaves the saved offset <= o and the message is fetched again *)
Lemma poll_order_ok : Gen.Skeletons.poll_steps = [PLoadOffset; PGetMessages; PProcess; PSaveOffset].
Proof. reflexivity. Qed.

Fixpoint offset_after (steps : list pstep) (saved o : Z) : Z :=
  match steps with
  | [] => saved
  | PSaveOffset :: r => offset_after r (o + 1)%Z o
  | _ :: r => offset_after r saved o
  end.
Fixpoint index_of_process (steps : list pstep) (i : nat) : option nat :=
  match steps with
  | [] => None
  | PProcess :: _ => Some i
  | _ :: r => index_of_process r (S i)
  end.

Theorem crash_while_handling_refetches saved o :
  (saved <= o)%Z ->
  match index_of_process Gen.Skeletons.poll_steps 0 with
  | Some i => (offset_after (firstn i Gen.Skeletons.poll_steps) saved o <= o)%Z   (* killed inside step i *)
  | None => False
  end.
Proof. intros H. cbn. exact H. Qed.

(* executeOperation: the result's messages are sent before the operation is retired *)
Lemma execute_order_ok : Gen.Skeletons.execute_steps = [XLookup; XSend; XSaveFSM; XDelete].
Proof. reflexivity. Qed.
