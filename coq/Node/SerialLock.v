(* C14 with the handler mutex (fix): ProcessMessage and executeOperation each run under one node
   mutex.  The two programs of Node/Serial.v wrapped in acquire / release; the state space from the
   concrete initial pool is finite, so "every schedule" is decided by computing the reachable set
   and checking that it is closed under both threads' steps. *)
From Coq Require Import List NArith ZArith Bool Arith.
Require Import Node.Serial.
Import ListNotations.

Record ls := { l_kv : kv; l_a : astate; l_b : bstate; l_lock : nat; l_apc : nat; l_bpc : nat }.

Definition a_done (a : astate) : bool := a_abort a || Nat.leb 7 (a_pc a).
Definition b_done (b : bstate) : bool := b_abort b || Nat.leb 5 (b_pc b).

Definition lkstep (s : ls) (who : bool) : ls :=
  if who then
    match l_apc s with
    | 0 => if Nat.eqb (l_lock s) 0
           then {| l_kv := l_kv s; l_a := l_a s; l_b := l_b s; l_lock := 1; l_apc := 1; l_bpc := l_bpc s |}
           else s
    | 1 => if a_done (l_a s)
           then {| l_kv := l_kv s; l_a := l_a s; l_b := l_b s; l_lock := 0; l_apc := 2; l_bpc := l_bpc s |}
           else let (kv', a') := a_step 1 (l_kv s) (l_a s) in
                {| l_kv := kv'; l_a := a'; l_b := l_b s; l_lock := l_lock s; l_apc := 1; l_bpc := l_bpc s |}
    | _ => s
    end
  else
    match l_bpc s with
    | 0 => if Nat.eqb (l_lock s) 0
           then {| l_kv := l_kv s; l_a := l_a s; l_b := l_b s; l_lock := 2; l_apc := l_apc s; l_bpc := 1 |}
           else s
    | 1 => if b_done (l_b s)
           then {| l_kv := l_kv s; l_a := l_a s; l_b := l_b s; l_lock := 0; l_apc := l_apc s; l_bpc := 2 |}
           else let (kv', b') := b_step 2 (l_kv s) (l_b s) in
                {| l_kv := kv'; l_a := l_a s; l_b := b'; l_lock := l_lock s; l_apc := l_apc s; l_bpc := 1 |}
    | _ => s
    end.

Definition linit0 : ls :=
  {| l_kv := {| k_ops := [1]; k_del := [] |}; l_a := a0; l_b := b0; l_lock := 0; l_apc := 0; l_bpc := 0 |}.
Definition lkrun (sched : list bool) : ls := fold_left lkstep sched linit0.

(* decidable equality of states *)
Fixpoint nl_eqb (a b : list nat) : bool :=
  match a, b with [], [] => true | x :: a', y :: b' => Nat.eqb x y && nl_eqb a' b' | _, _ => false end.
Definition ls_eqb (s t : ls) : bool :=
  nl_eqb (k_ops (l_kv s)) (k_ops (l_kv t)) && nl_eqb (k_del (l_kv s)) (k_del (l_kv t)) &&
  Nat.eqb (a_pc (l_a s)) (a_pc (l_a t)) && nl_eqb (a_d (l_a s)) (a_d (l_a t)) && nl_eqb (a_o (l_a s)) (a_o (l_a t)) &&
  Bool.eqb (a_abort (l_a s)) (a_abort (l_a t)) &&
  Nat.eqb (b_pc (l_b s)) (b_pc (l_b t)) && nl_eqb (b_d (l_b s)) (b_d (l_b t)) && nl_eqb (b_o (l_b s)) (b_o (l_b t)) &&
  Bool.eqb (b_abort (l_b s)) (b_abort (l_b t)) &&
  Nat.eqb (l_lock s) (l_lock t) && Nat.eqb (l_apc s) (l_apc t) && Nat.eqb (l_bpc s) (l_bpc t).
Definition ls_mem (s : ls) (l : list ls) : bool := existsb (ls_eqb s) l.

Fixpoint closure (fuel : nat) (frontier seen : list ls) : list ls :=
  match fuel with
  | 0 => seen
  | S f =>
      let next := flat_map (fun s => [lkstep s true; lkstep s false]) frontier in
      let fresh := fold_left (fun acc s => if ls_mem s (seen ++ acc) then acc else acc ++ [s]) next [] in
      match fresh with
      | [] => seen
      | _ => closure f fresh (seen ++ fresh)
      end
  end.
Definition reachable : list ls := closure 64 [linit0] [linit0].

Definition pending_of (s : ls) : list nat := visible (k_ops (l_kv s)) (k_del (l_kv s)).
