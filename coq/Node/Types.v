(* Durable state of a hot node, board messages with idealised signatures, operations and the
   symbolic threshold crypto used at node level.  Definitions only. *)
From Coq Require Import String List NArith ZArith Bool.
Require Import Fsm.EngineDefs Fsm.Types Fsm.Engine Fsm.Actions Fsm.Provider.
Import ListNotations.

(* ed25519, idealised: a signature names the key that made it and the bytes it covers *)
Inductive sigv := SigNone | SigBy (key : tok) (data : tok) | SigJunk.

(* a stored / broadcast reconstructed signature *)
Record rsig := { rs_file : tok; rs_batch : tok; rs_msgid : tok; rs_payload : tok;
                 rs_sig : tok; rs_user : tok; rs_round : tok }.

(* expanded signing task: (message id, file, payload) — json.Unmarshal + TasksToMessages of a
   proposal, supplied decoded by the harness *)
Record mts := { mt_id : tok; mt_file : tok; mt_payload : tok }.

Record redkg_part := { rp_name : tok; rp_newkey : tok }.

Inductive mreq :=
| MFsm (r : request)                  (* FSMRequestFromMessage succeeded (RBad: JSON error value) *)
| MInvalid                            (* FSMRequestFromMessage: invalid event *)
| MSigs (l : option (list rsig)).     (* payload of signature_reconstructed; None: JSON error *)

Record message := {
  m_round : tok; m_event : string; m_data : tok; m_req : mreq; m_sig : sigv;
  m_sender : tok; m_recipient : tok;
  m_tasks : option (list mts) }.      (* for event_signing_start: Some = expansion of the proposal,
                                         None = it cannot be decoded / expanded *)

Record redkg := { rd_id : tok; rd_parts : list redkg_part; rd_msgs : list message; rd_hash : tok }.

Record opref := { or_round : tok; or_type : string; or_payload : option response }.
(* an operation in the pool: a request for the airgapped machine.  The reinit operation carries
   the operations regenerated from the replayed log and the confirmation hash *)
Record operation := { op_round : tok; op_type : string; op_payload : option response;
                      op_reinit : option (list opref); op_extra : tok }.

(* what leaves the node: a message sent to the board *)
Record out_msg := { o_round : tok; o_event : string; o_sender : tok; o_recipient : tok;
                    o_sigs : list rsig; o_data : tok }.

Definition sigstore := list (tok * list (tok * list rsig)).   (* batch -> message id -> entries *)

Record nstate := {
  ns_user : tok;                           (* this node's user name *)
  ns_key : tok;                            (* its communication public key *)
  ns_rounds : list (tok * dump);           (* <topic>_fsm_state *)
  ns_ops : list operation;                 (* <topic>_operations *)
  ns_deleted : list operation;             (* <topic>_deleted_operations *)
  ns_sigs : list (tok * sigstore);         (* signatures_<round> *)
  ns_board : list out_msg;                 (* messages this node appended to the board *)
  ns_skip : bool;                          (* volatile: SkipCommKeysVerification *)
  ns_srcs : list (tok * list (tok * list mts)) }.   (* ghost, per round: SrcPayload bytes -> decoded, expanded tasks
                                                       (the bytes travel inside the round's own payload) *)

(* ---- symbolic threshold crypto: token number ranges assigned by the harness ----
   partial signature by share i of key set K over payload P : 1 000 000 + 100 000 K + 1 000 i + P
   full signature of key set K over payload P               : 2 000 000 + 100 000 K + P
   public polynomial of key set K                           : 3 000 000 + K                      *)
Local Open Scope N_scope.
Inductive sym := SymPart (K i P : N) | SymFull (K P : N) | SymPoly (K : N) | SymOther.
Definition classify (t : tok) : sym :=
  if (t <? 1000000) then SymOther
  else if (t <? 2000000) then
    let r := t - 1000000 in SymPart (r / 100000) ((r mod 100000) / 1000) (r mod 1000)
  else if (t <? 3000000) then
    let r := t - 2000000 in SymFull (r / 100000) (r mod 100000)
  else if (t <? 4000000) then SymPoly (t - 3000000)
  else SymOther.
Definition full_tok (K P : N) : tok := 2000000 + 100000 * K + P.

(* kyber tbls.Recover: entries in order; an entry that does not verify under the polynomial for
   this message is an error; stop after t entries; at least t distinct indices are needed *)
Fixpoint recover_go (K P : N) (t : nat) (sigs : list tok) (seen : list N) : option (list N) :=
  match t with
  | O => Some seen
  | S t' =>
      match sigs with
      | [] => Some seen
      | s :: r =>
          match classify s with
          | SymPart K' i P' => if (K' =? K) && (P' =? P) then recover_go K P t' r (i :: seen) else None
          | _ => None
          end
      end
  end.
Fixpoint dedup (l : list N) : list N :=
  match l with [] => [] | x :: r => if existsb (N.eqb x) r then dedup r else x :: dedup r end.

Definition recover (poly : tok) (payload : tok) (sigs : list tok) (t : Z) : option tok :=
  match classify poly with
  | SymPoly K =>
      if (t <=? 0)%Z then None else
      match recover_go K payload (Z.to_nat t) sigs [] with
      | Some seen => if (Z.of_nat (length (dedup seen)) <? t)%Z then None else Some (full_tok K payload)
      | None => None
      end
  | _ => None
  end.
