(* C20 (hash part): what the confirmation hash's pre-image determines, and what it does not. *)
From Coq Require Import List NArith ZArith Lia.
Require Import Lib.GoStr Ssz.Sha1 Node.ReinitHash.
Import ListNotations.

Lemma app_same_length {A} (x y a b : list A) : length x = length y -> x ++ a = y ++ b -> x = y /\ a = b.
Proof.
  revert y. induction x as [|h x IH]; intros [|k y] Hl He; cbn in *; try discriminate; [auto|].
  inversion He; subst. destruct (IH y) as [-> ->]; auto.
Qed.

(* concatenation is injective on lists of fields of equal lengths *)
Lemma concat_inj_lengths (a b : list (list N)) :
  map (@length N) a = map (@length N) b -> concat a = concat b -> a = b.
Proof.
  revert b. induction a as [|x a IH]; intros [|y b] Hl Hc; cbn in *; try discriminate; [reflexivity|].
  inversion Hl as [[Hxy Hrest]].
  destruct (app_same_length x y _ _ Hxy Hc) as [-> Hc']. f_equal. apply IH; assumption.
Qed.

(* same shape (all fields of equal lengths, numbers compared as printed): equal pre-images have
   equal fields - so a file differing in any listed field of the same length has a different
   pre-image (and, SHA-1 being collision-free on these inputs, a different hash) *)
Theorem same_shape_sensitive f g :
  map (@length N) (fields f) = map (@length N) (fields g) ->
  hash_input f = hash_input g -> fields f = fields g.
Proof. intros Hl Hh. apply concat_inj_lengths; assumption. Qed.

(* the same file gives the same hash on every node: the hash is a function of the decoded file *)
Theorem same_file_same_hash f g : f = g -> reinit_hash f = reinit_hash g.
Proof. intros ->. reflexivity. Qed.

(* full sensitivity is REFUTED: fields are concatenated without separators or lengths *)
Definition amb1 : rh_file := {| hf_id := [97; 98]%N; hf_threshold := 12; hf_parts := []; hf_msgs := [] |}.
Definition amb2 : rh_file := {| hf_id := [97; 98; 49]%N; hf_threshold := 2; hf_parts := []; hf_msgs := [] |}.
Theorem sensitivity_refuted : amb1 <> amb2 /\ hash_input amb1 = hash_input amb2 /\ reinit_hash amb1 = reinit_hash amb2.
Proof. split; [discriminate|]. split; vm_compute; reflexivity. Qed.

(* ---- single-field edits (the property's quantifier): every one changes the pre-image ---- *)
Require Import Lib.GoStrFacts.

Definition one_field_differs (a b : list (list N)) : Prop :=
  exists pre x y suf, a = pre ++ x :: suf /\ b = pre ++ y :: suf /\ x <> y.

Lemma one_field_concat a b : one_field_differs a b -> concat a <> concat b.
Proof.
  intros (pre & x & y & suf & -> & -> & Hxy) He.
  rewrite !concat_app in He. apply app_inv_head in He. cbn [concat] in He.
  apply app_inv_tail in He. contradiction.
Qed.

Lemma one_field_ctx pre suf a b :
  one_field_differs a b -> one_field_differs (pre ++ a ++ suf) (pre ++ b ++ suf).
Proof.
  intros (p & x & y & s & -> & -> & Hxy). exists (pre ++ p), x, y, (s ++ suf).
  repeat split; [| |exact Hxy]; rewrite <- !app_assoc; reflexivity.
Qed.

Inductive part_edit : rh_part -> rh_part -> Prop :=
| PE_new p v : v <> hp_new p -> part_edit p {| hp_new := v; hp_old := hp_old p; hp_dkg := hp_dkg p; hp_name := hp_name p |}
| PE_old p v : v <> hp_old p -> part_edit p {| hp_new := hp_new p; hp_old := v; hp_dkg := hp_dkg p; hp_name := hp_name p |}
| PE_dkg p v : v <> hp_dkg p -> part_edit p {| hp_new := hp_new p; hp_old := hp_old p; hp_dkg := v; hp_name := hp_name p |}
| PE_name p v : v <> hp_name p -> part_edit p {| hp_new := hp_new p; hp_old := hp_old p; hp_dkg := hp_dkg p; hp_name := v |}.

Inductive msg_edit : rh_msg -> rh_msg -> Prop :=
| ME_data m v : v <> hm_data m -> msg_edit m {| hm_data := v; hm_sig := hm_sig m; hm_rcpt := hm_rcpt m; hm_event := hm_event m; hm_sender := hm_sender m; hm_round := hm_round m; hm_offset := hm_offset m |}
| ME_sig m v : v <> hm_sig m -> msg_edit m {| hm_data := hm_data m; hm_sig := v; hm_rcpt := hm_rcpt m; hm_event := hm_event m; hm_sender := hm_sender m; hm_round := hm_round m; hm_offset := hm_offset m |}
| ME_rcpt m v : v <> hm_rcpt m -> msg_edit m {| hm_data := hm_data m; hm_sig := hm_sig m; hm_rcpt := v; hm_event := hm_event m; hm_sender := hm_sender m; hm_round := hm_round m; hm_offset := hm_offset m |}
| ME_event m v : v <> hm_event m -> msg_edit m {| hm_data := hm_data m; hm_sig := hm_sig m; hm_rcpt := hm_rcpt m; hm_event := v; hm_sender := hm_sender m; hm_round := hm_round m; hm_offset := hm_offset m |}
| ME_sender m v : v <> hm_sender m -> msg_edit m {| hm_data := hm_data m; hm_sig := hm_sig m; hm_rcpt := hm_rcpt m; hm_event := hm_event m; hm_sender := v; hm_round := hm_round m; hm_offset := hm_offset m |}
| ME_round m v : v <> hm_round m -> msg_edit m {| hm_data := hm_data m; hm_sig := hm_sig m; hm_rcpt := hm_rcpt m; hm_event := hm_event m; hm_sender := hm_sender m; hm_round := v; hm_offset := hm_offset m |}
| ME_offset m o : o <> hm_offset m -> msg_edit m {| hm_data := hm_data m; hm_sig := hm_sig m; hm_rcpt := hm_rcpt m; hm_event := hm_event m; hm_sender := hm_sender m; hm_round := hm_round m; hm_offset := o |}.

Inductive file_edit : rh_file -> rh_file -> Prop :=
| FE_id f v : v <> hf_id f ->
    file_edit f {| hf_id := v; hf_threshold := hf_threshold f; hf_parts := hf_parts f; hf_msgs := hf_msgs f |}
| FE_threshold f t : t <> hf_threshold f ->
    file_edit f {| hf_id := hf_id f; hf_threshold := t; hf_parts := hf_parts f; hf_msgs := hf_msgs f |}
| FE_part f l p p' r : hf_parts f = l ++ p :: r -> part_edit p p' ->
    file_edit f {| hf_id := hf_id f; hf_threshold := hf_threshold f; hf_parts := l ++ p' :: r; hf_msgs := hf_msgs f |}
| FE_msg f l m m' r : hf_msgs f = l ++ m :: r -> msg_edit m m' ->
    file_edit f {| hf_id := hf_id f; hf_threshold := hf_threshold f; hf_parts := hf_parts f; hf_msgs := l ++ m' :: r |}.

Ltac ofd pre suf := exists pre; do 2 eexists; exists suf; split; [reflexivity|split; [reflexivity|]].

Lemma part_edit_fields p p' : part_edit p p' -> one_field_differs (part_fields p) (part_fields p').
Proof.
  intros [q v H|q v H|q v H|q v H]; unfold part_fields; cbn.
  - ofd (@nil (list N)) [hp_old q; hp_dkg q; hp_name q]; congruence.
  - ofd [hp_new q] [hp_dkg q; hp_name q]; congruence.
  - ofd [hp_new q; hp_old q] [hp_name q]; congruence.
  - ofd [hp_new q; hp_old q; hp_dkg q] (@nil (list N)); congruence.
Qed.

Lemma msg_edit_fields m m' : msg_edit m m' -> one_field_differs (msg_fields m) (msg_fields m').
Proof.
  intros [q v H|q v H|q v H|q v H|q v H|q v H|q o H]; unfold msg_fields; cbn.
  - ofd (@nil (list N)) [hm_sig q; hm_rcpt q; hm_event q; hm_sender q; hm_round q; dec_of_Z (hm_offset q)]; congruence.
  - ofd [hm_data q] [hm_rcpt q; hm_event q; hm_sender q; hm_round q; dec_of_Z (hm_offset q)]; congruence.
  - ofd [hm_data q; hm_sig q] [hm_event q; hm_sender q; hm_round q; dec_of_Z (hm_offset q)]; congruence.
  - ofd [hm_data q; hm_sig q; hm_rcpt q] [hm_sender q; hm_round q; dec_of_Z (hm_offset q)]; congruence.
  - ofd [hm_data q; hm_sig q; hm_rcpt q; hm_event q] [hm_round q; dec_of_Z (hm_offset q)]; congruence.
  - ofd [hm_data q; hm_sig q; hm_rcpt q; hm_event q; hm_sender q] [dec_of_Z (hm_offset q)]; congruence.
  - ofd [hm_data q; hm_sig q; hm_rcpt q; hm_event q; hm_sender q; hm_round q] (@nil (list N)).
    intros E. apply dec_of_Z_inj in E. congruence.
Qed.

Lemma flat_map_mid {A B} (g : A -> list B) l x r : flat_map g (l ++ x :: r) = flat_map g l ++ g x ++ flat_map g r.
Proof. rewrite flat_map_app. reflexivity. Qed.

Lemma file_edit_fields f g : file_edit f g -> one_field_differs (fields f) (fields g).
Proof.
  intros [h v H|h t H|h l p p' r Hp He|h l m m' r Hm He]; unfold fields; cbn [hf_id hf_threshold hf_parts hf_msgs].
  - ofd (@nil (list N)) ([dec_of_Z (hf_threshold h)] ++ flat_map part_fields (hf_parts h) ++ flat_map msg_fields (hf_msgs h)); congruence.
  - ofd [hf_id h] (flat_map part_fields (hf_parts h) ++ flat_map msg_fields (hf_msgs h)).
    intros E. apply dec_of_Z_inj in E. congruence.
  - rewrite Hp, !flat_map_mid.
    pose proof (one_field_ctx ([hf_id h; dec_of_Z (hf_threshold h)] ++ flat_map part_fields l)
                  (flat_map part_fields r ++ flat_map msg_fields (hf_msgs h)) _ _ (part_edit_fields _ _ He)) as H.
    rewrite <- !app_assoc in *. exact H.
  - rewrite Hm, !flat_map_mid.
    pose proof (one_field_ctx ([hf_id h; dec_of_Z (hf_threshold h)] ++ flat_map part_fields (hf_parts h) ++ flat_map msg_fields l)
                  (flat_map msg_fields r) _ _ (msg_edit_fields _ _ He)) as H.
    rewrite <- !app_assoc in *. exact H.
Qed.

(* every single-field edit (id, threshold, a participant's name or any of its keys, a contained
   message's payload, signature, recipient, event, sender, round or offset) changes the pre-image *)
Theorem single_field_edit_changes_hash_input f g : file_edit f g -> hash_input f <> hash_input g.
Proof. intros H. apply one_field_concat, file_edit_fields, H. Qed.

(* non-vacuity: an offset edit of a file with one participant and one message *)
Definition ex_msg : rh_msg := {| hm_data := [1%N]; hm_sig := [2%N]; hm_rcpt := []; hm_event := [101%N]; hm_sender := [117%N]; hm_round := [114%N]; hm_offset := 9 |}.
Definition ex_file : rh_file := {| hf_id := [114%N]; hf_threshold := 2; hf_parts := [{| hp_new := [1%N]; hp_old := [2%N]; hp_dkg := [3%N]; hp_name := [117%N] |}]; hf_msgs := [ex_msg] |}.
Example offset_edit_is_an_edit :
  file_edit ex_file {| hf_id := hf_id ex_file; hf_threshold := hf_threshold ex_file; hf_parts := hf_parts ex_file;
                      hf_msgs := [] ++ {| hm_data := hm_data ex_msg; hm_sig := hm_sig ex_msg; hm_rcpt := hm_rcpt ex_msg; hm_event := hm_event ex_msg; hm_sender := hm_sender ex_msg; hm_round := hm_round ex_msg; hm_offset := 10 |} :: [] |}.
Proof. apply (FE_msg ex_file [] ex_msg _ []); [reflexivity|]. apply ME_offset. discriminate. Qed.
