(* C01 / C03: what `export_signatures` writes for a batch (utils.PrepareSignaturesToDump over
   GetSignaturesByBatchID): for every message id of the batch the FIRST entry filed under it -
   payload, signature and file name - and a refusal when some message id has no entry.
   Definitions only (extracted for the harness); proofs in ExportProofs.v. *)
From Coq Require Import List NArith Bool.
Require Import Fsm.EngineDefs Fsm.Types Fsm.Engine Fsm.Actions Fsm.Provider Node.Types Node.Process.
Import ListNotations.

Record exported := { ex_payload : tok; ex_sig : tok; ex_file : tok }.

Definition export_entry (e : rsig) : exported :=
  {| ex_payload := rs_payload e; ex_sig := rs_sig e; ex_file := rs_file e |}.

Fixpoint export_batch (b : list (tok * list rsig)) : option (list (tok * exported)) :=
  match b with
  | [] => Some []
  | (id, entries) :: r =>
      match entries, export_batch r with
      | e :: _, Some out => Some ((id, export_entry e) :: out)
      | _, _ => None
      end
  end.

(* the first entry filed in slot (batch, id) of a store *)
Definition first_entry (store : sigstore) (batch id : tok) : option rsig :=
  match tget' store batch with
  | Some b => match tget' b id with Some (e :: _) => Some e | _ => None end
  | None => None
  end.
