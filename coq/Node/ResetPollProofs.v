From Coq Require Import List Arith Bool Lia.
Require Import Node.ResetPoll.
Import ListNotations.

(* ---- every board of up to 6 messages of which the node has handled the first k >= 1, every instant
   of the reset: the outcome is the sequential one (the fresh state is given the whole board, in order,
   and ends at offset n) exactly when the request is served while the poller is between two ticks ---- *)
Definition idle_at (n k p : nat) : bool :=
  match w_pc (run n (repeat false p) (start k)) with PIdle => true | _ => false end.

Definition instants : list (nat * nat * nat) :=
  flat_map (fun n => flat_map (fun k => map (fun p => (n, k, p)) (seq 0 (2 * (n - k) + 4))) (seq 1 n)) (seq 0 7).

Lemma reset_instants_decided :
  forallb (fun x => let '(n, k, p) := x in
     Bool.eqb (replayed_all n (reset_after n k p (4 * n + 8))) (idle_at n k p)) instants = true /\
  length instants = 154.
Proof. vm_compute. split; reflexivity. Qed.

Theorem reset_serialisable_iff_idle n k p :
  n <= 6 -> 1 <= k <= n -> p < 2 * (n - k) + 4 ->
  replayed_all n (reset_after n k p (4 * n + 8)) = idle_at n k p.
Proof.
  intros Hn Hk Hp. destruct reset_instants_decided as [H _]. rewrite forallb_forall in H.
  assert (Hin : In (n, k, p) instants).
  { unfold instants. apply in_flat_map. exists n. split; [apply in_seq; lia|].
    apply in_flat_map. exists k. split; [apply in_seq; lia|]. apply in_map. apply in_seq. lia. }
  specialize (H _ Hin). cbn in H. apply Bool.eqb_prop in H. exact H.
Qed.

(* ---- ANY board, any number k >= 1 of messages already handled, at least one message to go: the
   request served after the poller has fetched its tick's messages; however long the poller goes on
   afterwards, position 0 is never given to the fresh state ---- *)
Definition pending_ge1 (pc : ppc) : Prop :=
  match pc with
  | PIdle => True
  | PProcess m rest => 1 <= m /\ Forall (fun x => 1 <= x) rest
  | PSave m rest => Forall (fun x => 1 <= x) rest
  end.

Definition lost (w : world) : Prop :=
  w_swapped w = true /\ ~ In 0 (d_del (w_new w)) /\ pending_ge1 (w_pc w) /\
  (match w_pc w with PIdle => 1 <= d_off (w_new w) | _ => True end).

Lemma from_ge1 n k : 1 <= k -> Forall (fun x => 1 <= x) (from n k).
Proof. intros Hk. apply Forall_forall. intros x Hx. unfold from in Hx. apply in_seq in Hx. lia. Qed.

Lemma next_of_ge1 rest : Forall (fun x => 1 <= x) rest -> pending_ge1 (next_of rest).
Proof. destruct rest as [|m r]; cbn; [auto|]. intros H. inversion H; subst. auto. Qed.

Lemma lost_step n w b : lost w -> lost (step n w b).
Proof.
  intros (Hs & Hd & Hp & Ho). destruct b; cbn [step].
  - unfold reset_step. rewrite Hs. repeat split; assumption.
  - unfold poll_step, lost, set_cur, cur. rewrite Hs. destruct (w_pc w) as [|m rest|m rest] eqn:Epc; cbn [w_swapped w_new w_pc d_del d_off].
    + repeat split; auto.
      * apply next_of_ge1. apply from_ge1. exact Ho.
      * destruct (next_of _); auto.
    + destruct Hp as [Hm Hr]. repeat split; auto.
      intros Hin. apply in_app_or in Hin as [Hin|[Hin|[]]]; [contradiction|lia].
    + repeat split; auto.
      * apply next_of_ge1. exact Hp.
      * destruct (next_of rest); auto; lia.
Qed.

Lemma lost_run n sched w : lost w -> lost (run n sched w).
Proof. revert w. induction sched as [|b r IH]; intros w H; cbn [run fold_left]; [exact H|]. apply IH. apply lost_step. exact H. Qed.

Theorem reset_inside_a_tick_loses_the_board n k sched :
  1 <= k -> k < n ->
  let w := run n ([false; true] ++ sched) (start k) in
  ~ In 0 (d_del (w_new w)) /\ w_swapped w = true.
Proof.
  intros Hk Hn. cbn zeta. unfold run. rewrite fold_left_app. fold (run n sched).
  assert (Hl : lost (fold_left (step n) [false; true] (start k))).
  { cbn [fold_left step]. unfold start, poll_step, cur, set_cur. cbn [w_swapped w_pc w_old d_off].
    unfold from. replace (n - k) with (S (n - k - 1)) by lia. cbn [seq next_of].
    cbn [w_swapped w_pc w_old d_off d_del]. unfold reset_step. cbn [w_swapped w_pc w_old w_new].
    unfold lost. cbn [w_swapped w_new w_pc d_del fresh_db pending_ge1]. repeat split; auto.
    apply Forall_forall. intros x Hx. apply in_seq in Hx. lia. }
  destruct (lost_run n sched _ Hl) as (Hs & Hd & _). split; assumption.
Qed.

(* both sequential orders give the fresh state the whole board *)
Theorem sequential_orders_replay n k :
  n <= 6 -> 1 <= k <= n ->
  replayed_all n (reset_after n k 0 (4 * n + 8)) = true /\
  replayed_all n (reset_after n k (2 * (n - k) + 1) (4 * n + 8)) = true.
Proof.
  intros Hn Hk.
  assert (H : forallb (fun n => forallb (fun k => replayed_all n (reset_after n k 0 (4 * n + 8)) &&
                                          replayed_all n (reset_after n k (2 * (n - k) + 1) (4 * n + 8))) (seq 1 n)) (seq 0 7) = true)
    by (vm_compute; reflexivity).
  rewrite forallb_forall in H. assert (Hin : In n (seq 0 7)) by (apply in_seq; lia).
  specialize (H n Hin). rewrite forallb_forall in H. assert (Hik : In k (seq 1 n)) by (apply in_seq; lia).
  specialize (H k Hik). apply andb_prop in H. exact H.
Qed.
