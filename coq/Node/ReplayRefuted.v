(* C10, the part that is FALSE of the code (open findings C10-cross-round-replay and
   C10-cross-event-replay): the ed25519 signature of a board message covers its payload bytes only
   (storage.Message.Bytes() is Data; model: verify_ok compares the signed data with m_data), so the
   round identifier and the event name travel unsigned.  Concrete witnesses on the example node of
   Node/Local.v: a genuine confirmation its author produced for round 8 is accepted, signature
   unchanged, in round 9 (same participants) and as a DECLINE of round 8. *)
From Coq Require Import String List NArith ZArith Bool.
Require Import Fsm.EngineDefs Fsm.Types Fsm.Engine Fsm.Actions Fsm.Provider Node.Types Node.Process Node.Crash Node.Local.
Import ListNotations.

(* two rounds proposed to the same participants, nobody has answered yet *)
Definition two_rounds : nstate := run_msgs (empty_node 2%N 3%N) [(777%Z, ex_prop 9%N); (777%Z, ex_prop 8%N)].

(* what participant 0 (user 2, key 3) signed and posted: the confirmation of round 8 *)
Definition genuine : message := ex_confirm 8%N.
(* the same bytes and signature, re-posted by anybody under the other round's identifier ... *)
Definition replayed_round : message :=
  {| m_round := 9%N; m_event := m_event genuine; m_data := m_data genuine; m_req := m_req genuine; m_sig := m_sig genuine;
     m_sender := m_sender genuine; m_recipient := m_recipient genuine; m_tasks := m_tasks genuine |}.
(* ... or under another event name of the same request shape *)
Definition replayed_event : message :=
  {| m_round := m_round genuine; m_event := ev_sig_decline; m_data := m_data genuine; m_req := m_req genuine; m_sig := m_sig genuine;
     m_sender := m_sender genuine; m_recipient := m_recipient genuine; m_tasks := m_tasks genuine |}.

Definition same_signed_bytes (m m' : message) : Prop :=
  m_sig m = m_sig m' /\ m_data m = m_data m' /\ m_sender m = m_sender m' /\ m_req m = m_req m'.

Definition accepted (st : nstate) (m : message) : Prop :=
  exists h o, process_message true 777%Z {| h_st := st; h_tr := [] |} m = ROk h o /\
              tget' (ns_rounds (h_st h)) (m_round m) <> tget' (ns_rounds st) (m_round m).

Definition dstate_after (st : nstate) (m : message) : option string :=
  match process_message true 777%Z {| h_st := st; h_tr := [] |} m with
  | ROk h _ => match tget' (ns_rounds (h_st h)) (m_round m) with Some d => Some (d_state d) | None => None end
  | _ => None
  end.

Ltac show_accepted :=
  unfold accepted; eexists; eexists; split; [vm_compute; reflexivity|vm_compute; discriminate].

(* round 9 accepts what was signed for round 8 *)
Theorem cross_round_replay_accepted :
  same_signed_bytes genuine replayed_round /\ m_round genuine <> m_round replayed_round /\
  m_event genuine = m_event replayed_round /\
  accepted two_rounds genuine /\ accepted two_rounds replayed_round.
Proof.
  split; [repeat split|]. split; [vm_compute; discriminate|]. split; [reflexivity|].
  split; show_accepted.
Qed.

(* the confirmation, re-labelled, is accepted as a decline: the round its author agreed to is
   cancelled in the author's name *)
Theorem cross_event_replay_accepted :
  same_signed_bytes genuine replayed_event /\ m_event genuine <> m_event replayed_event /\
  m_round genuine = m_round replayed_event /\
  accepted two_rounds replayed_event /\
  dstate_after two_rounds genuine = Some "state_sig_proposal_await_participants_confirmations"%string /\
  dstate_after two_rounds replayed_event = Some "state_sig_proposal_canceled_by_participant"%string.
Proof.
  split; [repeat split|]. split; [vm_compute; discriminate|]. split; [reflexivity|].
  split; [show_accepted|]. split; vm_compute; reflexivity.
Qed.

(* the statement of the property, negated, with the witnesses above *)
Theorem effective_only_for_its_round_refuted :
  exists st m m', same_signed_bytes m m' /\ m_round m <> m_round m' /\ m_event m = m_event m' /\
                  accepted st m /\ accepted st m'.
Proof. exists two_rounds, genuine, replayed_round. exact cross_round_replay_accepted. Qed.

Theorem effective_only_for_its_step_refuted :
  exists st m m', same_signed_bytes m m' /\ m_event m <> m_event m' /\ m_round m = m_round m' /\
                  accepted st m /\ accepted st m'.
Proof.
  exists two_rounds, genuine, replayed_event.
  destruct cross_event_replay_accepted as (A & B & C & D & _).
  destruct cross_round_replay_accepted as (_ & _ & _ & E & _). auto.
Qed.
