(* C07 / C01 (node level): the answer that completes a batch makes the node broadcast exactly what
   `reconstruct` computes from the collected partial signatures, and every node that handles that
   broadcast holds each of its signatures in its signature store afterwards. *)
From Coq Require Import String List NArith ZArith Bool Lia.
Require Import Fsm.EngineDefs Fsm.Types Fsm.Engine Fsm.Actions Fsm.Provider Node.Types Node.Process Node.Frame Node.Local.
Import ListNotations.
Local Open Scope string_scope.
Local Open Scope list_scope.

(* ---- the signature store ---- *)
Definition holds (store : sigstore) (s : rsig) : Prop :=
  exists b e, tget' store (rs_batch s) = Some b /\ tget' b (rs_msgid s) = Some e /\ In s e.

Definition same_slot (x s : rsig) : bool :=
  N.eqb (rs_batch x) (rs_batch s) && N.eqb (rs_msgid x) (rs_msgid s) && N.eqb (rs_user x) (rs_user s).

Lemma add_entry_in l s : In s (add_entry l s).
Proof.
  induction l as [|x r IH]; cbn [add_entry]; [left; reflexivity|].
  destruct (N.eqb (rs_user x) (rs_user s)); [left; reflexivity|right; exact IH].
Qed.

Lemma add_entry_keeps l s x : In x l -> N.eqb (rs_user x) (rs_user s) = false -> In x (add_entry l s).
Proof.
  intros Hin Hne. induction l as [|y r IH]; [destruct Hin|]. cbn [add_entry].
  destruct Hin as [->|Hin].
  - rewrite Hne. left; reflexivity.
  - destruct (N.eqb (rs_user y) (rs_user s)); [right; exact Hin|right; apply IH; exact Hin].
Qed.

Lemma add_sig_holds store s : holds (add_sig store s) s.
Proof.
  unfold holds, add_sig. eexists. eexists. rewrite aput_same. split; [reflexivity|].
  rewrite aput_same. split; [reflexivity|apply add_entry_in].
Qed.

Lemma add_sig_keeps store s x : holds store x -> same_slot x s = false -> holds (add_sig store s) x.
Proof.
  intros (b & e & Hb & He & Hin) Hslot. unfold holds, add_sig.
  destruct (N.eqb (rs_batch s) (rs_batch x)) eqn:Eb.
  - apply N.eqb_eq in Eb. rewrite <- Eb in *. rewrite Hb.
    destruct (N.eqb (rs_msgid s) (rs_msgid x)) eqn:Em.
    + apply N.eqb_eq in Em. rewrite <- Em in *. rewrite He.
      exists (aput b (rs_msgid s) (add_entry e s)), (add_entry e s).
      rewrite !aput_same. split; [reflexivity|]. split; [reflexivity|].
      apply add_entry_keeps; [exact Hin|].
      unfold same_slot in Hslot. rewrite <- Eb, <- Em, !N.eqb_refl in Hslot. exact Hslot.
    + eexists. exists e. rewrite aput_same. split; [reflexivity|].
      rewrite aput_other by (intros E; rewrite E, N.eqb_refl in Em; discriminate).
      split; [exact He|exact Hin].
  - exists b, e. rewrite aput_other by (intros E; rewrite E, N.eqb_refl in Eb; discriminate).
    auto.
Qed.

(* a list of signatures in which no slot (batch, message id, user) occurs twice: after storing the
   list, the store holds every one of them - and everything it held before in other slots *)
Fixpoint slots_distinct (l : list rsig) : bool :=
  match l with [] => true | s :: r => negb (existsb (fun x => same_slot s x) r) && slots_distinct r end.

Lemma fold_add_sig_keeps l store x :
  holds store x -> existsb (fun s => same_slot x s) l = false -> holds (fold_left add_sig l store) x.
Proof.
  revert store. induction l as [|s r IH]; intros store H Hn; [exact H|]. cbn [fold_left].
  cbn [existsb] in Hn. apply orb_false_iff in Hn as [Hs Hr].
  apply IH; [apply add_sig_keeps; assumption|exact Hr].
Qed.

Lemma fold_add_sig_holds l store s :
  slots_distinct l = true -> In s l -> holds (fold_left add_sig l store) s.
Proof.
  revert store. induction l as [|y r IH]; intros store Hd Hin; [destruct Hin|]. cbn [fold_left].
  cbn [slots_distinct] in Hd. apply andb_true_iff in Hd as [Hy Hr].
  destruct Hin as [->|Hin].
  - apply fold_add_sig_keeps; [apply add_sig_holds|]. apply negb_true_iff in Hy. exact Hy.
  - apply IH; assumption.
Qed.

(* ---- handling the broadcast of reconstructed signatures ---- *)
Definition stamped (m : message) (l : list rsig) : list rsig :=
  map (fun s => {| rs_file := rs_file s; rs_batch := rs_batch s; rs_msgid := rs_msgid s;
                   rs_payload := rs_payload s; rs_sig := rs_sig s;
                   rs_user := m_sender m; rs_round := m_round m |}) l.

Definition round_store (st : nstate) (r : tok) : sigstore :=
  match tget' (ns_sigs st) r with Some s => s | None => [] end.

(* every accepted `signature_reconstructed` message: the node's store for the round holds each
   signature of the message (under the sender's name), whatever it held before *)
Theorem reconstructed_message_is_stored put now st m h' o :
  String.eqb (m_event m) ev_sig_reconstructed = true ->
  process_message put now {| h_st := st; h_tr := [] |} m = ROk h' o ->
  exists l, m_req m = MSigs (Some l) /\ l <> [] /\ o = None /\
    (slots_distinct (stamped m l) = true ->
     forall s, In s (stamped m l) -> holds (round_store (h_st h') (m_round m)) s) /\
    (forall r', r' <> m_round m -> tget' (ns_sigs (h_st h')) r' = tget' (ns_sigs st) r').
Proof.
  intros Hev H. unfold process_message in H.
  destruct (get_instance {| h_st := st; h_tr := [] |} (m_round m) true) as [h1 inst| |] eqn:Eg; try discriminate.
  assert (Hh1 : h1 = {| h_st := st; h_tr := [] |}).
  { unfold get_instance in Eg. cbn [h_st] in Eg.
    destruct (tget' (ns_rounds st) (m_round m)) as [d|].
    - destruct (from_dump d); try discriminate. inversion Eg; reflexivity.
    - destruct (N.eqb (m_round m) 0); [discriminate|]. destruct create; try discriminate; inversion Eg; reflexivity. }
  subst h1.
  destruct (negb (String.eqb (m_event m) ev_sig_init) && _); [discriminate|].
  rewrite Hev in H.
  destruct (m_req m) as [r| |[l|]]; try discriminate.
  fold (stamped m l) in H.
  unfold save_signatures in H. destruct (stamped m l) as [|s0 l'] eqn:El; [discriminate|].
  inversion H; subst h' o. clear H.
  exists l. split; [reflexivity|]. split; [intros ->; discriminate|]. split; [reflexivity|].
  assert (Hr0 : rs_round s0 = m_round m).
  { unfold stamped in El. destruct l as [|x l0]; [discriminate|]. cbn [map] in El. inversion El. reflexivity. }
  split.
  - intros Hd s Hin. unfold round_store, emit. cbn [h_st apply_write ns_sigs]. rewrite Hr0, aput_same.
    rewrite El in Hd, Hin. apply (fold_add_sig_holds (s0 :: l')); assumption.
  - intros r' Hne. unfold emit. cbn [h_st apply_write ns_sigs]. rewrite Hr0. apply aput_other. congruence.
Qed.

(* ---- the answer that completes the batch ---- *)
Definition broadcast_of (h : hs) (m : message) (sigs : list rsig) : out_msg :=
  {| o_round := m_round m; o_event := ev_sig_reconstructed; o_sender := ns_user (h_st h); o_recipient := 0%N;
     o_sigs := sigs; o_data := 0%N |}.

(* when the FSM answers `partial signs collected` to an authentic answer, the node
   - reconstructs from exactly the collected contributions of the response,
   - sends one `signature_reconstructed` message carrying exactly those signatures,
   - restarts the round for the next batch and saves it,
   and when the reconstruction fails it writes nothing at all *)
Theorem collecting_answer_is_broadcast put now m req h inst i1 batch src parts :
  sender_is_participant (i_payload inst) (m_sender m) req = true ->
  String.eqb (m_event m) ev_sgn_start = false ->
  do_live inst (m_event m) req = FOk i1 st_partial_collected (Some (RespSigningProcess batch src parts)) ->
  match reconstruct (h_st h) (m_round m) (i_payload i1) batch src parts with
  | Some sigs =>
      match do_fresh (dump_of i1) ev_sgn_restart (RDefault now) with
      | FOk i4 _ _ => pm_tail put now m req h inst =
                      ROk (save_fsm (emit h (WSend (broadcast_of h m sigs))) (m_round m) (dump_of i4)) None
      | FErr => pm_tail put now m req h inst = RErr (emit h (WSend (broadcast_of h m sigs)))
      | FPanic => pm_tail put now m req h inst = RPanic
      end
  | None => pm_tail put now m req h inst = RErr h
  end.
Proof.
  intros Hs Hev Hdo. unfold pm_tail. rewrite Hs. cbn [negb]. rewrite Hdo. cbv zeta.
  change (String.eqb st_partial_collected st_collected) with false. cbv iota.
  change (String.eqb st_partial_collected st_master_collected) with false. cbv iota.
  change (String.eqb st_partial_collected st_partial_collected) with true. cbv iota.
  change (mem_str st_partial_collected op_states) with false. cbv iota.
  destruct (reconstruct _ _ _ _ _ _) as [sigs|]; [|reflexivity].
  destruct (do_fresh _ _ _) as [i4 r4 x4| |]; try reflexivity.
  unfold pm_prop, put_opt. rewrite Hev. destruct put; reflexivity.
Qed.

(* ---- what `reconstruct` produces meets the side condition: one signature per message id ---- *)
Lemma aput_keys_in {A} (l : list (tok * A)) k v x : In x (map fst (aput l k v)) -> x = k \/ In x (map fst l).
Proof.
  induction l as [|[j b] r IH]; cbn [aput map fst In].
  - intros [H|[]]; auto.
  - destruct (N.eqb j k) eqn:E; cbn [map fst In].
    + intros [H|H]; auto.
    + intros [H|H]; auto. destruct (IH H); auto.
Qed.

Lemma aput_nodup {A} (l : list (tok * A)) k v : NoDup (map fst l) -> NoDup (map fst (aput l k v)).
Proof.
  induction l as [|[j b] r IH]; cbn [aput map fst]; intros Hn.
  - constructor; [intros []|constructor].
  - inversion Hn as [|? ? Hnot Hr]; subst. destruct (N.eqb j k) eqn:E; cbn [map fst].
    + constructor; assumption.
    + constructor; [|apply IH; exact Hr].
      intros Hin. apply aput_keys_in in Hin as [->|Hin]; [rewrite N.eqb_refl in E; discriminate|contradiction].
Qed.

Lemma group_signs_nodup parts acc : NoDup (map fst acc) -> NoDup (map fst (group_signs parts acc)).
Proof.
  revert acc. induction parts as [|[z [b signs]] r IH]; intros acc Hn; cbn [group_signs]; [exact Hn|].
  apply IH. clear IH. revert acc Hn. induction signs as [|s ss IHs]; intros acc Hn; cbn [fold_left]; [exact Hn|].
  apply IHs. apply aput_nodup. exact Hn.
Qed.

Lemma reconstruct_msgids st round p batch src parts sigs :
  reconstruct st round p batch src parts = Some sigs ->
  NoDup (map rs_msgid sigs) /\ forall s, In s sigs -> rs_batch s = batch /\ rs_round s = round.
Proof.
  unfold reconstruct. destruct (match tget' (ns_srcs st) round with Some m0 => tget' m0 src | None => None end) as [tasks|]; [|discriminate].
  destruct (p_dkg p) as [dk|]; [|discriminate]. cbv zeta.
  pose proof (group_signs_nodup parts [] (NoDup_nil _)) as Hn.
  revert sigs Hn. generalize (group_signs parts []). intros groups.
  induction groups as [|g gs IH]; intros sigs Hn; cbn [fold_right map].
  - intros H; inversion H; subst. split; [constructor|intros s []].
  - destruct (recover _ _ _ _) as [sg|]; [|discriminate].
    destruct (fold_right _ _ gs) as [l|] eqn:El; [|discriminate].
    intros H; inversion H; subst. cbn [map fst] in Hn. inversion Hn as [|? ? Hnot Hr]; subst.
    destruct (IH l Hr eq_refl) as [Hnd Hall]. split.
    + cbn [map rs_msgid]. constructor; [|exact Hnd].
      intros Hin. apply Hnot. clear -Hin El.
      revert l El Hin. induction gs as [|g' gs' IHg]; intros l El Hin; cbn [fold_right] in El.
      * inversion El; subst. destruct Hin.
      * destruct (recover _ _ _ _); [|discriminate]. destruct (fold_right _ _ gs') as [l'|] eqn:El'; [|discriminate].
        inversion El; subst. cbn [map rs_msgid In] in Hin. cbn [map fst In]. destruct Hin as [H|H]; [left; exact H|right].
        eapply IHg; [reflexivity|exact H].
    + intros s [<-|Hin]; [split; reflexivity|apply Hall; exact Hin].
Qed.

Lemma stamped_slots_distinct m l :
  NoDup (map rs_msgid l) -> slots_distinct (stamped m l) = true.
Proof.
  induction l as [|s r IH]; intros Hn; [reflexivity|]. cbn [stamped map slots_distinct].
  inversion Hn as [|? ? Hnot Hr]; subst. fold (stamped m r). rewrite (IH Hr), andb_true_r.
  apply negb_true_iff. apply not_true_is_false. intros He. apply existsb_exists in He as (x & Hin & Hs).
  unfold stamped in Hin. apply in_map_iff in Hin as (y & <- & Hy).
  unfold same_slot in Hs. cbn in Hs. apply andb_true_iff in Hs as [Hs _]. apply andb_true_iff in Hs as [_ Hs].
  apply N.eqb_eq in Hs. apply Hnot. rewrite Hs. apply in_map. exact Hy.
Qed.

(* end to end at the node level: the signatures a node broadcasts after the collecting answer are
   held by every node that accepts the broadcast (no side condition left) *)
Theorem broadcast_of_reconstruction_is_stored put now st0 round p batch src parts sigs st m h' o :
  reconstruct st0 round p batch src parts = Some sigs ->
  String.eqb (m_event m) ev_sig_reconstructed = true -> m_req m = MSigs (Some sigs) ->
  process_message put now {| h_st := st; h_tr := [] |} m = ROk h' o ->
  forall s, In s (stamped m sigs) -> holds (round_store (h_st h') (m_round m)) s.
Proof.
  intros Hrec Hev Hreq H.
  destruct (reconstructed_message_is_stored put now st m h' o Hev H) as (l & Hl & _ & _ & Hholds & _).
  rewrite Hreq in Hl. inversion Hl; subst l.
  apply Hholds. apply stamped_slots_distinct. apply (reconstruct_msgids _ _ _ _ _ _ _ Hrec).
Qed.
