(* C03 at node level: the step of processMessage that records a batch proposal (pm_prop) files
   one stub per expanded message - id, file and payload of the expansion, the proposer's name, no
   signature - and, the ids of the batch being distinct and the batch new in the round's store,
   every stub is the first entry of its slot: it is what export_signatures shows for the message
   until the proposer's own reconstruction replaces it (Node/ExportProofs.v). *)
From Coq Require Import String List NArith ZArith Bool.
Require Import Fsm.EngineDefs Fsm.Types Fsm.Engine Fsm.Actions Fsm.Provider Node.Types Node.Process Node.Frame Node.Local
               Node.Reconstructed Node.Export Node.ExportProofs.
Import ListNotations.
Local Open Scope string_scope.
Local Open Scope list_scope.

Definition stub_of (m : message) (batch : tok) (t : mts) : rsig :=
  {| rs_file := mt_file t; rs_batch := batch; rs_msgid := mt_id t; rs_payload := mt_payload t; rs_sig := 0%N;
     rs_user := m_sender m; rs_round := m_round m |}.

Lemma sigs_put_opt put h op : ns_sigs (h_st (put_opt put h op)) = ns_sigs (h_st h).
Proof.
  unfold put_opt. destruct put; [|reflexivity]. destruct op as [o|]; [|reflexivity].
  unfold put_operation. destruct (existsb _ _); reflexivity.
Qed.

Theorem proposal_files_the_stubs_first put m h i op batch a b c src tasks h' o :
  String.eqb (m_event m) ev_sgn_start = true -> m_tasks m = Some tasks ->
  NoDup (map mt_id tasks) ->
  (forall t, In t tasks -> first_entry (round_store (h_st h) (m_round m)) batch (mt_id t) = None) ->
  pm_prop put m (RStart batch a b c src) h i op = ROk h' o ->
  forall t, In t tasks ->
    first_entry (round_store (h_st h') (m_round m)) batch (mt_id t) = Some (stub_of m batch t).
Proof.
  intros Hev Ht Hnd Hfresh H t Hin. unfold pm_prop in H. rewrite Hev, Ht in H.
  destruct tasks as [|t0 rest]; [destruct Hin|].
  unfold save_signatures in H. cbn [map] in H.
  match type of H with context [fold_left add_sig ?l ?s] => set (stubs := l) in H; set (store := s) in H end.
  inversion H; subst h' o. clear H.
  unfold round_store, save_fsm. cbn [emit h_st apply_write ns_sigs]. rewrite sigs_put_opt.
  cbn [emit h_st apply_write ns_sigs rs_round]. rewrite aput_same.
  change (first_entry (fold_left add_sig (map (stub_of m batch) (t0 :: rest)) (round_store (h_st h) (m_round m)))
            batch (rs_msgid (stub_of m batch t)) = Some (stub_of m batch t)).
  apply fresh_entries_come_first.
  - intros s Hs. apply in_map_iff in Hs as (x & <- & _). reflexivity.
  - rewrite map_map. exact Hnd.
  - intros s Hs. apply in_map_iff in Hs as (x & <- & Hx). apply Hfresh. exact Hx.
  - apply in_map. exact Hin.
Qed.

(* non-vacuity: a proposal of two messages recorded on an empty node *)
Definition en_msg : message :=
  {| m_round := 9%N; m_event := ev_sgn_start; m_data := 20%N; m_req := MFsm (RStart 7%N 0 0 [] 21%N); m_sig := SigBy 3%N 20%N;
     m_sender := 2%N; m_recipient := 0%N;
     m_tasks := Some [{| mt_id := 31%N; mt_file := 41%N; mt_payload := 51%N |}; {| mt_id := 32%N; mt_file := 42%N; mt_payload := 52%N |}] |}.
Definition en_inst : instance := {| i_mach := ""; i_cur := ""; i_dstate := ""; i_payload := empty_payload |}.
Example proposal_stubs_example :
  match pm_prop true en_msg (RStart 7%N 0 0 [] 21%N) {| h_st := empty_node 2%N 3%N; h_tr := [] |} en_inst None with
  | ROk h' _ =>
      match tget' (round_store (h_st h') 9%N) 7%N with
      | Some b => export_batch b = Some [(31%N, {| ex_payload := 51%N; ex_sig := 0%N; ex_file := 41%N |});
                                         (32%N, {| ex_payload := 52%N; ex_sig := 0%N; ex_file := 42%N |})]
      | None => False
      end
  | _ => False
  end.
Proof. vm_compute. reflexivity. Qed.
