(* C14: an operation result (local API) concurrent with the poller putting a new operation into the
   pool, at the granularity of state-store calls.  The two read-modify-write programs over the keys
   `operations` and `deleted_operations` are written out step by step; ALL interleavings of one
   request with one message are enumerated (finite), and the outcome of each is decided.
   Definitions first (extracted for the harness), proofs below. *)
From Coq Require Import List NArith ZArith Bool Arith.
Import ListNotations.

Record kv := { k_ops : list nat; k_del : list nat }.

Definition mem (x : nat) (l : list nat) : bool := existsb (Nat.eqb x) l.
Definition visible (o d : list nat) : list nat := filter (fun x => negb (mem x d)) o.

(* executeOperation for operation x (after the equality check), i.e. GetOperationByID then
   DeleteOperation, as store calls with local variables *)
Record astate := { a_pc : nat; a_d : list nat; a_o : list nat; a_abort : bool }.
Definition a_labels : list nat := [1; 2; 1; 3; 1; 2; 4]. (* 1 Get deleted, 2 Get operations, 3 Set deleted, 4 Set operations *)
Definition a_step (x : nat) (s : kv) (a : astate) : kv * astate :=
  if a_abort a then (s, a) else
  match a_pc a with
  | 0 => (s, {| a_pc := 1; a_d := k_del s; a_o := a_o a; a_abort := false |})            (* GetOperations: Get deleted *)
  | 1 => let ok := mem x (visible (k_ops s) (a_d a)) in                                   (*                Get operations *)
         (s, {| a_pc := 2; a_d := a_d a; a_o := k_ops s; a_abort := negb ok |})
  | 2 => (s, {| a_pc := 3; a_d := k_del s; a_o := a_o a; a_abort := mem x (k_del s) |})   (* DeleteOperation: Get deleted *)
  | 3 => ({| k_ops := k_ops s; k_del := a_d a ++ [x] |},                                  (*                  Set deleted *)
          {| a_pc := 4; a_d := a_d a; a_o := a_o a; a_abort := false |})
  | 4 => (s, {| a_pc := 5; a_d := k_del s; a_o := a_o a; a_abort := false |})             (* GetOperations: Get deleted *)
  | 5 => (s, {| a_pc := 6; a_d := a_d a; a_o := k_ops s; a_abort := false |})             (*                Get operations *)
  | 6 => ({| k_ops := filter (fun y => negb (Nat.eqb y x)) (visible (a_o a) (a_d a)); k_del := k_del s |},
          {| a_pc := 7; a_d := a_d a; a_o := a_o a; a_abort := false |})                  (* Set operations *)
  | _ => (s, a)
  end.

(* OperationService.PutOperation for a new operation y: GetOperationByID (already pending: done),
   then the repository's PutOperation *)
Record bstate := { b_pc : nat; b_d : list nat; b_o : list nat; b_abort : bool }.
Definition b_labels : list nat := [1; 2; 1; 2; 4].
Definition b_step (y : nat) (s : kv) (b : bstate) : kv * bstate :=
  if b_abort b then (s, b) else
  match b_pc b with
  | 0 => (s, {| b_pc := 1; b_d := k_del s; b_o := b_o b; b_abort := false |})            (* GetOperationByID: Get deleted *)
  | 1 => (s, {| b_pc := 2; b_d := b_d b; b_o := k_ops s; b_abort := mem y (visible (k_ops s) (b_d b)) |}) (* Get operations *)
  | 2 => (s, {| b_pc := 3; b_d := k_del s; b_o := b_o b; b_abort := false |})            (* PutOperation: Get deleted *)
  | 3 => (s, {| b_pc := 4; b_d := b_d b; b_o := k_ops s; b_abort := mem y (visible (k_ops s) (b_d b)) |}) (* Get operations *)
  | 4 => ({| k_ops := visible (b_o b) (b_d b) ++ [y]; k_del := k_del s |},
          {| b_pc := 5; b_d := b_d b; b_o := b_o b; b_abort := false |})                 (* Set operations *)
  | _ => (s, b)
  end.

(* a schedule: true = the request moves, false = the poller moves *)
Fixpoint run (x y : nat) (sched : list bool) (s : kv) (a : astate) (b : bstate) : kv :=
  match sched with
  | [] => s
  | true :: r => let (s', a') := a_step x s a in run x y r s' a' b
  | false :: r => let (s', b') := b_step y s b in run x y r s' a b'
  end.

Definition a0 : astate := {| a_pc := 0; a_d := []; a_o := []; a_abort := false |}.
Definition b0 : bstate := {| b_pc := 0; b_d := []; b_o := []; b_abort := false |}.

(* all interleavings of na request steps with nb poller steps *)
Fixpoint interleavings (na nb : nat) : list (list bool) :=
  match na with
  | 0 => [repeat false nb]
  | S na' =>
      (fix inner (nb : nat) : list (list bool) :=
         match nb with
         | 0 => [repeat true (S na')]
         | S nb' => map (cons true) (interleavings na' (S nb')) ++ map (cons false) (inner nb')
         end) nb
  end.

(* position (index in the schedule) of the k-th move of the given side *)
Fixpoint pos_of (side : bool) (k : nat) (sched : list bool) (i : nat) : nat :=
  match sched with
  | [] => i
  | m :: r => if Bool.eqb m side then match k with 0 => i | S k' => pos_of side k' r (S i) end
              else pos_of side k r (S i)
  end.

(* the poller's pool write falls between the request's last read of the pool and its pool write *)
Definition in_lost_window (sched : list bool) : bool :=
  let bw := pos_of false 4 sched 0 in
  Nat.ltb (pos_of true 5 sched 0) bw && Nat.ltb bw (pos_of true 6 sched 0).

Definition pending_after (sched : list bool) : list nat :=
  let s := run 1 2 sched {| k_ops := [1]; k_del := [] |} a0 b0 in visible (k_ops s) (k_del s).
