(* C13: a node killed INSIDE the handler of a board message.  ProcessMessage puts the operation into
   the pool BEFORE it saves the round, and the round save is the handler's last durable write; hence
   a node killed at any point inside the handler comes back with every stored round as it was, the
   redelivered message is handled exactly as it would have been handled without the crash, and an
   accepted message's operation is in the pool when the handler returns. *)
From Coq Require Import String List NArith ZArith Bool Lia.
Require Import Fsm.EngineDefs Fsm.Types Fsm.Engine Fsm.Actions Fsm.Provider Node.Types Node.Process
  Node.Frame Node.Local Node.Crash.
Import ListNotations.
Local Open Scope string_scope.
Local Open Scope list_scope.

(* ---- a proof principle: every way processMessage can end ---- *)
Section Walk.
  Variables (put : bool) (now : Z) (m : message).
  Variable Inv : hs -> Prop.
  Variable Q : res (option operation) -> Prop.
  Hypothesis q_err : forall h, Inv h -> Q (RErr h).
  Hypothesis q_none : forall h, Inv h -> Q (ROk h None).
  Hypothesis q_panic : Q RPanic.
  Hypothesis inv_send : forall h x, Inv h -> Inv (emit h (WSend x)).
  Hypothesis q_sigs : forall h l, String.eqb (m_event m) ev_sig_reconstructed = true -> Inv h ->
    match save_signatures h l with ROk h' _ => Q (ROk h' None) | RErr h' => Q (RErr h') | RPanic => True end.
  Hypothesis q_prop : forall req h i op, Inv h -> Q (pm_prop put m req h i op).

  Lemma walk_pm_tail req h inst : Inv h -> Q (pm_tail put now m req h inst).
  Proof.
    intros Hi. unfold pm_tail.
    destruct (negb (sender_is_participant _ _ _)); [apply q_err; exact Hi|].
    destruct (do_live inst (m_event m) req) as [i1 r1 x1| |]; [|apply q_err; exact Hi|exact q_panic]. cbv zeta.
    destruct (if String.eqb r1 st_collected then _ else _) as [i2 r2 x2| |]; [|apply q_err; exact Hi|exact q_panic].
    destruct (if String.eqb r2 st_master_collected then _ else _) as [i3 r3 x3| |]; [|apply q_err; exact Hi|exact q_panic].
    destruct (String.eqb r3 st_partial_collected).
    - destruct x3 as [[]|]; try (apply q_err; exact Hi).
      destruct (reconstruct _ _ _ _ _ _); [|apply q_err; exact Hi].
      destruct (do_fresh (dump_of i3) ev_sgn_restart _) as [i4 r4 x4| |].
      + apply q_prop. apply inv_send. exact Hi.
      + apply q_err. apply inv_send. exact Hi.
      + exact q_panic.
    - apply q_prop. exact Hi.
  Qed.

  Lemma get_instance_same h r c :
    match get_instance h r c with ROk h' _ => h' = h | RErr h' => h' = h | RPanic => True end.
  Proof.
    unfold get_instance. destruct (tget' _ _) as [d|].
    - destruct (from_dump d); auto.
    - destruct (N.eqb r 0); [reflexivity|]. destruct c; [|reflexivity]. destruct create; auto.
  Qed.

  Lemma pm_restart_same h inst :
    match pm_restart now m h inst with ROk h' _ => h' = h | RErr h' => h' = h | RPanic => True end.
  Proof. unfold pm_restart. destruct (do_live _ _ _); auto. Qed.

  Lemma walk_process_message h0 : Inv h0 -> Q (process_message put now h0 m).
  Proof.
    intros Hi. unfold process_message.
    pose proof (get_instance_same h0 (m_round m) true) as Hg.
    destruct (get_instance h0 (m_round m) true) as [h1 inst|h1|]; [subst h1|subst h1; apply q_err; exact Hi|exact q_panic].
    destruct (negb (String.eqb (m_event m) ev_sig_init) && _); [apply q_err; exact Hi|].
    destruct (String.eqb (m_event m) ev_sig_reconstructed) eqn:Erec.
    { destruct (m_req m) as [rq| |[l|]]; try (apply q_err; exact Hi).
      match goal with |- context [save_signatures ?hh ?l] => pose proof (q_sigs hh l eq_refl Hi) as Hs end.
      destruct (save_signatures _ _); auto. }
    destruct (String.eqb (m_event m) ev_sig_recon_failed).
    { destruct (m_req m) as [[]| |]; first [apply q_none; exact Hi|apply q_err; exact Hi]. }
    destruct (has_suffix (i_dstate inst) "_error" && _); [apply q_none; exact Hi|]. cbv zeta.
    assert (Hstep5 : forall i,
      Q (if has_suffix (i_dstate i) "_timeout" && (has_prefix (i_dstate i) "state_sig_" || has_prefix (i_dstate i) "state_dkg")
         then ROk h0 None
         else match (if has_suffix (i_dstate i) "_timeout" && has_prefix (i_dstate i) "state_signing_"
                     then match p_sgn (i_payload i) with Some _ => pm_restart now m h0 i | None => RPanic end
                     else ROk h0 i) with
              | ROk h2 inst2 => match m_req m with MFsm req => pm_tail put now m req h2 inst2 | _ => RErr h2 end
              | RErr h2 => RErr h2
              | RPanic => RPanic
              end)).
    { intros i. destruct (has_suffix (i_dstate i) "_timeout" && (_ || _)); [apply q_none; exact Hi|].
      destruct (has_suffix (i_dstate i) "_timeout" && has_prefix (i_dstate i) "state_signing_").
      - destruct (p_sgn (i_payload i)); [|exact q_panic].
        pose proof (pm_restart_same h0 i) as Hr.
        destruct (pm_restart now m h0 i) as [h2 i2|h2|]; [subst h2|subst h2; apply q_err; exact Hi|exact q_panic].
        destruct (m_req m); try (apply q_err; exact Hi). apply walk_pm_tail. exact Hi.
      - destruct (m_req m); try (apply q_err; exact Hi). apply walk_pm_tail. exact Hi. }
    destruct (has_suffix (i_dstate inst) "_error" && match p_sgn (i_payload inst) with Some _ => true | None => false end).
    - pose proof (pm_restart_same h0 inst) as Hr.
      destruct (pm_restart now m h0 inst) as [h2 i2|h2|]; [subst h2|subst h2; apply q_err; exact Hi|exact q_panic].
      apply Hstep5.
    - apply Hstep5.
  Qed.
End Walk.

(* ---- 1. the operation of an accepted message is in the pool when the handler returns ---- *)
Lemma zlist_eqb_refl l : zlist_eqb l l = true.
Proof. induction l as [|x l IH]; cbn; [reflexivity|]. rewrite Z.eqb_refl. exact IH. Qed.
Lemma op_same_id_refl o : op_same_id o o = true.
Proof. unfold op_same_id. rewrite N.eqb_refl, zlist_eqb_refl. reflexivity. Qed.

Definition pooled (h : hs) (o : operation) : Prop :=
  existsb (op_same_id o) (ns_deleted (h_st h)) = false ->        (* not already handled and retired *)
  existsb (op_same_id o) (ops_visible (h_st h)) = true.

Lemma put_operation_pools h o :
  match put_operation h o with ROk h' _ => pooled h' o | _ => False end.
Proof.
  unfold put_operation. destruct (existsb (op_same_id o) (ops_visible (h_st h))) eqn:E.
  - intros _. exact E.
  - intros Hd. unfold emit, ops_visible in *. cbn [h_st apply_write ns_ops ns_deleted] in *.
    apply existsb_exists. exists o. split; [|apply op_same_id_refl].
    apply filter_In. split; [apply in_or_app; right; left; reflexivity|].
    rewrite Hd. reflexivity.
Qed.

Lemma save_fsm_pooled h r d o : pooled h o -> pooled (save_fsm h r d) o.
Proof. unfold pooled, save_fsm, emit, ops_visible. cbn [h_st apply_write ns_ops ns_deleted]. auto. Qed.

Definition pooled_res (x : res (option operation)) : Prop :=
  match x with ROk h (Some o) => pooled h o | _ => True end.

Theorem accepted_operation_is_pooled now h0 m h o :
  process_message true now h0 m = ROk h (Some o) -> pooled h o.
Proof.
  intros H.
  assert (Hq : pooled_res (process_message true now h0 m)).
  { apply (walk_process_message true now m (fun _ => True) pooled_res); try (intros; exact I); auto.
    - intros hh l _ _. destruct (save_signatures hh l); exact I.
    - intros req hh i op _. unfold pm_prop.
      assert (Hok : forall h1, pooled_res (ROk (save_fsm (put_opt true h1 op) (m_round m) (dump_of i)) op)).
      { intros h1. destruct op as [o'|]; [|exact I]. cbn [pooled_res]. apply save_fsm_pooled.
        unfold put_opt. pose proof (put_operation_pools h1 o') as Hp. destruct (put_operation h1 o'); tauto. }
      destruct (String.eqb (m_event m) ev_sgn_start).
      + destruct (m_tasks m); [|exact I]. destruct req; try exact I.
        destruct (save_signatures _ _); try exact I. apply Hok.
      + apply Hok. }
  rewrite H in Hq. exact Hq.
Qed.

(* ---- 2. the round save is the LAST durable write of the handler ---- *)
Definition norounds (tr : list write) : Prop := forallb (fun w => negb (writes_rounds w)) tr = true.

Lemma norounds_app a b : norounds a -> norounds b -> norounds (a ++ b).
Proof. unfold norounds. intros Ha Hb. rewrite forallb_app, Ha, Hb. reflexivity. Qed.

Definition rounds_last (tr : list write) : Prop :=
  norounds tr \/ exists tr1 l, tr = tr1 ++ [WRounds l] /\ norounds tr1.

Definition rounds_last_res {A} (x : res A) : Prop :=
  match x with ROk h _ => rounds_last (h_tr h) | RErr h => norounds (h_tr h) | RPanic => True end.

Lemma put_opt_trace put h op :
  h_tr (put_opt put h op) = h_tr h \/ exists l, h_tr (put_opt put h op) = h_tr h ++ [WOps l].
Proof.
  unfold put_opt. destruct put; [|left; reflexivity]. destruct op as [o|]; [|left; reflexivity].
  unfold put_operation. destruct (existsb _ _); [left; reflexivity|]. right. eexists. reflexivity.
Qed.

Lemma process_message_rounds_last put now h0 m :
  norounds (h_tr h0) -> rounds_last_res (process_message put now h0 m).
Proof.
  intros H0.
  apply (walk_process_message put now m (fun h => norounds (h_tr h)) rounds_last_res); auto.
  - intros h Hh. left. exact Hh.
  - exact I.
  - intros h x Hh. cbn [emit h_tr]. apply norounds_app; [exact Hh|reflexivity].
  - intros h l _ Hh. unfold save_signatures. destruct l; [exact Hh|]. cbn [rounds_last_res emit h_tr].
    left. apply norounds_app; [exact Hh|reflexivity].
  - intros req h i op Hh. unfold pm_prop.
    assert (Hok : forall h1, norounds (h_tr h1) ->
              rounds_last_res (ROk (save_fsm (put_opt put h1 op) (m_round m) (dump_of i)) op)).
    { intros h1 H1. cbn [rounds_last_res]. right. unfold save_fsm. cbn [emit h_tr].
      eexists. eexists. split; [reflexivity|].
      destruct (put_opt_trace put h1 op) as [E|[l E]]; rewrite E; [exact H1|].
      apply norounds_app; [exact H1|reflexivity]. }
    destruct (String.eqb (m_event m) ev_sgn_start).
    + destruct (m_tasks m) as [tasks|]; [|exact Hh]. destruct req; try exact Hh.
      unfold save_signatures. destruct (map _ tasks).
      * cbn [rounds_last_res emit h_tr]. apply norounds_app; [exact Hh|reflexivity].
      * apply Hok. cbn [emit h_tr]. rewrite <- app_assoc. apply norounds_app; [exact Hh|reflexivity].
    + apply Hok. exact Hh.
Qed.

Fixpoint count_durable (tr : list write) : nat :=
  match tr with [] => 0 | w :: r => (if is_durable w then 1 else 0) + count_durable r end.

Lemma take_durable_prefix k tr : exists rest, tr = take_durable k tr ++ rest.
Proof.
  revert k. induction tr as [|w r IH]; intros k; cbn [take_durable]; [exists []; reflexivity|].
  destruct (is_durable w).
  - destruct k as [|k']; [exists (w :: r); reflexivity|]. destruct (IH k') as [rest E]. exists rest. cbn. rewrite <- E. reflexivity.
  - destruct (IH k) as [rest E]. exists rest. cbn. rewrite <- E. reflexivity.
Qed.

Lemma take_durable_before_last k tr1 w :
  is_durable w = true -> k < count_durable (tr1 ++ [w]) ->
  exists rest, tr1 = take_durable k (tr1 ++ [w]) ++ rest.
Proof.
  intros Hw. revert k. induction tr1 as [|a t IH]; intros k Hk; cbn [app take_durable count_durable] in *.
  - rewrite Hw in *. destruct k; [exists []; reflexivity|]. cbn in Hk. lia.
  - destruct (is_durable a).
    + destruct k as [|k']; [exists (a :: t); reflexivity|].
      destruct (IH k') as [rest E]; [lia|]. exists rest. cbn. rewrite <- E. reflexivity.
    + destruct (IH k) as [rest E]; [cbn in Hk; exact Hk|]. exists rest. cbn. rewrite <- E. reflexivity.
Qed.

Lemma norounds_prefix a b : norounds (a ++ b) -> norounds a.
Proof. unfold norounds. rewrite forallb_app. intros H. apply andb_prop in H as [H _]. exact H. Qed.

Lemma rounds_last_strict_prefix k tr :
  rounds_last tr -> k < count_durable tr -> norounds (take_durable k tr).
Proof.
  intros [H|(tr1 & l & -> & H1)] Hk.
  - destruct (take_durable_prefix k tr) as [rest E]. rewrite E in H. eapply norounds_prefix. exact H.
  - destruct (take_durable_before_last k tr1 (WRounds l) eq_refl Hk) as [rest E].
    rewrite E in H1. eapply norounds_prefix. exact H1.
Qed.

(* killed strictly inside the handler (fewer durable writes done than the handler issues): every
   stored round is as it was; killed in a handler that refuses the message: the same, wherever *)
Theorem killed_inside_keeps_rounds now st m k hc u :
  let r := process_board_message now {| h_st := st; h_tr := [] |} m in
  (k < count_durable (trace_of r) \/ (exists h, r = RErr h)) ->
  crash_after st k r = ROk hc u ->
  ns_rounds (h_st hc) = ns_rounds st.
Proof.
  intros r Hk H. eapply crash_before_round_write_keeps_rounds; [|exact H].
  pose proof (process_message_rounds_last true now {| h_st := st; h_tr := [] |} m eq_refl) as Hl.
  subst r. unfold process_board_message in *.
  destruct (process_message true now {| h_st := st; h_tr := [] |} m) as [h o|h|]; cbn [trace_of rounds_last_res] in *.
  - destruct Hk as [Hk|[h' Hk]]; [|discriminate]. apply rounds_last_strict_prefix; assumption.
  - destruct (take_durable_prefix k (h_tr h)) as [rest E]. rewrite E in Hl. eapply norounds_prefix. exact Hl.
  - reflexivity.
Qed.

(* ---- 3. the redelivered message is handled as if the node had never been killed ---- *)
Definition keeps_round_parts (w : write) : bool :=
  match w with WOps _ | WDeleted _ | WSend _ => true | _ => false end.
Definition allkeep (tr : list write) : Prop := forallb keeps_round_parts tr = true.

Lemma allkeep_app a b : allkeep a -> allkeep b -> allkeep (a ++ b).
Proof. unfold allkeep. intros Ha Hb. rewrite forallb_app, Ha, Hb. reflexivity. Qed.
Lemma allkeep_prefix a b : allkeep (a ++ b) -> allkeep a.
Proof. unfold allkeep. rewrite forallb_app. intros H. apply andb_prop in H as [H _]. exact H. Qed.

Lemma fold_allkeep r tr st : allkeep tr -> lagree r (fold_left apply_write tr st) st.
Proof.
  revert st. induction tr as [|w t IH]; intros st H; cbn [fold_left].
  - unfold lagree. auto.
  - unfold allkeep in H. cbn [forallb] in H. apply andb_prop in H as [Hw Ht].
    specialize (IH (apply_write st w) Ht). destruct IH as (H1 & H2 & H3 & H4 & H5).
    destruct w; try discriminate; cbn [apply_write ns_user ns_skip ns_rounds ns_sigs ns_srcs] in *;
      unfold lagree; auto.
Qed.

Definition keep_last (tr : list write) : Prop :=
  allkeep tr \/ exists tr1 l, tr = tr1 ++ [WRounds l] /\ allkeep tr1.
Definition keep_last_res {A} (x : res A) : Prop :=
  match x with ROk h _ => keep_last (h_tr h) | RErr h => allkeep (h_tr h) | RPanic => True end.

(* a message that is neither a signing proposal nor a reconstructed signature (those also write the
   signature store): before the round save the handler touches the pool and the board only *)
Lemma process_message_keep_last put now h0 m :
  String.eqb (m_event m) ev_sgn_start = false -> String.eqb (m_event m) ev_sig_reconstructed = false ->
  allkeep (h_tr h0) -> keep_last_res (process_message put now h0 m).
Proof.
  intros Ev1 Ev2 H0.
  apply (walk_process_message put now m (fun h => allkeep (h_tr h)) keep_last_res); auto.
  - intros h Hh. left. exact Hh.
  - exact I.
  - intros h x Hh. cbn [emit h_tr]. apply allkeep_app; [exact Hh|reflexivity].
  - intros h l E. rewrite Ev2 in E. discriminate.
  - intros req h i op Hh. unfold pm_prop. rewrite Ev1.
    cbn [keep_last_res]. right. unfold save_fsm. cbn [emit h_tr].
    eexists. eexists. split; [reflexivity|].
    destruct (put_opt_trace put h op) as [E|[l E]]; rewrite E; [exact Hh|].
    apply allkeep_app; [exact Hh|reflexivity].
Qed.

Lemma keep_last_strict_prefix k tr :
  keep_last tr -> k < count_durable tr -> allkeep (take_durable k tr).
Proof.
  intros [H|(tr1 & l & -> & H1)] Hk.
  - destruct (take_durable_prefix k tr) as [rest E]. rewrite E in H. eapply allkeep_prefix. exact H.
  - destruct (take_durable_before_last k tr1 (WRounds l) eq_refl Hk) as [rest E].
    rewrite E in H1. eapply allkeep_prefix. exact H1.
Qed.

Theorem killed_inside_then_redelivered put now now' st m k hc u :
  ns_skip st = false ->
  m_event m <> ev_sgn_start -> m_event m <> ev_sig_reconstructed ->
  let r := process_board_message now {| h_st := st; h_tr := [] |} m in
  k < count_durable (trace_of r) ->
  crash_after st k r = ROk hc u ->
  rrel (m_round m) (process_message put now' {| h_st := h_st hc; h_tr := [] |} m)
                   (process_message put now' {| h_st := st; h_tr := [] |} m).
Proof.
  intros Hskip Hev1 Hev2 r Hk H. apply process_message_local.
  apply String.eqb_neq in Hev1. apply String.eqb_neq in Hev2.
  pose proof (process_message_keep_last true now {| h_st := st; h_tr := [] |} m Hev1 Hev2 eq_refl) as Hl.
  assert (Hpre : allkeep (take_durable k (trace_of r))).
  { subst r. unfold process_board_message in *.
    destruct (process_message true now {| h_st := st; h_tr := [] |} m) as [h o|h|]; cbn [trace_of keep_last_res] in *.
    - apply keep_last_strict_prefix; assumption.
    - destruct (take_durable_prefix k (h_tr h)) as [rest E]. rewrite E in Hl. eapply allkeep_prefix. exact Hl.
    - reflexivity. }
  unfold crash_after in H. inversion H; subst hc. cbn [emit h_st].
  pose proof (fold_allkeep (m_round m) _ st Hpre) as (G1 & G2 & G3 & G4 & G5).
  unfold lagree. cbn [apply_write ns_user ns_skip ns_rounds ns_sigs ns_srcs]. rewrite Hskip. auto.
Qed.

(* non-vacuity: the opening proposal on the example node issues two durable writes (pool, rounds);
   both crash points strictly inside satisfy the hypotheses *)
Example killed_inside_example :
  let st0 := empty_node 2%N 3%N in
  ns_skip st0 = false /\ m_event w_proposal <> ev_sgn_start /\ m_event w_proposal <> ev_sig_reconstructed /\
  count_durable (trace_of (process_board_message 777 {| h_st := st0; h_tr := [] |} w_proposal)) = 2%nat.
Proof. vm_compute. repeat split; discriminate. Qed.
