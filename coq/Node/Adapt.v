(* client/services/node/adapt_dkg.go GetAdaptedReDKG (repaired by 5ae9baa): a reinit file made from a
   log of version 0.1.4 lacks the self-confirmations of the deals phase; the adaptation inserts, in
   front of the FIRST deal message of every sender IN THE ROUND BEING RESTORED, a synthetic deal message
   from that sender to itself, and renumbers the offsets.  Definitions only. *)
From Coq Require Import String List NArith ZArith Bool.
Require Import Fsm.EngineDefs Fsm.Types Fsm.Actions Node.Types Node.Process.
Import ListNotations.
Local Open Scope string_scope.
Local Open Scope list_scope.

Definition ev_deal : string := "event_dkg_deal_confirm_received".

Record amsg := { am_event : string; am_round : tok; am_sender : tok; am_recipient : tok;
                 am_tag : N;          (* identity of a message of the file; 0 for a synthetic one *)
                 am_offset : Z;
                 am_synthetic : bool }.

Definition renumber (m : amsg) (off : Z) : amsg :=
  {| am_event := am_event m; am_round := am_round m; am_sender := am_sender m; am_recipient := am_recipient m;
     am_tag := am_tag m; am_offset := off; am_synthetic := am_synthetic m |}.

Definition self_confirmation (m : amsg) (off : Z) : amsg :=
  {| am_event := ev_deal; am_round := am_round m; am_sender := am_sender m; am_recipient := am_sender m;
     am_tag := 0%N; am_offset := off; am_synthetic := true |}.

Definition needs_fix (id : tok) (fixed : list tok) (m : amsg) : bool :=
  N.eqb (am_round m) id && negb (existsb (N.eqb (am_sender m)) fixed) && String.eqb (am_event m) ev_deal.

(* state of the loop: senders served, next offset, output so far *)
Definition adapt_step (id : tok) (st : list tok * Z * list amsg) (m : amsg) : list tok * Z * list amsg :=
  let '(fixed, off, out) := st in
  if needs_fix id fixed m
  then (am_sender m :: fixed, (off + 2)%Z, out ++ [self_confirmation m off; renumber m (off + 1)%Z])
  else (fixed, (off + 1)%Z, out ++ [renumber m off]).

Definition adapt (id : tok) (msgs : list amsg) : list amsg :=
  snd (fold_left (adapt_step id) msgs ([], 0%Z, [])).
