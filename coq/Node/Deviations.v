(* C09: the four deviations the property names - a missing or garbled signature, an altered
   payload, a signature made with any other key, an unknown sender - each spelled out as a corollary
   of unsigned_message_refused, for every node state, clock value and message other than the
   opening proposal. *)
From Coq Require Import String List NArith ZArith Bool.
Require Import Fsm.EngineDefs Fsm.Types Fsm.Engine Fsm.Actions Fsm.Provider Node.Types Node.Process Node.Facts.
Import ListNotations.

(* no signature at all, or bytes that are no signature *)
Theorem missing_signature_refused now st m :
  ns_skip st = false -> m_event m <> ev_sig_init ->
  (m_sig m = SigNone \/ m_sig m = SigJunk) ->
  untouched st (node_step now st (InMsg m)).
Proof.
  intros Hs He Hm. apply unsigned_message_refused; [exact Hs|exact He|].
  intros p _ (_ & pk & _ & Hsig). destruct Hm as [Hm|Hm]; rewrite Hm in Hsig; discriminate.
Qed.

(* a genuine signature over other bytes than the message now carries *)
Theorem altered_payload_refused now st m k d :
  ns_skip st = false -> m_event m <> ev_sig_init ->
  m_sig m = SigBy k d -> d <> m_data m ->
  untouched st (node_step now st (InMsg m)).
Proof.
  intros Hs He Hm Hd. apply unsigned_message_refused; [exact Hs|exact He|].
  intros p _ (_ & pk & _ & Hsig). rewrite Hm in Hsig. inversion Hsig. contradiction.
Qed.

(* a signature made with a key that is not the one registered in the round for the named sender *)
Theorem other_key_refused now st m k d :
  ns_skip st = false -> m_event m <> ev_sig_init ->
  m_sig m = SigBy k d ->
  (forall p, round_payload st (m_round m) p -> tget (p_pubkeys p) (m_sender m) <> Some k) ->
  untouched st (node_step now st (InMsg m)).
Proof.
  intros Hs He Hm Hk. apply unsigned_message_refused; [exact Hs|exact He|].
  intros p Hp (_ & pk & Hreg & Hsig). rewrite Hm in Hsig. inversion Hsig; subst. exact (Hk p Hp Hreg).
Qed.

(* a sender the round does not know (whatever the signature) *)
Theorem unknown_sender_refused now st m :
  ns_skip st = false -> m_event m <> ev_sig_init ->
  (forall p, round_payload st (m_round m) p -> tget (p_pubkeys p) (m_sender m) = None) ->
  untouched st (node_step now st (InMsg m)).
Proof.
  intros Hs He Hn. apply unsigned_message_refused; [exact Hs|exact He|].
  intros p Hp (_ & pk & Hreg & _). rewrite (Hn p Hp) in Hreg. discriminate.
Qed.

(* a blank sender name *)
Theorem blank_sender_refused now st m :
  ns_skip st = false -> m_event m <> ev_sig_init -> m_sender m = 0%N ->
  untouched st (node_step now st (InMsg m)).
Proof.
  intros Hs He Hz. apply unsigned_message_refused; [exact Hs|exact He|].
  intros p _ (Hnz & _). exact (Hnz Hz).
Qed.

(* non-vacuity, on the example node of Node/Local.v (round 9 proposed to users 2 and 5 with keys 3
   and 6): the genuine confirmation of user 2 is accepted; with another payload, with user 5's key,
   without signature, or in the name of an unknown user it is refused and nothing is written *)
Require Import Node.Crash Node.Local.
Definition dv_node : nstate := run_msgs (empty_node 2%N 3%N) [(777%Z, ex_prop 9%N)].
Definition dv_with (data : tok) (s : sigv) (sender : tok) : message :=
  {| m_round := 9%N; m_event := ev_sig_confirm; m_data := data; m_req := MFsm (RPart 0 10); m_sig := s;
     m_sender := sender; m_recipient := 0%N; m_tasks := None |}.
Definition dv_refused (m : message) : Prop :=
  node_step 777%Z dv_node (InMsg m) = RErr {| h_st := dv_node; h_tr := [] |}.
Example deviations_example :
  (exists h, node_step 777%Z dv_node (InMsg (dv_with 11%N (SigBy 3%N 11%N) 2%N)) = ROk h tt /\ h_tr h <> []) /\
  dv_refused (dv_with 12%N (SigBy 3%N 11%N) 2%N) /\
  dv_refused (dv_with 11%N (SigBy 6%N 11%N) 2%N) /\
  dv_refused (dv_with 11%N SigNone 2%N) /\
  dv_refused (dv_with 11%N SigJunk 2%N) /\
  dv_refused (dv_with 11%N (SigBy 3%N 11%N) 99%N) /\
  dv_refused (dv_with 11%N (SigBy 3%N 11%N) 0%N).
Proof.
  split; [eexists; split; [vm_compute; reflexivity|vm_compute; discriminate]|].
  repeat split; vm_compute; reflexivity.
Qed.
