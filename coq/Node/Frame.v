(* C08 (frame): handling a board message of round r changes nothing observable of another round. *)
From Coq Require Import String List NArith ZArith Bool Lia.
Require Import Fsm.EngineDefs Fsm.Types Fsm.Engine Fsm.Actions Fsm.Provider Node.Types Node.Process.
Import ListNotations.
Local Open Scope string_scope.
Local Open Scope list_scope.

(* what the node holds for round r': its FSM dump and its signature store *)
Definition same_at (r' : tok) (a b : nstate) : Prop :=
  tget' (ns_rounds a) r' = tget' (ns_rounds b) r' /\ tget' (ns_sigs a) r' = tget' (ns_sigs b) r'.

Lemma same_at_refl r' a : same_at r' a a.
Proof. split; reflexivity. Qed.

Lemma aput_other {A} (l : list (tok * A)) k v r' : k <> r' -> tget' (aput l k v) r' = tget' l r'.
Proof.
  intros Hne. induction l as [|[j b] r IH]; cbn [aput tget'].
  - destruct (N.eqb k r') eqn:E; [apply N.eqb_eq in E; congruence|reflexivity].
  - destruct (N.eqb j k) eqn:E; cbn [tget'].
    + apply N.eqb_eq in E. subst j. destruct (N.eqb k r') eqn:E2; [apply N.eqb_eq in E2; congruence|reflexivity].
    + destruct (N.eqb j r'); [reflexivity|exact IH].
Qed.

Lemma frame_save_fsm r' st h round d :
  round <> r' -> same_at r' (h_st h) st -> same_at r' (h_st (save_fsm h round d)) st.
Proof.
  intros Hne [H1 H2]. unfold save_fsm, emit, same_at. cbn [h_st apply_write ns_rounds ns_sigs].
  rewrite aput_other by exact Hne. split; assumption.
Qed.

Lemma frame_emit_other r' st h w :
  match w with WRounds _ | WSigs _ _ => False | _ => True end ->
  same_at r' (h_st h) st -> same_at r' (h_st (emit h w)) st.
Proof. intros Hw [H1 H2]. destruct w; try contradiction; unfold emit, same_at; cbn; split; assumption. Qed.

Lemma frame_save_signatures r' st h l h' u round :
  (forall s, In s l -> rs_round s = round) -> round <> r' ->
  save_signatures h l = ROk h' u -> same_at r' (h_st h) st -> same_at r' (h_st h') st.
Proof.
  intros Hall Hne H [H1 H2]. unfold save_signatures in H. destruct l as [|s0 l']; [discriminate|].
  inversion H; subst. unfold emit, same_at. cbn [h_st apply_write ns_rounds ns_sigs].
  rewrite (Hall s0 (or_introl eq_refl)). rewrite aput_other by exact Hne. split; assumption.
Qed.

Lemma frame_save_signatures_err r' st h l h' :
  save_signatures h l = RErr h' -> same_at r' (h_st h) st -> same_at r' (h_st h') st.
Proof. unfold save_signatures. destruct l; [intros H; inversion H; subst; auto|discriminate]. Qed.

Lemma frame_put_operation r' st h o :
  same_at r' (h_st h) st ->
  match put_operation h o with ROk h' _ => same_at r' (h_st h') st | RErr h' => same_at r' (h_st h') st | RPanic => True end.
Proof.
  intros Hs. unfold put_operation. destruct (existsb _ _); [exact Hs|].
  apply frame_emit_other; [exact I|exact Hs].
Qed.

Lemma frame_put_opt put r' st h op :
  same_at r' (h_st h) st -> same_at r' (h_st (put_opt put h op)) st.
Proof.
  intros Hs. unfold put_opt. destruct put; [|exact Hs]. destruct op as [o|]; [|exact Hs].
  pose proof (frame_put_operation r' st h o Hs) as Hp. destruct (put_operation h o); auto.
Qed.

Definition res_same {A} (r' : tok) (st : nstate) (x : res A) : Prop :=
  match x with
  | ROk h _ => same_at r' (h_st h) st
  | RErr h => same_at r' (h_st h) st
  | RPanic => True
  end.

Lemma frame_pm_restart now m r' st h inst :
  m_round m <> r' -> same_at r' (h_st h) st -> res_same r' st (pm_restart now m h inst).
Proof.
  intros Hne Hs. unfold pm_restart. destruct (do_live inst ev_sgn_restart _); cbn; auto.
Qed.

Lemma frame_pm_prop put m req r' st h i4 op :
  m_round m <> r' -> same_at r' (h_st h) st -> res_same r' st (pm_prop put m req h i4 op).
Proof.
  intros Hne Hs. unfold pm_prop. destruct (String.eqb (m_event m) ev_sgn_start).
  - destruct (m_tasks m) as [tasks|]; [|exact Hs].
    destruct req; try exact Hs.
    destruct (save_signatures _ _) as [h' u|h'|] eqn:Es; cbn; auto.
    + apply frame_save_fsm; [exact Hne|]. apply frame_put_opt.
      eapply frame_save_signatures; [|exact Hne|exact Es|].
      * intros s Hin. apply in_map_iff in Hin as (x & <- & _). reflexivity.
      * apply frame_emit_other; [exact I|exact Hs].
    + eapply frame_save_signatures_err; [exact Es|]. apply frame_emit_other; [exact I|exact Hs].
  - cbn. apply frame_save_fsm; [assumption|]. apply frame_put_opt. assumption.
Qed.

Lemma frame_pm_tail put now m req r' st h inst :
  m_round m <> r' -> same_at r' (h_st h) st -> res_same r' st (pm_tail put now m req h inst).
Proof.
  intros Hne Hs. unfold pm_tail.
  destruct (negb (sender_is_participant _ _ _)); [exact Hs|].
  destruct (do_live inst (m_event m) req) as [i1 r1 x1| |]; cbn; auto. cbv zeta.
  destruct (if String.eqb r1 st_collected then _ else _) as [i2 r2 x2| |]; cbn; auto.
  destruct (if String.eqb r2 st_master_collected then _ else _) as [i3 r3 x3| |]; cbn; auto.
  destruct (String.eqb r3 st_partial_collected).
  - destruct x3 as [[]|]; try exact Hs.
    destruct (reconstruct _ _ _ _ _ _); [|exact Hs].
    destruct (do_fresh (dump_of i3) ev_sgn_restart _) as [i4 r4 x4| |]; cbn; auto.
    apply frame_pm_prop; [exact Hne|]. apply frame_emit_other; [exact I|exact Hs].
  - apply frame_pm_prop; assumption.
Qed.

(* every result of processMessage for a message of round r leaves round r' <> r as it was *)
Theorem process_message_frame put now st m r' :
  m_round m <> r' ->
  res_same r' st (process_message put now {| h_st := st; h_tr := [] |} m).
Proof.
  intros Hne. unfold process_message.
  assert (H0 : same_at r' (h_st {| h_st := st; h_tr := [] |}) st) by apply same_at_refl.
  destruct (get_instance {| h_st := st; h_tr := [] |} (m_round m) true) as [h1 inst| |] eqn:Eg; cbn; auto.
  2:{ unfold get_instance in Eg. cbn [h_st] in Eg.
      destruct (tget' (ns_rounds st) (m_round m)) as [d|].
      - destruct (from_dump d); try discriminate. inversion Eg; subst. exact H0.
      - destruct (N.eqb (m_round m) 0); [inversion Eg; subst; exact H0|].
        destruct create; try discriminate; inversion Eg; subst; exact H0. }
  assert (Hh1 : h1 = {| h_st := st; h_tr := [] |}).
  { unfold get_instance in Eg. cbn [h_st] in Eg.
    destruct (tget' (ns_rounds st) (m_round m)) as [d|].
    - destruct (from_dump d); try discriminate. inversion Eg; reflexivity.
    - destruct (N.eqb (m_round m) 0); [discriminate|]. destruct create; try discriminate; inversion Eg; reflexivity. }
  subst h1. clear Eg.
  destruct (negb (String.eqb (m_event m) ev_sig_init) && _); [exact H0|].
  destruct (String.eqb (m_event m) ev_sig_reconstructed).
  { destruct (m_req m) as [r| |[l|]]; try exact H0.
    destruct (save_signatures _ _) as [h' u|h'|] eqn:Es; cbn; auto.
    - eapply frame_save_signatures; [|exact Hne|exact Es|exact H0].
      intros s Hin. apply in_map_iff in Hin as (x & <- & _). reflexivity.
    - eapply frame_save_signatures_err; eassumption. }
  destruct (String.eqb (m_event m) ev_sig_recon_failed).
  { destruct (m_req m) as [[]| |]; exact H0. }
  destruct (has_suffix (i_dstate inst) "_error" && _); [exact H0|]. cbv zeta.
  assert (Hstep5 : forall h i, same_at r' (h_st h) st ->
    res_same r' st
      (if has_suffix (i_dstate i) "_timeout" && (has_prefix (i_dstate i) "state_sig_" || has_prefix (i_dstate i) "state_dkg")
       then ROk h None
       else match (if has_suffix (i_dstate i) "_timeout" && has_prefix (i_dstate i) "state_signing_"
                   then match p_sgn (i_payload i) with Some _ => pm_restart now m h i | None => RPanic end
                   else ROk h i) with
            | ROk h2 inst2 => match m_req m with MFsm req => pm_tail put now m req h2 inst2 | _ => RErr h2 end
            | RErr h2 => RErr h2
            | RPanic => RPanic
            end)).
  { intros h i Hs. destruct (has_suffix (i_dstate i) "_timeout" && (_ || _)); [exact Hs|].
    destruct (has_suffix (i_dstate i) "_timeout" && has_prefix (i_dstate i) "state_signing_").
    - destruct (p_sgn (i_payload i)); [|exact I].
      pose proof (frame_pm_restart now m r' st h i Hne Hs) as Hr.
      destruct (pm_restart now m h i) as [h2 i2|h2|]; cbn in *; auto.
      destruct (m_req m); cbn; auto. apply frame_pm_tail; assumption.
    - destruct (m_req m); cbn; auto. apply frame_pm_tail; assumption. }
  destruct (has_suffix (i_dstate inst) "_error" && match p_sgn (i_payload inst) with Some _ => true | None => false end).
  - pose proof (frame_pm_restart now m r' st _ inst Hne H0) as Hr.
    destruct (pm_restart now m {| h_st := st; h_tr := [] |} inst) as [h2 i2|h2|]; cbn in *; auto.
  - apply Hstep5. exact H0.
Qed.

(* the same for the whole handler of a board message (PutOperation included) *)
Theorem board_message_frame now st m r' :
  m_round m <> r' -> res_same r' st (node_step now st (InMsg m)).
Proof.
  intros Hne. unfold node_step, process_board_message.
  pose proof (process_message_frame true now st m r' Hne) as H.
  destruct (process_message true now {| h_st := st; h_tr := [] |} m) as [h o|h|]; cbn in *; auto.
Qed.
