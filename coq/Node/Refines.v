(* The node's handler refines the dump-level step `round_step` (the function the FSM theorems of
   C05, C06, C07 and C11 are about): whenever processMessage accepts a board message of a stored
   round, the round it persists is exactly `round_step` of the round it loaded, and the operation it
   returns is the one built from round_step's response.  So a fact proved about round_step (who must
   have confirmed, when a batch collects, what cancels a phase) is a fact about what the node stores. *)
From Coq Require Import String List NArith ZArith Bool Lia.
Require Import Fsm.EngineDefs Fsm.Types Fsm.Engine Fsm.Actions Fsm.Provider Fsm.Handover Fsm.Loadable.
Require Import Node.Types Node.Process Node.Frame Node.Local Node.Facts.
Import ListNotations.
Local Open Scope string_scope.
Local Open Scope list_scope.

(* continuing in memory = continuing after dump + restore (C19 gives it for every owned and for
   every live instance) *)
Definition restorable (i : instance) : Prop :=
  forall ev req, fsm_case (dump_of i) ev req = obs_of_do (inst_do i ev req).

Lemma owned_restorable i : owned i -> restorable i.
Proof. intros H ev req. apply restore_step. exact H. Qed.
Lemma live_restorable i : live i -> restorable i.
Proof. intros H ev req. apply restore_step_live. exact H. Qed.

Lemma do_live_on_dump i ev req i' r x :
  restorable i -> do_live i ev req = FOk i' r x -> do_on_dump (dump_of i) ev req = SOk (dump_of i') r x.
Proof.
  intros Hr H. specialize (Hr ev req). unfold fsm_case in Hr. unfold do_on_dump, do_live in *.
  destruct (from_dump (dump_of i)) as [i0| |].
  - destruct (inst_do i ev req) as [j|j rs rd [|]|]; try discriminate. inversion H; subst.
    destruct (inst_do i0 ev req) as [j0|j0 rs0 rd0 [|]|]; cbn in Hr; try discriminate.
    inversion Hr; subst. reflexivity.
  - destruct (inst_do i ev req) as [j|j rs rd [|]|]; discriminate.
  - destruct (inst_do i ev req) as [j|j rs rd [|]|]; discriminate.
Qed.

Lemma do_fresh_on_dump d ev req i' r x :
  do_fresh d ev req = FOk i' r x -> do_on_dump d ev req = SOk (dump_of i') r x.
Proof.
  unfold do_fresh, do_on_dump. destruct (from_dump d) as [i0| |]; try discriminate.
  destruct (inst_do i0 ev req) as [j|j rs rd [|]|]; try discriminate. intros H; inversion H; subst. reflexivity.
Qed.

Definition op_of (round : tok) (r : string) (x : option response) : option operation :=
  if mem_str r op_states then
    match x with
    | Some _ => Some {| op_round := round; op_type := r; op_payload := x; op_reinit := None; op_extra := 0%N |}
    | None => None
    end
  else None.

Lemma pm_prop_saves put m req h i4 op h' o :
  pm_prop put m req h i4 op = ROk h' o -> o = op /\ tget' (ns_rounds (h_st h')) (m_round m) = Some (dump_of i4).
Proof.
  unfold pm_prop. destruct (String.eqb (m_event m) ev_sgn_start).
  - destruct (m_tasks m) as [tasks|]; [|discriminate]. destruct req; try discriminate.
    destruct (save_signatures _ _) as [h1 u|h1|]; try discriminate.
    intros H; inversion H; subst. split; [reflexivity|]. unfold save_fsm, emit. cbn [h_st apply_write ns_rounds].
    apply aput_same.
  - intros H; inversion H; subst. split; [reflexivity|]. unfold save_fsm, emit. cbn [h_st apply_write ns_rounds].
    apply aput_same.
Qed.

Theorem accepted_message_persists_round_step put now m req h inst h' op :
  restorable inst ->
  pm_tail put now m req h inst = ROk h' op ->
  exists d r x, round_step now (dump_of inst) (m_event m) req = SOk d r x /\
                tget' (ns_rounds (h_st h')) (m_round m) = Some d /\
                op = op_of (m_round m) r x.
Proof.
  intros Hr H. unfold pm_tail in H.
  destruct (negb (sender_is_participant _ _ _)); [discriminate|].
  destruct (do_live inst (m_event m) req) as [i1 r1 x1| |] eqn:E1; try discriminate.
  cbv zeta in H. unfold round_step. rewrite (do_live_on_dump _ _ _ _ _ _ Hr E1).
  destruct (String.eqb r1 st_collected).
  - destruct (do_fresh (dump_of i1) ev_dkg_init (RDefault now)) as [i2 r2 x2| |] eqn:E2; try discriminate.
    rewrite (do_fresh_on_dump _ _ _ _ _ _ E2).
    destruct (String.eqb r2 st_master_collected).
    + destruct (do_fresh (dump_of i2) ev_sgn_init (RDefault now)) as [i3 r3 x3| |] eqn:E3; try discriminate.
      rewrite (do_fresh_on_dump _ _ _ _ _ _ E3).
      destruct (String.eqb r3 st_partial_collected).
      * destruct x3 as [[]|]; try discriminate.
        destruct (reconstruct _ _ _ _ _ _); [|discriminate].
        destruct (do_fresh (dump_of i3) ev_sgn_restart (RDefault now)) as [i4 r4 x4| |] eqn:E4; try discriminate.
        rewrite (do_fresh_on_dump _ _ _ _ _ _ E4).
        apply pm_prop_saves in H as [-> Hs]. eexists. eexists. eexists. split; [reflexivity|]. split; [exact Hs|reflexivity].
      * apply pm_prop_saves in H as [-> Hs]. eexists. eexists. eexists. split; [reflexivity|]. split; [exact Hs|reflexivity].
    + destruct (String.eqb r2 st_partial_collected).
      * destruct x2 as [[]|]; try discriminate.
        destruct (reconstruct _ _ _ _ _ _); [|discriminate].
        destruct (do_fresh (dump_of i2) ev_sgn_restart (RDefault now)) as [i4 r4 x4| |] eqn:E4; try discriminate.
        rewrite (do_fresh_on_dump _ _ _ _ _ _ E4).
        apply pm_prop_saves in H as [-> Hs]. eexists. eexists. eexists. split; [reflexivity|]. split; [exact Hs|reflexivity].
      * apply pm_prop_saves in H as [-> Hs]. eexists. eexists. eexists. split; [reflexivity|]. split; [exact Hs|reflexivity].
  - destruct (String.eqb r1 st_master_collected).
    + destruct (do_fresh (dump_of i1) ev_sgn_init (RDefault now)) as [i3 r3 x3| |] eqn:E3; try discriminate.
      rewrite (do_fresh_on_dump _ _ _ _ _ _ E3).
      destruct (String.eqb r3 st_partial_collected).
      * destruct x3 as [[]|]; try discriminate.
        destruct (reconstruct _ _ _ _ _ _); [|discriminate].
        destruct (do_fresh (dump_of i3) ev_sgn_restart (RDefault now)) as [i4 r4 x4| |] eqn:E4; try discriminate.
        rewrite (do_fresh_on_dump _ _ _ _ _ _ E4).
        apply pm_prop_saves in H as [-> Hs]. eexists. eexists. eexists. split; [reflexivity|]. split; [exact Hs|reflexivity].
      * apply pm_prop_saves in H as [-> Hs]. eexists. eexists. eexists. split; [reflexivity|]. split; [exact Hs|reflexivity].
    + destruct (String.eqb r1 st_partial_collected).
      * destruct x1 as [[]|]; try discriminate.
        destruct (reconstruct _ _ _ _ _ _); [|discriminate].
        destruct (do_fresh (dump_of i1) ev_sgn_restart (RDefault now)) as [i4 r4 x4| |] eqn:E4; try discriminate.
        rewrite (do_fresh_on_dump _ _ _ _ _ _ E4).
        apply pm_prop_saves in H as [-> Hs]. eexists. eexists. eexists. split; [reflexivity|]. split; [exact Hs|reflexivity].
      * apply pm_prop_saves in H as [-> Hs]. eexists. eexists. eexists. split; [reflexivity|]. split; [exact Hs|reflexivity].
Qed.

Lemma from_dump_dump d i : from_dump d = LoadOk i -> dump_of i = d /\ i_dstate i = d_state d.
Proof.
  unfold from_dump. destruct (machine_by_state (d_state d)); [|discriminate].
  destruct (copy_with_state_ok _ _); [|discriminate]. intros H; inversion H; subst. unfold dump_of. cbn.
  destruct d; split; reflexivity.
Qed.

(* the body of processMessage below the signature check, for a round that is not in a cancelled
   state (no lazy restart, no early exit) *)
Lemma process_message_plain put now st m inst :
  get_instance {| h_st := st; h_tr := [] |} (m_round m) true = ROk {| h_st := st; h_tr := [] |} inst ->
  has_suffix (i_dstate inst) "_error" = false -> has_suffix (i_dstate inst) "_timeout" = false ->
  String.eqb (m_event m) ev_sig_reconstructed = false ->
  String.eqb (m_event m) ev_sig_recon_failed = false ->
  forall h' op, process_message put now {| h_st := st; h_tr := [] |} m = ROk h' op ->
  exists req, m_req m = MFsm req /\ pm_tail put now m req {| h_st := st; h_tr := [] |} inst = ROk h' op.
Proof.
  intros Eg He Ht E1 E2 h' op H. unfold process_message in H. rewrite Eg in H.
  destruct (negb (String.eqb (m_event m) ev_sig_init) && _); [discriminate|].
  rewrite E1, E2 in H. rewrite He in H. cbn [andb] in H. cbv zeta in H. rewrite Ht in H. cbn [andb] in H.
  destruct (m_req m) as [req| |]; try discriminate. exists req. split; [reflexivity|exact H].
Qed.

(* every accepted FSM message of a stored round that is not in a cancelled state *)
Theorem process_message_refines_round_step put now st m d0 h' op :
  tget' (ns_rounds st) (m_round m) = Some d0 -> d_state d0 <> "" ->
  has_suffix (d_state d0) "_error" = false -> has_suffix (d_state d0) "_timeout" = false ->
  String.eqb (m_event m) ev_sig_reconstructed = false ->
  String.eqb (m_event m) ev_sig_recon_failed = false ->
  process_message put now {| h_st := st; h_tr := [] |} m = ROk h' op ->
  exists req d r x, m_req m = MFsm req /\ round_step now d0 (m_event m) req = SOk d r x /\
                    tget' (ns_rounds (h_st h')) (m_round m) = Some d /\ op = op_of (m_round m) r x.
Proof.
  intros Hd Hne He Ht E1 E2 H.
  destruct (from_dump d0) as [inst| |] eqn:Ef.
  2,3: unfold process_message, get_instance in H; cbn [h_st] in H; rewrite Hd, Ef in H; discriminate.
  pose proof (from_dump_dump _ _ Ef) as [Hdump Hst].
  assert (Eg : get_instance {| h_st := st; h_tr := [] |} (m_round m) true = ROk {| h_st := st; h_tr := [] |} inst).
  { unfold get_instance. cbn [h_st]. rewrite Hd, Ef. reflexivity. }
  rewrite <- Hst in He, Ht.
  destruct (process_message_plain put now st m inst Eg He Ht E1 E2 h' op H) as (req & Hreq & Htail).
  pose proof (owned_restorable inst (restored_is_owned d0 inst Ef Hne)) as Hr.
  destruct (accepted_message_persists_round_step put now m req _ inst h' op Hr Htail) as (d & r & x & Hrs & Hs & Hop).
  exists req, d, r, x. rewrite Hdump in Hrs. auto.
Qed.

(* the first message of a round the node has not seen: the handler starts from the initial dump *)
Lemma created_live : match create with LoadOk i => live i /\ dump_of i = initial_dump_of | _ => False end.
Proof.
  unfold create. destruct (table_by_name Gen.Tables.pool_entry_machine) as [t|] eqn:Et; [|vm_compute in Et; discriminate].
  destruct (copy_with_state_ok t "__idle") eqn:Ec.
  - split; [|reflexivity]. unfold live. cbn [i_dstate i_cur i_mach]. split; [reflexivity|]. split; [discriminate|].
    exists t. rewrite (table_by_name_name _ _ Et). split; [exact Et|].
    revert Ec. vm_compute in Et. inversion Et; subst. vm_compute. reflexivity.
  - revert Ec. vm_compute in Et. inversion Et; subst. vm_compute. discriminate.
Qed.

Theorem first_message_refines_round_step put now st m h' op :
  tget' (ns_rounds st) (m_round m) = None ->
  String.eqb (m_event m) ev_sig_reconstructed = false ->
  String.eqb (m_event m) ev_sig_recon_failed = false ->
  process_message put now {| h_st := st; h_tr := [] |} m = ROk h' op ->
  exists req d r x, m_req m = MFsm req /\ round_step now initial_dump_of (m_event m) req = SOk d r x /\
                    tget' (ns_rounds (h_st h')) (m_round m) = Some d /\ op = op_of (m_round m) r x.
Proof.
  intros Hd E1 E2 H. pose proof created_live as Hc.
  destruct create as [inst| |] eqn:Ec; try contradiction. destruct Hc as [Hl Hdump].
  destruct (N.eqb (m_round m) 0) eqn:E0.
  { unfold process_message, get_instance in H. cbn [h_st] in H. rewrite Hd, E0 in H. discriminate. }
  assert (Eg : get_instance {| h_st := st; h_tr := [] |} (m_round m) true = ROk {| h_st := st; h_tr := [] |} inst).
  { unfold get_instance. cbn [h_st]. rewrite Hd, E0, Ec. reflexivity. }
  assert (Hst : i_dstate inst = "__idle") by (exact (f_equal d_state Hdump)).
  assert (He : has_suffix (i_dstate inst) "_error" = false) by (rewrite Hst; reflexivity).
  assert (Ht : has_suffix (i_dstate inst) "_timeout" = false) by (rewrite Hst; reflexivity).
  destruct (process_message_plain put now st m inst Eg He Ht E1 E2 h' op H) as (req & Hreq & Htail).
  destruct (accepted_message_persists_round_step put now m req _ inst h' op (live_restorable _ Hl) Htail) as (d & r & x & Hrs & Hs & Hop).
  exists req, d, r, x. rewrite Hdump in Hrs. auto.
Qed.

(* non-vacuity: the confirmation of an invitation on the example node - the hypotheses hold, the
   message is accepted, and the persisted round is round_step of the stored one and differs from it *)
Example refines_example :
  let st := run_msgs (empty_node 2%N 3%N) [(777%Z, ex_prop 9%N)] in
  let m := ex_confirm 9%N in
  match tget' (ns_rounds st) 9%N, process_message true 777%Z {| h_st := st; h_tr := [] |} m, m_req m with
  | Some d0, ROk h' op, MFsm req =>
      has_suffix (d_state d0) "_error" = false /\ has_suffix (d_state d0) "_timeout" = false /\
      match round_step 777%Z d0 (m_event m) req with
      | SOk d _ _ => tget' (ns_rounds (h_st h')) 9%N = Some d /\ d <> d0
      | _ => False
      end
  | _, _, _ => False
  end.
Proof. vm_compute. repeat split; discriminate. Qed.

(* ---- the general case: a stored round in ANY state, the lazy restart included ---- *)
Require Import Fsm.LivePreserved.

Lemma do_live_live i ev req i' r x : live i -> do_live i ev req = FOk i' r x -> live i'.
Proof.
  intros Hl H. unfold do_live in H. destruct (inst_do i ev req) as [j|j rs rd [|]|] eqn:E; try discriminate.
  inversion H; subst. eapply inst_do_live; eassumption.
Qed.

Lemma pm_restart_on_dump now m h i h' i' :
  live i -> pm_restart now m h i = ROk h' i' ->
  h' = h /\ live i' /\ exists r x, do_on_dump (dump_of i) ev_sgn_restart (RDefault now) = SOk (dump_of i') r x.
Proof.
  intros Hl H. unfold pm_restart in H.
  destruct (do_live i ev_sgn_restart (RDefault now)) as [j r x| |] eqn:E; try discriminate.
  inversion H; subst. split; [reflexivity|]. split; [eapply do_live_live; eassumption|].
  exists r, x. apply do_live_on_dump; [apply live_restorable; exact Hl|exact E].
Qed.

(* the dump the handler starts from: the stored one, or - when the round was found in a cancelled
   signing state - the stored one after the restart event(s) *)
Inductive restarts (now : Z) : dump -> dump -> Prop :=
| rs_refl d : restarts now d d
| rs_step d d' d'' r x : do_on_dump d ev_sgn_restart (RDefault now) = SOk d' r x -> restarts now d' d'' -> restarts now d d''.

Lemma restarts_snoc now d d' d'' r x :
  restarts now d d' -> do_on_dump d' ev_sgn_restart (RDefault now) = SOk d'' r x -> restarts now d d''.
Proof.
  intros H Hd. induction H as [d|d a b r0 x0 H0 _ IH].
  - eapply rs_step; [exact Hd|apply rs_refl].
  - eapply rs_step; [exact H0|apply IH; exact Hd].
Qed.

Definition refined (now : Z) (st : nstate) (m : message) (d0 : dump) (h' : hs) (op : option operation) : Prop :=
  (* a cancelled key generation / proposal absorbs the message without a write *)
  (h' = {| h_st := st; h_tr := [] |} /\ op = None) \/
  exists req d1 d r x, m_req m = MFsm req /\ restarts now d0 d1 /\
                       round_step now d1 (m_event m) req = SOk d r x /\
                       tget' (ns_rounds (h_st h')) (m_round m) = Some d /\ op = op_of (m_round m) r x.

Theorem process_message_refines_round_step_any_state put now st m d0 h' op :
  tget' (ns_rounds st) (m_round m) = Some d0 -> d_state d0 <> "" ->
  String.eqb (m_event m) ev_sig_reconstructed = false ->
  String.eqb (m_event m) ev_sig_recon_failed = false ->
  process_message put now {| h_st := st; h_tr := [] |} m = ROk h' op ->
  refined now st m d0 h' op.
Proof.
  intros Hd Hne E1 E2 H.
  destruct (from_dump d0) as [inst| |] eqn:Ef.
  2,3: unfold process_message, get_instance in H; cbn [h_st] in H; rewrite Hd, Ef in H; discriminate.
  pose proof (from_dump_dump _ _ Ef) as [Hdump Hst].
  pose proof (owned_live inst (restored_is_owned d0 inst Ef Hne)) as Hlive.
  unfold process_message in H. unfold get_instance in H. cbn [h_st] in H. rewrite Hd, Ef in H.
  destruct (negb (String.eqb (m_event m) ev_sig_init) && _); [discriminate|].
  rewrite E1, E2 in H.
  destruct (has_suffix (i_dstate inst) "_error" && _); [inversion H; subst; left; auto|]. cbv zeta in H.
  assert (Hfin : forall i2, live i2 -> restarts now d0 (dump_of i2) ->
            match m_req m with MFsm req => pm_tail put now m req {| h_st := st; h_tr := [] |} i2 | _ => RErr {| h_st := st; h_tr := [] |} end = ROk h' op ->
            refined now st m d0 h' op).
  { intros i2 Hl2 Hsd2 Ht. destruct (m_req m) as [req| |] eqn:Ereq; try discriminate.
    destruct (accepted_message_persists_round_step put now m req _ i2 h' op (live_restorable _ Hl2) Ht) as (d & r & x & Hrs & Hs & Hop).
    right. exists req, (dump_of i2), d, r, x. auto. }
  (* from step 5 on, for any live instance reached from the stored dump by restarts *)
  assert (Hstep5 : forall i, live i -> restarts now d0 (dump_of i) ->
    (if has_suffix (i_dstate i) "_timeout" && (has_prefix (i_dstate i) "state_sig_" || has_prefix (i_dstate i) "state_dkg")
     then ROk {| h_st := st; h_tr := [] |} None
     else match (if has_suffix (i_dstate i) "_timeout" && has_prefix (i_dstate i) "state_signing_"
                 then match p_sgn (i_payload i) with Some _ => pm_restart now m {| h_st := st; h_tr := [] |} i | None => RPanic end
                 else ROk {| h_st := st; h_tr := [] |} i) with
          | ROk h2 inst2 => match m_req m with MFsm req => pm_tail put now m req h2 inst2 | _ => RErr h2 end
          | RErr h2 => RErr h2
          | RPanic => RPanic
          end) = ROk h' op -> refined now st m d0 h' op).
  { intros i Hl Hsd H5.
    destruct (has_suffix (i_dstate i) "_timeout" && (_ || _)); [inversion H5; subst; left; auto|].
    destruct (has_suffix (i_dstate i) "_timeout" && has_prefix (i_dstate i) "state_signing_").
    - destruct (p_sgn (i_payload i)); [|discriminate].
      destruct (pm_restart now m {| h_st := st; h_tr := [] |} i) as [h2 i2|h2|] eqn:Er; try discriminate.
      destruct (pm_restart_on_dump _ _ _ _ _ _ Hl Er) as (-> & Hl2 & r & x & Hdo).
      apply (Hfin i2 Hl2); [|exact H5]. eapply restarts_snoc; eassumption.
    - apply (Hfin i Hl Hsd H5). }
  destruct (has_suffix (i_dstate inst) "_error" && match p_sgn (i_payload inst) with Some _ => true | None => false end).
  - destruct (pm_restart now m {| h_st := st; h_tr := [] |} inst) as [h2 i2|h2|] eqn:Er; try discriminate.
    destruct (pm_restart_on_dump _ _ _ _ _ _ Hlive Er) as (-> & Hl2 & r & x & Hdo).
    apply (Hstep5 i2 Hl2); [|exact H]. rewrite <- Hdump. eapply rs_step; [exact Hdo|apply rs_refl].
  - apply (Hstep5 inst Hlive); [|exact H]. rewrite Hdump. apply rs_refl.
Qed.
