(* C10: every board message accepted for a round that is in progress (not aborted) - whether or not
   it produces an operation - verified under its sender's registered key and names the participant
   registered for that sender. *)
From Coq Require Import String List NArith ZArith Bool Lia.
Require Import Fsm.EngineDefs Fsm.Types Fsm.Engine Fsm.Actions Fsm.Provider Node.Types Node.Process Node.Facts.
Import ListNotations.
Local Open Scope string_scope.

Definition in_progress (st : nstate) (r : tok) : Prop :=
  forall d, tget' (ns_rounds st) r = Some d ->
    has_suffix (d_state d) "_error" = false /\ has_suffix (d_state d) "_timeout" = false.

Theorem accepted_message_is_authentic put now st m req pid h x :
  ns_skip st = false ->
  m_event m <> ev_sig_init -> m_event m <> ev_sig_reconstructed -> m_event m <> ev_sig_recon_failed ->
  m_req m = MFsm req -> req_pid req = Some pid ->
  in_progress st (m_round m) ->
  process_message put now {| h_st := st; h_tr := [] |} m = ROk h x ->
  (exists p, round_payload st (m_round m) p /\ valid_sig p m) /\
  (exists p', registered_as p' (m_sender m) pid).
Proof.
  intros Hskip He1 He2 He3 Hreq Hpid Hprog H.
  apply String.eqb_neq in He1. apply String.eqb_neq in He2. apply String.eqb_neq in He3.
  unfold process_message in H.
  destruct (get_instance {| h_st := st; h_tr := [] |} (m_round m) true) as [h1 inst| |] eqn:Eg; try discriminate.
  assert (Hh1 : h1 = {| h_st := st; h_tr := [] |} /\ round_payload st (m_round m) (i_payload inst) /\
                has_suffix (i_dstate inst) "_error" = false /\ has_suffix (i_dstate inst) "_timeout" = false).
  { unfold get_instance in Eg. cbn [h_st] in Eg. unfold round_payload.
    destruct (tget' (ns_rounds st) (m_round m)) as [d|] eqn:Er.
    - destruct (from_dump d) as [i| |] eqn:Ef; try discriminate. inversion Eg; subst.
      split; [reflexivity|]. split; [exists inst; auto|].
      destruct (Hprog d Er) as [P1 P2]. unfold from_dump in Ef.
      destruct (machine_by_state (d_state d)); [|discriminate]. destruct (copy_with_state_ok _ _); [|discriminate].
      inversion Ef; subst. cbn [i_dstate]. auto.
    - destruct (N.eqb (m_round m) 0); [discriminate|].
      destruct create as [i| |] eqn:Ec; try discriminate. inversion Eg; subst.
      split; [reflexivity|]. split; [exists inst; auto|].
      unfold create in Ec. destruct (table_by_name _); [|discriminate]. destruct (copy_with_state_ok _ _); [|discriminate].
      inversion Ec; subst. cbn [i_dstate]. split; reflexivity. }
  destruct Hh1 as (-> & Hrp & Hne & Hnt). cbn [h_st] in H.
  rewrite He1 in H. cbn [negb andb] in H.
  destruct (verify_ok st (i_payload inst) m) eqn:Ev; cbn [negb] in H; [|discriminate].
  rewrite He2, He3 in H. rewrite Hne in H. cbn [andb] in H. rewrite Hnt in H. cbn [andb] in H.
  split.
  - exists (i_payload inst). split; [exact Hrp|]. eapply verify_ok_valid; eassumption.
  - rewrite Hreq in H. unfold pm_tail in H.
    destruct (sender_is_participant (i_payload inst) (m_sender m) req) eqn:Esp; cbn [negb] in H; [|discriminate].
    exists (i_payload inst). eapply sender_is_participant_spec; eassumption.
Qed.
