From Coq Require Import String List NArith ZArith Bool.
Require Import Fsm.EngineDefs Fsm.Types Fsm.Actions Node.Types Node.Process Node.GenReDKG.
Import ListNotations.
Local Open Scope string_scope.
Local Open Scope list_scope.

Lemma signing_is_not_init e : is_signing_event e = true -> String.eqb e ev_sig_init = false.
Proof.
  unfold is_signing_event. intros H. destruct (String.eqb_spec e ev_sig_init) as [->|]; [|reflexivity].
  vm_compute in H. discriminate.
Qed.

(* a message of the signing phase - wherever it lies in the log, whoever posted it - leaves the reinit
   file exactly as it is without it (before 34530eb the file ENDED at the first such message) *)
Theorem gen_ignores_signing_messages l m r :
  is_signing_event (gm_event m) = true -> gen_redkg (l ++ m :: r) = gen_redkg (l ++ r).
Proof.
  intros H. unfold gen_redkg. rewrite !fold_left_app. cbn [fold_left]. f_equal.
  unfold gen_step. rewrite H, (signing_is_not_init _ H). reflexivity.
Qed.

(* the messages of the file: the log without the messages of the signing phase, in the log's order *)
Lemma gen_step_msgs f m :
  gf_msgs (gen_step f m) = gf_msgs f ++ (if is_signing_event (gm_event m) then [] else [m]).
Proof.
  unfold gen_step. destruct (String.eqb (gm_event m) ev_sig_init); destruct (is_signing_event (gm_event m)); cbn [gf_msgs];
    rewrite ?app_nil_r; reflexivity.
Qed.

Theorem gen_keeps_everything_else log :
  gf_msgs (gen_redkg log) = filter (fun m => negb (is_signing_event (gm_event m))) log.
Proof.
  unfold gen_redkg.
  assert (H : forall f, gf_msgs (fold_left gen_step log f) = gf_msgs f ++ filter (fun m => negb (is_signing_event (gm_event m))) log).
  { induction log as [|m r IH]; intros f; cbn [fold_left filter]; [rewrite app_nil_r; reflexivity|].
    rewrite IH, gen_step_msgs. destruct (is_signing_event (gm_event m)); cbn [negb]; [rewrite app_nil_r; reflexivity|].
    rewrite <- app_assoc. reflexivity. }
  rewrite H. reflexivity.
Qed.

(* with ONE opening proposal in the log the file names that proposal's round, threshold and participants *)
Theorem gen_header_of_single_proposal l p r :
  gm_event p = ev_sig_init ->
  (forall m, In m (l ++ r) -> gm_event m <> ev_sig_init) ->
  let f := gen_redkg (l ++ p :: r) in
  gf_id f = gm_round p /\ gf_threshold f = gm_threshold p /\ gf_parts f = gm_parts p.
Proof.
  intros Hp Hno. cbn zeta. unfold gen_redkg. rewrite fold_left_app. cbn [fold_left].
  assert (Hkeep : forall ms f, (forall m, In m ms -> gm_event m <> ev_sig_init) ->
            gf_id (fold_left gen_step ms f) = gf_id f /\ gf_threshold (fold_left gen_step ms f) = gf_threshold f /\
            gf_parts (fold_left gen_step ms f) = gf_parts f).
  { induction ms as [|m t IH]; intros f Hms; cbn [fold_left]; [auto|].
    destruct (IH (gen_step f m)) as (I1 & I2 & I3); [intros x Hx; apply Hms; right; exact Hx|].
    rewrite I1, I2, I3. unfold gen_step.
    assert (E : String.eqb (gm_event m) ev_sig_init = false) by (apply String.eqb_neq; apply Hms; left; reflexivity).
    rewrite E. destruct (is_signing_event (gm_event m)); cbn; auto. }
  set (f0 := fold_left gen_step l {| gf_id := 0%N; gf_threshold := 0%Z; gf_parts := []; gf_msgs := [] |}).
  destruct (Hkeep r (gen_step f0 p)) as (R1 & R2 & R3); [intros m Hm; apply Hno; apply in_or_app; right; exact Hm|].
  assert (L3 : gf_parts f0 = []).
  { destruct (Hkeep l {| gf_id := 0%N; gf_threshold := 0%Z; gf_parts := []; gf_msgs := [] |}) as (_ & _ & L3);
      [intros m Hm; apply Hno; apply in_or_app; left; exact Hm|exact L3]. }
  rewrite R1, R2, R3. unfold gen_step. rewrite Hp, String.eqb_refl.
  replace (is_signing_event ev_sig_init) with false by reflexivity.
  cbn [gf_id gf_threshold gf_parts]. rewrite L3. auto.
Qed.
