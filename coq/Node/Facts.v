(* Facts about the node model: C09 (no action without a valid signature). *)
From Coq Require Import String List NArith ZArith Bool Lia.
Require Import Fsm.EngineDefs Fsm.Types Fsm.Engine Fsm.Actions Fsm.Provider Node.Types Node.Process.
Import ListNotations.
Local Open Scope string_scope.
Local Open Scope list_scope.

(* the signature on m is the registered key's signature over exactly m's data *)
Definition valid_sig (p : payload) (m : message) : Prop :=
  m_sender m <> 0%N /\
  exists pk, tget (p_pubkeys p) (m_sender m) = Some pk /\ m_sig m = SigBy pk (m_data m).

Lemma verify_ok_valid st p m : ns_skip st = false -> verify_ok st p m = true -> valid_sig p m.
Proof.
  unfold verify_ok. intros -> H. cbn [orb] in H.
  apply andb_prop in H as [Hs H]. apply negb_true_iff in Hs. apply N.eqb_neq in Hs.
  destruct (tget (p_pubkeys p) (m_sender m)) as [pk|] eqn:Ek; [|discriminate].
  destruct (m_sig m) as [|k d|] eqn:Es; try discriminate.
  apply andb_prop in H as [H1 H2]. apply N.eqb_eq in H1. apply N.eqb_eq in H2. subst.
  split; [exact Hs|]. exists pk. split; [exact Ek|exact Es].
Qed.

(* the payload against which a message for round r is verified *)
Definition round_payload (st : nstate) (r : tok) (p : payload) : Prop :=
  match tget' (ns_rounds st) r with
  | Some d => exists i, from_dump d = LoadOk i /\ p = i_payload i
  | None => exists i, create = LoadOk i /\ p = i_payload i
  end.

Definition untouched (st : nstate) (r : res unit) : Prop :=
  match r with
  | ROk _ _ => False
  | RErr h => h = {| h_st := st; h_tr := [] |}
  | RPanic => True           (* a restore that panics: excluded for reachable rounds, see C18/C19 *)
  end.

(* C09: with verification on, a message other than the opening proposal whose signature is not the
   registered sender's signature over its data is refused and NOTHING is written *)
Theorem unsigned_message_refused now st m :
  ns_skip st = false ->
  m_event m <> ev_sig_init ->
  (forall p, round_payload st (m_round m) p -> ~ valid_sig p m) ->
  untouched st (node_step now st (InMsg m)).
Proof.
  intros Hskip Hev Hbad. unfold node_step, process_board_message, process_message, get_instance.
  cbn [h_st h_tr].
  assert (Hne : String.eqb (m_event m) ev_sig_init = false) by (apply String.eqb_neq; exact Hev).
  destruct (tget' (ns_rounds st) (m_round m)) as [d|] eqn:Er.
  - destruct (from_dump d) as [i| |] eqn:Ef; cbn; auto.
    rewrite Hne. cbn [negb andb].
    destruct (verify_ok st (i_payload i) m) eqn:Ev; cbn [negb]; [|reflexivity].
    exfalso. apply (Hbad (i_payload i)).
    + unfold round_payload. rewrite Er. exists i. auto.
    + eapply verify_ok_valid; eassumption.
  - destruct (N.eqb (m_round m) 0); [cbn; reflexivity|].
    destruct create as [i| |] eqn:Ec; cbn; auto.
    rewrite Hne. cbn [negb andb].
    destruct (verify_ok st (i_payload i) m) eqn:Ev; cbn [negb]; [|reflexivity].
    exfalso. apply (Hbad (i_payload i)).
    + unfold round_payload. rewrite Er. exists i. auto.
    + eapply verify_ok_valid; eassumption.
Qed.

(* for an unknown round the fresh payload has no keys at all: every message but the proposal is refused *)
Lemma fresh_round_no_valid_sig m i : create = LoadOk i -> ~ valid_sig (i_payload i) m.
Proof.
  intros Hc (_ & pk & Hk & _). revert Hc. unfold create.
  destruct (table_by_name Gen.Tables.pool_entry_machine); [|discriminate].
  destruct (copy_with_state_ok _ _); [|discriminate].
  intros H. inversion H; subst. cbn in Hk. discriminate.
Qed.

(* ---- C10: an accepted contribution names the participant registered for its (verified) sender ---- *)
Definition registered_as (p : payload) (sender : tok) (pid : Z) : Prop :=
  sender <> 0%N /\ tget (p_ids p) sender = Some pid.

Lemma sender_is_participant_spec p sender req pid :
  req_pid req = Some pid -> sender_is_participant p sender req = true -> registered_as p sender pid.
Proof.
  unfold sender_is_participant. intros -> H. apply andb_prop in H as [H1 H2].
  apply negb_true_iff in H1. apply N.eqb_neq in H1. split; [exact H1|].
  destruct (tget (p_ids p) sender) as [id|]; [|discriminate]. apply Z.eqb_eq in H2. subst. reflexivity.
Qed.

Ltac res_cases H :=
  repeat match type of H with
         | context [match ?x with _ => _ end] =>
             lazymatch x with
             | context [match _ with _ => _ end] => fail
             | _ => let E := fresh "E" in destruct x eqn:E; try discriminate
             end
         end.

(* whatever the node does with a board message that reaches the round FSM and is accepted:
   the signature on it verified under the key registered for its sender, and the participant
   named in the request is the one registered for that sender *)
Theorem accepted_contribution_is_authentic put now st m req pid h o :
  ns_skip st = false ->
  m_event m <> ev_sig_init -> m_event m <> ev_sig_reconstructed -> m_event m <> ev_sig_recon_failed ->
  m_req m = MFsm req -> req_pid req = Some pid ->
  process_message put now {| h_st := st; h_tr := [] |} m = ROk h (Some o) ->
  (exists p, round_payload st (m_round m) p /\ valid_sig p m) /\
  (exists p', registered_as p' (m_sender m) pid).
Proof.
  intros Hskip He1 He2 He3 Hreq Hpid H.
  apply String.eqb_neq in He1. apply String.eqb_neq in He2. apply String.eqb_neq in He3.
  unfold process_message in H.
  destruct (get_instance {| h_st := st; h_tr := [] |} (m_round m) true) as [h1 inst| |] eqn:Eg; try discriminate.
  assert (Hh1 : h1 = {| h_st := st; h_tr := [] |} /\ round_payload st (m_round m) (i_payload inst)).
  { unfold get_instance in Eg. cbn [h_st] in Eg. unfold round_payload.
    destruct (tget' (ns_rounds st) (m_round m)) as [d|].
    - destruct (from_dump d) as [i| |] eqn:Ef; try discriminate. inversion Eg; subst. split; [reflexivity|]. exists inst. auto.
    - destruct (N.eqb (m_round m) 0); [discriminate|].
      destruct create as [i| |] eqn:Ec; try discriminate. inversion Eg; subst. split; [reflexivity|]. exists inst. auto. }
  destruct Hh1 as [-> Hrp]. cbn [h_st] in H.
  rewrite He1 in H. cbn [negb andb] in H.
  destruct (verify_ok st (i_payload inst) m) eqn:Ev; cbn [negb] in H; [|discriminate].
  rewrite He2, He3 in H.
  split.
  - exists (i_payload inst). split; [exact Hrp|]. eapply verify_ok_valid; eassumption.
  - destruct (has_suffix (i_dstate inst) "_error" && _) eqn:E0; [discriminate|].
    match type of H with context [match ?s4 with ROk _ _ => _ | RErr _ => _ | RPanic => _ end] =>
      destruct s4 as [h4 inst4| |] eqn:E4; try discriminate end.
    destruct (has_suffix (i_dstate inst4) "_timeout" && _) eqn:E5; [discriminate|].
    match type of H with context [match ?s5 with ROk _ _ => _ | RErr _ => _ | RPanic => _ end] =>
      destruct s5 as [h5 inst5| |] eqn:E5'; try discriminate end.
    rewrite Hreq in H. unfold pm_tail in H.
    destruct (sender_is_participant (i_payload inst5) (m_sender m) req) eqn:Esp; cbn [negb] in H; [|discriminate].
    exists (i_payload inst5). eapply sender_is_participant_spec; eassumption.
Qed.

(* ---- C15: only unaltered answers to pending operations are posted, exactly, by this node ---- *)
Definition sends_of (user : tok) (msgs : list res_msg) : list write :=
  map (fun rm => WSend {| o_round := rm_round rm; o_event := rm_event rm; o_sender := user;
                          o_recipient := rm_recipient rm; o_sigs := []; o_data := rm_data rm |}) msgs.

Lemma fold_emit_sends h msgs :
  let h' := fold_left (fun h rm => emit h (WSend {| o_round := rm_round rm; o_event := rm_event rm;
                                                     o_sender := ns_user (h_st h); o_recipient := rm_recipient rm;
                                                     o_sigs := []; o_data := rm_data rm |})) msgs h in
  h_tr h' = h_tr h ++ sends_of (ns_user (h_st h)) msgs /\ ns_user (h_st h') = ns_user (h_st h) /\
  ns_ops (h_st h') = ns_ops (h_st h) /\ ns_deleted (h_st h') = ns_deleted (h_st h).
Proof.
  revert h. induction msgs as [|rm r IH]; intros h; cbn [fold_left sends_of map].
  - rewrite app_nil_r. auto.
  - specialize (IH (emit h (WSend {| o_round := rm_round rm; o_event := rm_event rm; o_sender := ns_user (h_st h);
                                     o_recipient := rm_recipient rm; o_sigs := []; o_data := rm_data rm |}))).
    cbn zeta in IH. destruct IH as (I1 & I2 & I3 & I4).
    cbn [emit h_st h_tr apply_write ns_user ns_ops ns_deleted] in *.
    rewrite I1, <- app_assoc. cbn [app]. auto.
Qed.

Theorem result_posted_only_if_pending_and_unaltered st x h :
  execute_operation {| h_st := st; h_tr := [] |} x = ROk h tt ->
  ox_event x <> "" /\
  exists stored, In stored (ops_visible st) /\ op_same_id (ox_ident x) stored = true /\
                 op_type stored = op_type (ox_op x) /\ ox_stored_bytes x = ox_bytes x /\ op_round stored = op_round (ox_op x) /\
                 (ox_event x <> ev_processed ->
                    exists tail, h_tr h = sends_of (ns_user st) (ox_msgs x) ++ tail /\
                                 forall w, In w tail -> match w with WSend _ => False | _ => True end).
Proof.
  unfold execute_operation. cbn [h_st].
  destruct (String.eqb (ox_event x) "") eqn:Ee; [discriminate|]. apply String.eqb_neq in Ee.
  destruct (find (op_same_id (ox_ident x)) (ops_visible st)) as [stored|] eqn:Ef; [|discriminate].
  apply find_some in Ef as [Hin Hid].
  destruct (negb (op_same_type stored (ox_op x) && N.eqb (ox_stored_bytes x) (ox_bytes x) && N.eqb (op_round stored) (op_round (ox_op x)))) eqn:Eq; [discriminate|].
  apply negb_false_iff in Eq. apply andb_prop in Eq as [Eq Er]. apply andb_prop in Eq as [Et Eb]. apply N.eqb_eq in Er.
  apply String.eqb_eq in Et. apply N.eqb_eq in Eb.
  intros H. split; [exact Ee|]. exists stored. repeat split; auto.
  intros Hnp. apply String.eqb_neq in Hnp. rewrite Hnp in H. cbn [negb] in H.
  pose proof (fold_emit_sends {| h_st := st; h_tr := [] |} (ox_msgs x)) as Hf. cbn zeta in Hf.
  set (h1 := fold_left _ (ox_msgs x) {| h_st := st; h_tr := [] |}) in *.
  destruct Hf as (F1 & F2 & F3 & F4). cbn [h_tr h_st app] in F1, F2.
  unfold delete_operation in H.
  destruct (existsb _ (ns_deleted (h_st h1))); [discriminate|].
  inversion H; subst. cbn [emit h_tr]. rewrite F1, <- app_assoc.
  eexists. split; [reflexivity|]. intros w [<-|[<-|[]]]; exact I.
Qed.

(* ---- C18: what a refused board message can leave behind ---- *)
Definition no_state_writes (tr : list write) : Prop :=
  forall w, In w tr -> match w with WSrc _ _ _ | WSend _ => True | _ => False end.

Definition needs_lazy_restart (s : string) : bool := has_suffix s "_error" || has_suffix s "_timeout".

Lemma no_state_writes_app a b : no_state_writes a -> no_state_writes b -> no_state_writes (a ++ b).
Proof. intros Ha Hb w Hin. apply in_app_or in Hin as [H|H]; [apply Ha; exact H|apply Hb; exact H]. Qed.

Lemma pm_prop_err put m req h i4 op h' :
  no_state_writes (h_tr h) -> pm_prop put m req h i4 op = RErr h' -> no_state_writes (h_tr h').
Proof.
  intros Hn. unfold pm_prop. destruct (String.eqb (m_event m) ev_sgn_start); [|discriminate].
  destruct (m_tasks m) as [tasks|]; [|intros H; inversion H; subst; exact Hn].
  destruct req; try (intros H; inversion H; subst; exact Hn).
  unfold save_signatures. destruct (map _ tasks); [|discriminate].
  intros H. inversion H; subst. cbn [emit h_tr]. apply no_state_writes_app; [exact Hn|].
  intros w [<-|[]]. exact I.
Qed.

Lemma pm_tail_err put now m req h inst h' :
  no_state_writes (h_tr h) -> pm_tail put now m req h inst = RErr h' -> no_state_writes (h_tr h').
Proof.
  intros Hn. unfold pm_tail.
  destruct (negb (sender_is_participant _ _ _)); [intros H; inversion H; subst; exact Hn|].
  destruct (do_live inst (m_event m) req) as [i1 r1 x1| |]; try (intros H; inversion H; subst; exact Hn); try discriminate.
  cbv zeta.
  destruct (if String.eqb r1 st_collected then _ else _) as [i2 r2 x2| |]; try (intros H; inversion H; subst; exact Hn); try discriminate.
  destruct (if String.eqb r2 st_master_collected then _ else _) as [i3 r3 x3| |]; try (intros H; inversion H; subst; exact Hn); try discriminate.
  destruct (String.eqb r3 st_partial_collected).
  - destruct x3 as [[]|]; try (intros H; inversion H; subst; exact Hn).
    destruct (reconstruct _ _ _ _ _ _); [|intros H; inversion H; subst; exact Hn].
    assert (Hn' : no_state_writes (h_tr (emit h (WSend {| o_round := m_round m; o_event := ev_sig_reconstructed;
                     o_sender := ns_user (h_st h); o_recipient := 0%N; o_sigs := l0; o_data := 0%N |})))).
    { cbn [emit h_tr]. apply no_state_writes_app; [exact Hn|]. intros w [<-|[]]. exact I. }
    destruct (do_fresh (dump_of i3) ev_sgn_restart _); try discriminate.
    + apply pm_prop_err. exact Hn'.
    + intros H. inversion H; subst. exact Hn'.
  - apply pm_prop_err. exact Hn.
Qed.

Lemma pm_restart_keeps_trace now m h inst :
  match pm_restart now m h inst with ROk h' _ => h' = h | RErr h' => h' = h | RPanic => True end.
Proof. unfold pm_restart. destruct (do_live _ _ _); reflexivity. Qed.

(* a refused message changes nothing in the node's state store - whatever state the round was found
   in (since the repair of the lazy restart it holds for rounds found in a cancelled signing state too) *)
Theorem refused_message_writes_nothing put now st m h :
  process_message put now {| h_st := st; h_tr := [] |} m = RErr h ->
  no_state_writes (h_tr h).
Proof.
  intros H. unfold process_message in H.
  destruct (get_instance {| h_st := st; h_tr := [] |} (m_round m) true) as [h1 inst| |] eqn:Eg; try discriminate.
  2:{ unfold get_instance in Eg. cbn [h_st] in Eg.
      destruct (tget' (ns_rounds st) (m_round m)) as [d|].
      - destruct (from_dump d); try discriminate. inversion Eg; subst. inversion H; subst. intros w [].
      - destruct (N.eqb (m_round m) 0); [inversion Eg; subst; inversion H; subst; intros w []|].
        destruct create; try discriminate; inversion Eg; subst; inversion H; subst; intros w []. }
  assert (Hh1 : h1 = {| h_st := st; h_tr := [] |}).
  { unfold get_instance in Eg. cbn [h_st] in Eg.
    destruct (tget' (ns_rounds st) (m_round m)) as [d|] eqn:Ed.
    - destruct (from_dump d); try discriminate. inversion Eg; reflexivity.
    - destruct (N.eqb (m_round m) 0); [discriminate|]. destruct create; try discriminate; inversion Eg; reflexivity. }
  subst h1.
  assert (Hnil : no_state_writes (h_tr {| h_st := st; h_tr := [] |})) by (intros w []).
  destruct (negb (String.eqb (m_event m) ev_sig_init) && _); [inversion H; subst; exact Hnil|].
  destruct (String.eqb (m_event m) ev_sig_reconstructed).
  { destruct (m_req m) as [r| |[l|]]; try (inversion H; subst; exact Hnil).
    unfold save_signatures in H. destruct (map _ l); [inversion H; subst; exact Hnil|discriminate]. }
  destruct (String.eqb (m_event m) ev_sig_recon_failed).
  { destruct (m_req m) as [[]| |]; try discriminate; inversion H; subst; exact Hnil. }
  destruct (has_suffix (i_dstate inst) "_error" && _); [discriminate|]. cbv zeta in H.
  (* the (possible) lazy restart leaves the write trace empty *)
  assert (Hstep5 : forall h0 i, h0 = {| h_st := st; h_tr := [] |} ->
    (if has_suffix (i_dstate i) "_timeout" && (has_prefix (i_dstate i) "state_sig_" || has_prefix (i_dstate i) "state_dkg")
     then ROk h0 None
     else match (if has_suffix (i_dstate i) "_timeout" && has_prefix (i_dstate i) "state_signing_"
                 then match p_sgn (i_payload i) with Some _ => pm_restart now m h0 i | None => RPanic end
                 else ROk h0 i) with
          | ROk h2 inst2 => match m_req m with MFsm req => pm_tail put now m req h2 inst2 | _ => RErr h2 end
          | RErr h2 => RErr h2
          | RPanic => RPanic
          end) = RErr h -> no_state_writes (h_tr h)).
  { intros h0 i -> H5. destruct (has_suffix (i_dstate i) "_timeout" && (_ || _)); [discriminate|].
    destruct (has_suffix (i_dstate i) "_timeout" && has_prefix (i_dstate i) "state_signing_").
    - destruct (p_sgn (i_payload i)); [|discriminate].
      pose proof (pm_restart_keeps_trace now m {| h_st := st; h_tr := [] |} i) as Hk.
      destruct (pm_restart now m {| h_st := st; h_tr := [] |} i) as [h2 i2|h2|]; try discriminate; subst h2.
      + destruct (m_req m) as [req| |]; try (inversion H5; subst; exact Hnil). eapply pm_tail_err; [exact Hnil|exact H5].
      + inversion H5; subst. exact Hnil.
    - destruct (m_req m) as [req| |]; try (inversion H5; subst; exact Hnil). eapply pm_tail_err; [exact Hnil|exact H5]. }
  destruct (has_suffix (i_dstate inst) "_error" && match p_sgn (i_payload inst) with Some _ => true | None => false end).
  - pose proof (pm_restart_keeps_trace now m {| h_st := st; h_tr := [] |} inst) as Hk.
    destruct (pm_restart now m {| h_st := st; h_tr := [] |} inst) as [h2 i2|h2|]; try discriminate; subst h2.
    + apply (Hstep5 _ i2 eq_refl H).
    + inversion H; subst. exact Hnil.
  - apply (Hstep5 _ inst eq_refl H).
Qed.

(* a reinitialisation message that cannot be decoded, or that names no round (blank identifier),
   is refused before anything is written; one that names a round the node already holds is
   absorbed without a write *)
Theorem unusable_reinit_writes_nothing now st r :
  (match r with None => True | Some rd => rd_id rd = 0%N \/ tget' (ns_rounds st) (rd_id rd) <> None end) ->
  match reinit_dkg now {| h_st := st; h_tr := [] |} r with
  | ROk h _ | RErr h => h = {| h_st := st; h_tr := [] |}
  | RPanic => False
  end.
Proof.
  intros H. unfold reinit_dkg. destruct r as [rd|]; [|reflexivity].
  destruct (N.eqb (rd_id rd) 0) eqn:E0; [reflexivity|].
  destruct H as [H|H]; [rewrite H in E0; discriminate|].
  cbn [h_st]. destruct (tget' (ns_rounds st) (rd_id rd)); [reflexivity|contradiction].
Qed.

(* the whole handler of a board message (the pool included): a refusal has written nothing.  (Before
   fix of OperationService.PutOperation the handler could report an error AFTER the round had been
   saved: the very same operation was still pending.) *)
Theorem refused_board_message_writes_nothing now st m h :
  process_board_message now {| h_st := st; h_tr := [] |} m = RErr h ->
  no_state_writes (h_tr h).
Proof.
  unfold process_board_message.
  destruct (process_message true now {| h_st := st; h_tr := [] |} m) as [h1 o|h1|] eqn:E; try discriminate.
  intros H. inversion H; subst. eapply refused_message_writes_nothing. exact E.
Qed.
