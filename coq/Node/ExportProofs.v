(* C01 / C03: which entry the export shows.  The repository replaces the entry of the same user and
   appends every other one, so the first entry of a slot never changes hands: once the proposal has
   filed its stub there (under the proposer's name, with the proposed payload and file), only a
   broadcast by that same user can replace it, and what the export shows for the message is the
   stub until then and that user's LATEST broadcast for the slot afterwards. *)
From Coq Require Import List NArith Bool Lia.
Require Import Fsm.EngineDefs Fsm.Types Fsm.Engine Fsm.Actions Fsm.Provider Node.Types Node.Process Node.Frame Node.Local Node.Export.
Import ListNotations.

Definition in_slot_of (x s : rsig) : bool :=
  N.eqb (rs_batch s) (rs_batch x) && N.eqb (rs_msgid s) (rs_msgid x) && N.eqb (rs_user x) (rs_user s).

(* the latest element of l filed by x's user in x's slot, x itself if there is none *)
Definition latest (x : rsig) (l : list rsig) : rsig :=
  fold_left (fun cur s => if in_slot_of cur s then s else cur) l x.

Lemma add_entry_head x r s :
  exists r', add_entry (x :: r) s = (if N.eqb (rs_user x) (rs_user s) then s else x) :: r'.
Proof. cbn [add_entry]. destruct (N.eqb (rs_user x) (rs_user s)); eexists; reflexivity. Qed.

Lemma first_entry_add_sig store x s :
  first_entry store (rs_batch x) (rs_msgid x) = Some x ->
  first_entry (add_sig store s) (rs_batch x) (rs_msgid x) = Some (if in_slot_of x s then s else x).
Proof.
  unfold first_entry, add_sig, in_slot_of. intros H.
  destruct (tget' store (rs_batch x)) as [b|] eqn:Hb; [|discriminate].
  destruct (tget' b (rs_msgid x)) as [[|e r]|] eqn:He; try discriminate.
  assert (e = x) by congruence. subst e.
  destruct (N.eqb (rs_batch s) (rs_batch x)) eqn:Eb.
  - apply N.eqb_eq in Eb. rewrite Eb, Hb, aput_same.
    destruct (N.eqb (rs_msgid s) (rs_msgid x)) eqn:Em.
    + apply N.eqb_eq in Em. rewrite Em, He, aput_same.
      destruct (add_entry_head x r s) as [r' ->]. cbn [andb]. reflexivity.
    + rewrite aput_other by (intros E; rewrite E, N.eqb_refl in Em; discriminate).
      rewrite He. reflexivity.
  - rewrite aput_other by (intros E; rewrite E, N.eqb_refl in Eb; discriminate).
    rewrite Hb, He. reflexivity.
Qed.

Lemma in_slot_keeps_slot x s :
  in_slot_of x s = true -> rs_batch s = rs_batch x /\ rs_msgid s = rs_msgid x /\ rs_user s = rs_user x.
Proof.
  unfold in_slot_of. intros H. apply andb_true_iff in H as [H Hu]. apply andb_true_iff in H as [Hb Hm].
  apply N.eqb_eq in Hb, Hm, Hu. auto.
Qed.

(* whatever is saved afterwards, in whatever order and by whomever *)
Theorem first_entry_after_saves l : forall store x,
  first_entry store (rs_batch x) (rs_msgid x) = Some x ->
  first_entry (fold_left add_sig l store) (rs_batch x) (rs_msgid x) = Some (latest x l).
Proof.
  induction l as [|s r IH]; intros store x H; [exact H|]. cbn [fold_left]. unfold latest. cbn [fold_left].
  pose proof (first_entry_add_sig store x s H) as H1.
  destruct (in_slot_of x s) eqn:E.
  - destruct (in_slot_keeps_slot x s E) as (Eb & Em & _). rewrite <- Eb, <- Em in *. apply IH. exact H1.
  - apply IH. exact H1.
Qed.

(* so: nobody but the user of the first entry changes what is exported ... *)
Lemma latest_others x l :
  (forall s, In s l -> in_slot_of x s = false) -> latest x l = x.
Proof.
  unfold latest. induction l as [|s r IH]; intros H; [reflexivity|]. cbn [fold_left].
  rewrite (H s) by (left; reflexivity). apply IH. intros s' Hs'. apply H. right; exact Hs'.
Qed.

Theorem others_never_change_the_export l store x :
  first_entry store (rs_batch x) (rs_msgid x) = Some x ->
  (forall s, In s l -> rs_batch s = rs_batch x -> rs_msgid s = rs_msgid x -> rs_user s <> rs_user x) ->
  first_entry (fold_left add_sig l store) (rs_batch x) (rs_msgid x) = Some x.
Proof.
  intros H Hn. rewrite (first_entry_after_saves l store x H). f_equal. apply latest_others.
  intros s Hs. unfold in_slot_of.
  destruct (N.eqb (rs_batch s) (rs_batch x)) eqn:Eb; [|reflexivity].
  destruct (N.eqb (rs_msgid s) (rs_msgid x)) eqn:Em; [|reflexivity].
  apply N.eqb_eq in Eb, Em. cbn [andb]. apply N.eqb_neq. intros E. exact (Hn s Hs Eb Em (eq_sym E)).
Qed.

(* ... the exported entry keeps the slot and the user of the first one ... *)
Lemma latest_same_owner x l :
  rs_batch (latest x l) = rs_batch x /\ rs_msgid (latest x l) = rs_msgid x /\ rs_user (latest x l) = rs_user x.
Proof.
  unfold latest. revert x. induction l as [|s r IH]; intros x; [auto|]. cbn [fold_left].
  destruct (in_slot_of x s) eqn:E; [|apply IH].
  destruct (in_slot_keeps_slot x s E) as (Eb & Em & Eu). destruct (IH s) as (A & B & C).
  rewrite A, B, C. auto.
Qed.

(* ... and it is either the first entry itself or one of the saved ones *)
Lemma latest_is_saved x l : latest x l = x \/ In (latest x l) l.
Proof.
  unfold latest. revert x. induction l as [|s r IH]; intros x; [left; reflexivity|]. cbn [fold_left].
  destruct (in_slot_of x s) eqn:E.
  - destruct (IH s) as [-> | Hin]; [right; left; reflexivity|right; right; exact Hin].
  - destruct (IH x) as [-> | Hin]; [left; reflexivity|right; right; exact Hin].
Qed.

Theorem exported_entry_is_latest l store x :
  first_entry store (rs_batch x) (rs_msgid x) = Some x ->
  first_entry (fold_left add_sig l store) (rs_batch x) (rs_msgid x) = Some (latest x l) /\
  (rs_batch (latest x l) = rs_batch x /\ rs_msgid (latest x l) = rs_msgid x /\ rs_user (latest x l) = rs_user x) /\
  (latest x l = x \/ In (latest x l) l).
Proof.
  intros H. split; [exact (first_entry_after_saves l store x H)|].
  split; [exact (latest_same_owner x l)|exact (latest_is_saved x l)].
Qed.

(* the export function itself: one line per message id of the batch, in the order of the batch,
   each the first entry; a refusal exactly when some message id has no entry *)
Theorem export_batch_spec b out :
  export_batch b = Some out ->
  map fst out = map fst b /\
  forall id ex, In (id, ex) out -> exists e r, In (id, e :: r) b /\ ex = export_entry e.
Proof.
  revert out. induction b as [|[id entries] r IH]; intros out H; cbn [export_batch] in H.
  - inversion H. split; [reflexivity|]. intros ? ? [].
  - destruct entries as [|e es]; [discriminate|].
    destruct (export_batch r) as [o|] eqn:Er; [|discriminate]. inversion H; subst out. clear H.
    destruct (IH o eq_refl) as [Hk Hv]. split; [cbn [map fst]; f_equal; exact Hk|].
    intros id' ex [Heq|Hin].
    + inversion Heq; subst. exists e, es. split; [left; reflexivity|reflexivity].
    + destruct (Hv id' ex Hin) as (e' & r' & Hi & He). exists e', r'. split; [right; exact Hi|exact He].
Qed.

Theorem export_batch_refuses_iff b :
  export_batch b = None <-> exists id, In (id, []) b.
Proof.
  induction b as [|[id entries] r IH]; cbn [export_batch].
  - split; [discriminate|intros [? []]].
  - destruct entries as [|e es].
    + split; [intros _; exists id; left; reflexivity|reflexivity].
    + destruct (export_batch r) as [o|].
      * split; [discriminate|]. intros [id' [Heq|Hin]]; [discriminate|].
        assert (Some o = None) by (apply IH; exists id'; exact Hin). discriminate.
      * split; [|reflexivity]. intros _. destruct (proj1 IH eq_refl) as [id' Hin]. exists id'. right; exact Hin.
Qed.

(* ---- the proposal's stubs come first ---- *)
Lemma first_entry_add_sig_other store s batch id :
  (rs_batch s = batch -> rs_msgid s <> id) ->
  first_entry (add_sig store s) batch id = first_entry store batch id.
Proof.
  unfold first_entry, add_sig. intros Hn.
  destruct (N.eqb (rs_batch s) batch) eqn:Eb.
  - apply N.eqb_eq in Eb. subst batch. rewrite aput_same.
    rewrite aput_other by (apply Hn; reflexivity).
    destruct (tget' store (rs_batch s)) as [b|]; reflexivity.
  - rewrite aput_other by (intros E; rewrite E, N.eqb_refl in Eb; discriminate). reflexivity.
Qed.

Lemma first_entry_add_sig_fresh store s :
  first_entry store (rs_batch s) (rs_msgid s) = None ->
  first_entry (add_sig store s) (rs_batch s) (rs_msgid s) = Some s.
Proof.
  unfold first_entry, add_sig. intros H. rewrite !aput_same.
  destruct (tget' store (rs_batch s)) as [b|]; [|reflexivity].
  destruct (tget' b (rs_msgid s)) as [[|e r]|]; try reflexivity. discriminate.
Qed.

(* a list of entries of one batch with pairwise different message ids, saved into a store that has
   nothing under those ids yet: each of them is the first entry of its slot afterwards *)
Theorem fresh_entries_come_first l : forall store batch,
  (forall s, In s l -> rs_batch s = batch) -> NoDup (map rs_msgid l) ->
  (forall s, In s l -> first_entry store batch (rs_msgid s) = None) ->
  forall s, In s l -> first_entry (fold_left add_sig l store) batch (rs_msgid s) = Some s.
Proof.
  induction l as [|x r IH]; intros store batch Hb Hnd Hfresh s Hin; [destruct Hin|].
  cbn [fold_left]. cbn [map] in Hnd. inversion Hnd as [|? ? Hnotin Hnd']; subst.
  assert (Hbx : rs_batch x = batch) by (apply Hb; left; reflexivity).
  destruct Hin as [->|Hin].
  - rewrite <- Hbx. apply others_never_change_the_export.
    + apply first_entry_add_sig_fresh. rewrite Hbx. apply Hfresh. left; reflexivity.
    + intros y Hy _ Em _. apply Hnotin. rewrite <- Em. apply in_map. exact Hy.
  - apply IH; try assumption.
    + intros y Hy. apply Hb. right; exact Hy.
    + intros y Hy. rewrite first_entry_add_sig_other; [apply Hfresh; right; exact Hy|].
      intros _ Em. apply Hnotin. rewrite Em. apply in_map. exact Hy.
Qed.

(* a concrete batch: the proposer P files stubs for two messages, B's and C's reconstructions
   arrive, then P's own, then a late one of B: the export shows the stubs (signature 0) until P's
   broadcast, P's signature afterwards, and never B's or C's *)
Local Open Scope N_scope.
Definition ex_stub (id : tok) : rsig :=
  {| rs_file := id; rs_batch := 7; rs_msgid := id; rs_payload := (100 + id)%N; rs_sig := 0; rs_user := 1; rs_round := 9 |}.
Definition ex_from (u id sg : tok) : rsig :=
  {| rs_file := id; rs_batch := 7; rs_msgid := id; rs_payload := (100 + id)%N; rs_sig := sg; rs_user := u; rs_round := 9 |}.
Definition ex_exports (l : list rsig) : option (list (tok * exported)) :=
  match tget' (fold_left add_sig l []) 7%N with Some b => export_batch b | None => None end.

Example export_example :
  ex_exports [ex_stub 1; ex_stub 2; ex_from 2 1 55; ex_from 3 1 55; ex_from 2 2 66] =
    Some [(1%N, {| ex_payload := 101; ex_sig := 0; ex_file := 1 |}); (2%N, {| ex_payload := 102; ex_sig := 0; ex_file := 2 |})]
  /\ ex_exports [ex_stub 1; ex_stub 2; ex_from 2 1 55; ex_from 1 1 55; ex_from 1 2 66; ex_from 2 2 77] =
    Some [(1%N, {| ex_payload := 101; ex_sig := 55; ex_file := 1 |}); (2%N, {| ex_payload := 102; ex_sig := 66; ex_file := 2 |})].
Proof. split; vm_compute; reflexivity. Qed.
