From Coq Require Import String Ascii List NArith ZArith Bool Lia.
Require Import Lib.GoStr Node.FileName.
Import ListNotations.
Local Open Scope N_scope.

(* every byte fileNamePart puts out is one of the kept characters - whatever bytes come in *)
Lemma file_name_part_fuel_safe fuel s : forallb safe_char (file_name_part_fuel fuel s) = true.
Proof.
  revert s. induction fuel as [|f IH]; intros s; [reflexivity|]. destruct s as [|b0 r]; [reflexivity|].
  cbn [file_name_part_fuel forallb]. rewrite IH, andb_true_r.
  destruct (b0 <? 128); cbn [andb]; [|reflexivity]. destruct (safe_char b0) eqn:E; [exact E|reflexivity].
Qed.
Theorem file_name_part_safe s : forallb safe_char (file_name_part s) = true.
Proof. apply file_name_part_fuel_safe. Qed.

(* in particular no path separator, no NUL, no backslash, nothing but printable ASCII *)
Lemma safe_char_not_separator b : safe_char b = true -> b <> 47 /\ b <> 0 /\ b <> 92 /\ 45 <= b <= 122.
Proof.
  unfold safe_char, in_range. intros H.
  repeat (apply orb_prop in H as [H|H]); try (apply andb_prop in H as [H1 H2]; apply N.leb_le in H1; apply N.leb_le in H2);
    try (apply N.eqb_eq in H); lia.
Qed.

Lemma forallb_app' {A} (f : A -> bool) a b : forallb f a = true -> forallb f b = true -> forallb f (a ++ b) = true.
Proof. intros Ha Hb. rewrite forallb_app, Ha, Hb. reflexivity. Qed.

Lemma description_safe k : forallb safe_char (description k) = true.
Proof. destruct k; vm_compute; reflexivity. Qed.
Lemma step_safe k : forallb safe_char (dec_of_Z (step_number k)) = true.
Proof. destruct k; vm_compute; reflexivity. Qed.

(* the whole file name consists of kept characters only: it names a file IN the folder it is joined
   to, whatever the round identifier, the operation identifier and the batch identifier are *)
Theorem file_name_safe k round id batch : forallb safe_char (file_name k round id batch) = true.
Proof.
  unfold file_name.
  repeat apply forallb_app'; try apply file_name_part_safe; try apply description_safe; try apply step_safe;
    try (vm_compute; reflexivity).
  destruct batch as [b|]; [|reflexivity]. apply forallb_app'; [vm_compute; reflexivity|apply file_name_part_safe].
Qed.

Theorem file_name_has_no_separator k round id batch b :
  In b (file_name k round id batch) -> b <> 47 /\ b <> 0 /\ b <> 92 /\ 45 <= b <= 122.
Proof.
  intros Hin. apply safe_char_not_separator.
  pose proof (file_name_safe k round id batch) as H. rewrite forallb_forall in H. apply H. exact Hin.
Qed.

(* an identifier made of kept characters goes through unchanged *)
Lemma rune_width_ascii b r : b <? 128 = true -> rune_width (b :: r) = 1%nat.
Proof. intros H. cbn [rune_width]. rewrite H. reflexivity. Qed.
Lemma safe_is_ascii b : safe_char b = true -> b <? 128 = true.
Proof. intros H. apply safe_char_not_separator in H. apply N.ltb_lt. lia. Qed.

Theorem file_name_part_keeps_safe_identifiers s :
  forallb safe_char s = true -> file_name_part s = s.
Proof.
  unfold file_name_part. generalize (Nat.le_refl (length s)). generalize (length s) at 2 3 as fuel.
  intros fuel. revert s. induction fuel as [|f IH]; intros s Hl Hs.
  - destruct s; [reflexivity|cbn in Hl; lia].
  - destruct s as [|b0 r]; [reflexivity|]. cbn [forallb] in Hs. apply andb_prop in Hs as [Hb Hr].
    cbn [file_name_part_fuel]. rewrite (rune_width_ascii b0 r (safe_is_ascii b0 Hb)), (safe_is_ascii b0 Hb), Hb.
    cbn [andb skipn]. f_equal. apply IH; [cbn in Hl; lia|exact Hr].
Qed.
