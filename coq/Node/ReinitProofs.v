(* C20 (state part): a reinit file's embedded messages of OTHER rounds (junk, traffic of another
   key on the same topic) have no influence on the reinitialisation: the replay behaves exactly as
   on the file without them. *)
From Coq Require Import List NArith ZArith String Bool.
Require Import Fsm.EngineDefs Fsm.Types Fsm.Engine Fsm.Actions Fsm.Provider Node.Types Node.Process.
Import ListNotations.

Lemma reinit_msgs_skips_foreign now me id m :
  String.eqb (m_event m) ev_sgn_start = false -> N.eqb (m_round m) id = false ->
  forall l r h ops, reinit_msgs now me id h (l ++ m :: r) ops = reinit_msgs now me id h (l ++ r) ops.
Proof.
  intros He Hr l. induction l as [|x l IH]; intros r h ops.
  - cbn [app reinit_msgs]. rewrite He, Hr. reflexivity.
  - cbn [app reinit_msgs].
    destruct (String.eqb (m_event x) ev_sgn_start); [reflexivity|].
    destruct (negb (N.eqb (m_round x) id)); [apply IH|].
    destruct (N.eqb (m_recipient x) 0 || N.eqb (m_recipient x) me); [|apply IH].
    destruct (process_message now h x) as [h' [o|]|h'|]; try apply IH. reflexivity.
Qed.

Definition with_msgs (rd : redkg) (ms : list message) : redkg :=
  {| rd_id := rd_id rd; rd_hash := rd_hash rd; rd_parts := rd_parts rd; rd_msgs := ms |}.

Theorem reinit_ignores_foreign_rounds now h rd l m r :
  String.eqb (m_event m) ev_sgn_start = false -> N.eqb (m_round m) (rd_id rd) = false ->
  reinit_dkg now h (Some (with_msgs rd (l ++ m :: r))) = reinit_dkg now h (Some (with_msgs rd (l ++ r))).
Proof.
  intros He Hr. unfold reinit_dkg, with_msgs. cbn [rd_id rd_msgs rd_hash rd_parts].
  rewrite (reinit_msgs_skips_foreign _ _ _ m He Hr). reflexivity.
Qed.
