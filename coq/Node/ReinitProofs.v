(* C20 (state part): a reinit file's embedded messages of OTHER rounds (junk, traffic of another
   key on the same topic) have no influence on the reinitialisation: the replay behaves exactly as
   on the file without them. *)
From Coq Require Import List NArith ZArith String Bool.
Require Import Fsm.EngineDefs Fsm.Types Fsm.Engine Fsm.Actions Fsm.Provider Node.Types Node.Process.
Import ListNotations.

Lemma reinit_msgs_skips_foreign now me id m :
  N.eqb (m_round m) id = false ->
  forall l r h ops, reinit_msgs now me id h (l ++ m :: r) ops = reinit_msgs now me id h (l ++ r) ops.
Proof.
  intros Hr l. induction l as [|x l IH]; intros r h ops.
  - cbn [app reinit_msgs]. rewrite Hr. reflexivity.
  - cbn [app reinit_msgs].
    destruct (negb (N.eqb (m_round x) id)); [apply IH|].
    destruct (is_signing_event (m_event x)); [apply IH|].
    destruct (N.eqb (m_recipient x) 0 || N.eqb (m_recipient x) me); [|apply IH].
    destruct (process_message false now h x) as [h' [o|]|h'|]; try apply IH. reflexivity.
Qed.

Definition with_msgs (rd : redkg) (ms : list message) : redkg :=
  {| rd_id := rd_id rd; rd_hash := rd_hash rd; rd_parts := rd_parts rd; rd_msgs := ms |}.

(* any embedded message of another round - a signing batch of another key included - is without
   influence *)
Theorem reinit_ignores_foreign_rounds now h rd l m r :
  N.eqb (m_round m) (rd_id rd) = false ->
  reinit_dkg now h (Some (with_msgs rd (l ++ m :: r))) = reinit_dkg now h (Some (with_msgs rd (l ++ r))).
Proof.
  intros Hr. unfold reinit_dkg, with_msgs. cbn [rd_id rd_msgs rd_hash rd_parts].
  rewrite (reinit_msgs_skips_foreign _ _ _ m Hr). reflexivity.
Qed.

(* ---- the replay does not verify: what the original nodes refused for its signature is applied ---- *)
Definition with_sig (m : message) (s : sigv) : message :=
  {| m_round := m_round m; m_event := m_event m; m_data := m_data m; m_req := m_req m; m_sig := s;
     m_sender := m_sender m; m_recipient := m_recipient m; m_tasks := m_tasks m |}.
(* while verification is switched off (as during a reinitialisation) the signature of a message is
   never looked at: a message the original nodes refused for its signature is replayed like a genuine one *)
Theorem unverified_replay put now st m s :
  ns_skip st = true ->
  process_message put now {| h_st := st; h_tr := [] |} (with_sig m s) = process_message put now {| h_st := st; h_tr := [] |} m.
Proof.
  intros Hs. unfold process_message, with_sig.
  cbn [m_round m_event m_data m_req m_sig m_sender m_recipient m_tasks].
  destruct (get_instance {| h_st := st; h_tr := [] |} (m_round m) true) as [h1 inst| |] eqn:Eg; try reflexivity.
  assert (Hh1 : h1 = {| h_st := st; h_tr := [] |}).
  { unfold get_instance in Eg. cbn [h_st] in Eg.
    destruct (tget' (ns_rounds st) (m_round m)) as [d|].
    - destruct (from_dump d); try discriminate. inversion Eg; reflexivity.
    - destruct (N.eqb (m_round m) 0); [discriminate|]. destruct create; try discriminate; inversion Eg; reflexivity. }
  subst h1. unfold verify_ok. cbn [h_st]. rewrite Hs. cbn [orb negb andb].
  unfold pm_tail, pm_prop, pm_restart.
  cbn [m_round m_event m_data m_req m_sig m_sender m_recipient m_tasks h_st].
  reflexivity.
Qed.

(* a message of the signing phase - a batch proposal refused by every node while the key generation
   was under way, say - is likewise without influence, wherever it stands in the file *)
Lemma reinit_msgs_skips_signing now me id m :
  is_signing_event (m_event m) = true ->
  forall l r h ops, reinit_msgs now me id h (l ++ m :: r) ops = reinit_msgs now me id h (l ++ r) ops.
Proof.
  intros He l. induction l as [|x l IH]; intros r h ops.
  - cbn [app reinit_msgs]. rewrite He. destruct (negb (N.eqb (m_round m) id)); reflexivity.
  - cbn [app reinit_msgs].
    destruct (negb (N.eqb (m_round x) id)); [apply IH|].
    destruct (is_signing_event (m_event x)); [apply IH|].
    destruct (N.eqb (m_recipient x) 0 || N.eqb (m_recipient x) me); [|apply IH].
    destruct (process_message false now h x) as [h' [o|]|h'|]; try apply IH. reflexivity.
Qed.

Theorem reinit_ignores_signing_messages now h rd l m r :
  is_signing_event (m_event m) = true ->
  reinit_dkg now h (Some (with_msgs rd (l ++ m :: r))) = reinit_dkg now h (Some (with_msgs rd (l ++ r))).
Proof.
  intros He. unfold reinit_dkg, with_msgs. cbn [rd_id rd_msgs rd_hash rd_parts].
  rewrite (reinit_msgs_skips_signing _ _ _ m He). reflexivity.
Qed.
