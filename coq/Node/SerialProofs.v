From Coq Require Import List NArith ZArith Bool Arith.
Require Import Node.Serial.
Import ListNotations.

Definition list_eqb (a b : list nat) : bool :=
  Nat.eqb (length a) (length b) && forallb (fun p => Nat.eqb (fst p) (snd p)) (combine a b).

(* both sequential orders leave exactly the new operation pending *)
Lemma sequential_orders :
  pending_after (repeat true 7 ++ repeat false 5) = [2] /\ pending_after (repeat false 5 ++ repeat true 7) = [2].
Proof. vm_compute. split; reflexivity. Qed.

(* all 792 interleavings of the 7 store calls of the request with the 5 of PutOperation: the outcome
   is the sequential one unless the poller's pool write falls into the request's read-write window
   on `operations`, in which case the new operation is lost; a retired operation never returns *)
Lemma all_interleavings_decided :
  forallb (fun sc => if in_lost_window sc then list_eqb (pending_after sc) []
                     else list_eqb (pending_after sc) [2]) (interleavings 7 5) = true /\
  length (interleavings 7 5) = 792.
Proof. vm_compute. split; reflexivity. Qed.

Lemma list_eqb_eq a b : list_eqb a b = true -> a = b.
Proof.
  unfold list_eqb. revert b. induction a as [|x a IH]; intros [|y b] H; cbn in *; try discriminate; [reflexivity|].
  apply andb_prop in H as [Hl H]. apply andb_prop in H as [Hx Hr]. apply Nat.eqb_eq in Hx. subst.
  f_equal. apply IH. rewrite Hl. exact Hr.
Qed.

Theorem interleaving_outcome sc :
  In sc (interleavings 7 5) ->
  (in_lost_window sc = false -> pending_after sc = [2]) /\
  (in_lost_window sc = true -> pending_after sc = []).
Proof.
  intros Hin. destruct all_interleavings_decided as [H _]. rewrite forallb_forall in H. specialize (H sc Hin).
  split; intros Hw; rewrite Hw in H; apply list_eqb_eq; exact H.
Qed.

(* the full statement (every interleaving is serialisable) is refuted *)
Theorem serialisable_refuted :
  exists sc, In sc (interleavings 7 5) /\ pending_after sc <> [2].
Proof.
  exists [true; true; true; true; true; true; false; false; false; false; false; true]. split; [vm_compute; tauto|vm_compute; discriminate].
Qed.
