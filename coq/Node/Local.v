(* C08 (locality): what handling a board message of round r does to round r depends only on what
   the node holds for round r (its dump, its signature store, the batch sources kept for it), and
   the node's identity - not on anything it holds for other rounds.  Together with the frame theorem
   this gives: a round's state is a function of its own sub-log. *)
From Coq Require Import String List NArith ZArith Bool Lia.
Require Import Fsm.EngineDefs Fsm.Types Fsm.Engine Fsm.Actions Fsm.Provider Node.Types Node.Process Node.Frame.
Import ListNotations.
Local Open Scope string_scope.
Local Open Scope list_scope.

Definition lagree (r : tok) (a b : nstate) : Prop :=
  ns_user a = ns_user b /\ ns_skip a = ns_skip b /\
  tget' (ns_rounds a) r = tget' (ns_rounds b) r /\ tget' (ns_sigs a) r = tget' (ns_sigs b) r /\
  tget' (ns_srcs a) r = tget' (ns_srcs b) r.

Definition hrel (r : tok) (ha hb : hs) : Prop := lagree r (h_st ha) (h_st hb).

Definition rrel {A} (r : tok) (x y : res A) : Prop :=
  match x, y with
  | ROk ha va, ROk hb vb => hrel r ha hb /\ va = vb
  | RErr ha, RErr hb => hrel r ha hb
  | RPanic, RPanic => True
  | _, _ => False
  end.

Lemma aput_same {A} (l : list (tok * A)) k v : tget' (aput l k v) k = Some v.
Proof.
  induction l as [|[j b] t IH]; cbn [aput tget'].
  - rewrite N.eqb_refl. reflexivity.
  - destruct (N.eqb j k) eqn:E; cbn [tget']; rewrite E; [reflexivity|exact IH].
Qed.

Lemma l_save_fsm r ha hb d : hrel r ha hb -> hrel r (save_fsm ha r d) (save_fsm hb r d).
Proof.
  intros (H1 & H2 & H3 & H4 & H5). unfold hrel, lagree, save_fsm, emit. cbn [h_st apply_write ns_user ns_skip ns_rounds ns_sigs ns_srcs].
  rewrite !aput_same. auto.
Qed.

Lemma l_emit_src r ha hb s t : hrel r ha hb -> hrel r (emit ha (WSrc r s t)) (emit hb (WSrc r s t)).
Proof.
  intros (H1 & H2 & H3 & H4 & H5). unfold hrel, lagree, emit. cbn [h_st apply_write ns_user ns_skip ns_rounds ns_sigs ns_srcs].
  rewrite !aput_same, H5. auto.
Qed.

Lemma l_emit_send r ha hb ma mb : hrel r ha hb -> hrel r (emit ha (WSend ma)) (emit hb (WSend mb)).
Proof. intros (H1 & H2 & H3 & H4 & H5). unfold hrel, lagree, emit. cbn. auto. Qed.

Lemma l_save_signatures r ha hb l :
  (forall s, In s l -> rs_round s = r) -> hrel r ha hb -> rrel r (save_signatures ha l) (save_signatures hb l).
Proof.
  intros Hall (H1 & H2 & H3 & H4 & H5). unfold save_signatures. destruct l as [|s0 l']; cbn; [repeat split; assumption|].
  split; [|reflexivity]. rewrite (Hall s0 (or_introl eq_refl)). rewrite H4.
  unfold hrel, lagree, emit. cbn [h_st apply_write ns_user ns_skip ns_rounds ns_sigs ns_srcs].
  rewrite !aput_same. auto.
Qed.

Lemma l_reconstruct r a b p batch src parts :
  lagree r a b -> reconstruct a r p batch src parts = reconstruct b r p batch src parts.
Proof. intros (_ & _ & _ & _ & H5). unfold reconstruct. rewrite H5. reflexivity. Qed.

Lemma l_verify r a b p m : lagree r a b -> verify_ok a p m = verify_ok b p m.
Proof. intros (_ & H2 & _). unfold verify_ok. rewrite H2. reflexivity. Qed.

Lemma l_pm_restart now m ha hb inst :
  hrel (m_round m) ha hb -> rrel (m_round m) (pm_restart now m ha inst) (pm_restart now m hb inst).
Proof.
  intros H. unfold pm_restart. destruct (do_live inst ev_sgn_restart (RDefault now)); cbn; auto.
Qed.

Lemma l_put_opt put r ha hb op : hrel r ha hb -> hrel r (put_opt put ha op) (put_opt put hb op).
Proof.
  intros H. unfold put_opt. destruct put; [|exact H]. destruct op as [o|]; [|exact H].
  unfold put_operation. destruct H as (H1 & H2 & H3 & H4 & H5).
  destruct (existsb _ (ops_visible (h_st ha))); destruct (existsb _ (ops_visible (h_st hb)));
    unfold hrel, lagree, emit; cbn; auto.
Qed.

Lemma l_pm_prop put m req ha hb i4 op :
  hrel (m_round m) ha hb -> rrel (m_round m) (pm_prop put m req ha i4 op) (pm_prop put m req hb i4 op).
Proof.
  intros H. unfold pm_prop. destruct (String.eqb (m_event m) ev_sgn_start).
  - destruct (m_tasks m) as [tasks|]; [|exact H].
    destruct req; try exact H.
    match goal with |- context [save_signatures (emit ha ?w) ?l] =>
      assert (Hs : rrel (m_round m) (save_signatures (emit ha w) l) (save_signatures (emit hb w) l)) end.
    { apply l_save_signatures.
      - intros s Hin. apply in_map_iff in Hin as (x & <- & _). reflexivity.
      - apply l_emit_src. exact H. }
    destruct (save_signatures (emit ha _) _) as [ha' ua|ha'|]; destruct (save_signatures (emit hb _) _) as [hb' ub|hb'|];
      cbn in Hs |- *; try contradiction; auto.
    destruct Hs as [Hs _]. split; [apply l_save_fsm; apply l_put_opt; exact Hs|reflexivity].
  - cbn. split; [apply l_save_fsm; apply l_put_opt; exact H|reflexivity].
Qed.

Lemma l_pm_tail put now m req ha hb inst :
  hrel (m_round m) ha hb -> rrel (m_round m) (pm_tail put now m req ha inst) (pm_tail put now m req hb inst).
Proof.
  intros H. unfold pm_tail.
  destruct (negb (sender_is_participant _ _ _)); [exact H|].
  destruct (do_live inst (m_event m) req) as [i1 r1 x1| |]; cbn; auto. cbv zeta.
  destruct (if String.eqb r1 st_collected then _ else _) as [i2 r2 x2| |]; cbn; auto.
  destruct (if String.eqb r2 st_master_collected then _ else _) as [i3 r3 x3| |]; cbn; auto.
  destruct (String.eqb r3 st_partial_collected).
  - destruct x3 as [[]|]; try exact H.
    rewrite (l_reconstruct (m_round m) (h_st ha) (h_st hb)) by exact H.
    destruct (reconstruct (h_st hb) _ _ _ _ _) as [sigs|]; [|exact H].
    assert (Hu : ns_user (h_st ha) = ns_user (h_st hb)) by apply H. rewrite Hu.
    destruct (do_fresh (dump_of i3) ev_sgn_restart _) as [i4 r4 x4| |]; cbn; auto;
      try (apply l_pm_prop); apply l_emit_send; exact H.
  - apply l_pm_prop. exact H.
Qed.

Lemma l_get_instance r ha hb c :
  hrel r ha hb -> rrel r (get_instance ha r c) (get_instance hb r c).
Proof.
  intros H. unfold get_instance. destruct H as (H1 & H2 & H3 & H4 & H5). rewrite H3.
  assert (Hh : hrel r ha hb) by (repeat split; assumption).
  destruct (tget' (ns_rounds (h_st hb)) r) as [d|].
  - destruct (from_dump d); cbn; auto.
  - destruct (N.eqb r 0); [exact Hh|]. destruct c; [|exact Hh].
    destruct create; cbn; auto.
Qed.

Theorem process_message_local put now a b m :
  lagree (m_round m) a b ->
  rrel (m_round m) (process_message put now {| h_st := a; h_tr := [] |} m) (process_message put now {| h_st := b; h_tr := [] |} m).
Proof.
  intros H. unfold process_message.
  assert (H0 : hrel (m_round m) {| h_st := a; h_tr := [] |} {| h_st := b; h_tr := [] |}) by exact H.
  pose proof (l_get_instance (m_round m) _ _ true H0) as Hg.
  destruct (get_instance {| h_st := a; h_tr := [] |} (m_round m) true) as [ha inst| ha |];
    destruct (get_instance {| h_st := b; h_tr := [] |} (m_round m) true) as [hb inst'| hb |]; cbn in Hg; try contradiction; auto.
  destruct Hg as [Hh <-].
  rewrite (l_verify (m_round m) (h_st ha) (h_st hb)) by exact Hh.
  destruct (negb (String.eqb (m_event m) ev_sig_init) && negb (verify_ok (h_st hb) (i_payload inst) m)); [exact Hh|].
  destruct (String.eqb (m_event m) ev_sig_reconstructed).
  { destruct (m_req m) as [rq| |[l|]]; try exact Hh.
    match goal with |- context [save_signatures ha ?l] =>
      assert (Hs : rrel (m_round m) (save_signatures ha l) (save_signatures hb l)) end.
    { apply l_save_signatures; [|exact Hh]. intros s Hin. apply in_map_iff in Hin as (x & <- & _). reflexivity. }
    destruct (save_signatures ha _) as [ha' ua|ha'|]; destruct (save_signatures hb _) as [hb' ub|hb'|];
      cbn in Hs |- *; try contradiction; auto. destruct Hs as [Hs _]. split; [exact Hs|reflexivity]. }
  destruct (String.eqb (m_event m) ev_sig_recon_failed).
  { destruct (m_req m) as [[]| |]; cbn; auto; try exact Hh; try (split; [exact Hh|reflexivity]). }
  destruct (has_suffix (i_dstate inst) "_error" && _); [split; [exact Hh|reflexivity]|]. cbv zeta.
  assert (Hstep5 : forall ha hb i, hrel (m_round m) ha hb ->
    rrel (m_round m)
      (if has_suffix (i_dstate i) "_timeout" && (has_prefix (i_dstate i) "state_sig_" || has_prefix (i_dstate i) "state_dkg")
       then ROk ha None
       else match (if has_suffix (i_dstate i) "_timeout" && has_prefix (i_dstate i) "state_signing_"
                   then match p_sgn (i_payload i) with Some _ => pm_restart now m ha i | None => RPanic end
                   else ROk ha i) with
            | ROk h2 inst2 => match m_req m with MFsm req => pm_tail put now m req h2 inst2 | _ => RErr h2 end
            | RErr h2 => RErr h2
            | RPanic => RPanic
            end)
      (if has_suffix (i_dstate i) "_timeout" && (has_prefix (i_dstate i) "state_sig_" || has_prefix (i_dstate i) "state_dkg")
       then ROk hb None
       else match (if has_suffix (i_dstate i) "_timeout" && has_prefix (i_dstate i) "state_signing_"
                   then match p_sgn (i_payload i) with Some _ => pm_restart now m hb i | None => RPanic end
                   else ROk hb i) with
            | ROk h2 inst2 => match m_req m with MFsm req => pm_tail put now m req h2 inst2 | _ => RErr h2 end
            | RErr h2 => RErr h2
            | RPanic => RPanic
            end)).
  { intros ha0 hb0 i Hs. destruct (has_suffix (i_dstate i) "_timeout" && (_ || _)); [split; [exact Hs|reflexivity]|].
    destruct (has_suffix (i_dstate i) "_timeout" && has_prefix (i_dstate i) "state_signing_").
    - destruct (p_sgn (i_payload i)); [|exact I].
      pose proof (l_pm_restart now m ha0 hb0 i Hs) as Hr.
      destruct (pm_restart now m ha0 i) as [h2 i2|h2|]; destruct (pm_restart now m hb0 i) as [h2' i2'|h2'|];
        cbn in Hr |- *; try contradiction; auto.
      destruct Hr as [Hr <-]. destruct (m_req m); cbn; auto. apply l_pm_tail. exact Hr.
    - destruct (m_req m); cbn; auto. apply l_pm_tail. exact Hs. }
  destruct (has_suffix (i_dstate inst) "_error" && match p_sgn (i_payload inst) with Some _ => true | None => false end).
  - pose proof (l_pm_restart now m ha hb inst Hh) as Hr.
    destruct (pm_restart now m ha inst) as [h2 i2|h2|]; destruct (pm_restart now m hb inst) as [h2' i2'|h2'|];
      cbn in Hr |- *; try contradiction; auto.
    destruct Hr as [Hr <-]. apply Hstep5. exact Hr.
  - apply Hstep5. exact Hh.
Qed.

(* ---- what no board message changes: the node's identity, the verification switch, and the batch
   sources kept for every OTHER round ---- *)
Definition gkeep (st st' : nstate) (round : tok) : Prop :=
  ns_user st' = ns_user st /\ ns_skip st' = ns_skip st /\
  (forall r', r' <> round -> tget' (ns_srcs st') r' = tget' (ns_srcs st) r').

Definition res_keep {A} (st : nstate) (start : tok) (x : res A) : Prop :=
  match x with ROk h _ => gkeep st (h_st h) start | RErr h => gkeep st (h_st h) start | RPanic => True end.

Lemma k_emit st start h w :
  match w with WSkip _ => False | WSrc r _ _ => r = start | _ => True end ->
  gkeep st (h_st h) start -> gkeep st (h_st (emit h w)) start.
Proof.
  intros Hw (H1 & H2 & H3). destruct w; try contradiction; unfold gkeep, emit; cbn [h_st apply_write ns_user ns_skip ns_srcs];
    repeat split; auto. intros r' Hr. subst round. rewrite aput_other by congruence. apply H3. exact Hr.
Qed.

Lemma k_save_fsm st start h round d : gkeep st (h_st h) start -> gkeep st (h_st (save_fsm h round d)) start.
Proof. intros H. unfold save_fsm. apply k_emit; [exact I|exact H]. Qed.

Lemma k_save_signatures st start h l : gkeep st (h_st h) start -> res_keep st start (save_signatures h l).
Proof. intros H. unfold save_signatures. destruct l; [exact H|]. cbn [res_keep]. apply k_emit; [exact I|exact H]. Qed.

Lemma k_put_operation st start h o : gkeep st (h_st h) start -> res_keep st start (put_operation h o).
Proof. intros H. unfold put_operation. destruct (existsb _ _); [exact H|]. cbn [res_keep]. apply k_emit; [exact I|exact H]. Qed.

Lemma k_put_opt put st start h op : gkeep st (h_st h) start -> gkeep st (h_st (put_opt put h op)) start.
Proof.
  intros H. unfold put_opt. destruct put; [|exact H]. destruct op as [o|]; [|exact H].
  pose proof (k_put_operation st start h o H) as Hp. destruct (put_operation h o); cbn [res_keep] in Hp; auto.
Qed.

Lemma k_pm_restart st start now m h inst : gkeep st (h_st h) start -> res_keep st start (pm_restart now m h inst).
Proof. intros H. unfold pm_restart. destruct (do_live _ _ _); cbn [res_keep]; auto. Qed.

Lemma k_pm_prop put st m req h i4 op :
  gkeep st (h_st h) (m_round m) ->
  res_keep st (m_round m) (pm_prop put m req h i4 op).
Proof.
  intros H. unfold pm_prop. destruct (String.eqb (m_event m) ev_sgn_start) eqn:E.
  - destruct (m_tasks m) as [tasks|]; [|exact H].
    destruct req; try exact H.
    match goal with |- context [save_signatures ?hh ?l] =>
      pose proof (k_save_signatures st (m_round m) hh l) as Hs end.
    match type of Hs with ?P -> _ => assert (H1 : P); [apply k_emit; [reflexivity|exact H]|specialize (Hs H1)] end.
    destruct (save_signatures _ _) as [h' u|h'|]; cbn [res_keep] in Hs |- *; auto; try (apply k_save_fsm; apply k_put_opt; exact Hs).
  - cbn [res_keep]. apply k_save_fsm. apply k_put_opt. exact H.
Qed.

Lemma k_pm_tail put st now m req h inst :
  gkeep st (h_st h) (m_round m) ->
  res_keep st (m_round m) (pm_tail put now m req h inst).
Proof.
  intros H. unfold pm_tail.
  destruct (negb (sender_is_participant _ _ _)); [exact H|].
  destruct (do_live inst (m_event m) req) as [i1 r1 x1| |]; cbn; auto. cbv zeta.
  destruct (if String.eqb r1 st_collected then _ else _) as [i2 r2 x2| |]; cbn; auto.
  destruct (if String.eqb r2 st_master_collected then _ else _) as [i3 r3 x3| |]; cbn; auto.
  destruct (String.eqb r3 st_partial_collected).
  - destruct x3 as [[]|]; try exact H.
    destruct (reconstruct _ _ _ _ _ _); [|exact H].
    destruct (do_fresh (dump_of i3) ev_sgn_restart _) as [i4 r4 x4| |]; cbn; auto;
      try (apply k_pm_prop); apply k_emit; try exact I; exact H.
  - apply k_pm_prop. exact H.
Qed.

Theorem process_message_keeps put now st m :
  res_keep st (m_round m) (process_message put now {| h_st := st; h_tr := [] |} m).
Proof.
  unfold process_message.
  assert (H0 : gkeep st (h_st {| h_st := st; h_tr := [] |}) (m_round m)) by (repeat split; reflexivity).
  destruct (get_instance {| h_st := st; h_tr := [] |} (m_round m) true) as [h1 inst| h1 |] eqn:Eg; cbn; auto.
  2:{ unfold get_instance in Eg. cbn [h_st] in Eg.
      destruct (tget' (ns_rounds st) (m_round m)) as [d|].
      - destruct (from_dump d); try discriminate. inversion Eg; subst. exact H0.
      - destruct (N.eqb (m_round m) 0); [inversion Eg; subst; exact H0|].
        destruct create; try discriminate; inversion Eg; subst; exact H0. }
  assert (Hh1 : h1 = {| h_st := st; h_tr := [] |}).
  { unfold get_instance in Eg. cbn [h_st] in Eg.
    destruct (tget' (ns_rounds st) (m_round m)) as [d|].
    - destruct (from_dump d); try discriminate. inversion Eg; reflexivity.
    - destruct (N.eqb (m_round m) 0); [discriminate|]. destruct create; try discriminate; inversion Eg; reflexivity. }
  subst h1. clear Eg.
  destruct (negb (String.eqb (m_event m) ev_sig_init) && _); [exact H0|].
  destruct (String.eqb (m_event m) ev_sig_reconstructed).
  { destruct (m_req m) as [rq| |[l|]]; try exact H0.
    match goal with |- context [save_signatures ?hh ?l] => pose proof (k_save_signatures st (m_round m) hh l H0) as Hs end.
    destruct (save_signatures _ _); cbn in Hs |- *; auto. }
  destruct (String.eqb (m_event m) ev_sig_recon_failed).
  { destruct (m_req m) as [[]| |]; exact H0. }
  destruct (has_suffix (i_dstate inst) "_error" && _); [exact H0|]. cbv zeta.
  assert (Hstep5 : forall h i, gkeep st (h_st h) (m_round m) ->
    res_keep st (m_round m)
      (if has_suffix (i_dstate i) "_timeout" && (has_prefix (i_dstate i) "state_sig_" || has_prefix (i_dstate i) "state_dkg")
       then ROk h None
       else match (if has_suffix (i_dstate i) "_timeout" && has_prefix (i_dstate i) "state_signing_"
                   then match p_sgn (i_payload i) with Some _ => pm_restart now m h i | None => RPanic end
                   else ROk h i) with
            | ROk h2 inst2 => match m_req m with MFsm req => pm_tail put now m req h2 inst2 | _ => RErr h2 end
            | RErr h2 => RErr h2
            | RPanic => RPanic
            end)).
  { intros h i Hs. destruct (has_suffix (i_dstate i) "_timeout" && (_ || _)); [exact Hs|].
    destruct (has_suffix (i_dstate i) "_timeout" && has_prefix (i_dstate i) "state_signing_").
    - destruct (p_sgn (i_payload i)); [|exact I].
      pose proof (k_pm_restart st _ now m h i Hs) as Hr.
      destruct (pm_restart now m h i) as [h2 i2|h2|]; cbn in *; auto.
      destruct (m_req m); cbn; auto. apply k_pm_tail; assumption.
    - destruct (m_req m); cbn; auto. apply k_pm_tail; assumption. }
  destruct (has_suffix (i_dstate inst) "_error" && match p_sgn (i_payload inst) with Some _ => true | None => false end).
  - pose proof (k_pm_restart st _ now m _ inst H0) as Hr.
    destruct (pm_restart now m {| h_st := st; h_tr := [] |} inst) as [h2 i2|h2|]; cbn in *; auto.
  - apply Hstep5. exact H0.
Qed.

(* ---- one board message on a node, as a function on states (a panic persists nothing) ---- *)
Definition step_msg (st : nstate) (nm : Z * message) : nstate :=
  match node_step (fst nm) st (InMsg (snd nm)) with
  | ROk h _ => h_st h
  | RErr h => h_st h
  | RPanic => st
  end.

Definition ragree (r : tok) (a b : nstate) : Prop :=
  tget' (ns_rounds a) r = tget' (ns_rounds b) r /\ tget' (ns_sigs a) r = tget' (ns_sigs b) r.

Lemma put_operation_lagree r h o x :
  match put_operation h o with ROk h' _ => lagree r (h_st h') x <-> lagree r (h_st h) x
                             | RErr h' => lagree r (h_st h') x <-> lagree r (h_st h) x | RPanic => True end.
Proof.
  unfold put_operation. destruct (existsb _ _); [tauto|]. unfold emit, lagree. cbn. tauto.
Qed.

(* a message of round r: both nodes do the same to round r *)
Lemma put_operation_state r h o x :
  lagree r (h_st h) x ->
  lagree r (match put_operation h o with ROk h' _ => h_st h' | RErr h' => h_st h' | RPanic => h_st h end) x.
Proof.
  intros H. unfold put_operation. destruct (existsb _ _); [exact H|]. unfold emit, lagree in *. cbn. exact H.
Qed.
Lemma lagree_sym r a b : lagree r a b -> lagree r b a.
Proof. unfold lagree. intros (H1 & H2 & H3 & H4 & H5). repeat split; congruence. Qed.

Lemma step_msg_local r a b nm : m_round (snd nm) = r -> lagree r a b -> lagree r (step_msg a nm) (step_msg b nm).
Proof.
  intros <- H. destruct nm as [now m]. unfold step_msg, node_step, process_board_message. cbn [fst snd].
  pose proof (process_message_local true now a b m H) as Hl.
  destruct (process_message true now {| h_st := a; h_tr := [] |} m) as [ha oa|ha|];
    destruct (process_message true now {| h_st := b; h_tr := [] |} m) as [hb ob|hb|]; cbn in Hl; try contradiction.
  - destruct Hl as [Hl _]. exact Hl.
  - exact Hl.
  - exact H.
Qed.

Lemma board_message_keeps now st m :
  res_keep st (m_round m) (node_step now st (InMsg m)).
Proof.
  unfold node_step, process_board_message.
  pose proof (process_message_keeps true now st m) as H.
  destruct (process_message true now {| h_st := st; h_tr := [] |} m) as [h o|h|]; cbn [res_keep] in *; auto.
Qed.

(* a message of another round - any message, batch proposals included: nothing round r depends on
   changes *)
Lemma step_msg_other r a b nm :
  m_round (snd nm) <> r ->
  lagree r a b -> lagree r (step_msg a nm) b.
Proof.
  intros Hne (H1 & H2 & H3 & H4 & H5). destruct nm as [now m]. cbn [fst snd] in *.
  unfold step_msg. cbn [fst snd].
  pose proof (board_message_frame now a m r Hne) as Hf.
  pose proof (board_message_keeps now a m) as Hk.
  assert (Hne' : r <> m_round m) by congruence.
  destruct (node_step now a (InMsg m)) as [h u|h|]; cbn in Hf, Hk; [| |repeat split; assumption].
  - destruct Hf as [F1 F2]. destruct Hk as (K1 & K2 & K3). unfold lagree. rewrite K1, K2, F1, F2, (K3 r Hne'). auto.
  - destruct Hf as [F1 F2]. destruct Hk as (K1 & K2 & K3). unfold lagree. rewrite K1, K2, F1, F2, (K3 r Hne'). auto.
Qed.

Definition run_msgs (st : nstate) (l : list (Z * message)) : nstate := fold_left step_msg l st.
Definition sublog (r : tok) (l : list (Z * message)) : list (Z * message) :=
  filter (fun nm => N.eqb (m_round (snd nm)) r) l.

(* THE SUB-LOG THEOREM: for every log (accepted, refused, duplicated, junk messages alike; any
   clock values), what a node holds for round r after the whole log is what it holds after the
   sub-sequence of round r's messages - whatever the messages of the other rounds are *)
Theorem round_state_is_function_of_sublog r l : forall a b,
  lagree r a b ->
  lagree r (run_msgs a l) (run_msgs b (sublog r l)).
Proof.
  induction l as [|nm l IH]; intros a b H; [exact H|].
  cbn [run_msgs fold_left sublog filter].
  destruct (N.eqb_spec (m_round (snd nm)) r) as [E|E].
  - cbn [fold_left]. apply IH. apply step_msg_local; assumption.
  - apply IH. apply step_msg_other; [exact E|exact H].
Qed.

Corollary two_nodes_same_sublog_agree r l1 l2 a :
  sublog r l1 = sublog r l2 ->
  ragree r (run_msgs a l1) (run_msgs a l2).
Proof.
  intros He.
  assert (Hr : lagree r a a) by (repeat split; reflexivity).
  pose proof (round_state_is_function_of_sublog r l1 a a Hr) as (_ & _ & A1 & A2 & _).
  pose proof (round_state_is_function_of_sublog r l2 a a Hr) as (_ & _ & B1 & B2 & _).
  rewrite He in A1, A2. split; congruence.
Qed.

Require Import Node.Crash.
(* non-vacuity: two rounds interleaved on one board (proposal, a confirmation, junk of the other
   round in between): round 9 after the whole log = round 9 after its own sub-log, and it has moved *)
Definition ex_confirm (r : tok) : message :=
  {| m_round := r; m_event := ev_sig_confirm; m_data := 11%N; m_req := MFsm (RPart 0 10); m_sig := SigBy 3%N 11%N;
     m_sender := 2%N; m_recipient := 0%N; m_tasks := None |}.
Definition ex_prop (r : tok) : message :=
  {| m_round := r; m_event := ev_sig_init; m_data := 10%N; m_req := MFsm (RList w_ps 2 0); m_sig := SigNone;
     m_sender := 2%N; m_recipient := 0%N; m_tasks := None |}.
Definition ex_log : list (Z * message) :=
  [(777%Z, ex_prop 9%N); (777%Z, ex_prop 8%N); (777%Z, ex_confirm 8%N); (777%Z, ex_confirm 9%N); (777%Z, ex_confirm 8%N)].
Example sublog_example :
  let a := empty_node 2%N 3%N in
  sublog 9%N ex_log = [(777%Z, ex_prop 9%N); (777%Z, ex_confirm 9%N)] /\
  tget' (ns_rounds (run_msgs a ex_log)) 9%N = tget' (ns_rounds (run_msgs a (sublog 9%N ex_log))) 9%N /\
  tget' (ns_rounds (run_msgs a ex_log)) 9%N <> None /\
  tget' (ns_rounds (run_msgs a ex_log)) 9%N <> tget' (ns_rounds (run_msgs a [(777%Z, ex_prop 9%N)])) 9%N.
Proof. vm_compute. repeat split; discriminate. Qed.
