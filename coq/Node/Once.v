(* C15 "once": an answered operation is retired - the same answer (or any answer carrying the
   same operation id) is refused afterwards. *)
From Coq Require Import String List NArith ZArith Bool Lia.
Require Import Fsm.EngineDefs Fsm.Types Fsm.Engine Fsm.Actions Fsm.Provider Node.Types Node.Process Node.Facts.
Import ListNotations.

Lemma zlist_eqb_eq a b : zlist_eqb a b = true <-> a = b.
Proof.
  revert b. induction a as [|x a IH]; intros [|y b]; cbn; try (split; [discriminate|discriminate]); [tauto|].
  rewrite andb_true_iff, Z.eqb_eq, IH. split; [intros [-> ->]; reflexivity|intros H; inversion H; auto].
Qed.
Lemma op_same_id_spec a b :
  op_same_id a b = true <-> op_round a = op_round b /\ op_payload_code a = op_payload_code b.
Proof. unfold op_same_id. rewrite andb_true_iff, N.eqb_eq, zlist_eqb_eq. tauto. Qed.
Lemma op_same_id_sym a b : op_same_id a b = true -> op_same_id b a = true.
Proof. rewrite !op_same_id_spec. intros [-> ->]. auto. Qed.
Lemma op_same_id_trans a b c : op_same_id a b = true -> op_same_id b c = true -> op_same_id a c = true.
Proof. rewrite !op_same_id_spec. intros [-> ->] [-> ->]. auto. Qed.

Lemma find_none_all {A} (f : A -> bool) l : (forall x, In x l -> f x = false) -> find f l = None.
Proof. induction l as [|a l IH]; intros H; cbn; [reflexivity|]. rewrite (H a (or_introl eq_refl)). apply IH. intros x Hx. apply H. right. exact Hx. Qed.

(* once an operation with this id has a tombstone, nothing with this id is visible *)
Lemma tombstone_hides st tomb o :
  In tomb (ns_deleted st) -> op_same_id o tomb = true ->
  find (op_same_id o) (ops_visible st) = None.
Proof.
  intros Hin Hid. apply find_none_all. intros y Hy. unfold ops_visible in Hy. apply filter_In in Hy as [_ Hf].
  apply negb_true_iff in Hf.
  destruct (op_same_id o y) eqn:E; [|reflexivity]. exfalso.
  assert (Hex : existsb (op_same_id y) (ns_deleted st) = true).
  { apply existsb_exists. exists tomb. split; [exact Hin|]. apply (op_same_id_trans y o tomb); [apply op_same_id_sym; exact E|exact Hid]. }
  congruence.
Qed.

Lemma delete_leaves_tombstone h o h' : delete_operation h o = ROk h' tt -> In o (ns_deleted (h_st h')).
Proof.
  unfold delete_operation. destruct (existsb _ _); [discriminate|]. intros H. inversion H; subst.
  cbn [emit h_st apply_write ns_deleted]. apply in_or_app. right. left. reflexivity.
Qed.

Theorem answered_operation_is_retired st x h x' :
  execute_operation {| h_st := st; h_tr := [] |} x = ROk h tt ->
  op_same_id (ox_ident x') (ox_ident x) = true ->
  execute_operation {| h_st := h_st h; h_tr := [] |} x' = RErr {| h_st := h_st h; h_tr := [] |}.
Proof.
  intros Hok Hid.
  assert (Htomb : exists tomb, In tomb (ns_deleted (h_st h)) /\ op_same_id (ox_ident x) tomb = true).
  { unfold execute_operation in Hok. cbn [h_st] in Hok.
    destruct (String.eqb (ox_event x) ""); [discriminate|].
    destruct (find (op_same_id (ox_ident x)) (ops_visible st)) as [stored|] eqn:Ef; [|discriminate].
    apply find_some in Ef as [_ Hs].
    destruct (negb _); [discriminate|].
    destruct (String.eqb (ox_event x) ev_processed && negb (String.eqb (op_type stored) ev_reinit)); [discriminate|].
    match type of Hok with match ?b with _ => _ end = _ => destruct b as [hb []|hb|] eqn:Eb; try discriminate end.
    eexists. split; [apply (delete_leaves_tombstone _ _ _ Hok)|].
    apply op_same_id_spec. apply op_same_id_spec in Hs as [Hr Hp]. split; [exact Hr|].
    rewrite Hp. unfold op_payload_code. reflexivity. }
  destruct Htomb as (tomb & Hin & Ht).
  unfold execute_operation. cbn [h_st].
  destruct (String.eqb (ox_event x') ""); [reflexivity|].
  rewrite (tombstone_hides (h_st h) tomb (ox_ident x') Hin (op_same_id_trans _ _ _ Hid Ht)). reflexivity.
Qed.

(* the event "processed" (nothing to post) answers a reinit operation only: under any other pending
   operation the result is refused and nothing changes - the operation stays pending *)
Theorem processed_event_only_for_reinit st x stored :
  find (op_same_id (ox_ident x)) (ops_visible st) = Some stored ->
  ox_event x = ev_processed -> op_type stored <> ev_reinit ->
  execute_operation {| h_st := st; h_tr := [] |} x = RErr {| h_st := st; h_tr := [] |}.
Proof.
  intros Hf He Ht. unfold execute_operation. cbn [h_st]. rewrite He.
  change (String.eqb ev_processed "") with false. cbv iota. rewrite Hf.
  destruct (negb _); [reflexivity|].
  rewrite String.eqb_refl. apply String.eqb_neq in Ht. rewrite Ht. reflexivity.
Qed.
