(* Model of client/services/node/node_service.go (ProcessMessage, processMessage, reinitDKG,
   executeOperation, ApproveParticipation, one Poll tick), of the operation and signature
   repositories and of fsmservice, as functions from the node's durable state to its new state
   and the ordered trace of durable writes.  Definitions only. *)
From Coq Require Import String List NArith ZArith Bool.
Require Import Fsm.EngineDefs Fsm.Types Fsm.Engine Fsm.Actions Fsm.Provider Node.Types.
Import ListNotations.
Local Open Scope string_scope.
Local Open Scope list_scope.

(* ---- durable writes, in the order the code issues them ---- *)
Inductive write :=
| WRounds (l : list (tok * dump))          (* state.Set(<topic>_fsm_state) *)
| WOps (l : list operation)                (* state.Set(<topic>_operations) *)
| WDeleted (l : list operation)            (* state.Set(<topic>_deleted_operations) *)
| WSigs (round : tok) (s : sigstore)       (* state.Set(signatures_<round>) *)
| WSend (m : out_msg)                      (* storage.Send *)
| WSkip (b : bool)                         (* volatile flag (not durable) *)
| WSrc (round src : tok) (tasks : list mts).   (* ghost *)

Fixpoint aput {A} (l : list (tok * A)) (k : tok) (v : A) : list (tok * A) :=
  match l with
  | [] => [(k, v)]
  | (j, b) :: r => if N.eqb j k then (j, v) :: r else (j, b) :: aput r k v
  end.
Fixpoint tget' {A} (q : list (tok * A)) (i : tok) : option A :=
  match q with [] => None | (j, a) :: r => if N.eqb j i then Some a else tget' r i end.

Definition apply_write (st : nstate) (w : write) : nstate :=
  match w with
  | WRounds l => {| ns_user := ns_user st; ns_key := ns_key st; ns_rounds := l; ns_ops := ns_ops st;
                    ns_deleted := ns_deleted st; ns_sigs := ns_sigs st; ns_board := ns_board st;
                    ns_skip := ns_skip st; ns_srcs := ns_srcs st |}
  | WOps l => {| ns_user := ns_user st; ns_key := ns_key st; ns_rounds := ns_rounds st; ns_ops := l;
                 ns_deleted := ns_deleted st; ns_sigs := ns_sigs st; ns_board := ns_board st;
                 ns_skip := ns_skip st; ns_srcs := ns_srcs st |}
  | WDeleted l => {| ns_user := ns_user st; ns_key := ns_key st; ns_rounds := ns_rounds st; ns_ops := ns_ops st;
                     ns_deleted := l; ns_sigs := ns_sigs st; ns_board := ns_board st;
                     ns_skip := ns_skip st; ns_srcs := ns_srcs st |}
  | WSigs r s => {| ns_user := ns_user st; ns_key := ns_key st; ns_rounds := ns_rounds st; ns_ops := ns_ops st;
                    ns_deleted := ns_deleted st; ns_sigs := aput (ns_sigs st) r s; ns_board := ns_board st;
                    ns_skip := ns_skip st; ns_srcs := ns_srcs st |}
  | WSend m => {| ns_user := ns_user st; ns_key := ns_key st; ns_rounds := ns_rounds st; ns_ops := ns_ops st;
                  ns_deleted := ns_deleted st; ns_sigs := ns_sigs st; ns_board := ns_board st ++ [m];
                  ns_skip := ns_skip st; ns_srcs := ns_srcs st |}
  | WSkip b => {| ns_user := ns_user st; ns_key := ns_key st; ns_rounds := ns_rounds st; ns_ops := ns_ops st;
                  ns_deleted := ns_deleted st; ns_sigs := ns_sigs st; ns_board := ns_board st;
                  ns_skip := b; ns_srcs := ns_srcs st |}
  | WSrc r s t => {| ns_user := ns_user st; ns_key := ns_key st; ns_rounds := ns_rounds st; ns_ops := ns_ops st;
                     ns_deleted := ns_deleted st; ns_sigs := ns_sigs st; ns_board := ns_board st;
                     ns_skip := ns_skip st;
                     ns_srcs := aput (ns_srcs st) r
                                     (aput (match tget' (ns_srcs st) r with Some m => m | None => [] end) s t) |}
  end.

(* a handler in progress: current state and the writes issued so far *)
Record hs := { h_st : nstate; h_tr : list write }.
Definition emit (h : hs) (w : write) : hs := {| h_st := apply_write (h_st h) w; h_tr := h_tr h ++ [w] |}.

Inductive res (A : Type) := ROk (h : hs) (a : A) | RErr (h : hs) | RPanic.
Arguments ROk {A}. Arguments RErr {A}. Arguments RPanic {A}.

(* ---- identity of operations: id = md5(round "_" base64(payload)), i.e. (round, payload) ---- *)
Fixpoint flat_signs (l : list (tok * tok)) : list Z :=
  match l with [] => [] | (a, b) :: r => Z.of_N a :: Z.of_N b :: flat_signs r end.
Definition resp_code (r : option response) : list Z :=
  match r with
  | None => [0%Z]
  | Some (RespInvitations l) => 1%Z :: Z.of_nat (length l) ::
      flat_map (fun x => [fst x; Z.of_N (fst (snd x)); fst (snd (snd x)); Z.of_N (fst (snd (snd (snd x))));
                          Z.of_N (snd (snd (snd (snd x))))]) l
  | Some (RespSigStatus l) => 2%Z :: Z.of_nat (length l) ::
      flat_map (fun x => [fst x; Z.of_N (fst (snd x)); Z.of_N (snd (snd x))]) l
  | Some (RespDkgPubKeys l) => 3%Z :: Z.of_nat (length l) ::
      flat_map (fun x => [fst x; Z.of_N (fst (snd x)); Z.of_N (fst (snd (snd x))); snd (snd (snd x))]) l
  | Some (RespDkgData k l) => 4%Z :: Z.of_N k :: Z.of_nat (length l) ::
      flat_map (fun x => [fst x; Z.of_N (fst (snd x)); Z.of_N (snd (snd x))]) l
  | Some (RespSigningInvite b i s l) => 5%Z :: Z.of_N b :: i :: Z.of_N s :: Z.of_nat (length l) ::
      flat_map (fun x => [fst x; Z.of_N (fst (snd x)); Z.of_N (snd (snd x))]) l
  | Some (RespSigningProcess b s l) => 6%Z :: Z.of_N b :: Z.of_N s :: Z.of_nat (length l) ::
      flat_map (fun x => fst x :: Z.of_N (fst (snd x)) :: Z.of_nat (length (snd (snd x))) :: flat_signs (snd (snd x))) l
  end.
Fixpoint zlist_eqb (a b : list Z) : bool :=
  match a, b with
  | [], [] => true
  | x :: a', y :: b' => Z.eqb x y && zlist_eqb a' b'
  | _, _ => false
  end.
Definition opref_code (o : opref) : list Z :=
  Z.of_N (or_round o) :: Z.of_nat (String.length (or_type o)) :: resp_code (or_payload o).
Definition op_payload_code (o : operation) : list Z :=
  match op_reinit o with
  | Some l => 9%Z :: Z.of_nat (length l) :: flat_map opref_code l
  | None => resp_code (op_payload o)
  end.
(* same id <-> same round and same payload bytes *)
Definition op_same_id (a b : operation) : bool :=
  N.eqb (op_round a) (op_round b) && zlist_eqb (op_payload_code a) (op_payload_code b).

(* ---- operation repository ---- *)
Definition ops_visible (st : nstate) : list operation :=
  filter (fun o => negb (existsb (op_same_id o) (ns_deleted st))) (ns_ops st).

Definition put_operation (h : hs) (o : operation) : res unit :=
  let ops := ops_visible (h_st h) in
  (* OperationService.PutOperation: the very same operation still pending - nothing to add *)
  if existsb (op_same_id o) ops then ROk h tt
  else ROk (emit h (WOps (ops ++ [o]))) tt.

Definition delete_operation (h : hs) (o : operation) : res unit :=
  if existsb (op_same_id o) (ns_deleted (h_st h)) then RErr h else
  let h1 := emit h (WDeleted (ns_deleted (h_st h) ++ [o])) in
  let ops := filter (fun x => negb (op_same_id x o)) (ops_visible (h_st h1)) in
  ROk (emit h1 (WOps ops)) tt.

(* ---- signature repository: AddReconstructedSignature / SaveSignatures ---- *)
Fixpoint add_entry (l : list rsig) (s : rsig) : list rsig :=
  match l with
  | [] => [s]
  | x :: r => if N.eqb (rs_user x) (rs_user s) then s :: r else x :: add_entry r s
  end.
Definition add_sig (store : sigstore) (s : rsig) : sigstore :=
  let batch := match tget' store (rs_batch s) with Some b => b | None => [] end in
  let entries := match tget' batch (rs_msgid s) with Some e => e | None => [] end in
  aput store (rs_batch s) (aput batch (rs_msgid s) (add_entry entries s)).

Definition save_signatures (h : hs) (l : list rsig) : res unit :=
  match l with
  | [] => RErr h
  | s0 :: _ =>
      let round := rs_round s0 in
      let store := match tget' (ns_sigs (h_st h)) round with Some s => s | None => [] end in
      ROk (emit h (WSigs round (fold_left add_sig l store))) tt
  end.

(* ---- fsmservice ---- *)
Definition save_fsm (h : hs) (round : tok) (d : dump) : hs :=
  emit h (WRounds (aput (ns_rounds (h_st h)) round d)).

Definition initial_dump_of : dump := {| d_state := "__idle"; d_payload := empty_payload |}.

Definition get_instance (h : hs) (round : tok) (create_missing : bool) : res instance :=
  match tget' (ns_rounds (h_st h)) round with
  | Some d =>
      match from_dump d with
      | LoadOk i => ROk h i
      | LoadErr => RErr h
      | LoadPanic => RPanic
      end
  | None =>
      if N.eqb round 0 then RErr h          (* state_machines.Create refuses an empty identifier *)
      else if create_missing then
        (* not persisted here: the callers' SaveFSM does it once the message is accepted *)
        match create with
        | LoadOk i => ROk h i
        | LoadErr => RErr h
        | LoadPanic => RPanic
        end
      else RErr h
  end.

(* ---- helpers on state names ---- *)
Fixpoint str_rev_acc (s acc : string) : string :=
  match s with EmptyString => acc | String c r => str_rev_acc r (String c acc) end.
Definition str_rev (s : string) : string := str_rev_acc s EmptyString.
Definition has_prefix (s p : string) : bool := String.prefix p s.
Definition has_suffix (s suf : string) : bool := String.prefix (str_rev suf) (str_rev s).

Definition ev_sig_reconstructed := "signature_reconstructed".
Definition ev_sig_recon_failed := "signature_reconstruction_failed".
Definition ev_reinit := "reinit_dkg".
Definition ev_processed := "operation_processed_successfully".

Definition op_states : list string :=
  [ "state_sig_proposal_await_participants_confirmations"; "state_dkg_commits_await_confirmations";
    "state_dkg_deals_await_confirmations"; "state_dkg_responses_await_confirmations";
    "state_dkg_master_key_await_confirmations"; "state_signing_await_partial_signs" ].

(* verifyMessage *)
Definition verify_ok (st : nstate) (p : payload) (m : message) : bool :=
  ns_skip st ||
  (negb (N.eqb (m_sender m) 0) &&
   match tget (p_pubkeys p) (m_sender m) with
   | Some pk => match m_sig m with SigBy k d => N.eqb k pk && N.eqb d (m_data m) | _ => false end
   | None => false
   end).

(* reconstructThresholdSignature: group the partial signatures by message id in participant
   order, expand the batch, recover one signature per message id that has partial signatures *)
Fixpoint group_signs (parts : list (Z * (tok * list (tok * tok)))) (acc : list (tok * list tok)) : list (tok * list tok) :=
  match parts with
  | [] => acc
  | (_, (_, signs)) :: r =>
      group_signs r (fold_left (fun a s => aput a (fst s) (match tget' a (fst s) with Some l => l ++ [snd s] | None => [snd s] end)) signs acc)
  end.
Fixpoint last_task (tasks : list mts) (id : tok) (found : option mts) : option mts :=
  match tasks with
  | [] => found
  | t :: r => last_task r id (if N.eqb (mt_id t) id then Some t else found)
  end.

Definition reconstruct (st : nstate) (round : tok) (p : payload) (batch src : tok)
           (parts : list (Z * (tok * list (tok * tok)))) : option (list rsig) :=
  match (match tget' (ns_srcs st) round with Some m => tget' m src | None => None end), p_dkg p with
  | Some tasks, Some dk =>
      let groups := group_signs parts [] in
      let one (g : tok * list tok) : option rsig :=
        let t := last_task tasks (fst g) None in
        let payload := match t with Some x => mt_payload x | None => 0%N end in
        let file := match t with Some x => mt_file x | None => 0%N end in
        match recover (dc_pubpoly dk) payload (snd g) (p_threshold p) with
        | Some sg => Some {| rs_file := file; rs_batch := batch; rs_msgid := fst g; rs_payload := payload;
                             rs_sig := sg; rs_user := 0%N; rs_round := round |}
        | None => None
        end in
      fold_right (fun g acc => match one g, acc with Some s, Some l => Some (s :: l) | _, _ => None end)
                 (Some []) groups
  | _, _ => None
  end.

(* do an event on a dump as the hand-over code does: FromDump then Do *)
Inductive fres := FOk (i : instance) (rstate : string) (rdata : option response) | FErr | FPanic.
Definition do_fresh (d : dump) (ev : string) (req : request) : fres :=
  match from_dump d with
  | LoadErr => FErr
  | LoadPanic => FPanic
  | LoadOk i =>
      match inst_do i ev req with
      | IRes i' rs rd false => FOk i' rs rd
      | IPanic => FPanic
      | _ => FErr
      end
  end.
Definition do_live (i : instance) (ev : string) (req : request) : fres :=
  match inst_do i ev req with
  | IRes i' rs rd false => FOk i' rs rd
  | IPanic => FPanic
  | _ => FErr
  end.

(* the participant a request speaks for *)
Definition req_pid (r : request) : option Z :=
  match r with
  | RPart pid _ | RData _ pid _ _ | RMaster pid _ _ _ | RError pid _ _ | RSigError pid _ _ _
  | RStart _ pid _ _ _ | RPartial _ pid _ _ => Some pid
  | _ => None
  end.
(* it must be the participant registered for the sender *)
Definition sender_is_participant (p : payload) (sender : tok) (r : request) : bool :=
  match req_pid r with
  | None => true
  | Some pid => negb (N.eqb sender 0) &&
                match tget (p_ids p) sender with Some id => Z.eqb id pid | None => false end
  end.

(* the lazy restart of a signing round found in a cancelled state: Do(restart) on the live instance *)
Definition pm_restart (now : Z) (m : message) (h : hs) (inst : instance) : res instance :=
  match do_live inst ev_sgn_restart (RDefault now) with
  | FOk i' _ _ => ROk h i'      (* not persisted here: the round is saved once the message is accepted *)
  | FErr => RErr h
  | FPanic => RPanic
  end.

(* ProcessMessage puts the operation into the pool before the round is saved; the messages a
   reinit message embeds are replayed without (their operations travel inside the reinit operation) *)
Definition put_opt (put : bool) (h : hs) (op : option operation) : hs :=
  match put, op with
  | true, Some o => match put_operation h o with ROk h' _ => h' | _ => h end
  | _, _ => h
  end.

(* a proposal is also recorded next to the signatures; then the operation is put and the round is persisted *)
Definition pm_prop (put : bool) (m : message) (req : request) (h : hs) (i4 : instance) (op : option operation)
  : res (option operation) :=
  let prop : res unit :=
    if String.eqb (m_event m) ev_sgn_start then
      match m_tasks m, req with
      | Some tasks, RStart batch _ _ _ src =>
          match save_signatures (emit h (WSrc (m_round m) src tasks))
                  (map (fun t => {| rs_file := mt_file t; rs_batch := batch; rs_msgid := mt_id t;
                                    rs_payload := mt_payload t; rs_sig := 0%N;
                                    rs_user := m_sender m; rs_round := m_round m |}) tasks) with
          | ROk h' _ => ROk h' tt
          | RErr h' => RErr h'
          | RPanic => RPanic
          end
      | _, _ => RErr h
      end
    else ROk h tt in
  match prop with
  | RPanic => RPanic
  | RErr h => RErr h
  | ROk h _ => ROk (save_fsm (put_opt put h op) (m_round m) (dump_of i4)) op
  end.

(* from the FSM call onwards *)
Definition pm_tail (put : bool) (now : Z) (m : message) (req : request) (h : hs) (inst : instance)
  : res (option operation) :=
  if negb (sender_is_participant (i_payload inst) (m_sender m) req) then RErr h else
  match do_live inst (m_event m) req with
  | FErr => RErr h
  | FPanic => RPanic
  | FOk i1 r1 x1 =>
    (* manual hand-overs *)
    let s2 := if String.eqb r1 st_collected then do_fresh (dump_of i1) ev_dkg_init (RDefault now) else FOk i1 r1 x1 in
    match s2 with
    | FErr => RErr h | FPanic => RPanic
    | FOk i2 r2 x2 =>
      let s3 := if String.eqb r2 st_master_collected then do_fresh (dump_of i2) ev_sgn_init (RDefault now) else FOk i2 r2 x2 in
      match s3 with
      | FErr => RErr h | FPanic => RPanic
      | FOk i3 r3 x3 =>
        (* operation for the airgapped machine, or reconstruction + broadcast *)
        let op := if mem_str r3 op_states then
                    match x3 with
                    | Some _ => Some {| op_round := m_round m; op_type := r3; op_payload := x3; op_reinit := None; op_extra := 0%N |}
                    | None => None
                    end
                  else None in
        if String.eqb r3 st_partial_collected then
          match x3 with
          | Some (RespSigningProcess batch src parts) =>
              match reconstruct (h_st h) (m_round m) (i_payload i3) batch src parts with
              | Some sigs =>
                  let h' := emit h (WSend {| o_round := m_round m; o_event := ev_sig_reconstructed;
                                             o_sender := ns_user (h_st h); o_recipient := 0%N;
                                             o_sigs := sigs; o_data := 0%N |}) in
                  match do_fresh (dump_of i3) ev_sgn_restart (RDefault now) with
                  | FErr => RErr h' | FPanic => RPanic
                  | FOk i4 _ _ => pm_prop put m req h' i4 op
                  end
              | None => RErr h
              end
          | _ => RErr h
          end
        else pm_prop put m req h i3 op
      end
    end
  end.

(* processMessage: returns the operation to put into the pool, if any *)
Definition process_message (put : bool) (now : Z) (h0 : hs) (m : message) : res (option operation) :=
  match get_instance h0 (m_round m) true with
  | RPanic => RPanic
  | RErr h => RErr h
  | ROk h inst =>
    let p := i_payload inst in
    if negb (String.eqb (m_event m) ev_sig_init) && negb (verify_ok (h_st h) p m) then RErr h else
    if String.eqb (m_event m) ev_sig_reconstructed then
      match m_req m with
      | MSigs (Some l) =>
          match save_signatures h (map (fun s => {| rs_file := rs_file s; rs_batch := rs_batch s; rs_msgid := rs_msgid s;
                                                    rs_payload := rs_payload s; rs_sig := rs_sig s;
                                                    rs_user := m_sender m; rs_round := m_round m |}) l) with
          | ROk h' _ => ROk h' None
          | RErr h' => RErr h'
          | RPanic => RPanic
          end
      | _ => RErr h
      end
    else if String.eqb (m_event m) ev_sig_recon_failed then
      match m_req m with
      | MFsm (RSigError _ _ _ _) => ROk h None
      | _ => RErr h
      end
    else
    (* state of the round ends in _error / _timeout: abort (DKG) or restart (signing) *)
    let dkg_has_error := match p_dkg p with
                         | Some dk => existsb (fun x => match dp_error (snd x) with Some _ => true | None => false end) (dc_quorum dk)
                         | None => false end in
    if has_suffix (i_dstate inst) "_error" && dkg_has_error then ROk h None else
    let step4 : res instance :=
      if has_suffix (i_dstate inst) "_error" && (match p_sgn p with Some _ => true | None => false end)
      then pm_restart now m h inst else ROk h inst in
    match step4 with
    | RPanic => RPanic
    | RErr h => RErr h
    | ROk h inst =>
      let st5 := i_dstate inst in
      if has_suffix st5 "_timeout" && (has_prefix st5 "state_sig_" || has_prefix st5 "state_dkg") then ROk h None else
      let step5 : res instance :=
        if has_suffix st5 "_timeout" && has_prefix st5 "state_signing_"
        then (match p_sgn (i_payload inst) with Some _ => pm_restart now m h inst | None => RPanic end)
        else ROk h inst in
      match step5 with
      | RPanic => RPanic
      | RErr h => RErr h
      | ROk h inst =>
        match m_req m with
        | MFsm req => pm_tail put now m req h inst
        | _ => RErr h
        end
      end
    end
  end.

(* ProcessMessage for an ordinary board message *)
Definition process_board_message (now : Z) (h0 : hs) (m : message) : res unit :=
  match process_message true now h0 m with
  | RPanic => RPanic
  | RErr h => RErr h
  | ROk h _ => ROk h tt
  end.

(* types.IsSigningEvent: the messages of the signing of batches are not part of what is restored *)
Definition is_signing_event (e : string) : bool :=
  String.eqb e ev_sgn_start || String.eqb e ev_sgn_partial || String.eqb e ev_sgn_error ||
  String.eqb e ev_sig_reconstructed || String.eqb e ev_sig_recon_failed.

(* reinitDKG *)
Fixpoint reinit_msgs (now : Z) (me : tok) (id : tok) (h : hs) (msgs : list message) (ops : list opref)
  : option (hs * list opref) :=
  match msgs with
  | [] => Some (h, ops)
  | m :: r =>
      (* messages of other rounds are skipped; so are the messages of the signing phase, one by one
         (a signing proposal refused while the key generation was under way does not end the replay) *)
      if negb (N.eqb (m_round m) id) then reinit_msgs now me id h r ops
      else if is_signing_event (m_event m) then reinit_msgs now me id h r ops
      else if N.eqb (m_recipient m) 0 || N.eqb (m_recipient m) me then
        match process_message false now h m with
        | RPanic => None
        | RErr h' => reinit_msgs now me id h' r ops
        | ROk h' None => reinit_msgs now me id h' r ops
        | ROk h' (Some o) => reinit_msgs now me id h' r
                               (ops ++ [{| or_round := op_round o; or_type := op_type o; or_payload := op_payload o |}])
        end
      else reinit_msgs now me id h r ops
  end.

Definition set_pubkeys (p : payload) (parts : list redkg_part) : payload :=
  {| p_threshold := p_threshold p; p_sig := p_sig p; p_dkg := p_dkg p; p_sgn := p_sgn p;
     p_pubkeys := fold_left (fun acc x => tput acc (rp_name x) (rp_newkey x)) parts (p_pubkeys p);
     p_ids := p_ids p |}.

Definition reinit_dkg (now : Z) (h0 : hs) (r : option redkg) : res unit :=
  match r with
  | None => RErr h0
  | Some rd =>
      (* a blank identifier names no round: refused before anything is written *)
      if N.eqb (rd_id rd) 0 then RErr h0 else
      match tget' (ns_rounds (h_st h0)) (rd_id rd) with
      | Some _ => ROk h0 tt
      | None =>
          let was_skip := ns_skip (h_st h0) in
          let h1 := if was_skip then h0 else emit h0 (WSkip true) in
          let fin (x : res unit) : res unit :=
            if was_skip then x else
            match x with
            | ROk h a => ROk (emit h (WSkip false)) a
            | RErr h => RErr (emit h (WSkip false))
            | RPanic => RPanic
            end in
          fin
          match reinit_msgs now (ns_user (h_st h1)) (rd_id rd) h1 (rd_msgs rd) [] with
          | None => RPanic
          | Some (h2, ops) =>
              let op := {| op_round := rd_id rd; op_type := ev_reinit; op_payload := None;
                           op_reinit := Some ops; op_extra := rd_hash rd |} in
              match put_operation h2 op with
              | RPanic => RPanic
              | RErr h => RErr h
              | ROk h3 _ =>
                  match get_instance h3 (rd_id rd) true with
                  | RPanic => RPanic
                  | RErr h => RErr h
                  | ROk h4 i =>
                      let d := {| d_state := i_dstate i; d_payload := set_pubkeys (i_payload i) (rd_parts rd) |} in
                      ROk (save_fsm h4 (rd_id rd) d) tt
                  end
              end
          end
      end
  end.

(* ---- local API: result of an operation coming back from the airgapped machine ---- *)
Record res_msg := { rm_event : string; rm_round : tok; rm_recipient : tok; rm_data : tok; rm_sender : tok }.
Record op_result := { ox_ident : operation;    (* the operation whose id the result carries *)
                      ox_op : operation;       (* round, type, payload as returned *)
                      ox_stored_bytes : tok;   (* token of the payload bytes of the operation with that id *)
                      ox_bytes : tok;          (* token of the payload bytes as returned *)
                      ox_event : string; ox_msgs : list res_msg; ox_extra : tok }.

Definition op_same_type (a b : operation) : bool := String.eqb (op_type a) (op_type b).

Definition execute_operation (h0 : hs) (x : op_result) : res unit :=
  if String.eqb (ox_event x) "" then RErr h0 else
  match find (op_same_id (ox_ident x)) (ops_visible (h_st h0)) with
  | None => RErr h0
  | Some stored =>
      (* Operation.Equal: id, type, payload and round must come back unchanged *)
      if negb (op_same_type stored (ox_op x) && N.eqb (ox_stored_bytes x) (ox_bytes x) &&
               N.eqb (op_round stored) (op_round (ox_op x)))
      then RErr h0 else
      (* only a reinit operation is answered by "processed" (nothing to post) *)
      if String.eqb (ox_event x) ev_processed && negb (String.eqb (op_type stored) ev_reinit)
      then RErr h0 else
      let body : res unit :=
        if negb (String.eqb (ox_event x) ev_processed) then
          ROk (fold_left (fun h rm => emit h (WSend {| o_round := rm_round rm; o_event := rm_event rm;
                                                        o_sender := ns_user (h_st h); o_recipient := rm_recipient rm;
                                                        o_sigs := []; o_data := rm_data rm |}))
                         (ox_msgs x) h0) tt
        else
          match get_instance h0 (op_round (ox_op x)) false with
          | RPanic => RPanic
          | RErr h => RErr h
          | ROk h i =>
              match p_dkg (i_payload i) with
              | None => RErr h         (* the round has not reached the key generation: refused *)
              | Some dk =>
                  let p := i_payload i in
                  let p' := {| p_threshold := p_threshold p; p_sig := p_sig p;
                               p_dkg := Some {| dc_quorum := dc_quorum dk; dc_created := dc_created dk;
                                                dc_updated := dc_updated dk; dc_expires := dc_expires dk;
                                                dc_pubpoly := ox_extra x |};
                               p_sgn := p_sgn p; p_pubkeys := p_pubkeys p; p_ids := p_ids p |} in
                  ROk (save_fsm h (op_round (ox_op x)) {| d_state := i_dstate i; d_payload := p' |}) tt
              end
          end in
      match body with
      | RPanic => RPanic
      | RErr h => RErr h
      | ROk h _ =>
          (* the tombstone records the operation as it came back (its ExtraData included) *)
          delete_operation h {| op_round := op_round stored; op_type := op_type stored; op_payload := op_payload stored;
                                op_reinit := op_reinit stored; op_extra := ox_extra x |}
      end
  end.

(* ---- inputs of a node and one step ---- *)
Inductive ninput :=
| InMsg (m : message)                                  (* Poll delivers a board message addressed to us *)
| InReinit (r : option redkg)                          (* a reinit_dkg board message *)
| InResult (x : op_result)                             (* POST of an operation result *)
| InRestart                                            (* process restart: volatile state is lost *)
| InCrashMsg (k : nat) (m : message)                   (* the process dies while handling m, after k durable writes *)
| InCrashResult (k : nat) (x : op_result).

(* durable writes (calls of state.Set / storage.Send); WSkip and WSrc are bookkeeping of the model *)
Definition is_durable (w : write) : bool :=
  match w with WSkip _ | WSrc _ _ _ => false | _ => true end.

(* the prefix of a trace that contains k durable writes (with the bookkeeping entries before them) *)
Fixpoint take_durable (k : nat) (tr : list write) : list write :=
  match tr with
  | [] => []
  | w :: r => if is_durable w then match k with O => [] | S k' => w :: take_durable k' r end
              else w :: take_durable k r
  end.

Definition trace_of {A} (r : res A) : list write :=
  match r with ROk h _ => h_tr h | RErr h => h_tr h | RPanic => [] end.

(* a crash after k durable writes of a handler, followed by a restart *)
Definition crash_after {A} (st : nstate) (k : nat) (r : res A) : res unit :=
  let st' := fold_left apply_write (take_durable k (trace_of r)) st in
  ROk (emit {| h_st := st'; h_tr := [] |} (WSkip false)) tt.

Definition node_step (now : Z) (st : nstate) (i : ninput) : res unit :=
  let h0 := {| h_st := st; h_tr := [] |} in
  match i with
  | InMsg m => process_board_message now h0 m
  | InReinit r => reinit_dkg now h0 r
  | InResult x => execute_operation h0 x
  | InRestart => ROk (emit h0 (WSkip false)) tt
  | InCrashMsg k m => crash_after st k (process_board_message now h0 m)
  | InCrashResult k x => crash_after st k (execute_operation h0 x)
  end.

Definition empty_node (user key : tok) : nstate :=
  {| ns_user := user; ns_key := key; ns_rounds := []; ns_ops := []; ns_deleted := []; ns_sigs := [];
     ns_board := []; ns_skip := false; ns_srcs := [] |}.

Definition state_after {A} (st : nstate) (r : res A) : option nstate :=
  match r with ROk h _ => Some (h_st h) | RErr h => Some (h_st h) | RPanic => None end.

(* ---- a whole history on a fresh node (differential case) ---- *)
Fixpoint node_run (st : nstate) (ins : list (Z * ninput)) (classes : list nat) (before : nstate)
  : list nat * nstate * nstate :=
  match ins with
  | [] => (classes, before, st)
  | (now, i) :: r =>
      match node_step now st i with
      | ROk h _ => node_run (h_st h) r (classes ++ [0%nat]) st
      | RErr h => node_run (h_st h) r (classes ++ [1%nat]) st
      | RPanic => node_run st r (classes ++ [2%nat]) st
      end
  end.
Definition node_case (user key : tok) (ins : list (Z * ninput)) : list nat * nstate * nstate :=
  node_run (empty_node user key) ins [] (empty_node user key).
