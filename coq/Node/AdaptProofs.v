From Coq Require Import String List NArith ZArith Bool Lia.
Require Import Fsm.EngineDefs Fsm.Types Fsm.Actions Node.Types Node.Process Node.Adapt.
Import ListNotations.
Local Open Scope string_scope.
Local Open Scope list_scope.

Definition st_out (st : list tok * Z * list amsg) : list amsg := snd st.
Definition st_off (st : list tok * Z * list amsg) : Z := snd (fst st).
Definition st_fixed (st : list tok * Z * list amsg) : list tok := fst (fst st).

(* ---- 1. the offsets of the adapted file are its positions ---- *)
Definition offsets_are_positions (l : list amsg) : Prop :=
  forall i m, nth_error l i = Some m -> am_offset m = Z.of_nat i.

Lemma positions_app2 l a b :
  offsets_are_positions l -> am_offset a = Z.of_nat (length l) -> (am_offset b = Z.of_nat (length l) + 1)%Z ->
  offsets_are_positions (l ++ [a; b]).
Proof.
  intros Hl Ha Hb i m Hn. destruct (Nat.lt_ge_cases i (length l)) as [Hlt|Hge].
  - rewrite nth_error_app1 in Hn by exact Hlt. apply Hl. exact Hn.
  - rewrite nth_error_app2 in Hn by exact Hge.
    destruct (i - length l)%nat as [|[|k]] eqn:E; cbn in Hn.
    + inversion Hn; subst. rewrite Ha. f_equal. lia.
    + inversion Hn; subst. rewrite Hb. lia.
    + destruct k; discriminate.
Qed.
Lemma positions_app1 l a :
  offsets_are_positions l -> am_offset a = Z.of_nat (length l) -> offsets_are_positions (l ++ [a]).
Proof.
  intros Hl Ha i m Hn. destruct (Nat.lt_ge_cases i (length l)) as [Hlt|Hge].
  - rewrite nth_error_app1 in Hn by exact Hlt. apply Hl. exact Hn.
  - rewrite nth_error_app2 in Hn by exact Hge.
    destruct (i - length l)%nat as [|k] eqn:E; cbn in Hn.
    + inversion Hn; subst. rewrite Ha. f_equal. lia.
    + destruct k; discriminate.
Qed.

Lemma adapt_fold_positions id msgs st :
  offsets_are_positions (st_out st) -> st_off st = Z.of_nat (length (st_out st)) ->
  let st' := fold_left (adapt_step id) msgs st in
  offsets_are_positions (st_out st') /\ st_off st' = Z.of_nat (length (st_out st')).
Proof.
  revert st. induction msgs as [|m r IH]; intros st Hp Ho; cbn [fold_left]; [auto|].
  apply IH; destruct st as [[fixed off] out]; unfold st_out, st_off in *; cbn [fst snd] in *; unfold adapt_step;
    destruct (needs_fix id fixed m); cbn [fst snd].
  - apply positions_app2; [exact Hp|cbn; exact Ho|cbn; lia].
  - apply positions_app1; [exact Hp|cbn; exact Ho].
  - rewrite app_length. cbn [length]. lia.
  - rewrite app_length. cbn [length]. lia.
Qed.

Theorem adapted_offsets_are_positions id msgs : offsets_are_positions (adapt id msgs).
Proof.
  unfold adapt. apply (adapt_fold_positions id msgs ([], 0%Z, [])); [|reflexivity].
  intros i m Hn. destruct i; discriminate.
Qed.

(* ---- 2. the messages of the file are all kept, in order; only their offsets change ---- *)
Definition forget_offset (m : amsg) : amsg := renumber m 0.

Lemma adapt_fold_originals id msgs st :
  let st' := fold_left (adapt_step id) msgs st in
  map forget_offset (filter (fun m => negb (am_synthetic m)) (st_out st')) =
  map forget_offset (filter (fun m => negb (am_synthetic m)) (st_out st)) ++
  map forget_offset (filter (fun m => negb (am_synthetic m)) msgs).
Proof.
  revert st. induction msgs as [|m r IH]; intros st; cbn [fold_left filter map]; [rewrite app_nil_r; reflexivity|].
  rewrite IH. destruct st as [[fixed off] out]. unfold st_out, adapt_step. cbn [snd].
  destruct (needs_fix id fixed m); cbn [snd]; rewrite filter_app, map_app; cbn [filter self_confirmation renumber am_synthetic negb];
    destruct (am_synthetic m) eqn:Es; cbn [negb map app]; rewrite <- ?app_assoc; cbn [app];
    rewrite ?app_nil_r; try reflexivity; unfold forget_offset, renumber; cbn; reflexivity.
Qed.

Lemma filter_originals msgs :
  (forall m, In m msgs -> am_synthetic m = false) -> filter (fun m => negb (am_synthetic m)) msgs = msgs.
Proof.
  induction msgs as [|m r IH]; intros Hall; [reflexivity|]. cbn [filter]. rewrite (Hall m (or_introl eq_refl)). cbn [negb].
  f_equal. apply IH. intros x Hx. apply Hall. right. exact Hx.
Qed.

Theorem adapted_keeps_the_file id msgs :
  (forall m, In m msgs -> am_synthetic m = false) ->
  map forget_offset (filter (fun m => negb (am_synthetic m)) (adapt id msgs)) = map forget_offset msgs.
Proof.
  intros Hall. unfold adapt.
  pose proof (adapt_fold_originals id msgs ([], 0%Z, [])) as H. cbn zeta in H. unfold st_out in H. rewrite H. cbn [snd filter map app].
  rewrite (filter_originals msgs Hall). reflexivity.
Qed.

(* ---- 3. every synthetic message is a deal of the restored round from its sender to itself ---- *)
Lemma adapt_fold_synthetic id msgs st :
  (forall x, In x (st_out st) -> am_synthetic x = true -> am_round x = id /\ am_event x = ev_deal /\ am_recipient x = am_sender x) ->
  (forall m, In m msgs -> am_synthetic m = false) ->
  forall x, In x (st_out (fold_left (adapt_step id) msgs st)) -> am_synthetic x = true ->
  am_round x = id /\ am_event x = ev_deal /\ am_recipient x = am_sender x.
Proof.
  revert st. induction msgs as [|m r IH]; intros st Hst Hms; cbn [fold_left]; [exact Hst|].
  apply IH; [|intros y Hy; apply Hms; right; exact Hy].
  destruct st as [[fixed off] out]. unfold st_out in *. cbn [snd] in *. unfold adapt_step.
  assert (Hm : am_synthetic m = false) by (apply Hms; left; reflexivity).
  destruct (needs_fix id fixed m) eqn:En; cbn [snd]; intros x Hx Hs; apply in_app_or in Hx as [Hx|Hx]; try (apply Hst; assumption).
  - destruct Hx as [<-|[<-|[]]].
    + unfold needs_fix in En. apply andb_prop in En as [En _]. apply andb_prop in En as [En _]. apply N.eqb_eq in En.
      cbn. auto.
    + cbn in Hs. congruence.
  - destruct Hx as [<-|[]]. cbn in Hs. congruence.
Qed.

Theorem synthetic_messages_belong_to_the_restored_round id msgs x :
  (forall m, In m msgs -> am_synthetic m = false) ->
  In x (adapt id msgs) -> am_synthetic x = true ->
  am_round x = id /\ am_event x = ev_deal /\ am_recipient x = am_sender x.
Proof.
  intros Hms. unfold adapt. apply (adapt_fold_synthetic id msgs ([], 0%Z, [])); [intros y []|exact Hms].
Qed.

(* ---- 4. one self-confirmation per sender that has a deal in the restored round - whatever other
   rounds' deals in that sender's name the file holds (before 5ae9baa a foreign deal used it up) ---- *)
Definition synthetic_of (s : tok) (l : list amsg) : nat :=
  length (filter (fun m => am_synthetic m && N.eqb (am_sender m) s) l).
Definition has_deal (id s : tok) (l : list amsg) : bool :=
  existsb (fun m => N.eqb (am_round m) id && N.eqb (am_sender m) s && String.eqb (am_event m) ev_deal) l.

Lemma synthetic_of_app s a b : synthetic_of s (a ++ b) = (synthetic_of s a + synthetic_of s b)%nat.
Proof. unfold synthetic_of. rewrite filter_app, app_length. reflexivity. Qed.

Definition deal_of (id s : tok) (m : amsg) : bool :=
  N.eqb (am_round m) id && N.eqb (am_sender m) s && String.eqb (am_event m) ev_deal.

Lemma adapt_step_count id s fixed off out m :
  am_synthetic m = false ->
  let st' := adapt_step id (fixed, off, out) m in
  synthetic_of s (st_out st') =
    (synthetic_of s out + (if negb (existsb (N.eqb s) fixed) && deal_of id s m then 1 else 0))%nat /\
  existsb (N.eqb s) (st_fixed st') = existsb (N.eqb s) fixed || deal_of id s m.
Proof.
  intros Hm. cbn zeta. unfold adapt_step, needs_fix, deal_of, st_out, st_fixed.
  destruct (N.eqb_spec (am_round m) id) as [Er|Er]; cbn [andb].
  2:{ cbn [fst snd]. rewrite synthetic_of_app. unfold synthetic_of at 2. cbn [filter renumber am_synthetic]. rewrite Hm.
      cbn [andb length]. rewrite andb_false_r, orb_false_r. split; [lia|reflexivity]. }
  destruct (String.eqb (am_event m) ev_deal) eqn:Ee.
  2:{ rewrite !andb_false_r. cbn [fst snd]. rewrite synthetic_of_app. unfold synthetic_of at 2. cbn [filter renumber am_synthetic]. rewrite Hm.
      cbn [andb length]. rewrite orb_false_r. split; [lia|reflexivity]. }
  rewrite !andb_true_r.
  destruct (existsb (N.eqb (am_sender m)) fixed) eqn:Ef; cbn [negb fst snd].
  - rewrite synthetic_of_app. unfold synthetic_of at 2. cbn [filter renumber am_synthetic]. rewrite Hm. cbn [andb length].
    destruct (N.eqb_spec (am_sender m) s) as [Es|Es].
    + subst s. rewrite Ef. cbn [negb andb orb]. split; [lia|reflexivity].
    + rewrite andb_false_r, orb_false_r. split; [lia|reflexivity].
  - rewrite synthetic_of_app. unfold synthetic_of at 2.
    cbn [filter self_confirmation renumber am_synthetic am_sender]. rewrite Hm. cbn [andb existsb].
    destruct (N.eqb_spec (am_sender m) s) as [Es|Es].
    + subst s. rewrite N.eqb_refl, Ef. cbn [length negb andb orb]. split; [lia|reflexivity].
    + assert (E2 : N.eqb s (am_sender m) = false) by (apply N.eqb_neq; congruence).
      rewrite E2. cbn [length orb]. rewrite andb_false_r, orb_false_r. split; [lia|reflexivity].
Qed.

Lemma has_deal_cons id s m r : has_deal id s (m :: r) = deal_of id s m || has_deal id s r.
Proof. reflexivity. Qed.

Lemma adapt_fold_count id s msgs st :
  (forall m, In m msgs -> am_synthetic m = false) ->
  let st' := fold_left (adapt_step id) msgs st in
  synthetic_of s (st_out st') =
  (synthetic_of s (st_out st) + (if negb (existsb (N.eqb s) (st_fixed st)) && has_deal id s msgs then 1 else 0))%nat /\
  (existsb (N.eqb s) (st_fixed st') = existsb (N.eqb s) (st_fixed st) || has_deal id s msgs).
Proof.
  revert st. induction msgs as [|m r IH]; intros st Hms; cbn [fold_left].
  - cbn [has_deal existsb]. rewrite andb_false_r, orb_false_r. cbn zeta. split; [lia|reflexivity].
  - assert (Hm : am_synthetic m = false) by (apply Hms; left; reflexivity).
    assert (Hr : forall y, In y r -> am_synthetic y = false) by (intros y Hy; apply Hms; right; exact Hy).
    specialize (IH (adapt_step id st m) Hr). cbn zeta in IH |- *. destruct IH as [IH1 IH2]. rewrite IH1, IH2. clear IH1 IH2.
    destruct st as [[fixed off] out].
    destruct (adapt_step_count id s fixed off out m Hm) as [C1 C2]. cbn zeta in C1, C2. rewrite C1, C2.
    rewrite has_deal_cons. unfold st_out, st_fixed. cbn [fst snd].
    destruct (existsb (N.eqb s) fixed); destruct (deal_of id s m); destruct (has_deal id s r); cbn [negb andb orb]; split; try lia; reflexivity.
Qed.

Theorem one_self_confirmation_per_dealer_of_the_round id s msgs :
  (forall m, In m msgs -> am_synthetic m = false) ->
  synthetic_of s (adapt id msgs) = if has_deal id s msgs then 1%nat else 0%nat.
Proof.
  intros Hms. unfold adapt. destruct (adapt_fold_count id s msgs ([], 0%Z, []) Hms) as [H _].
  cbn zeta in H. unfold st_out, st_fixed, synthetic_of in H |- *. cbn [fst snd filter length existsb negb andb] in H.
  unfold synthetic_of. rewrite H. destruct (has_deal id s msgs); reflexivity.
Qed.
