(* client/types Operation.Filename (repaired by 28a7d4a, 3a9e4b1, 1b86b05): the name of the file an
   operation and its result travel in is built from identifiers that come from the board.  Go strings
   are byte lists; strings.Map walks them rune by rune (UTF-8, an invalid byte is one rune).
   Definitions only. *)
From Coq Require Import String Ascii List NArith ZArith Bool.
Require Import Lib.GoStr.
Import ListNotations.
Local Open Scope N_scope.

Definition in_range (b lo hi : N) : bool := (lo <=? b) && (b <=? hi).
Definition cont (b : N) : bool := in_range b 128 191.

(* width in bytes of the rune at the head of a non-empty string (unicode/utf8 DecodeRuneInString):
   an encoding that is invalid or cut short is ONE byte wide *)
Definition rune_width (s : list N) : nat :=
  match s with
  | [] => 0
  | b0 :: r =>
      if b0 <? 128 then 1%nat
      else if in_range b0 194 223 then
        match r with b1 :: _ => if cont b1 then 2%nat else 1%nat | _ => 1%nat end
      else if in_range b0 224 239 then
        match r with
        | b1 :: b2 :: _ =>
            let lo := if b0 =? 224 then 160 else 128 in
            let hi := if b0 =? 237 then 159 else 191 in
            if in_range b1 lo hi && cont b2 then 3%nat else 1%nat
        | _ => 1%nat
        end
      else if in_range b0 240 244 then
        match r with
        | b1 :: b2 :: b3 :: _ =>
            let lo := if b0 =? 240 then 144 else 128 in
            let hi := if b0 =? 244 then 143 else 191 in
            if in_range b1 lo hi && cont b2 && cont b3 then 4%nat else 1%nat
        | _ => 1%nat
        end
      else 1%nat
  end.

(* the characters fileNamePart keeps: letters, digits, '.', '_', '-' *)
Definition safe_char (b : N) : bool :=
  in_range b 97 122 || in_range b 65 90 || in_range b 48 57 || (b =? 46) || (b =? 95) || (b =? 45).

(* fileNamePart: every other rune becomes '_' (fuel: the length of the string is enough) *)
Fixpoint file_name_part_fuel (fuel : nat) (s : list N) : list N :=
  match fuel, s with
  | O, _ => []
  | _, [] => []
  | S f, b0 :: _ =>
      let w := rune_width s in
      (if (b0 <? 128) && safe_char b0 then b0 else 95) :: file_name_part_fuel f (skipn w s)
  end.
Definition file_name_part (s : list N) : list N := file_name_part_fuel (length s) s.

(* shortID: at most the first five BYTES *)
Definition short_id (s : list N) : list N := if Nat.ltb 5 (length s) then firstn 5 s else s.

Definition str (s : String.string) : list N :=
  List.map (fun a => N.of_nat (Ascii.nat_of_ascii a)) (String.list_ascii_of_string s).

(* the operation types, as getStepNumber / getShortOperationDescription distinguish them *)
Inductive fkind := FInvite | FCommits | FDeals | FResponses | FMaster | FSign | FCollected | FReinit | FUnknown.
Definition step_number (k : fkind) : Z :=
  match k with
  | FCommits | FInvite | FSign => 1 | FDeals | FCollected => 2 | FResponses => 3 | FMaster => 4
  | FReinit => 0 | FUnknown => -1 end%Z.
Definition description (k : fkind) : list N :=
  str match k with
      | FInvite => "confirm_participation" | FCommits => "send_commits_for_the_DKG_round"
      | FDeals => "send_deals_for_the_DKG_round" | FResponses => "send_responses_for_the_DKG_round"
      | FMaster => "reconstruct_the_public_key_and_broadcast_it" | FSign => "partial_sign"
      | FCollected => "recover_full_signature" | FReinit => "reinit_DKG" | FUnknown => "unknown_operation"
      end%string.

(* Filename: batch = Some id for a signing operation whose payload decodes *)
Definition file_name (k : fkind) (round id : list N) (batch : option (list N)) : list N :=
  str "dkg_id_" ++ file_name_part (short_id round) ++
  (match batch with Some b => str "_signing_id_" ++ file_name_part b | None => [] end) ++
  str "_step_" ++ dec_of_Z (step_number k) ++ str "_" ++ description k ++ str "_" ++ file_name_part (short_id id).
