(* C14 (open finding): a state reset requested over the local API against the poller.
   node_service.go Poll: per tick LoadOffset, GetMessages(offset), then for every message
   ProcessMessage and SaveOffset(message.Offset+1) - every call goes to "the current state";
   fsmservice.ResetFSMState -> LevelDBState.Reset swaps a FRESH database (offset 0, no rounds) under
   the same state object.  Nothing makes the poller's [ProcessMessage; SaveOffset] pair, or its tick,
   exclusive with the swap.  Definitions only. *)
From Coq Require Import List Arith Bool.
Import ListNotations.

(* a database: the saved offset and the board positions delivered to it, in order of delivery *)
Record db := { d_off : nat; d_del : list nat }.
Definition fresh_db : db := {| d_off := 0; d_del := [] |}.

Inductive ppc := PIdle | PProcess (m : nat) (rest : list nat) | PSave (m : nat) (rest : list nat).

Record world := { w_old : db; w_new : db; w_swapped : bool; w_pc : ppc }.

Definition cur (w : world) : db := if w_swapped w then w_new w else w_old w.
Definition set_cur (w : world) (d : db) (pc : ppc) : world :=
  if w_swapped w then {| w_old := w_old w; w_new := d; w_swapped := true; w_pc := pc |}
  else {| w_old := d; w_new := w_new w; w_swapped := false; w_pc := pc |}.

(* the board positions from k on, for a board of n messages *)
Definition from (n k : nat) : list nat := seq k (n - k).

Definition next_of (rest : list nat) : ppc :=
  match rest with [] => PIdle | m :: r => PProcess m r end.

(* one step of the poller on a board of n messages *)
Definition poll_step (n : nat) (w : world) : world :=
  match w_pc w with
  | PIdle => set_cur w (cur w) (next_of (from n (d_off (cur w))))            (* LoadOffset; GetMessages *)
  | PProcess m rest => set_cur w {| d_off := d_off (cur w); d_del := d_del (cur w) ++ [m] |} (PSave m rest)
  | PSave m rest => set_cur w {| d_off := S m; d_del := d_del (cur w) |} (next_of rest)
  end.

(* the reset: one atomic swap (the first request only; a second one is not modelled) *)
Definition reset_step (w : world) : world :=
  if w_swapped w then w
  else {| w_old := w_old w; w_new := fresh_db; w_swapped := true; w_pc := w_pc w |}.

(* a schedule: true = the reset request is served, false = the poller moves *)
Definition step (n : nat) (w : world) (b : bool) : world := if b then reset_step w else poll_step n w.
Definition run (n : nat) (sched : list bool) (w : world) : world := fold_left (step n) sched w.

(* the node has already handled the first k messages of the board and is between two ticks *)
Definition start (k : nat) : world :=
  {| w_old := {| d_off := k; d_del := seq 0 k |}; w_new := fresh_db; w_swapped := false; w_pc := PIdle |}.

(* a board of n messages, the first k handled: the reset is served after p poller steps, then the poller
   runs q more steps *)
Definition reset_after (n k p q : nat) : world := run n (repeat false p ++ [true] ++ repeat false q) (start k).

(* what the fresh state has been given when the node has come to rest *)
Definition replayed_all (n : nat) (w : world) : bool :=
  Nat.eqb (d_off (w_new w)) n && (if list_eq_dec Nat.eq_dec (d_del (w_new w)) (seq 0 n) then true else false).
