From Coq Require Import List NArith ZArith Bool Arith Lia.
Require Import Node.Serial Node.SerialLock.
Import ListNotations.

Lemma nl_eqb_eq a b : nl_eqb a b = true -> a = b.
Proof.
  revert b. induction a as [|x a IH]; intros [|y b]; cbn; try discriminate; [reflexivity|].
  intros H. apply andb_prop in H as [H1 H2]. apply Nat.eqb_eq in H1. rewrite H1, (IH b H2). reflexivity.
Qed.

Lemma ls_eqb_eq s t : ls_eqb s t = true -> s = t.
Proof.
  unfold ls_eqb. intros H.
  repeat (apply andb_prop in H as [H ?]).
  destruct s as [[o1 d1] [pa da oa aa] [pb db ob ab] lk pa' pb'], t as [[o2 d2] [qa ea fa ga] [qb eb fb gb] lk2 qa' qb']. cbn in *.
  repeat match goal with
         | H : nl_eqb _ _ = true |- _ => apply nl_eqb_eq in H
         | H : Nat.eqb _ _ = true |- _ => apply Nat.eqb_eq in H
         | H : Bool.eqb _ _ = true |- _ => apply Bool.eqb_prop in H
         end.
  subst. reflexivity.
Qed.

Lemma ls_mem_In s l : ls_mem s l = true -> In s l.
Proof.
  unfold ls_mem. intros H. apply existsb_exists in H as (t & Hin & He). apply ls_eqb_eq in He. subst. exact Hin.
Qed.

(* the reachable set is closed under both threads' steps (checked by computation) *)
Lemma reachable_closed :
  forallb (fun s => ls_mem (lkstep s true) reachable && ls_mem (lkstep s false) reachable) reachable = true.
Proof. vm_compute. reflexivity. Qed.

Lemma init_reachable : ls_mem linit0 reachable = true.
Proof. vm_compute. reflexivity. Qed.

Theorem every_schedule_stays_reachable sched : In (lkrun sched) reachable.
Proof.
  unfold lkrun.
  assert (H : forall s, In s reachable -> In (fold_left lkstep sched s) reachable).
  { induction sched as [|w r IH]; intros s Hs; cbn [fold_left]; [exact Hs|].
    apply IH. pose proof reachable_closed as Hc. rewrite forallb_forall in Hc. specialize (Hc s Hs).
    apply andb_prop in Hc as [H1 H2]. destruct w; apply ls_mem_In; assumption. }
  apply H. apply ls_mem_In. exact init_reachable.
Qed.

(* in every reachable state: the two handlers are never inside their sections together, and once
   both have finished the new operation is pending and the retired one is not *)
Lemma reachable_facts :
  forallb (fun s => negb (Nat.eqb (l_apc s) 1 && Nat.eqb (l_bpc s) 1) &&
                    (negb (Nat.eqb (l_apc s) 2 && Nat.eqb (l_bpc s) 2) || nl_eqb (pending_of s) [2]))
          reachable = true.
Proof. vm_compute. reflexivity. Qed.

Theorem locked_handlers_serialisable sched :
  let s := lkrun sched in
  ~ (l_apc s = 1 /\ l_bpc s = 1) /\ (l_apc s = 2 -> l_bpc s = 2 -> pending_of s = [2]).
Proof.
  intros s. pose proof (every_schedule_stays_reachable sched) as Hr. fold s in Hr.
  pose proof reachable_facts as Hf. rewrite forallb_forall in Hf. specialize (Hf s Hr).
  apply andb_prop in Hf as [H1 H2]. split.
  - intros [Ha Hb]. rewrite Ha, Hb in H1. discriminate.
  - intros Ha Hb. rewrite Ha, Hb in H2. cbn in H2. apply nl_eqb_eq in H2. exact H2.
Qed.

(* non-vacuity: a schedule that tries to switch inside the request's section still ends with [2] *)
Example locked_example :
  let s := lkrun [true; true; true; false; false; true; true; true; true; true; true; true; false; false; false; false; false; false; false] in
  l_apc s = 2 /\ l_bpc s = 2 /\ pending_of s = [2].
Proof. vm_compute. repeat split. Qed.

(* regenerated from the source on every run: both handlers take the node's procMu as their first
   statement and release it on return *)
Require Gen.Skeletons.
Lemma handlers_locked_ok :
  Gen.Skeletons.process_message_locked && Gen.Skeletons.execute_operation_locked = true.
Proof. reflexivity. Qed.
