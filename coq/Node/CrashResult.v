(* C13: a node killed INSIDE the handling of an operation result (executeOperation: the result's
   messages are posted one by one, then the operation is retired - tombstone, then pool).  Wherever
   the process dies, the operation is still pending (the answer can be submitted again) or every
   message of the answer is on the board: an answer is never lost, at worst posted twice. *)
From Coq Require Import String List NArith ZArith Bool Lia.
Require Import Fsm.EngineDefs Fsm.Types Fsm.Engine Fsm.Actions Fsm.Provider Node.Types Node.Process Node.Facts Node.Crash.
Import ListNotations.
Local Open Scope string_scope.
Local Open Scope list_scope.

Definition out_of (user : tok) (rm : res_msg) : out_msg :=
  {| o_round := rm_round rm; o_event := rm_event rm; o_sender := user;
     o_recipient := rm_recipient rm; o_sigs := []; o_data := rm_data rm |}.

Lemma sends_of_map user msgs : sends_of user msgs = map (fun rm => WSend (out_of user rm)) msgs.
Proof. reflexivity. Qed.

(* the trace of an accepted result that is not the "processed" answer of a reinit operation *)
Lemma execute_trace st x h :
  execute_operation {| h_st := st; h_tr := [] |} x = ROk h tt -> ox_event x <> ev_processed ->
  exists d o, h_tr h = sends_of (ns_user st) (ox_msgs x) ++ [WDeleted d; WOps o].
Proof.
  unfold execute_operation. cbn [h_st].
  destruct (String.eqb (ox_event x) ""); [discriminate|].
  destruct (find (op_same_id (ox_ident x)) (ops_visible st)) as [stored|]; [|discriminate].
  destruct (negb (op_same_type stored (ox_op x) && N.eqb (ox_stored_bytes x) (ox_bytes x) && N.eqb (op_round stored) (op_round (ox_op x)))); [discriminate|].
  intros H Hnp. apply String.eqb_neq in Hnp. rewrite Hnp in H. cbn [negb andb] in H.
  pose proof (fold_emit_sends {| h_st := st; h_tr := [] |} (ox_msgs x)) as Hf. cbn zeta in Hf.
  set (h1 := fold_left _ (ox_msgs x) {| h_st := st; h_tr := [] |}) in *.
  destruct Hf as (F1 & _). cbn [h_tr h_st app] in F1.
  unfold delete_operation in H. destruct (existsb _ (ns_deleted (h_st h1))); [discriminate|].
  inversion H; subst. cbn [emit h_tr]. rewrite F1, <- app_assoc. eexists. eexists. reflexivity.
Qed.

Lemma take_durable_firstn k tr : forallb is_durable tr = true -> take_durable k tr = firstn k tr.
Proof.
  revert k. induction tr as [|w r IH]; intros k H; [destruct k; reflexivity|].
  cbn [forallb] in H. apply andb_prop in H as [Hw Hr]. cbn [take_durable]. rewrite Hw.
  destruct k; [reflexivity|]. cbn [firstn]. rewrite IH by exact Hr. reflexivity.
Qed.

Lemma sends_durable user msgs : forallb is_durable (sends_of user msgs) = true.
Proof. induction msgs as [|m r IH]; [reflexivity|]. cbn. exact IH. Qed.

(* posting changes the board only *)
Lemma fold_sends st user msgs :
  let st' := fold_left apply_write (sends_of user msgs) st in
  ns_board st' = ns_board st ++ map (out_of user) msgs /\ ns_ops st' = ns_ops st /\ ns_deleted st' = ns_deleted st.
Proof.
  rewrite sends_of_map. revert st. induction msgs as [|m r IH]; intros st; cbn [map fold_left].
  - rewrite app_nil_r. auto.
  - specialize (IH (apply_write st (WSend (out_of user m)))). cbn zeta in IH. destruct IH as (I1 & I2 & I3).
    cbn zeta. rewrite I1, I2, I3. cbn [apply_write ns_board ns_ops ns_deleted].
    rewrite <- app_assoc. auto.
Qed.

Lemma firstn_sends user msgs k : firstn k (sends_of user msgs) = sends_of user (firstn k msgs).
Proof. unfold sends_of. apply firstn_map. Qed.

Theorem killed_inside_execute st x h k hc u :
  execute_operation {| h_st := st; h_tr := [] |} x = ROk h tt -> ox_event x <> ev_processed ->
  crash_after st k (execute_operation {| h_st := st; h_tr := [] |} x) = ROk hc u ->
  (* the operation is as pending as it was: the same answer will be accepted again *)
  (ns_ops (h_st hc) = ns_ops st /\ ns_deleted (h_st hc) = ns_deleted st)
  \/
  (* or every message of the answer is on the board *)
  ns_board (h_st hc) = ns_board st ++ map (out_of (ns_user st)) (ox_msgs x).
Proof.
  intros Hx Hnp Hc. destruct (execute_trace st x h Hx Hnp) as (d & o & Htr).
  rewrite Hx in Hc. unfold crash_after in Hc. cbn [trace_of] in Hc. inversion Hc; subst hc. clear Hc.
  cbn [emit h_st apply_write ns_ops ns_deleted ns_board].
  rewrite Htr. rewrite take_durable_firstn.
  2:{ rewrite forallb_app, sends_durable. reflexivity. }
  set (n := length (ox_msgs x)).
  assert (Hlen : length (sends_of (ns_user st) (ox_msgs x)) = n) by (unfold sends_of; rewrite map_length; reflexivity).
  destruct (Nat.le_gt_cases k n) as [Hle|Hgt].
  - left. rewrite firstn_app. replace (k - length (sends_of (ns_user st) (ox_msgs x)))%nat with 0%nat by lia.
    cbn [firstn]. rewrite app_nil_r, firstn_sends.
    destruct (fold_sends st (ns_user st) (firstn k (ox_msgs x))) as (_ & G2 & G3). auto.
  - right. rewrite firstn_app, firstn_all2 by lia. rewrite fold_left_app.
    destruct (fold_sends st (ns_user st) (ox_msgs x)) as (G1 & _ & _). cbn zeta in G1.
    set (st1 := fold_left apply_write (sends_of (ns_user st) (ox_msgs x)) st) in *.
    assert (Hb : forall l s, (forall w, In w l -> match w with WDeleted _ | WOps _ => True | _ => False end) ->
                             ns_board (fold_left apply_write l s) = ns_board s).
    { induction l as [|w r IH]; intros s Hl; cbn [fold_left]; [reflexivity|].
      rewrite IH by (intros w' Hw'; apply Hl; right; exact Hw').
      specialize (Hl w (or_introl eq_refl)). destruct w; try contradiction; reflexivity. }
    rewrite Hb; [exact G1|].
    intros w Hw. assert (Hin : In w [WDeleted d; WOps o]).
    { rewrite <- (firstn_skipn (k - length (sends_of (ns_user st) (ox_msgs x))) [WDeleted d; WOps o]).
      apply in_or_app. left. exact Hw. }
    destruct Hin as [<-|[<-|[]]]; exact I.
Qed.
