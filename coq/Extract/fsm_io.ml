(* parsing and printing of FSM dumps, requests, responses in the format shared with the harness *)
module M = Model
open Conv

(* Coq strings *)
let coq_string_of (s : string) : M.string =
  let rec go i = if i >= String.length s then M.EmptyString
    else
      let c = Char.code s.[i] in
      let b k = (c lsr k) land 1 = 1 in
      M.String (M.Ascii (b 0, b 1, b 2, b 3, b 4, b 5, b 6, b 7), go (i + 1)) in
  go 0
let string_of_coq (s : M.string) : string =
  let buf = Buffer.create 32 in
  let rec go s = match s with
    | M.EmptyString -> ()
    | M.String (M.Ascii (b0, b1, b2, b3, b4, b5, b6, b7), r) ->
      let v x k = if x then 1 lsl k else 0 in
      Buffer.add_char buf (Char.chr (v b0 0 + v b1 1 + v b2 2 + v b3 3 + v b4 4 + v b5 5 + v b6 6 + v b7 7));
      go r in
  go s; Buffer.contents buf

let st_in (s : string) : M.string = coq_string_of (if s = "-" then "" else s)
let st_out (s : M.string) : string = let x = string_of_coq s in if x = "" then "-" else x

(* a cursor over whitespace separated fields *)
type cur = { a : string array; mutable i : int }
let next c = let x = c.a.(c.i) in c.i <- c.i + 1; x
let next_int c = int_of_string (next c)
let next_z c = z_of_dec (next c)
let next_n c = n_of_int (next_int c)
let rep (k : int) (f : unit -> 'a) : 'a list = List.init k (fun _ -> f ())
let next_opt_tok c = let x = next_int c in if x < 0 then None else Some (n_of_int x)

let parse_signs c = let m = next_int c in rep m (fun () -> let a = next_n c in let b = next_n c in (a, b))

let parse_dump (c : cur) : M.dump =
  let state = st_in (next c) in
  let thr = next_z c in
  let sg =
    if next_int c = 0 then None else begin
      let created = next_z c in let updated = next_z c in let expires = next_z c in
      let n = next_int c in
      let q = rep n (fun () ->
          let id = next_z c in let name = next_n c in let pk = next_n c in let dpk = next_n c in
          let status = next_n c in let thr = next_z c in let upd = next_z c in
          (id, { M.sp_name = name; sp_pubkey = pk; sp_dkgpub = dpk; sp_status = status; sp_threshold = thr; sp_updated = upd })) in
      Some { M.sc_quorum = q; sc_created = created; sc_updated = updated; sc_expires = expires } end in
  let dk =
    if next_int c = 0 then None else begin
      let created = next_z c in let updated = next_z c in let expires = next_z c in
      let poly = next_n c in
      let n = next_int c in
      let q = rep n (fun () ->
          let id = next_z c in let name = next_n c in let dpk = next_n c in let commit = next_n c in
          let deal = next_n c in let resp = next_n c in let master = next_n c in let status = next_n c in
          let err = next_opt_tok c in let upd = next_z c in
          (id, { M.dp_name = name; dp_dkgpub = dpk; dp_commit = commit; dp_deal = deal; dp_response = resp;
                 dp_master = master; dp_status = status; dp_error = err; dp_updated = upd })) in
      Some { M.dc_quorum = q; dc_created = created; dc_updated = updated; dc_expires = expires; dc_pubpoly = poly } end in
  let sn =
    if next_int c = 0 then None else begin
      let batch = next_n c in let initiator = next_z c in let src = next_n c in
      let created = next_z c in let updated = next_z c in let expires = next_z c in
      let n = next_int c in
      let q = rep n (fun () ->
          let id = next_z c in let name = next_n c in let status = next_n c in let err = next_opt_tok c in
          let upd = next_z c in let signs = parse_signs c in
          (id, { M.gp_name = name; gp_status = status; gp_signs = signs; gp_error = err; gp_updated = upd })) in
      Some { M.gc_batch = batch; gc_initiator = initiator; gc_quorum = q; gc_src = src;
             gc_created = created; gc_updated = updated; gc_expires = expires } end in
  let npk = next_int c in
  let pks = rep npk (fun () -> let a = next_n c in let b = next_n c in (a, b)) in
  let nid = next_int c in
  let ids = rep nid (fun () -> let a = next_n c in let b = next_z c in (a, b)) in
  { M.d_state = state;
    d_payload = { M.p_threshold = thr; p_sig = sg; p_dkg = dk; p_sgn = sn; p_pubkeys = pks; p_ids = ids } }

let parse_req (c : cur) : M.request =
  match next c with
  | "list" ->
    let n = next_int c in
    let ps = rep n (fun () ->
        let name = next_n c in let nl = next_z c in let pk = next_n c in let pl = next_z c in
        let dpk = next_n c in let dl = next_z c in
        { M.pe_name = name; pe_name_len = nl; pe_pk = pk; pe_pk_len = pl; pe_dpk = dpk; pe_dpk_len = dl }) in
    let thr = next_z c in let created = next_z c in
    M.RList (ps, thr, created)
  | "part" -> let pid = next_z c in let t = next_z c in M.RPart (pid, t)
  | "default" -> M.RDefault (next_z c)
  | "data" -> let k = next_n c in let pid = next_z c in let d = next_n c in let t = next_z c in M.RData (k, pid, d, t)
  | "master" -> let pid = next_z c in let k = next_n c in let p = next_n c in let t = next_z c in M.RMaster (pid, k, p, t)
  | "error" -> let pid = next_z c in let e = next_opt_tok c in let t = next_z c in M.RError (pid, e, t)
  | "sigerror" -> let pid = next_z c in let e = next_opt_tok c in let t = next_z c in let b = next_n c in M.RSigError (pid, e, t, b)
  | "start" ->
    let batch = next_n c in let pid = next_z c in let t = next_z c in
    let n = next_int c in
    let tasks = rep n (fun () ->
        let il = next_z c in let pl = next_z c in let s = next_z c in let e = next_z c in
        { M.tv_idlen = il; tv_paylen = pl; tv_start = s; tv_end = e }) in
    let src = next_n c in
    M.RStart (batch, pid, t, tasks, src)
  | "partial" ->
    let batch = next_n c in let pid = next_z c in
    let signs = parse_signs c in
    let t = next_z c in
    M.RPartial (batch, pid, signs, t)
  | "bad" -> M.RBad
  | x -> failwith ("unknown request kind " ^ x)

(* ---- printing ---- *)
let si = string_of_int
let pn x = si (int_of_n x)
let pz x = dec_of_z x
let opt_tok = function None -> "-1" | Some t -> pn t
let sort_pairs l = List.sort (fun (a, _) (b, _) -> compare a b) l
let show_signs (l : (M.n * M.n) list) : string =
  let l = sort_pairs (List.map (fun (a, b) -> (int_of_n a, int_of_n b)) l) in
  String.concat " " (si (List.length l) :: List.map (fun (a, b) -> si a ^ " " ^ si b) l)

let show_dump (state : M.string) (p : M.payload) : string =
  let b = Buffer.create 256 in
  let add s = Buffer.add_string b s in
  add (st_out state); add " "; add (pz p.M.p_threshold);
  (match p.M.p_sig with
   | None -> add " 0"
   | Some c ->
     add (Printf.sprintf " 1 %s %s %s %d" (pz c.M.sc_created) (pz c.M.sc_updated) (pz c.M.sc_expires) (List.length c.M.sc_quorum));
     List.iter (fun (id, q) ->
         add (Printf.sprintf " %s %s %s %s %s %s %s" (pz id) (pn q.M.sp_name) (pn q.M.sp_pubkey) (pn q.M.sp_dkgpub)
                (pn q.M.sp_status) (pz q.M.sp_threshold) (pz q.M.sp_updated))) c.M.sc_quorum);
  (match p.M.p_dkg with
   | None -> add " 0"
   | Some c ->
     add (Printf.sprintf " 1 %s %s %s %s %d" (pz c.M.dc_created) (pz c.M.dc_updated) (pz c.M.dc_expires) (pn c.M.dc_pubpoly) (List.length c.M.dc_quorum));
     List.iter (fun (id, q) ->
         add (Printf.sprintf " %s %s %s %s %s %s %s %s %s %s" (pz id) (pn q.M.dp_name) (pn q.M.dp_dkgpub) (pn q.M.dp_commit)
                (pn q.M.dp_deal) (pn q.M.dp_response) (pn q.M.dp_master) (pn q.M.dp_status) (opt_tok q.M.dp_error) (pz q.M.dp_updated))) c.M.dc_quorum);
  (match p.M.p_sgn with
   | None -> add " 0"
   | Some c ->
     add (Printf.sprintf " 1 %s %s %s %s %s %s %d" (pn c.M.gc_batch) (pz c.M.gc_initiator) (pn c.M.gc_src) (pz c.M.gc_created)
            (pz c.M.gc_updated) (pz c.M.gc_expires) (List.length c.M.gc_quorum));
     List.iter (fun (id, q) ->
         add (Printf.sprintf " %s %s %s %s %s %s" (pz id) (pn q.M.gp_name) (pn q.M.gp_status) (opt_tok q.M.gp_error)
                (pz q.M.gp_updated) (show_signs q.M.gp_signs))) c.M.gc_quorum);
  let pks = sort_pairs (List.map (fun (a, x) -> (int_of_n a, int_of_n x)) p.M.p_pubkeys) in
  add (" " ^ String.concat " " (si (List.length pks) :: List.map (fun (a, x) -> si a ^ " " ^ si x) pks));
  let ids = sort_pairs (List.map (fun (a, x) -> (int_of_n a, int_of_z x)) p.M.p_ids) in
  add (" " ^ String.concat " " (si (List.length ids) :: List.map (fun (a, x) -> si a ^ " " ^ si x) ids));
  Buffer.contents b

let show_resp (r : M.response option) : string =
  match r with
  | None -> "-"
  | Some (M.RespInvitations l) ->
    String.concat " " (("inv " ^ si (List.length l)) ::
                       List.map (fun (pid, (name, (thr, (dpk, pk)))) -> Printf.sprintf "%s %s %s %s %s" (pz pid) (pn name) (pz thr) (pn dpk) (pn pk)) l)
  | Some (M.RespSigStatus l) ->
    let l = List.sort (fun (a, _) (b, _) -> compare (int_of_z a) (int_of_z b)) l in
    String.concat " " (("sigstatus " ^ si (List.length l)) ::
                       List.map (fun (pid, (name, st)) -> Printf.sprintf "%s %s %s" (pz pid) (pn name) (pn st)) l)
  | Some (M.RespDkgPubKeys l) ->
    String.concat " " (("dkgpub " ^ si (List.length l)) ::
                       List.map (fun (pid, (name, (dpk, thr))) -> Printf.sprintf "%s %s %s %s" (pz pid) (pn name) (pn dpk) (pz thr)) l)
  | Some (M.RespDkgData (k, l)) ->
    String.concat " " ((Printf.sprintf "dkgdata %s %d" (pn k) (List.length l)) ::
                       List.map (fun (pid, (name, d)) -> Printf.sprintf "%s %s %s" (pz pid) (pn name) (pn d)) l)
  | Some (M.RespSigningInvite (batch, ini, src, l)) ->
    String.concat " " ((Printf.sprintf "sgninvite %s %s %s %d" (pn batch) (pz ini) (pn src) (List.length l)) ::
                       List.map (fun (pid, (name, st)) -> Printf.sprintf "%s %s %s" (pz pid) (pn name) (pn st)) l)
  | Some (M.RespSigningProcess (batch, src, l)) ->
    String.concat " " ((Printf.sprintf "sgnprocess %s %s %d" (pn batch) (pn src) (List.length l)) ::
                       List.map (fun (pid, (name, signs)) -> Printf.sprintf "%s %s %s" (pz pid) (pn name) (show_signs signs)) l)

let class_name (k : M.nat) : string =
  match k with M.O -> "route" | M.S M.O -> "err" | _ -> "ok"

let show_obs (o : M.case_obs) : string =
  match o with
  | M.CLoadErr -> "fsm loaderr"
  | M.CPanic -> "fsm panic"
  | M.CObs (k, i, rs, rd) ->
    Printf.sprintf "fsm %s M=%s D=%s RS=%s R=%s | %s" (class_name k) (st_out i.M.i_cur) (st_out i.M.i_dstate)
      (st_out rs) (show_resp rd) (show_dump i.M.i_dstate i.M.i_payload)

(* "fsm <dump> | <event> <req>" *)
let run_fsm (fields : string list) : string =
  let c = { a = Array.of_list fields; i = 0 } in
  let d = parse_dump c in
  let bar = next c in
  if bar <> "|" then failwith "expected |";
  let ev = next c in
  let ev = if ev = "-" then "" else ev in
  let req = parse_req c in
  show_obs (M.fsm_case d (coq_string_of ev) req)

(* "mem <dump> | ev req ;; ev req ;; ..." : an in-memory walk, each step also done on a restored copy *)
let run_mem (fields : string list) : string =
  let c = { a = Array.of_list fields; i = 0 } in
  let d = parse_dump c in
  let bar = next c in
  if bar <> "|" then failwith "expected |";
  let steps = ref [] in
  while c.i < Array.length c.a do
    let ev = next c in
    let ev = if ev = "-" then "" else ev in
    let req = parse_req c in
    steps := (coq_string_of ev, req) :: !steps;
    if c.i < Array.length c.a then (let sep = next c in if sep <> ";;" then failwith "expected ;;")
  done;
  match M.mem_case d (List.rev !steps) with
  | None -> "mem loaderr"
  | Some l ->
    "mem " ^ String.concat " ;; " (List.map (fun (a, b) -> show_obs a ^ " ## " ^ show_obs b) l)
