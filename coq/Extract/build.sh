#!/bin/bash
# extracts the model and builds bin/modelrun (run from any directory)
set -e
cd "$(dirname "$0")"
timeout 900 coqc -Q .. "" Extract.v
ocamlfind ocamlopt -O3 -w -a model.mli model.ml conv.ml fsm_io.ml node_io.ml driver.ml -o ../../bin/modelrun
