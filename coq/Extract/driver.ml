(* modelrun: runs the extracted Coq model on case lines read from stdin and prints one
   observation line per case, in exactly the format the Go harness prints. *)
module M = Model
open Conv

(* ---- C17 ---- *)
let show_msg (m : M.msg_to_sign) : string =
  Printf.sprintf "id=%s file=%s payload=%s baked=%d"
    (hex_of_bytes m.M.ms_id) (hex_of_bytes m.M.ms_file) (hex_of_bytes m.M.ms_payload) (if m.M.ms_baked then 1 else 0)

let run_root (arg : string) : string =
  match M.model_signing_root (n_of_dec arg) with
  | Some r -> "root " ^ arg ^ " " ^ hex_of_bytes r
  | None -> "root " ^ arg ^ " ERR"

let run_pos (arg : string) : string =
  match M.reconstruct_baked (z_of_dec arg) with
  | M.BOk m -> "pos " ^ arg ^ " ok " ^ show_msg m
  | M.BErr _ -> "pos " ^ arg ^ " err"
  | M.BPanic -> "pos " ^ arg ^ " panic"

(* "board n {tag id len}* | k nid {id}* noff {off}*": sequential sends into an empty file, then a read *)
let run_board (fields : string list) : string =
  let open Fsm_io in
  let c = { a = Array.of_list fields; i = 0 } in
  let n = next_int c in
  let ms = rep n (fun () -> let tag = next_n c in let id = next_n c in let len = next_z c in ((tag, id), len)) in
  (match next c with "|" -> () | _ -> failwith "expected |");
  let k = next_z c in
  let nid = next_int c in
  let ids = rep nid (fun () -> next_n c) in
  let noff = next_int c in
  let offs = rep noff (fun () -> next_z c) in
  let f = List.fold_left (fun f m -> M.send_seq M.count_limit f m) [] ms in
  let offsets = String.concat "," (List.map (fun e -> pz e.M.e_offset) f) in
  let read = match M.get_messages M.read_limit f k ids offs with
    | None -> "error"
    | Some l -> String.concat "," (List.map (fun e -> pn e.M.e_tag) l) in
  Printf.sprintf "board offsets=%s read=%s" offsets read

(* "boardraw n {E tag claimed id len | J len}* | k nid {id}* noff {off}*": an arbitrary file, then a read *)
let run_boardraw (fields : string list) : string =
  let open Fsm_io in
  let c = { a = Array.of_list fields; i = 0 } in
  let n = next_int c in
  let f = rep n (fun () ->
      match next c with
      | "E" -> let tag = next_n c in let off = next_z c in let id = next_n c in let len = next_z c in
        M.LEntry { M.e_tag = tag; e_offset = off; e_id = id; e_len = len }
      | "J" -> let len = next_z c in M.LJunk len
      | _ -> failwith "expected E or J") in
  (match next c with "|" -> () | _ -> failwith "expected |");
  let k = next_z c in
  let nid = next_int c in
  let ids = rep nid (fun () -> next_n c) in
  let noff = next_int c in
  let offs = rep noff (fun () -> next_z c) in
  match M.get_messages_raw M.read_limit f k ids offs with
  | None -> "boardraw error"
  | Some l -> "boardraw read=" ^ String.concat "," (List.map (fun e -> pn e.M.e_tag ^ "@" ^ pz e.M.e_offset) l)

let export_line (o : (M.n * M.exported) list option) : string =
  match o with
  | None -> "export refused"
  | Some out ->
    let out = List.sort (fun (a, _) (b, _) -> compare (int_of_n a) (int_of_n b)) out in
    "export " ^ String.concat "," (List.map (fun (id, e) ->
        Printf.sprintf "%s:%s:%s:%s" (Fsm_io.pn id) (Fsm_io.pn e.M.ex_payload) (Fsm_io.pn e.M.ex_sig) (Fsm_io.pn e.M.ex_file)) out)

let handle (line : string) : string =
  match split line with
  | "root" :: a :: _ -> run_root a
  | "pos" :: a :: _ -> run_pos a
  | "fsm" :: rest -> Fsm_io.run_fsm rest
  | "mem" :: rest -> Fsm_io.run_mem rest
  | "node" :: rest -> Node_io.run_node rest
  | "final" :: rest -> Node_io.run_node ("final" :: rest)
  | "board" :: rest -> run_board rest
  | "boardraw" :: rest -> run_boardraw rest
  | "tasks" :: rest ->
    let a = Array.of_list rest in
    let n = int_of_string a.(0) in
    let hx s = if s = "-" then [] else bytes_of_hex s in
    let ts = List.init n (fun k ->
        let b = 1 + 5 * k in
        let payload = if a.(b + 2) = "nil" then None else Some (hx (String.sub a.(b + 2) 2 (String.length a.(b + 2) - 2))) in
        { M.tk_id = hx a.(b); tk_file = hx a.(b + 1); tk_payload = payload;
          tk_start = z_of_dec a.(b + 3); tk_end = z_of_dec a.(b + 4) }) in
    let sh l = if l = [] then "-" else hex_of_bytes l in
    (match M.tasks_to_messages ts with
     | M.BOk ms ->
       String.concat " " (("tasks ok " ^ string_of_int (List.length ms)) ::
                          List.map (fun m -> Printf.sprintf "%s %s %s %d" (sh m.M.ms_id) (sh m.M.ms_file) (sh m.M.ms_payload) (if m.M.ms_baked then 1 else 0)) ms)
     | M.BErr _ -> "tasks err"
     | M.BPanic -> "tasks panic")
  | "rehash" :: rest ->
    (* rehash <id> <threshold> <np> {new old dkg name}* <nm> {data sig rcpt event sender round offset}* (hex, "-" = empty) *)
    let a = Array.of_list rest in
    let hx s = if s = "-" then [] else bytes_of_hex s in
    let i = ref 0 in
    let nx () = let v = a.(!i) in incr i; v in
    let id = hx (nx ()) in
    let thr = z_of_dec (nx ()) in
    let np = int_of_string (nx ()) in
    let parts = List.init np (fun _ -> let n = hx (nx ()) in let o = hx (nx ()) in let d = hx (nx ()) in let nm = hx (nx ()) in
                               { M.hp_new = n; hp_old = o; hp_dkg = d; hp_name = nm }) in
    let nm = int_of_string (nx ()) in
    let msgs = List.init nm (fun _ -> let d = hx (nx ()) in let s = hx (nx ()) in let r = hx (nx ()) in let e = hx (nx ()) in
                              let sn = hx (nx ()) in let ro = hx (nx ()) in let off = z_of_dec (nx ()) in
                              { M.hm_data = d; hm_sig = s; hm_rcpt = r; hm_event = e; hm_sender = sn; hm_round = ro; hm_offset = off }) in
    "rehash " ^ hex_of_bytes (M.reinit_hash { M.hf_id = id; hf_threshold = thr; hf_parts = parts; hf_msgs = msgs })
  | "c04shape" :: ty :: n :: t :: nm :: e :: _ ->
    let nat s = M.N.to_nat (n_of_int (int_of_string s)) in
    let o = match ty with
      | "state_dkg_commits_await_confirmations" -> M.OCommits
      | "state_dkg_deals_await_confirmations" -> M.ODeals
      | "state_dkg_responses_await_confirmations" -> M.OResponses
      | "state_dkg_master_key_await_confirmations" -> M.OMasterKey
      | "state_signing_await_partial_signs" -> M.OSigning
      | _ -> M.OReinit in
    "c04shape " ^ Fsm_io.string_of_coq (M.result_line (M.result_of o (nat n) (nat t) (nat "0") (nat nm) (e = "1")))
  | "c11deal" :: t :: i :: fault :: rest ->
    (* c11deal t i fault nb bc.. nd dealt.. share *)
    let a = Array.of_list rest in
    let nb = int_of_string a.(0) in
    let bc = List.init nb (fun k -> z_of_dec a.(1 + k)) in
    let nd = int_of_string a.(1 + nb) in
    let dealt = List.init nd (fun k -> z_of_dec a.(2 + nb + k)) in
    let share = z_of_dec a.(2 + nb + nd) in
    let f = match fault with "undecryptable" -> M.FUndecryptable | "malformed" -> M.FMalformed | _ -> M.FNone in
    let d = { M.dl_fault = f; dl_commits = dealt; dl_share = share } in
    "c11deal " ^ (if M.accepts (M.N.to_nat (n_of_int (int_of_string t))) bc d (z_of_dec i) then "accept" else "refuse")
  | "c11round" :: dev :: compl :: _ ->
    "c11round " ^ Fsm_io.string_of_coq (M.round_outcome (dev = "deviating") (compl = "true"))
  | "c18air" :: kind :: had :: ok :: _ ->
    let k = match kind with "commits" -> M.KCommits | "signing" -> M.KSigning | _ -> M.KLater in
    "c18air " ^ (match M.aclass_of k (had = "1") (ok = "1") with M.AOk -> "ok" | M.AErrorResult -> "error-result" | M.ARejected -> "rejected")
  | "airreinit" :: outer :: n :: rest ->
    (* airreinit <outer> <n> {kind round ok}* : a reinit operation fed to a fresh machine *)
    let nat s = M.N.to_nat (n_of_int (int_of_string s)) in
    let a = Array.of_list rest in
    let ops = List.init (int_of_string n) (fun k ->
        let kind = match a.(3 * k) with "commits" -> M.IkCommits | "deals" -> M.IkDeals | "responses" -> M.IkResponses | _ -> M.IkMaster in
        { M.ri_kind = kind; ri_round = nat a.(3 * k + 1); ri_ok = (a.(3 * k + 2) = "1") }) in
    let (m, ok) = M.handle_reinit (nat outer) M.fresh_rmach ops in
    let shares = List.sort compare (List.map (fun r -> int_of_n (M.N.of_nat r)) m.M.rm_shares) in
    "airreinit " ^ (if ok then "processed" else "refused") ^ " shares=" ^ String.concat "," (List.map string_of_int shares)
  | "resetpoll" :: n :: k :: p :: _ ->
    (* resetpoll <n> <k> <p>: board of n messages, k handled, the reset served after p poller steps *)
    let nat s = M.N.to_nat (n_of_int (int_of_string s)) in
    let q = M.N.to_nat (n_of_int (4 * int_of_string n + 8)) in
    let w = M.reset_after (nat n) (nat k) (nat p) q in
    Printf.sprintf "resetpoll offset=%d replayed=%s" (int_of_n (M.N.of_nat w.M.w_new.M.d_off))
      (if M.replayed_all (nat n) w then "all" else "lost")
  | "genredkg" :: n :: rest ->
    (* genredkg <n> {event round threshold np {part}*}* : the board log as the generator sees it *)
    let open Fsm_io in
    let c = { a = Array.of_list rest; i = 0 } in
    let log = rep (int_of_string n) (fun () ->
        let ev = st_in (next c) in let r = next_n c in let thr = next_z c in
        let np = next_int c in let parts = rep np (fun () -> next_n c) in
        fun tag -> { M.gm_event = ev; gm_round = r; gm_tag = tag; gm_threshold = thr; gm_parts = parts }) in
    let log = List.mapi (fun i f -> f (n_of_int i)) log in
    let f = M.gen_redkg log in
    Printf.sprintf "genredkg id=%s thr=%s parts=%s kept=%s" (pn f.M.gf_id) (pz f.M.gf_threshold)
      (String.concat "," (List.map pn f.M.gf_parts)) (String.concat "," (List.map (fun m -> pn m.M.gm_tag) f.M.gf_msgs))
  | "adapt" :: id :: n :: rest ->
    (* adapt <id> <n> {event round sender recipient}* : a reinit file's messages before the 0.1.4 adaptation *)
    let open Fsm_io in
    let c = { a = Array.of_list rest; i = 0 } in
    let msgs = List.init (int_of_string n) (fun i ->
        let ev = st_in (next c) in let r = next_n c in let s = next_n c in let rc = next_n c in
        { M.am_event = ev; am_round = r; am_sender = s; am_recipient = rc; am_tag = n_of_int (i + 1);
          am_offset = M.Z0; am_synthetic = false }) in
    let out = M.adapt (n_of_dec id) msgs in
    "adapt " ^ String.concat "," (List.map (fun m ->
        (if m.M.am_synthetic then "S" ^ pn m.M.am_sender ^ ">" ^ pn m.M.am_recipient ^ "/" ^ pn m.M.am_round
         else "M" ^ pn m.M.am_tag) ^ "@" ^ pz m.M.am_offset) out)
  | "export" :: batch :: n :: rest ->
    (* export <batch> <n> {batch id payload sig file user}* : the entries saved one by one into an empty
       store of one round, then export_signatures of <batch> (an unknown batch exports nothing) *)
    let open Fsm_io in
    let c = { a = Array.of_list rest; i = 0 } in
    let l = rep (int_of_string n) (fun () ->
        let b = next_n c in let id = next_n c in let p = next_n c in let sg = next_n c in let f = next_n c in let u = next_n c in
        { M.rs_file = f; rs_batch = b; rs_msgid = id; rs_payload = p; rs_sig = sg; rs_user = u; rs_round = n_of_int 0 }) in
    let store = List.fold_left M.add_sig [] l in
    let b = match M.tget' store (n_of_dec batch) with Some b -> b | None -> [] in
    export_line (M.export_batch b)
  | "exportraw" :: n :: rest ->
    (* exportraw <n> {id k {payload sig file}*}* : a batch as stored, message ids with their entries *)
    let open Fsm_io in
    let c = { a = Array.of_list rest; i = 0 } in
    let b = rep (int_of_string n) (fun () ->
        let id = next_n c in let k = next_int c in
        (id, rep k (fun () -> let p = next_n c in let sg = next_n c in let f = next_n c in
                     { M.rs_file = f; rs_batch = n_of_int 0; rs_msgid = id; rs_payload = p; rs_sig = sg; rs_user = n_of_int 0; rs_round = n_of_int 0 }))) in
    export_line (M.export_batch b)
  | "filename" :: kind :: round :: id :: batch :: _ ->
    (* filename <kind> <round hex|-> <id hex|-> <batch hex | - (empty) | none> *)
    let hx s = if s = "-" then [] else bytes_of_hex s in
    let k = match kind with
      | "invite" -> M.FInvite | "commits" -> M.FCommits | "deals" -> M.FDeals | "responses" -> M.FResponses
      | "master" -> M.FMaster | "sign" -> M.FSign | "collected" -> M.FCollected | "reinit" -> M.FReinit | _ -> M.FUnknown in
    let b = if batch = "none" then None else Some (hx batch) in
    "filename " ^ hex_of_bytes (M.file_name k (hx round) (hx id) b)
  | "c04lock" :: _ -> "c04lock waits=" ^ (if M.tick_waits_during_command then "true" else "false")
  | "c04gap" :: _ -> "c04gap saved-without-password=" ^ (if M.gap_saves_without_password then "true" else "false")
  | "c04rounds" :: t1 :: m1 :: t2 :: m2 :: _ ->
    let nat s = M.N.to_nat (n_of_int (int_of_string s)) in
    let ms s = List.map nat (String.split_on_char ',' s) in
    let c1 = { M.rc_id = nat "1"; rc_t = nat t1; rc_machines = ms m1 } and c2 = { M.rc_id = nat "2"; rc_t = nat t2; rc_machines = ms m2 } in
    let bits l = String.concat "" (List.map (fun b -> if b then "1" else "0") l) in
    "c04rounds coeffs=" ^ bits (M.coeffs_coincide c1 c2) ^ " group=" ^ bits [M.group_coincides c1 c2] ^ " shares=" ^ bits (M.shares_coincide c1 c2)
  | "air" :: rest ->
    (* air <kind|R>... : kinds 1..4 DKG steps, 9 signing, R = stop, reopen, replay *)
    (* only the log length at a stop is observable on the implementation: other positions print "-" *)
    let script = List.map (fun x -> if x = "R" then None else Some (M.N.to_nat (n_of_int (int_of_string x)))) rest in
    let m0 = { M.m_seed = (); m_log = []; m_vol = [] } in
    let outs = M.run_script m0 script in
    "air " ^ String.concat " " (List.map2 (fun x (l, v) ->
        if x = "R" then Printf.sprintf "%d/%d" (int_of_n (M.N.of_nat l)) (int_of_n (M.N.of_nat v)) else "-") rest outs)
  | "lag" :: rest ->
    (* lag x1 y1 x2 y2 ... : Lagrange combination at 0 *)
    let rec pairs l = match l with a :: b :: r -> (z_of_dec a, z_of_dec b) :: pairs r | _ -> [] in
    "lag " ^ dec_of_z (M.lagrange0_z (pairs rest))
  | "ped" :: rest ->
    (* ped <ndealers> <t> c.. | <i> : share of participant i and the group secret *)
    let a = Array.of_list rest in
    let nd = int_of_string a.(0) and t = int_of_string a.(1) in
    let dealers = List.init nd (fun j -> List.init t (fun k -> z_of_dec a.(2 + j * t + k))) in
    let i = z_of_dec a.(2 + nd * t + 1) in
    "ped share=" ^ dec_of_z (M.share_z dealers i) ^ " secret=" ^ dec_of_z (M.group_secret_z dealers)
  | "rmwlabels" :: _ ->
    let sh l = String.concat "," (List.map (fun x -> string_of_int (int_of_n (M.N.of_nat x))) l) in
    "rmwlabels request=" ^ sh M.a_labels ^ " poller=" ^ sh M.b_labels
  | "rmw" :: bits :: _ ->
    let sc = List.init (String.length bits) (fun i -> bits.[i] = 'A') in
    let p = M.pending_after sc in
    "rmw pending=" ^ String.concat "," (List.map (fun x -> string_of_int (int_of_n (M.N.of_nat x))) p)
  | "skip" :: rest -> "skip " ^ String.concat " " rest
  | [] -> ""
  | k :: _ -> "unknown-case " ^ k

let () =
  try
    while true do
      let line = input_line stdin in
      let out = handle line in
      if out <> "" then print_endline out
    done
  with End_of_file -> ()
