(* parsing of node histories and printing of node states, in the harness format *)
module M = Model
open Conv
open Fsm_io

let parse_resp (c : cur) : M.response option =
  match next c with
  | "-" -> None
  | x when String.length x > 11 && String.sub x 0 11 = "undecodable" -> None
  | "inv" -> let n = next_int c in
    Some (M.RespInvitations (rep n (fun () -> let pid = next_z c in let name = next_n c in let thr = next_z c in
                                         let dpk = next_n c in let pk = next_n c in (pid, (name, (thr, (dpk, pk)))))))
  | "sigstatus" -> let n = next_int c in
    Some (M.RespSigStatus (rep n (fun () -> let pid = next_z c in let name = next_n c in let st = next_n c in (pid, (name, st)))))
  | "dkgpub" -> let n = next_int c in
    Some (M.RespDkgPubKeys (rep n (fun () -> let pid = next_z c in let name = next_n c in let dpk = next_n c in let thr = next_z c in (pid, (name, (dpk, thr))))))
  | "dkgdata" -> let k = next_n c in let n = next_int c in
    Some (M.RespDkgData (k, rep n (fun () -> let pid = next_z c in let name = next_n c in let d = next_n c in (pid, (name, d)))))
  | "sgninvite" -> let b = next_n c in let i = next_z c in let s = next_n c in let n = next_int c in
    Some (M.RespSigningInvite (b, i, s, rep n (fun () -> let pid = next_z c in let name = next_n c in let st = next_n c in (pid, (name, st)))))
  | "sgnprocess" -> let b = next_n c in let s = next_n c in let n = next_int c in
    Some (M.RespSigningProcess (b, s, rep n (fun () -> let pid = next_z c in let name = next_n c in let sg = parse_signs c in (pid, (name, sg)))))
  | x -> failwith ("unknown response kind " ^ x)

let parse_msg (c : cur) : M.message =
  let round = next_n c in
  let ev = st_in (next c) in
  let data = next_n c in
  let sg = match next c with
    | "none" -> M.SigNone
    | "junk" -> M.SigJunk
    | "by" -> let k = next_n c in let d = next_n c in M.SigBy (k, d)
    | x -> failwith ("sig " ^ x) in
  let sender = next_n c in
  let rcpt = next_n c in
  let tasks = match next c with
    | "notasks" -> None
    | "tasks" -> let n = next_int c in
      Some (rep n (fun () -> let id = next_n c in let f = next_n c in let p = next_n c in { M.mt_id = id; mt_file = f; mt_payload = p }))
    | x -> failwith ("tasks " ^ x) in
  let req = match next c with
    | "invalid" -> M.MInvalid
    | "sigsbad" -> M.MSigs None
    | "sigs" -> let n = next_int c in
      M.MSigs (Some (rep n (fun () ->
          let f = next_n c in let b = next_n c in let id = next_n c in let p = next_n c in let s = next_n c in
          { M.rs_file = f; rs_batch = b; rs_msgid = id; rs_payload = p; rs_sig = s; rs_user = N0; rs_round = N0 })))
    | "fsm" -> M.MFsm (parse_req c)
    | x -> failwith ("req " ^ x) in
  { M.m_round = round; m_event = ev; m_data = data; m_req = req; m_sig = sg; m_sender = sender;
    m_recipient = rcpt; m_tasks = tasks }

let parse_op_payload (c : cur) : M.response option * M.opref list option =
  if c.a.(c.i) = "reinit" then begin
    ignore (next c);
    let n = next_int c in
    (None, Some (rep n (fun () -> let r = next_n c in let t = st_in (next c) in let p = parse_resp c in
                        { M.or_round = r; or_type = t; or_payload = p })))
  end else (parse_resp c, None)

let parse_result (c : cur) : M.op_result =
    let iround = next_n c in
    let ityp = st_in (next c) in
    let (ipayload, ireinit) = parse_op_payload c in
    let sbytes = next_n c in
    let rbytes = next_n c in
    let round = next_n c in
    let typ = st_in (next c) in
    let (payload, reinit) = parse_op_payload c in
    let ev = st_in (next c) in
    let extra = next_n c in
    let n = next_int c in
    let msgs = rep n (fun () ->
        let e = st_in (next c) in let r = next_n c in let rc = next_n c in let d = next_n c in let s = next_n c in
        { M.rm_event = e; rm_round = r; rm_recipient = rc; rm_data = d; rm_sender = s }) in
    { M.ox_ident = { M.op_round = iround; op_type = ityp; op_payload = ipayload; op_reinit = ireinit; op_extra = N0 };
                       ox_stored_bytes = sbytes; ox_bytes = rbytes;
                       ox_op = { M.op_round = round; op_type = typ; op_payload = payload; op_reinit = reinit; op_extra = N0 };
                       ox_event = ev; ox_msgs = msgs; ox_extra = extra }

let parse_input (c : cur) : M.z * M.ninput =
  (match next c with "now" -> () | x -> failwith ("expected now, got " ^ x));
  let now = next_z c in
  match next c with
  | "msg" -> (now, M.InMsg (parse_msg c))
  | "restart" -> (now, M.InRestart)
  | "crashmsg" -> let k = next_int c in (match next c with "msg" -> () | x -> failwith x);
    (now, M.InCrashMsg (M.N.to_nat (n_of_int k), parse_msg c))
  | "reinit" ->
    (match next c with
     | "bad" -> (now, M.InReinit None)
     | "ok" ->
       let id = next_n c in let hash = next_n c in
       let np = next_int c in
       let parts = rep np (fun () -> let n = next_n c in let k = next_n c in { M.rp_name = n; rp_newkey = k }) in
       let nm = next_int c in
       let msgs = rep nm (fun () -> (match next c with "msg" -> () | x -> failwith ("expected msg " ^ x)); parse_msg c) in
       (now, M.InReinit (Some { M.rd_id = id; rd_parts = parts; rd_msgs = msgs; rd_hash = hash }))
     | x -> failwith ("reinit " ^ x))
  | "result" -> (now, M.InResult (parse_result c))
  | "crashresult" -> let k = next_int c in (match next c with "result" -> () | x -> failwith x);
    (now, M.InCrashResult (M.N.to_nat (n_of_int k), parse_result c))
  | x -> failwith ("unknown input " ^ x)

(* ---- printing ---- *)
let show_op_payload (p : M.response option) (r : M.opref list option) : string =
  match r with
  | Some l ->
    String.concat " " (("reinit " ^ si (List.length l)) ::
                       List.map (fun o -> Printf.sprintf "%s %s %s" (pn o.M.or_round) (st_out o.M.or_type) (show_resp o.M.or_payload)) l)
  | None -> show_resp p

let show_op (o : M.operation) : string =
  Printf.sprintf "%s %s %s x%s" (pn o.M.op_round) (st_out o.M.op_type) (show_op_payload o.M.op_payload o.M.op_reinit) (pn o.M.op_extra)

let show_ops (l : M.operation list) : string =
  let ss = List.sort compare (List.map show_op l) in
  Printf.sprintf "%d [%s]" (List.length ss) (String.concat " , " ss)

let show_rsig (s : M.rsig) : string =
  Printf.sprintf "%s %s %s %s %s %s %s" (pn s.M.rs_file) (pn s.M.rs_batch) (pn s.M.rs_msgid) (pn s.M.rs_payload)
    (pn s.M.rs_sig) (pn s.M.rs_user) (pn s.M.rs_round)

let by_tok l = List.sort (fun (a, _) (b, _) -> compare (int_of_n a) (int_of_n b)) l

let show_sigstore (st : (M.n * (M.n * M.rsig list) list) list) : string =
  String.concat " " (List.map (fun (b, msgs) ->
      Printf.sprintf "b%s {%s}" (pn b)
        (String.concat " " (List.map (fun (id, es) ->
             Printf.sprintf "m%s (%s)" (pn id) (String.concat " ; " (List.map show_rsig es))) (by_tok msgs))))
      (by_tok st))

let show_out (m : M.out_msg) : string =
  let body =
    if string_of_coq m.M.o_event = "signature_reconstructed" then
      "sigs(" ^ String.concat " ; " (List.sort compare (List.map show_rsig m.M.o_sigs)) ^ ")"
    else "d" ^ pn m.M.o_data in
  Printf.sprintf "%s %s %s %s signed1 %s" (pn m.M.o_round) (st_out m.M.o_event) (pn m.M.o_sender) (pn m.M.o_recipient) body

let show_nstate (s : M.nstate) : string =
  let rounds = by_tok s.M.ns_rounds in
  let rl = List.map (fun (id, d) -> Printf.sprintf "r%s %s" (pn id) (show_dump d.M.d_state d.M.d_payload)) rounds in
  let sigs = by_tok s.M.ns_sigs in
  Printf.sprintf "ROUNDS %d [%s] OPS %s DEL %s VIS %s SIGS%s BOARD %d%s"
    (List.length rl) (String.concat " , " rl)
    (show_ops s.M.ns_ops) (show_ops s.M.ns_deleted) (show_ops (M.ops_visible s))
    (String.concat "" (List.map (fun (r, st) -> Printf.sprintf " r%s<%s>" (pn r) (show_sigstore st)) sigs))
    (List.length s.M.ns_board)
    (String.concat "" (List.map (fun m -> " [" ^ show_out m ^ "]") s.M.ns_board))

let class_str (k : M.nat) : string = match k with M.O -> "ok" | M.S M.O -> "err" | _ -> "panic"

(* "node <user> <key> | now z <input> ;; now z <input> ..." *)
let rec run_node (fields : string list) : string =
  match fields with
  | "final" :: "node" :: rest ->
    (* only the classes and the final state are observed *)
    let full = run_node rest in
    let find_from s i = (* first index >= i of " || " *)
      let n = String.length s in
      let rec go j = if j + 4 > n then -1 else if String.sub s j 4 = " || " then j else go (j + 1) in go i in
    let i1 = find_from full 0 in
    let i2 = if i1 < 0 then -1 else find_from full (i1 + 4) in
    if i2 < 0 then full
    else String.sub full 0 i1 ^ " || - || " ^ String.sub full (i2 + 4) (String.length full - i2 - 4)
  | _ ->
  let c = { a = Array.of_list fields; i = 0 } in
  let user = next_n c in
  let key = next_n c in
  (match next c with "|" -> () | _ -> failwith "expected |");
  let ins = ref [] in
  while c.i < Array.length c.a do
    ins := parse_input c :: !ins;
    if c.i < Array.length c.a then (match next c with ";;" -> () | x -> failwith ("expected ;; got " ^ x))
  done;
  let ((classes, before), after) = M.node_case user key (List.rev !ins) in
  Printf.sprintf "node %s || %s || %s" (String.concat "," (List.map class_str classes)) (show_nstate before) (show_nstate after)
