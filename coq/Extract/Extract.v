(* Extraction of the executable model for the differential harness.
   ExtrOcamlBasic only: bool, option, unit, list, prod, sumbool, sumor and andb/orb are mapped to
   OCaml's; nat, positive, N, Z, string, ascii and every model type stay extracted Coq datatypes. *)
From Coq Require Import ExtrOcamlBasic List NArith ZArith String.
Require Import Lib.GoStr Ssz.Sha256 Ssz.Ssz Ssz.Rotation.
Require Import Fsm.EngineDefs Fsm.Types Fsm.Engine Fsm.Actions Fsm.Provider.
Require Import Node.Types Node.Process.
Require Import Board.File Board.Raw Node.ResetPoll Node.GenReDKG Node.Adapt Node.FileName Node.Export Node.Serial Crypto.Zr Air.Machine Node.ReinitHash Air.Terms Air.Lock Crypto.DealCheck Air.Reject Air.Reinit.
Require Gen.Skeletons.
Extraction Language OCaml.
Set Extraction Optimize.
Extraction "model.ml"
  N.add N.mul N.div N.modulo N.of_nat N.to_nat Z.add Z.mul Z.opp Z.of_N Z.to_N
  sha256 model_signing_root spec_signing_root reconstruct_baked tasks_to_messages
  dec_of_Z parse_int64
  fsm_case from_dump inst_do obs_of_do dump_of create round_step do_on_dump mem_case
  node_case node_step recover classify ops_visible
  run_script reinit_hash hash_input gen_redkg adapt file_name export_batch add_sig tget'
  accepts round_outcome aclass_of handle_reinit fresh_rmach
  result_of result_line coeffs_coincide group_coincides shares_coincide tick_waits_during_command gap_saves_without_password
  lagrange0_z share_z group_secret_z eval_poly
  pending_after a_labels b_labels in_lost_window reset_after replayed_all
  send_seq get_messages get_messages_raw Gen.Skeletons.count_limit Gen.Skeletons.read_limit.
