(* conversions between OCaml values and the extracted Coq number types *)
module M = Model
open struct
  type positive = M.positive = XI of positive | XO of positive | XH
  type n = M.n = N0 | Npos of positive
  type z = M.z = Z0 | Zpos of positive | Zneg of positive
end

(* ---- conversions between OCaml and the extracted Coq number types ---- *)
let rec pos_of_int (i : int) : positive =
  if i = 1 then XH
  else if i land 1 = 0 then XO (pos_of_int (i lsr 1))
  else XI (pos_of_int (i lsr 1))
let n_of_int (i : int) : n = if i = 0 then N0 else Npos (pos_of_int i)
let rec int_of_pos (p : positive) : int =
  match p with XH -> 1 | XO q -> 2 * int_of_pos q | XI q -> 2 * int_of_pos q + 1
let int_of_n (x : n) : int = match x with N0 -> 0 | Npos p -> int_of_pos p
let z_of_int (i : int) : z =
  if i = 0 then Z0 else if i > 0 then Zpos (pos_of_int i) else Zneg (pos_of_int (- i))
let int_of_z (x : z) : int = match x with Z0 -> 0 | Zpos p -> int_of_pos p | Zneg p -> - (int_of_pos p)

let n10 = n_of_int 10
(* arbitrary-size decimal -> N (for uint64 values beyond OCaml's int) *)
let n_of_dec (s : string) : n =
  let acc = ref N0 in
  String.iter (fun c -> acc := M.N.add (M.N.mul !acc n10) (n_of_int (Char.code c - 48))) s;
  !acc
let z_of_dec (s : string) : z =
  if String.length s > 0 && s.[0] = '-' then M.Z.opp (M.Z.of_N (n_of_dec (String.sub s 1 (String.length s - 1))))
  else M.Z.of_N (n_of_dec s)
let rec dec_of_n (x : n) : string =
  match x with
  | N0 -> "0"
  | _ ->
    let rec go x acc =
      match x with
      | N0 -> acc
      | _ -> let q = M.N.div x n10 and r = M.N.modulo x n10 in
             go q (string_of_int (int_of_n r) ^ acc) in
    go x ""
let dec_of_z (x : z) : string =
  match x with Z0 -> "0" | Zpos p -> dec_of_n (Npos p) | Zneg p -> "-" ^ dec_of_n (Npos p)

let hex_of_bytes (bs : n list) : string =
  String.concat "" (List.map (fun b -> Printf.sprintf "%02x" (int_of_n b)) bs)
let bytes_of_hex (s : string) : n list =
  let l = String.length s / 2 in
  List.init l (fun i -> n_of_int (int_of_string ("0x" ^ String.sub s (2 * i) 2)))
let bytes_of_string (s : string) : n list =
  List.init (String.length s) (fun i -> n_of_int (Char.code s.[i]))
let string_of_bytes (bs : n list) : string =
  String.concat "" (List.map (fun b -> String.make 1 (Char.chr (int_of_n b))) bs)

let split (s : string) : string list =
  List.filter (fun x -> x <> "") (String.split_on_char ' ' s)

