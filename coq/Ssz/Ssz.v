(* SSZ merkleisation (consensus-spec `hash_tree_root` for the fragment used by
   BLSToExecutionChange / ForkData / SigningData) and the fastssz "hasher" as an
   interpreter of the programs regenerated from pkg/wc_rotation/entity/*_encoded.go.
   Model file: definitions only. Everything is parametric in the hash function H. *)
From Coq Require Import String List NArith Arith.
Import ListNotations.
Local Open Scope N_scope.

Definition chunk := list N.
Definition zero_chunk : chunk := repeat 0 32%nat.

Definition pad32 (bs : list N) : list N :=
  let r := (length bs mod 32)%nat in
  match r with O => bs | _ => bs ++ repeat 0 (32 - r)%nat end.

Fixpoint chunks_f (fuel : nat) (bs : list N) : list chunk :=
  match fuel with
  | O => []
  | S f => match bs with
           | [] => []
           | _ => firstn 32 bs :: chunks_f f (skipn 32 bs)
           end
  end.
Definition chunks (bs : list N) : list chunk := chunks_f (length bs) bs.
Definition pack (bs : list N) : list chunk := chunks (pad32 bs).

Definition le64 (v : N) : list N :=
  map (fun k => N.land (N.shiftr v (8 * k)) 255) [0; 1; 2; 3; 4; 5; 6; 7].

Section WithHash.
Variable H : list N -> list N.

Fixpoint pair_up (l : list chunk) : list chunk :=
  match l with
  | a :: b :: r => H (a ++ b) :: pair_up r
  | _ => []
  end.

Fixpoint reduce (fuel : nat) (l : list chunk) : chunk :=
  match fuel with
  | O => hd zero_chunk l
  | S f => match l with
           | [c] => c
           | _ => reduce f (pair_up l)
           end
  end.

(* smallest power of two >= n (n >= 1), by doubling at most n times *)
Fixpoint pow2_ge (fuel n p : nat) : nat :=
  match fuel with
  | O => p
  | S f => if Nat.leb n p then p else pow2_ge f n (2 * p)
  end.
Definition next_pow2 (n : nat) : nat := pow2_ge n n 1.

(* spec: merkleize(chunks) with no limit: pad with zero chunks to the next power
   of two (at least one chunk), then hash pairwise up to the root *)
Definition merkleize (cs : list chunk) : chunk :=
  let n := length cs in
  let m := next_pow2 (Nat.max 1 n) in
  reduce m (cs ++ repeat zero_chunk (m - n)).

(* ---- consensus-spec side ---- *)
Inductive sval := SUint64 (v : N) | SBytes (bs : list N).

Definition htr (v : sval) : chunk :=
  match v with
  | SUint64 x => merkleize (pack (le64 x))
  | SBytes bs => merkleize (pack bs)
  end.
Definition htr_container (fs : list sval) : chunk := merkleize (map htr fs).

(* ---- fastssz side ---- *)
Inductive ftype := FUint64 | FBytes (n : nat).
Inductive instr := IIndex | IPutUint64 (name : string) | IPutBytes (name : string) | IMerkleize.

Record hst := { buf : list N; stack : list nat }.

Fixpoint lookup (f : string) (env : list (string * sval)) : option sval :=
  match env with
  | [] => None
  | (k, v) :: r => if String.eqb k f then Some v else lookup f r
  end.

Definition merkleize_bytes (bs : list N) : chunk := merkleize (chunks bs).

Definition hstep (env : list (string * sval)) (s : hst) (i : instr) : option hst :=
  match i with
  | IIndex => Some {| buf := buf s; stack := length (buf s) :: stack s |}
  | IPutUint64 f =>
      match lookup f env with
      | Some (SUint64 v) => Some {| buf := buf s ++ pad32 (le64 v); stack := stack s |}
      | _ => None
      end
  | IPutBytes f =>
      match lookup f env with
      | Some (SBytes b) =>
          if Nat.leb (length b) 32
          then Some {| buf := buf s ++ pad32 b; stack := stack s |}
          else Some {| buf := buf s ++ merkleize_bytes (pad32 b); stack := stack s |}
      | _ => None
      end
  | IMerkleize =>
      match stack s with
      | i :: st => Some {| buf := firstn i (buf s) ++ merkleize_bytes (skipn i (buf s)); stack := st |}
      | [] => None
      end
  end.

Fixpoint hrun (env : list (string * sval)) (s : hst) (p : list instr) : option hst :=
  match p with
  | [] => Some s
  | i :: r => match hstep env s i with
              | Some s' => hrun env s' r
              | None => None
              end
  end.

(* HashWithDefaultHasher: run the program on an empty hasher, HashRoot demands 32 bytes *)
Definition hash_root (p : list instr) (env : list (string * sval)) : option chunk :=
  match hrun env {| buf := []; stack := [] |} p with
  | Some s => if Nat.eqb (length (buf s)) 32 then Some (buf s) else None
  | None => None
  end.

(* the program fastssz generates for a container of fixed-size basic/byte-vector fields *)
Definition put_of (f : string * ftype) : instr :=
  match snd f with FUint64 => IPutUint64 (fst f) | FBytes _ => IPutBytes (fst f) end.
Definition compile (fs : list (string * ftype)) : list instr :=
  IIndex :: map put_of fs ++ [IMerkleize].

End WithHash.

(* decidable equalities used to compare regenerated programs with `compile spec` *)
Definition ftype_eqb (a b : ftype) : bool :=
  match a, b with
  | FUint64, FUint64 => true
  | FBytes n, FBytes m => Nat.eqb n m
  | _, _ => false
  end.
Definition instr_eqb (a b : instr) : bool :=
  match a, b with
  | IIndex, IIndex => true
  | IPutUint64 x, IPutUint64 y => String.eqb x y
  | IPutBytes x, IPutBytes y => String.eqb x y
  | IMerkleize, IMerkleize => true
  | _, _ => false
  end.
