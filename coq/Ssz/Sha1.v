(* SHA-1 (FIPS 180-4) over N, for the reinit confirmation hash.  Definitions only. *)
From Coq Require Import List NArith.
Require Import Ssz.Sha256.
Import ListNotations.
Local Open Scope N_scope.

Definition rotl (n x : N) : N := N.lor (N.land (N.shiftl x n) mask32) (N.shiftr x (32 - n)).

Definition sha1_f (t : nat) (b c d : N) : N :=
  if Nat.ltb t 20 then N.lor (N.land b c) (N.land (not32 b) d)
  else if Nat.ltb t 40 then N.lxor (N.lxor b c) d
  else if Nat.ltb t 60 then N.lor (N.lor (N.land b c) (N.land b d)) (N.land c d)
  else N.lxor (N.lxor b c) d.
Definition sha1_k (t : nat) : N :=
  if Nat.ltb t 20 then 0x5a827999 else if Nat.ltb t 40 then 0x6ed9eba1
  else if Nat.ltb t 60 then 0x8f1bbcdc else 0xca62c1d6.

(* state (a,b,c,d,e) and schedule window of 16 words *)
Definition sha1_round (st : list N * list N) (t : nat) : list N * list N :=
  let (v, w) := st in
  let a := nthN v 0 in let b := nthN v 1 in let c := nthN v 2 in let d := nthN v 3 in let e := nthN v 4 in
  let wt := nthN w 0 in
  let tmp := add32 (add32 (add32 (add32 (rotl 5 a) (sha1_f t b c d)) e) (sha1_k t)) wt in
  let wn := rotl 1 (N.lxor (N.lxor (N.lxor (nthN w 13) (nthN w 8)) (nthN w 2)) wt) in
  ([tmp; a; rotl 30 b; c; d], tl w ++ [wn]).

Definition sha1_compress (h : list N) (block : list N) : list N :=
  let (v, _) := fold_left sha1_round (seq 0 80) (h, block) in
  map (fun p => add32 (fst p) (snd p)) (combine h v).

Fixpoint sha1_blocks (fuel : nat) (ws : list N) (h : list N) : list N :=
  match fuel with
  | O => h
  | S f => match ws with
           | [] => h
           | _ => sha1_blocks f (skipn 16 ws) (sha1_compress h (firstn 16 ws))
           end
  end.

Definition sha1 (msg : list N) : list N :=
  let ws := words_of_bytes (sha_pad msg) in
  flat_map bytes_of_word (sha1_blocks (S (length ws)) ws [0x67452301; 0xefcdab89; 0x98badcfe; 0x10325476; 0xc3d2e1f0]).
