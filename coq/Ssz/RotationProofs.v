(* C17: the model of GetSigningRoot (built from the regenerated hasher programs and
   constants) equals the consensus-spec signing root for every validator index; the baked
   list is well formed; every position is answered with the right message or refused. *)
From Coq Require Import String List NArith ZArith Arith Lia Bool.
Require Import Lib.GoStr Ssz.Sha256 Ssz.Ssz Ssz.SszProofs Ssz.Rotation.
Require Gen.Rotation Gen.Baked Gen.SszPrograms.
Import ListNotations.

(* ---- the regenerated parts are what the spec prescribes ---- *)
Lemma gen_prog_BLSToExecutionChange :
  Gen.SszPrograms.BLSToExecutionChange_prog = compile spec_BLSToExecutionChange.
Proof. reflexivity. Qed.
Lemma gen_prog_ForkData : Gen.SszPrograms.ForkData_prog = compile spec_ForkData.
Proof. reflexivity. Qed.
Lemma gen_prog_SigningData : Gen.SszPrograms.SigningData_prog = compile spec_SigningData.
Proof. reflexivity. Qed.
Lemma gen_struct_BLSToExecutionChange :
  Gen.SszPrograms.BLSToExecutionChange_struct = spec_BLSToExecutionChange.
Proof. reflexivity. Qed.
Lemma gen_struct_ForkData : Gen.SszPrograms.ForkData_struct = spec_ForkData.
Proof. reflexivity. Qed.
Lemma gen_struct_SigningData : Gen.SszPrograms.SigningData_struct = spec_SigningData.
Proof. reflexivity. Qed.

Lemma gen_constants :
  Gen.Rotation.DomainBlsToExecutionChange = DOMAIN_BLS_TO_EXECUTION_CHANGE /\
  Gen.Rotation.GenesisForkVersion = GENESIS_FORK_VERSION /\
  Gen.Rotation.GenesisValidatorRoot = MAINNET_GENESIS_VALIDATORS_ROOT /\
  Gen.Rotation.LidoBlsPubKeyBB = LIDO_WITHDRAWAL_BLS_KEY /\
  Gen.Rotation.ToExecutionAddress = LIDO_EXECUTION_ADDRESS.
Proof. repeat split; reflexivity. Qed.

Lemma sha_len x : len32 (sha256 x).
Proof. apply sha256_length. Qed.

Lemma copy32_id x : length x = 32%nat -> copy32 x = x.
Proof.
  intros Hx. unfold copy32. rewrite firstn_app, Hx, Nat.sub_diag, firstn_O, app_nil_r.
  apply firstn_all2. lia.
Qed.

Local Open Scope string_scope.

Lemma fork_data_root_eq fv gvr :
  length fv = 4%nat -> length gvr = 32%nat ->
  model_fork_data_root fv gvr = Some (spec_compute_fork_data_root fv gvr).
Proof.
  intros Hf Hg. unfold model_fork_data_root, spec_compute_fork_data_root.
  rewrite gen_prog_ForkData.
  apply (hash_root_compile sha256 sha_len spec_ForkData [SBytes fv; SBytes gvr]).
  - repeat constructor; cbn; intuition discriminate.
  - repeat constructor; cbn; lia.
Qed.

Lemma domain_eq dt fv gvr :
  length dt = 4%nat -> length fv = 4%nat -> length gvr = 32%nat ->
  model_domain dt fv gvr = Some (spec_compute_domain dt fv gvr).
Proof.
  intros Hd Hf Hg. unfold model_domain. rewrite fork_data_root_eq by assumption.
  unfold spec_compute_domain. rewrite copy32_id; [reflexivity|].
  rewrite app_length, firstn_length, Hd.
  pose proof (htr_len sha256 sha_len) as Hh.
  assert (Hr : length (spec_compute_fork_data_root fv gvr) = 32%nat).
  { unfold spec_compute_fork_data_root, htr_container. apply merkleize_len; [exact sha_len|].
    repeat constructor; apply Hh. }
  rewrite Hr. reflexivity.
Qed.

Lemma spec_domain_length :
  length (spec_compute_domain DOMAIN_BLS_TO_EXECUTION_CHANGE GENESIS_FORK_VERSION
            MAINNET_GENESIS_VALIDATORS_ROOT) = 32%nat.
Proof.
  unfold spec_compute_domain. rewrite app_length, firstn_length.
  assert (Hr : length (spec_compute_fork_data_root GENESIS_FORK_VERSION MAINNET_GENESIS_VALIDATORS_ROOT) = 32%nat).
  { unfold spec_compute_fork_data_root, htr_container. apply merkleize_len; [exact sha_len|].
    repeat constructor; apply (htr_len sha256 sha_len). }
  rewrite Hr. reflexivity.
Qed.

Lemma bls_root_eq index k a :
  length k = 48%nat -> length a = 20%nat ->
  hash_root sha256 (compile spec_BLSToExecutionChange)
    [("ValidatorIndex", SUint64 index); ("FromBlsPubkey", SBytes k); ("ToExecutionAddress", SBytes a)]
  = Some (spec_bls_change_root index k a).
Proof.
  intros Hk Ha.
  apply (hash_root_compile sha256 sha_len spec_BLSToExecutionChange [SUint64 index; SBytes k; SBytes a]).
  - repeat constructor; cbn; intuition discriminate.
  - repeat constructor; cbn; lia.
Qed.

Lemma signing_data_root_eq o d :
  length o = 32%nat -> length d = 32%nat ->
  hash_root sha256 (compile spec_SigningData) [("ObjectRoot", SBytes o); ("Domain", SBytes d)]
  = Some (spec_compute_signing_root o d).
Proof.
  intros Ho Hd.
  apply (hash_root_compile sha256 sha_len spec_SigningData [SBytes o; SBytes d]).
  - repeat constructor; cbn; intuition discriminate.
  - repeat constructor; cbn; lia.
Qed.

Lemma spec_bls_change_root_length index k a : length (spec_bls_change_root index k a) = 32%nat.
Proof.
  unfold spec_bls_change_root, htr_container. apply merkleize_len; [exact sha_len|].
  repeat constructor; apply (htr_len sha256 sha_len).
Qed.

(* C17, first sentence: for EVERY validator index the offered message is the spec's signing root *)
Theorem model_signing_root_spec (index : N) :
  model_signing_root index = Some (spec_signing_root index).
Proof.
  unfold model_signing_root, model_domain_const.
  destruct gen_constants as (-> & -> & -> & -> & ->).
  rewrite domain_eq by (vm_compute; reflexivity).
  rewrite gen_prog_BLSToExecutionChange, gen_prog_SigningData.
  rewrite bls_root_eq by (vm_compute; reflexivity).
  rewrite signing_data_root_eq.
  - unfold spec_signing_root. reflexivity.
  - apply spec_bls_change_root_length.
  - apply spec_domain_length.
Qed.

Local Close Scope string_scope.
Local Open Scope Z_scope.

(* ---- the baked list ----
   All reasoning is done for an arbitrary list of lines satisfying four boolean checks
   (section variables, so nothing can unfold the 18 633-entry constant); the checks are then
   discharged for the regenerated list by vm_compute and the results instantiated. *)
Definition line_ok (l : list N) : bool :=
  match parse_int64 l with
  | Some v => (0 <=? v) && (v <? 18446744073709551616)
  | None => false
  end.

Definition values_of (main : list (list N)) : list Z :=
  map (fun l => match parse_int64 l with Some v => v | None => -1 end) main.

Fixpoint strictly_increasing (l : list Z) : bool :=
  match l with
  | a :: ((b :: _) as r) => (a <? b) && strictly_increasing r
  | _ => true
  end.

Lemma strictly_increasing_lt l :
  strictly_increasing l = true ->
  forall i j a b, (i < j)%nat -> nth_error l i = Some a -> nth_error l j = Some b -> a < b.
Proof.
  induction l as [|x l IH]; intros Hs i j a b Hij Hi Hj.
  - destruct i; discriminate.
  - destruct l as [|y l'].
    + destruct j as [|[|j]]; [lia|discriminate|discriminate].
    + cbn [strictly_increasing] in Hs. apply andb_prop in Hs as [Hxy Hs]. apply Z.ltb_lt in Hxy.
      destruct i as [|i]; destruct j as [|j]; try lia.
      * cbn in Hi. inversion Hi; subst. cbn [nth_error] in Hj.
        destruct j as [|j].
        -- cbn in Hj. inversion Hj; subst. exact Hxy.
        -- assert (y < b); [|lia].
           apply (IH Hs 0%nat (S j) y b); [lia|reflexivity|exact Hj].
      * cbn [nth_error] in Hi, Hj. apply (IH Hs i j a b); [lia|exact Hi|exact Hj].
Qed.

Section Baked.
Variable lines : list (list N).
Variable count : Z.
Hypothesis Hcount : 0 <= count.
Hypothesis Hlen : Z.of_nat (length lines) = count + 1.
Hypothesis Hall : forallb line_ok (removelast lines) = true.
Hypothesis Hlast : bytes_eqb (last lines [1%N]) [] = true.
Hypothesis Hinc : strictly_increasing (values_of (removelast lines)) = true.

Lemma g_split : lines = removelast lines ++ [[]].
Proof.
  assert (Hne : lines <> []) by (intros E; rewrite E in Hlen; cbn in Hlen; lia).
  rewrite (app_removelast_last [1%N] Hne) at 1.
  destruct (last lines [1%N]); [reflexivity|discriminate].
Qed.

Lemma g_main_length : Z.of_nat (length (removelast lines)) = count.
Proof.
  pose proof Hlen as Hl. rewrite g_split, app_length in Hl. cbn [length] in Hl. lia.
Qed.

Lemma g_nth_main i :
  0 <= i < count -> nth (Z.to_nat i) lines [] = nth (Z.to_nat i) (removelast lines) [].
Proof.
  intros Hi. pose proof g_main_length as Hm. rewrite g_split at 1. apply app_nth1. lia.
Qed.

Lemma g_lines_ok i : 0 <= i < count -> line_ok (nth (Z.to_nat i) lines []) = true.
Proof.
  intros Hi. pose proof Hall as Ha. rewrite forallb_forall in Ha. apply Ha.
  rewrite g_nth_main by exact Hi. pose proof g_main_length as Hm. apply nth_In. lia.
Qed.

Lemma g_values_nodup : NoDup (values_of (removelast lines)).
Proof.
  apply NoDup_nth_error. intros i j Hi Heq.
  destruct (nth_error (values_of (removelast lines)) i) as [a|] eqn:Ea;
    [|apply nth_error_Some in Hi; congruence].
  symmetry in Heq.
  destruct (Nat.lt_trichotomy i j) as [Hlt|[->|Hgt]]; [|reflexivity|].
  - pose proof (strictly_increasing_lt _ Hinc i j a a Hlt Ea Heq). lia.
  - pose proof (strictly_increasing_lt _ Hinc j i a a Hgt Heq Ea). lia.
Qed.

Lemma g_positions_ok i :
  0 <= i < count ->
  exists v, parse_int64 (nth (Z.to_nat i) lines []) = Some v /\
            0 <= v < 18446744073709551616 /\
            reconstruct_baked_in lines i =
              BOk {| ms_id := nth (Z.to_nat i) lines [];
                     ms_file := bakedrange_prefix ++ dec_of_Z i;
                     ms_payload := spec_signing_root (Z.to_N v);
                     ms_baked := true |}.
Proof.
  intros Hi. pose proof (g_lines_ok i Hi) as Hok. unfold line_ok in Hok.
  destruct (parse_int64 (nth (Z.to_nat i) lines [])) as [v|] eqn:Ep; [|discriminate].
  apply andb_prop in Hok as [H0 H1]. apply Z.leb_le in H0. apply Z.ltb_lt in H1.
  exists v. split; [reflexivity|]. split; [lia|].
  unfold reconstruct_baked_in.
  destruct (i <? 0) eqn:E1; [apply Z.ltb_lt in E1; lia|].
  destruct (Z.of_nat (length lines) <=? i) eqn:E2; [apply Z.leb_le in E2; lia|].
  rewrite Ep. unfold uint64_of_int64. rewrite Z.mod_small by lia.
  rewrite model_signing_root_spec. reflexivity.
Qed.

Lemma g_positions_refused i :
  i < 0 \/ count <= i -> exists e, reconstruct_baked_in lines i = BErr e.
Proof.
  intros Hi. unfold reconstruct_baked_in.
  destruct (i <? 0) eqn:E1; [eexists; reflexivity|]. apply Z.ltb_ge in E1.
  destruct (Z.of_nat (length lines) <=? i) eqn:E2; [eexists; reflexivity|].
  apply Z.leb_gt in E2.
  assert (Hn : nth (Z.to_nat i) lines [] = []).
  { pose proof g_main_length as Hm. rewrite g_split, app_nth2 by lia.
    replace (Z.to_nat i - length (removelast lines))%nat with 0%nat by lia. reflexivity. }
  rewrite Hn. cbn. eexists; reflexivity.
Qed.

Lemma g_never_panics i : reconstruct_baked_in lines i <> BPanic.
Proof.
  unfold reconstruct_baked_in.
  destruct (i <? 0); [discriminate|].
  destruct (_ <=? i); [discriminate|].
  destruct (parse_int64 _); [|discriminate].
  destruct (model_signing_root _); discriminate.
Qed.
End Baked.

(* ---- instantiation for the regenerated list ---- *)
Definition baked_count : Z := 18632.
Notation L := Gen.Baked.baked_lines (only parsing).

Lemma baked_shape_check :
  (Z.of_nat (length L) =? 18632 + 1) && forallb line_ok (removelast L) &&
  bytes_eqb (last L [1%N]) [] && strictly_increasing (values_of (removelast L)) = true.
Proof. vm_compute. reflexivity. Qed.

Lemma and4 (a b c d : bool) : a && b && c && d = true -> a = true /\ b = true /\ c = true /\ d = true.
Proof. destruct a, b, c, d; cbn; intuition congruence. Qed.

Lemma baked_checks :
  (Z.of_nat (length L) =? 18632 + 1) = true /\ forallb line_ok (removelast L) = true /\
  bytes_eqb (last L [1%N]) [] = true /\ strictly_increasing (values_of (removelast L)) = true.
Proof.
  exact (and4 (Z.of_nat (length L) =? 18632 + 1) (forallb line_ok (removelast L))
              (bytes_eqb (last L [1%N]) []) (strictly_increasing (values_of (removelast L)))
              baked_shape_check).
Qed.

Lemma baked_length : Z.of_nat (length L) = 18632 + 1.
Proof. destruct baked_checks as (H & _). apply Z.eqb_eq. exact H. Qed.

Lemma baked_count_nonneg : 0 <= 18632.
Proof. lia. Qed.

Theorem baked_values_nodup : NoDup (values_of (removelast L)).
Proof.
  destruct baked_checks as (_ & Hall & Hlast & Hinc).
  exact (g_values_nodup L Hinc).
Qed.

Theorem baked_positions_ok :
  forall i, 0 <= i < 18632 ->
  exists v, parse_int64 (nth (Z.to_nat i) L []) = Some v /\
            0 <= v < 18446744073709551616 /\
            reconstruct_baked_in L i =
              BOk {| ms_id := nth (Z.to_nat i) L [];
                     ms_file := bakedrange_prefix ++ dec_of_Z i;
                     ms_payload := spec_signing_root (Z.to_N v);
                     ms_baked := true |}.
Proof.
  destruct baked_checks as (_ & Hall & Hlast & _).
  exact (g_positions_ok L 18632 baked_count_nonneg baked_length Hall Hlast).
Qed.

Theorem baked_positions_refused :
  forall i, i < 0 \/ 18632 <= i -> exists e, reconstruct_baked_in L i = BErr e.
Proof.
  destruct baked_checks as (_ & _ & Hlast & _).
  exact (g_positions_refused L 18632 baked_count_nonneg baked_length Hlast).
Qed.

Theorem reconstruct_never_panics : forall i, reconstruct_baked_in L i <> BPanic.
Proof. exact (g_never_panics L). Qed.
