(* Model of pkg/wc_rotation.GetSigningRoot, requests.ReconstructBakedMessage and
   requests.TasksToMessages, and the consensus-spec definitions they must equal.
   Model file: definitions only. *)
From Coq Require Import String List NArith ZArith.
Require Import Lib.GoStr Ssz.Sha256 Ssz.Ssz.
Require Gen.Rotation Gen.Baked Gen.SszPrograms.
Import ListNotations.
Local Open Scope N_scope.

(* ---------- consensus specification (hand-written from the spec text) ---------- *)
Definition DOMAIN_BLS_TO_EXECUTION_CHANGE : list N := [0x0A; 0; 0; 0].
Definition GENESIS_FORK_VERSION : list N := [0; 0; 0; 0].
(* mainnet genesis_validators_root 0x4b363db94e286120d76eb905340fdd4e54bfe9f06bf33ff6cf5ad27f511bfe95 *)
Definition MAINNET_GENESIS_VALIDATORS_ROOT : list N :=
  [0x4b;0x36;0x3d;0xb9;0x4e;0x28;0x61;0x20;0xd7;0x6e;0xb9;0x05;0x34;0x0f;0xdd;0x4e;
   0x54;0xbf;0xe9;0xf0;0x6b;0xf3;0x3f;0xf6;0xcf;0x5a;0xd2;0x7f;0x51;0x1b;0xfe;0x95].
(* Lido withdrawal BLS key 0xb67aca71f04b673037b54009b760f1961f3836e5714141c892afdb75ec0834dce6784d9c72ed8ad7db328cff8fe9f13e *)
Definition LIDO_WITHDRAWAL_BLS_KEY : list N :=
  [0xb6;0x7a;0xca;0x71;0xf0;0x4b;0x67;0x30;0x37;0xb5;0x40;0x09;0xb7;0x60;0xf1;0x96;
   0x1f;0x38;0x36;0xe5;0x71;0x41;0x41;0xc8;0x92;0xaf;0xdb;0x75;0xec;0x08;0x34;0xdc;
   0xe6;0x78;0x4d;0x9c;0x72;0xed;0x8a;0xd7;0xdb;0x32;0x8c;0xff;0x8f;0xe9;0xf1;0x3e].
(* Lido execution address 0xb9d7934878b5fb9610b3fe8a5e441e8fad7e293f *)
Definition LIDO_EXECUTION_ADDRESS : list N :=
  [0xb9;0xd7;0x93;0x48;0x78;0xb5;0xfb;0x96;0x10;0xb3;0xfe;0x8a;0x5e;0x44;0x1e;0x8f;0xad;0x7e;0x29;0x3f].

(* container definitions of the spec: field order and types *)
Local Open Scope string_scope.
Definition spec_BLSToExecutionChange : list (string * ftype) :=
  [("ValidatorIndex", FUint64); ("FromBlsPubkey", FBytes 48); ("ToExecutionAddress", FBytes 20)].
Definition spec_ForkData : list (string * ftype) :=
  [("CurrentVersion", FBytes 4); ("GenesisValidatorsRoot", FBytes 32)].
Definition spec_SigningData : list (string * ftype) :=
  [("ObjectRoot", FBytes 32); ("Domain", FBytes 32)].
Local Close Scope string_scope.

Definition spec_compute_fork_data_root (current_version genesis_validators_root : list N) : chunk :=
  htr_container sha256 [SBytes current_version; SBytes genesis_validators_root].
Definition spec_compute_domain (domain_type fork_version genesis_validators_root : list N) : list N :=
  domain_type ++ firstn 28 (spec_compute_fork_data_root fork_version genesis_validators_root).
Definition spec_compute_signing_root (object_root domain : list N) : chunk :=
  htr_container sha256 [SBytes object_root; SBytes domain].
Definition spec_bls_change_root (index : N) (from_bls_pubkey to_execution_address : list N) : chunk :=
  htr_container sha256 [SUint64 index; SBytes from_bls_pubkey; SBytes to_execution_address].
Definition spec_signing_root (index : N) : chunk :=
  spec_compute_signing_root
    (spec_bls_change_root index LIDO_WITHDRAWAL_BLS_KEY LIDO_EXECUTION_ADDRESS)
    (spec_compute_domain DOMAIN_BLS_TO_EXECUTION_CHANGE GENESIS_FORK_VERSION MAINNET_GENESIS_VALIDATORS_ROOT).

(* ---------- model of the Go code ---------- *)
Local Open Scope string_scope.
(* computeForkDataRoot *)
Definition model_fork_data_root (fv gvr : list N) : option chunk :=
  hash_root sha256 Gen.SszPrograms.ForkData_prog
    [("CurrentVersion", SBytes fv); ("GenesisValidatorsRoot", SBytes gvr)].
(* computeDomain: copy(domain[:], append(domainType[:], forkDataRoot[:28]...)) into a [32]byte *)
Definition copy32 (src : list N) : list N :=
  firstn 32 (src ++ repeat 0%N 32).
Definition model_domain (dt fv gvr : list N) : option (list N) :=
  match model_fork_data_root fv gvr with
  | Some r => Some (copy32 (dt ++ firstn 28 r))
  | None => None
  end.
(* the domain does not depend on the index: a constant (computed once by the extracted code) *)
Definition model_domain_const : option (list N) :=
  model_domain Gen.Rotation.DomainBlsToExecutionChange Gen.Rotation.GenesisForkVersion
               Gen.Rotation.GenesisValidatorRoot.

(* GetSigningRoot *)
Local Open Scope string_scope.
Definition model_signing_root (index : N) : option chunk :=
  match model_domain_const with
  | None => None
  | Some domain =>
      match hash_root sha256 Gen.SszPrograms.BLSToExecutionChange_prog
              [("ValidatorIndex", SUint64 index);
               ("FromBlsPubkey", SBytes Gen.Rotation.LidoBlsPubKeyBB);
               ("ToExecutionAddress", SBytes Gen.Rotation.ToExecutionAddress)] with
      | None => None
      | Some obj =>
          hash_root sha256 Gen.SszPrograms.SigningData_prog
            [("ObjectRoot", SBytes obj); ("Domain", SBytes domain)]
      end
  end.
Local Close Scope string_scope.

(* ---------- requests.ReconstructBakedMessage / TasksToMessages ---------- *)
Record msg_to_sign := {
  ms_id : gostring; ms_file : gostring; ms_payload : list N; ms_baked : bool }.

Inductive baked_err := ErrRange | ErrParse | ErrRoot.
Inductive bres (A : Type) := BOk (a : A) | BErr (e : baked_err) | BPanic.
Arguments BOk {A}. Arguments BErr {A}. Arguments BPanic {A}.

Definition bakedrange_prefix : gostring := [98;97;107;101;100;114;97;110;103;101]. (* "bakedrange" *)

Definition reconstruct_baked_in (lines : list (list N)) (id : Z) : bres msg_to_sign :=
  if (id <? 0)%Z then BErr ErrRange
  else if (Z.of_nat (length lines) <=? id)%Z then BErr ErrRange
  else
    let line := nth (Z.to_nat id) lines [] in
    match parse_int64 line with
    | None => BErr ErrParse
    | Some v =>
        match model_signing_root (uint64_of_int64 v) with
        | None => BErr ErrRoot
        | Some root =>
            BOk {| ms_id := line; ms_file := bakedrange_prefix ++ dec_of_Z id;
                   ms_payload := root; ms_baked := true |}
        end
    end.
Definition reconstruct_baked := reconstruct_baked_in Gen.Baked.baked_lines.

(* a signing task: Payload = None is Go's nil slice (baked range) *)
Record task := { tk_id : gostring; tk_file : gostring; tk_payload : option (list N);
                 tk_start : Z; tk_end : Z }.

Fixpoint baked_range_in (lines : list (list N)) (fuel : nat) (i e : Z) : bres (list msg_to_sign) :=
  match fuel with
  | O => BOk []
  | S f => if (i <? e)%Z then
             match reconstruct_baked_in lines i with
             | BOk m => match baked_range_in lines f (i + 1)%Z e with
                        | BOk r => BOk (m :: r)
                        | other => other
                        end
             | BErr x => BErr x
             | BPanic => BPanic
             end
           else BOk []
  end.

Fixpoint tasks_to_messages_in (lines : list (list N)) (ts : list task) : bres (list msg_to_sign) :=
  match ts with
  | [] => BOk []
  | t :: r =>
      let head :=
        match tk_payload t with
        | Some p => BOk [{| ms_id := tk_id t; ms_file := tk_file t; ms_payload := p; ms_baked := false |}]
        | None =>
            (* the loop stops at the first position outside the list, so |list| + 1 steps are always
               enough: the fuel never depends on how wide a (board-supplied) range claims to be *)
            baked_range_in lines (Z.to_nat (Z.min (tk_end t - tk_start t) (Z.of_nat (length lines) + 1)))
                           (tk_start t) (tk_end t)
        end in
      match head with
      | BOk h => match tasks_to_messages_in lines r with
                 | BOk rest => BOk (h ++ rest)
                 | other => other
                 end
      | other => other
      end
  end.

Definition baked_range := baked_range_in Gen.Baked.baked_lines.
Definition tasks_to_messages := tasks_to_messages_in Gen.Baked.baked_lines.
