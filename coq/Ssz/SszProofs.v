(* Proofs about the SSZ model: the program fastssz generates for a container of
   fixed-size fields computes the consensus-spec hash_tree_root, for every field value. *)
From Coq Require Import String List NArith ZArith Arith Lia ZifyNat.
Require Import Ssz.Sha256 Ssz.Ssz.
Import ListNotations.
Ltac Zify.zify_post_hook ::= Z.div_mod_to_equations.

Definition len32 (c : list N) : Prop := length c = 32%nat.

(* ---------- SHA-256 always returns 32 bytes ---------- *)
Lemma round_length st k : length (fst (round st k)) = 8%nat.
Proof. destruct st as [v w]. reflexivity. Qed.

Lemma fold_round_length ks st :
  ks <> [] -> length (fst (fold_left round ks st)) = 8%nat.
Proof.
  revert st. induction ks as [|k ks IH]; intros st Hne; [congruence|].
  cbn [fold_left]. destruct ks as [|k' ks'].
  - cbn [fold_left]. apply round_length.
  - apply IH. discriminate.
Qed.

Lemma compress_length h b : length h = 8%nat -> length (compress h b) = 8%nat.
Proof.
  intros Hh. unfold compress.
  pose proof (fold_round_length K256 (h, b)) as Hf.
  destruct (fold_left round K256 (h, b)) as [v w]. cbn [fst] in Hf.
  rewrite map_length, combine_length, Hh, Hf by (unfold K256; discriminate). reflexivity.
Qed.

Lemma blocks_length fuel ws h : length h = 8%nat -> length (blocks fuel ws h) = 8%nat.
Proof.
  revert ws h. induction fuel as [|f IH]; intros ws h Hh; cbn [blocks]; [exact Hh|].
  destruct ws; [exact Hh|]. apply IH. apply compress_length. exact Hh.
Qed.

Lemma flat_map_bytes_length ws : length (flat_map bytes_of_word ws) = (4 * length ws)%nat.
Proof. induction ws as [|w ws IH]; [reflexivity|]. cbn [flat_map]. rewrite app_length, IH. cbn. lia. Qed.

Theorem sha256_length msg : length (sha256 msg) = 32%nat.
Proof.
  unfold sha256. rewrite flat_map_bytes_length, blocks_length; [reflexivity|reflexivity].
Qed.

(* ---------- chunks ---------- *)
Lemma pad32_length_mod bs : (length (pad32 bs) mod 32 = 0)%nat.
Proof.
  unfold pad32. destruct (length bs mod 32)%nat eqn:E; [exact E|].
  rewrite app_length, repeat_length. lia.
Qed.

Lemma pad32_small bs : (0 < length bs <= 32)%nat -> len32 (pad32 bs).
Proof.
  intros H. unfold len32, pad32. destruct (length bs mod 32)%nat eqn:E.
  - lia.
  - rewrite app_length, repeat_length. lia.
Qed.

Lemma chunks_f_forall fuel l :
  (length l mod 32 = 0)%nat -> Forall len32 (chunks_f fuel l).
Proof.
  revert l. induction fuel as [|f IH]; intros l Hm; cbn [chunks_f]; [constructor|].
  destruct l as [|x l']; [constructor|].
  set (l := x :: l') in *.
  assert (Hge : (32 <= length l)%nat) by (subst l; cbn [length] in *; lia).
  constructor.
  - unfold len32. rewrite firstn_length. lia.
  - apply IH. rewrite skipn_length. lia.
Qed.

Lemma chunks_single l : len32 l -> chunks l = [l].
Proof.
  intros H. unfold chunks. rewrite H. unfold len32 in H.
  destruct l as [|x l']; [discriminate|].
  cbn [chunks_f]. rewrite firstn_all2 by lia.
  rewrite skipn_all2 by lia. reflexivity.
Qed.

Lemma chunks_f_concat cs fuel :
  Forall len32 cs -> (length cs <= fuel)%nat -> chunks_f fuel (concat cs) = cs.
Proof.
  revert fuel. induction cs as [|c cs IH]; intros fuel Hall Hf.
  - destruct fuel; reflexivity.
  - inversion Hall as [|c' cs' Hc Hcs]; subst. unfold len32 in Hc.
    destruct fuel as [|f]; [cbn in Hf; lia|].
    cbn [concat chunks_f].
    destruct (c ++ concat cs) as [|y r] eqn:E.
    + destruct c; [discriminate|discriminate].
    + rewrite <- E. rewrite firstn_app, skipn_app, Hc, Nat.sub_diag.
      rewrite firstn_all2 by lia. rewrite skipn_all2 by lia.
      cbn [firstn skipn app]. rewrite app_nil_r. f_equal. apply IH; [exact Hcs|cbn in Hf; lia].
Qed.

Lemma concat_length32 cs : Forall len32 cs -> length (concat cs) = (32 * length cs)%nat.
Proof.
  induction 1 as [|c cs Hc _ IH]; [reflexivity|].
  cbn [concat length]. rewrite app_length, IH. unfold len32 in Hc. lia.
Qed.

Lemma chunks_concat cs : Forall len32 cs -> chunks (concat cs) = cs.
Proof.
  intros H. unfold chunks. apply chunks_f_concat; [exact H|].
  rewrite concat_length32 by exact H. lia.
Qed.

Section WithHash.
Variable H : list N -> list N.
Hypothesis H_length : forall x, len32 (H x).

Lemma zero_chunk_len : len32 zero_chunk.
Proof. reflexivity. Qed.

Lemma pair_up_forall l : Forall len32 (pair_up H l).
Proof.
  assert (Hn : forall n l0, (length l0 <= n)%nat -> Forall len32 (pair_up H l0)).
  { induction n as [|n IH]; intros l0 Hl.
    - destruct l0; [constructor|cbn in Hl; lia].
    - destruct l0 as [|a0 [|b0 r]]; [constructor|constructor|].
      cbn [pair_up]. constructor; [apply H_length|]. apply IH. cbn in Hl. lia. }
  apply (Hn (length l)). lia.
Qed.

Lemma reduce_len fuel l : Forall len32 l -> len32 (reduce H fuel l).
Proof.
  revert l. induction fuel as [|f IH]; intros l Hl; cbn [reduce].
  - destruct l; [apply zero_chunk_len|]. inversion Hl; assumption.
  - destruct l as [|c [|d r]].
    + apply IH. constructor.
    + inversion Hl; assumption.
    + apply IH. apply pair_up_forall.
Qed.

Lemma merkleize_len cs : Forall len32 cs -> len32 (merkleize H cs).
Proof.
  intros Hc. unfold merkleize. apply reduce_len.
  apply Forall_app. split; [exact Hc|]. apply Forall_forall. intros x Hx.
  apply repeat_spec in Hx. subst. apply zero_chunk_len.
Qed.

Lemma merkleize_single c : merkleize H [c] = c.
Proof. reflexivity. Qed.

(* ---------- typing of field values ---------- *)
Definition wt (t : ftype) (v : sval) : Prop :=
  match t, v with
  | FUint64, SUint64 _ => True
  | FBytes n, SBytes bs => length bs = n /\ (0 < n)%nat
  | _, _ => False
  end.

Lemma le64_length x : length (le64 x) = 8%nat.
Proof. reflexivity. Qed.

Lemma pack_forall bs : Forall len32 (pack bs).
Proof. unfold pack, chunks. apply chunks_f_forall. apply pad32_length_mod. Qed.

Lemma htr_len v : len32 (htr H v).
Proof. destruct v; cbn [htr]; apply merkleize_len; apply pack_forall. Qed.

Lemma htr_small bs : (0 < length bs <= 32)%nat -> htr H (SBytes bs) = pad32 bs.
Proof.
  intros Hb. cbn [htr]. unfold pack. rewrite chunks_single by (apply pad32_small; exact Hb).
  apply merkleize_single.
Qed.

Lemma htr_uint64 x : htr H (SUint64 x) = pad32 (le64 x).
Proof.
  cbn [htr]. unfold pack. rewrite chunks_single; [apply merkleize_single|].
  apply pad32_small. rewrite le64_length. lia.
Qed.

Lemma put_step env s name t v :
  lookup name env = Some v -> wt t v ->
  hstep H env s (put_of (name, t)) = Some {| buf := buf s ++ htr H v; stack := stack s |}.
Proof.
  intros Hl Hw. unfold put_of. cbn [snd fst].
  destruct t as [|n]; destruct v as [x|bs]; cbn [wt] in Hw; try contradiction.
  - cbn [hstep]. rewrite Hl. rewrite htr_uint64. reflexivity.
  - destruct Hw as [Hlen Hpos]. cbn [hstep]. rewrite Hl.
    destruct (Nat.leb (length bs) 32) eqn:E.
    + apply Nat.leb_le in E. rewrite htr_small by lia. reflexivity.
    + reflexivity.
Qed.

(* environment built from the field list and the values, in order *)
Definition mkenv (fs : list (string * ftype)) (vs : list sval) : list (string * sval) :=
  combine (map fst fs) vs.

Lemma lookup_in_env env name v :
  NoDup (map fst env) -> In (name, v) env -> lookup name env = Some v.
Proof.
  induction env as [|[k w] env IH]; intros Hnd Hin; [contradiction|].
  cbn [lookup]. cbn [map fst] in Hnd. inversion Hnd as [|? ? Hnotin Hnd']; subst.
  destruct Hin as [Heq|Hin].
  - inversion Heq; subst. rewrite String.eqb_refl. reflexivity.
  - destruct (String.eqb k name) eqn:E.
    + apply String.eqb_eq in E. subst. exfalso. apply Hnotin.
      apply in_map_iff. exists (name, v). split; [reflexivity|exact Hin].
    + apply IH; assumption.
Qed.

Lemma hrun_puts env fs vs s :
  Forall2 (fun f v => lookup (fst f) env = Some v /\ wt (snd f) v) fs vs ->
  hrun H env s (map put_of fs) =
    Some {| buf := buf s ++ concat (map (htr H) vs); stack := stack s |}.
Proof.
  intros HF. revert s. induction HF as [|f v fs vs [Hl Hw] _ IH]; intros s.
  - cbn. rewrite app_nil_r. destruct s; reflexivity.
  - cbn [map hrun]. destruct f as [name t]. cbn [fst snd] in *.
    rewrite (put_step env s name t v Hl Hw). rewrite IH. cbn [buf stack concat].
    rewrite app_assoc. reflexivity.
Qed.

Lemma hrun_app env s p q :
  hrun H env s (p ++ q) = match hrun H env s p with Some s' => hrun H env s' q | None => None end.
Proof.
  revert s. induction p as [|i p IH]; intros s; cbn [app hrun]; [reflexivity|].
  destruct (hstep H env s i); [apply IH|reflexivity].
Qed.

Lemma map_fst_combine_eq {A B} (a : list A) (b : list B) :
  length a = length b -> map fst (combine a b) = a.
Proof.
  revert b. induction a as [|x a IH]; intros [|y b] Hl; cbn in *; try discriminate; [reflexivity|].
  f_equal. apply IH. lia.
Qed.

Lemma in_combine_fst (fs : list (string * ftype)) (vs : list sval) f v :
  In (f, v) (combine fs vs) -> In (fst f, v) (combine (map fst fs) vs).
Proof.
  revert vs. induction fs as [|g fs IH]; intros [|w vs] Hin; cbn in *; try contradiction.
  destruct Hin as [Heq|Hin]; [left; inversion Heq; reflexivity|right; apply IH; exact Hin].
Qed.

Lemma forall2_env (env : list (string * sval)) fs vs :
  (forall f v, In (f, v) (combine fs vs) -> lookup (fst f) env = Some v) ->
  Forall2 (fun f v => wt (snd f) v) fs vs ->
  Forall2 (fun f v => lookup (fst f) env = Some v /\ wt (snd f) v) fs vs.
Proof.
  intros Hsub Hwt. induction Hwt as [|f v fs' vs' Hw _ IH]; constructor.
  - split; [apply Hsub; left; reflexivity|exact Hw].
  - apply IH. intros g w Hin. apply Hsub. right. exact Hin.
Qed.

(* the program fastssz generates computes the spec's hash_tree_root *)
Theorem hash_root_compile fs vs :
  NoDup (map fst fs) -> Forall2 (fun f v => wt (snd f) v) fs vs ->
  hash_root H (compile fs) (mkenv fs vs) = Some (htr_container H vs).
Proof.
  intros Hnd Hwt.
  assert (Hlen : length fs = length vs).
  { clear Hnd. induction Hwt as [|f v fs' vs' _ _ IH]; [reflexivity|cbn; f_equal; exact IH]. }
  assert (HF : Forall2 (fun f v => lookup (fst f) (mkenv fs vs) = Some v /\ wt (snd f) v) fs vs).
  { apply forall2_env; [|exact Hwt]. intros f v Hin. apply lookup_in_env.
    - unfold mkenv. rewrite map_fst_combine_eq by (rewrite map_length; exact Hlen). exact Hnd.
    - apply in_combine_fst. exact Hin. }
  unfold hash_root, compile. cbn [hrun hstep buf stack length].
  rewrite hrun_app, (hrun_puts _ _ _ _ HF). cbn [buf stack app hrun hstep firstn skipn].
  unfold merkleize_bytes.
  assert (Hall : Forall len32 (map (htr H) vs)).
  { apply Forall_forall. intros c Hc. apply in_map_iff in Hc as (v & <- & _). apply htr_len. }
  rewrite chunks_concat by exact Hall.
  pose proof (merkleize_len _ Hall) as Hm. unfold len32 in Hm. rewrite Hm.
  reflexivity.
Qed.

End WithHash.
