(* SHA-256 (FIPS 180-4) over N; bytes are N < 256, words are N < 2^32.
   Model file: definitions only (no proofs), so that it keeps running when a proof breaks. *)
From Coq Require Import List NArith.
Import ListNotations.
Local Open Scope N_scope.

Definition w32 : N := 4294967296.
Definition mask32 : N := 4294967295.
Definition add32 (a b : N) : N := N.land (a + b) mask32.
Definition rotr (n x : N) : N := N.lor (N.shiftr x n) (N.land (N.shiftl x (32 - n)) mask32).
Definition shr (n x : N) : N := N.shiftr x n.
Definition not32 (x : N) : N := N.lxor x mask32.
Definition ch (x y z : N) : N := N.lxor (N.land x y) (N.land (not32 x) z).
Definition maj (x y z : N) : N := N.lxor (N.lxor (N.land x y) (N.land x z)) (N.land y z).
Definition bsig0 (x : N) : N := N.lxor (N.lxor (rotr 2 x) (rotr 13 x)) (rotr 22 x).
Definition bsig1 (x : N) : N := N.lxor (N.lxor (rotr 6 x) (rotr 11 x)) (rotr 25 x).
Definition ssig0 (x : N) : N := N.lxor (N.lxor (rotr 7 x) (rotr 18 x)) (shr 3 x).
Definition ssig1 (x : N) : N := N.lxor (N.lxor (rotr 17 x) (rotr 19 x)) (shr 10 x).

Definition K256 : list N :=
 [0x428a2f98; 0x71374491; 0xb5c0fbcf; 0xe9b5dba5; 0x3956c25b; 0x59f111f1; 0x923f82a4; 0xab1c5ed5;
  0xd807aa98; 0x12835b01; 0x243185be; 0x550c7dc3; 0x72be5d74; 0x80deb1fe; 0x9bdc06a7; 0xc19bf174;
  0xe49b69c1; 0xefbe4786; 0x0fc19dc6; 0x240ca1cc; 0x2de92c6f; 0x4a7484aa; 0x5cb0a9dc; 0x76f988da;
  0x983e5152; 0xa831c66d; 0xb00327c8; 0xbf597fc7; 0xc6e00bf3; 0xd5a79147; 0x06ca6351; 0x14292967;
  0x27b70a85; 0x2e1b2138; 0x4d2c6dfc; 0x53380d13; 0x650a7354; 0x766a0abb; 0x81c2c92e; 0x92722c85;
  0xa2bfe8a1; 0xa81a664b; 0xc24b8b70; 0xc76c51a3; 0xd192e819; 0xd6990624; 0xf40e3585; 0x106aa070;
  0x19a4c116; 0x1e376c08; 0x2748774c; 0x34b0bcb5; 0x391c0cb3; 0x4ed8aa4a; 0x5b9cca4f; 0x682e6ff3;
  0x748f82ee; 0x78a5636f; 0x84c87814; 0x8cc70208; 0x90befffa; 0xa4506ceb; 0xbef9a3f7; 0xc67178f2].

Definition H0 : list N :=
 [0x6a09e667; 0xbb67ae85; 0x3c6ef372; 0xa54ff53a; 0x510e527f; 0x9b05688c; 0x1f83d9ab; 0x5be0cd19].

Definition nthN (l : list N) (i : nat) : N := nth i l 0.

(* one round: working variables [a;b;c;d;e;f;g;h], schedule window w (16 words, w0 first) *)
Definition round (st : list N * list N) (k : N) : list N * list N :=
  let (v, w) := st in
  let a := nthN v 0 in let b := nthN v 1 in let c := nthN v 2 in let d := nthN v 3 in
  let e := nthN v 4 in let f := nthN v 5 in let g := nthN v 6 in let h := nthN v 7 in
  let wt := nthN w 0 in
  let t1 := add32 (add32 (add32 (add32 h (bsig1 e)) (ch e f g)) k) wt in
  let t2 := add32 (bsig0 a) (maj a b c) in
  let wn := add32 (add32 (add32 (ssig1 (nthN w 14)) (nthN w 9)) (ssig0 (nthN w 1))) wt in
  ([add32 t1 t2; a; b; c; add32 d t1; e; f; g], tl w ++ [wn]).

Definition compress (h : list N) (block : list N) : list N :=
  let (v, _) := fold_left round K256 (h, block) in
  map (fun p => add32 (fst p) (snd p)) (combine h v).

(* big-endian bytes <-> words *)
Fixpoint words_of_bytes (bs : list N) : list N :=
  match bs with
  | a :: b :: c :: d :: r => (a * 16777216 + b * 65536 + c * 256 + d) :: words_of_bytes r
  | _ => []
  end.
Definition bytes_of_word (w : N) : list N :=
  [N.land (N.shiftr w 24) 255; N.land (N.shiftr w 16) 255; N.land (N.shiftr w 8) 255; N.land w 255].

Definition be64 (n : N) : list N :=
  map (fun k => N.land (N.shiftr n (8 * k)) 255) [7; 6; 5; 4; 3; 2; 1; 0].

Definition sha_pad (msg : list N) : list N :=
  let l := N.of_nat (length msg) in
  let z := N.to_nat ((119 - l mod 64) mod 64) in   (* l + 1 + z = 56 (mod 64) *)
  msg ++ [128] ++ repeat 0 z ++ be64 (8 * l).

Fixpoint blocks (fuel : nat) (ws : list N) (h : list N) : list N :=
  match fuel with
  | O => h
  | S f => match ws with
           | [] => h
           | _ => blocks f (skipn 16 ws) (compress h (firstn 16 ws))
           end
  end.

Definition sha256 (msg : list N) : list N :=
  let ws := words_of_bytes (sha_pad msg) in
  flat_map bytes_of_word (blocks (S (length ws)) ws H0).
