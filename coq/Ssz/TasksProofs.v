(* C03: every participant expands a proposal into the same ordered list of (id, file, payload):
   explicit tasks stand for themselves, a baked range for the positions start <= i < end, each with
   the consensus-spec signing root of the validator at that position (C17). *)
From Coq Require Import String List NArith ZArith Lia Bool.
Require Import Lib.GoStr Ssz.Sha256 Ssz.Ssz Ssz.Rotation Ssz.RotationProofs.
Require Gen.Baked.
Import ListNotations.
Local Open Scope Z_scope.

Section Expand.
Variable lines : list (list N).
(* what C17 establishes for the regenerated list (instantiated below) *)
Hypothesis positions :
  forall i, 0 <= i < 18632 ->
  exists v, parse_int64 (nth (Z.to_nat i) lines []) = Some v /\ 0 <= v < 18446744073709551616 /\
            reconstruct_baked_in lines i =
              BOk {| ms_id := nth (Z.to_nat i) lines []; ms_file := bakedrange_prefix ++ dec_of_Z i;
                     ms_payload := spec_signing_root (Z.to_N v); ms_baked := true |}.

(* an explicit task expands to exactly itself *)
Lemma expand_explicit t p rest msgs :
  tk_payload t = Some p -> tasks_to_messages_in lines rest = BOk msgs ->
  tasks_to_messages_in lines (t :: rest) =
    BOk ({| ms_id := tk_id t; ms_file := tk_file t; ms_payload := p; ms_baked := false |} :: msgs).
Proof. intros Hp Hr. cbn [tasks_to_messages_in]. rewrite Hp, Hr. reflexivity. Qed.

(* the expansion of a concatenation is the concatenation of the expansions (order and count) *)
Lemma expand_app a b ma mb :
  tasks_to_messages_in lines a = BOk ma -> tasks_to_messages_in lines b = BOk mb ->
  tasks_to_messages_in lines (a ++ b) = BOk (ma ++ mb).
Proof.
  revert ma. induction a as [|t a IH]; intros ma Ha Hb; cbn [app tasks_to_messages_in] in *.
  - inversion Ha; subst. exact Hb.
  - destruct (match tk_payload t with Some p => _ | None => _ end) as [h|e|] eqn:Eh; try discriminate.
    destruct (tasks_to_messages_in lines a) as [ra|e|] eqn:Ea; try discriminate.
    inversion Ha; subst. rewrite (IH ra eq_refl Hb). rewrite app_assoc. reflexivity.
Qed.

(* a baked range: one message per position, in order, each carrying the spec signing root *)
Lemma baked_range_ok fuel s e :
  0 <= s -> e <= 18632 -> (Z.to_nat (e - s) <= fuel)%nat ->
  exists msgs, baked_range_in lines fuel s e = BOk msgs /\ Z.of_nat (length msgs) = Z.max 0 (e - s) /\
    forall k, (k < length msgs)%nat ->
      exists v m, nth_error msgs k = Some m /\
                  parse_int64 (nth (Z.to_nat (s + Z.of_nat k)) lines []) = Some v /\
                  ms_payload m = spec_signing_root (Z.to_N v) /\ ms_baked m = true /\
                  ms_id m = nth (Z.to_nat (s + Z.of_nat k)) lines [] /\
                  ms_file m = bakedrange_prefix ++ dec_of_Z (s + Z.of_nat k).
Proof.
  revert s. induction fuel as [|f IH]; intros s Hs He Hf.
  - exists []. cbn [baked_range_in length]. split; [reflexivity|]. split; [lia|]. intros k Hk. cbn [length] in Hk. lia.
  - cbn [baked_range_in]. destruct (s <? e) eqn:Elt.
    + apply Z.ltb_lt in Elt.
      destruct (positions s) as (v & Hp & Hv & Hr); [lia|]. rewrite Hr.
      destruct (IH (s + 1)) as (rest & Hrest & Hlen & Hall); [lia|lia|lia|].
      rewrite Hrest. eexists. split; [reflexivity|]. split; [cbn [length]; lia|].
      intros [|k] Hk.
      * exists v. eexists. cbn [nth_error]. replace (s + Z.of_nat 0) with s by lia.
        split; [reflexivity|]. cbn [ms_payload ms_baked ms_id ms_file]. repeat split; auto.
      * cbn [length] in Hk. destruct (Hall k) as (v' & m & Hn & Hp' & Hpay & Hb & Hid & Hfile); [lia|].
        exists v', m. cbn [nth_error]. replace (s + Z.of_nat (S k)) with (s + 1 + Z.of_nat k) by lia. repeat split; auto.
    + apply Z.ltb_ge in Elt. exists []. split; [reflexivity|]. split; [cbn [length]; lia|]. intros k Hk. cbn [length] in Hk. lia.
Qed.
End Expand.

(* instantiated for the regenerated list *)
Theorem baked_range_spec fuel s e :
  0 <= s -> e <= 18632 -> (Z.to_nat (e - s) <= fuel)%nat ->
  exists msgs, baked_range_in Gen.Baked.baked_lines fuel s e = BOk msgs /\ Z.of_nat (length msgs) = Z.max 0 (e - s) /\
    forall k, (k < length msgs)%nat ->
      exists v m, nth_error msgs k = Some m /\
                  parse_int64 (nth (Z.to_nat (s + Z.of_nat k)) Gen.Baked.baked_lines []) = Some v /\
                  ms_payload m = spec_signing_root (Z.to_N v) /\ ms_baked m = true /\
                  ms_id m = nth (Z.to_nat (s + Z.of_nat k)) Gen.Baked.baked_lines [] /\
                  ms_file m = bakedrange_prefix ++ dec_of_Z (s + Z.of_nat k).
Proof. exact (baked_range_ok Gen.Baked.baked_lines baked_positions_ok fuel s e). Qed.

(* ---- a range that reaches outside the list is REFUSED whatever its width: the loop stops at the
   first position outside, so the bounded fuel of tasks_to_messages (|list| + 1 steps at most) is
   enough - the model never iterates over a board-supplied width ---- *)
Lemma baked_range_refused_from s e fuel :
  s < e -> 0 <= s <= 18632 -> 18632 < e -> (Z.to_nat (18632 - s) < fuel)%nat ->
  exists err, baked_range_in Gen.Baked.baked_lines fuel s e = BErr err.
Proof.
  intros Hlt Hs He Hf.
  remember (Z.to_nat (18632 - s)) as d eqn:Hd. revert s fuel Hlt Hs Hd Hf.
  induction d as [|d IH]; intros s fuel Hlt Hs Hd Hf.
  - assert (s = 18632) by lia. subst s.
    destruct fuel as [|f]; [lia|]. cbn [baked_range_in].
    replace (18632 <? e) with true by (symmetry; apply Z.ltb_lt; lia).
    destruct (baked_positions_refused 18632 (or_intror (Z.le_refl _))) as [err Herr]. rewrite Herr. eexists; reflexivity.
  - destruct fuel as [|f]; [lia|]. cbn [baked_range_in].
    replace (s <? e) with true by (symmetry; apply Z.ltb_lt; lia).
    destruct (baked_positions_ok s) as (v & _ & _ & Hok); [lia|]. rewrite Hok.
    destruct (IH (s + 1) f) as [err Herr]; try lia. rewrite Herr. eexists; reflexivity.
Qed.

Theorem range_outside_refused lines_task :
  tk_payload lines_task = None -> tk_start lines_task < tk_end lines_task ->
  (tk_start lines_task < 0 \/ 18632 < tk_end lines_task) ->
  forall rest, exists err, tasks_to_messages (lines_task :: rest) = BErr err.
Proof.
  intros Hp Hlt Hout rest. unfold tasks_to_messages. cbn [tasks_to_messages_in]. rewrite Hp.
  assert (Hlen : Z.of_nat (length Gen.Baked.baked_lines) = 18633) by (vm_compute; reflexivity).
  rewrite Hlen.
  set (s := tk_start lines_task) in *. set (e := tk_end lines_task) in *.
  assert (Hex : exists err, baked_range_in Gen.Baked.baked_lines (Z.to_nat (Z.min (e - s) (18633 + 1))) s e = BErr err).
  { destruct (Z_lt_ge_dec s 0) as [Hneg|Hnn].
    - (* the first position is negative *)
      assert (Hf : exists f, Z.to_nat (Z.min (e - s) (18633 + 1)) = S f).
      { exists (Nat.pred (Z.to_nat (Z.min (e - s) (18633 + 1)))). lia. }
      destruct Hf as [f ->]. cbn [baked_range_in].
      replace (s <? e) with true by (symmetry; apply Z.ltb_lt; lia).
      destruct (baked_positions_refused s (or_introl Hneg)) as [err Herr]. rewrite Herr. eexists; reflexivity.
    - destruct Hout as [Hneg|Hbig]; [lia|].
      destruct (Z_le_gt_dec s 18632) as [Hin|Hbeyond].
      + apply baked_range_refused_from; lia.
      + assert (Hf : exists f, Z.to_nat (Z.min (e - s) (18633 + 1)) = S f).
        { exists (Nat.pred (Z.to_nat (Z.min (e - s) (18633 + 1)))). lia. }
        destruct Hf as [f ->]. cbn [baked_range_in].
        replace (s <? e) with true by (symmetry; apply Z.ltb_lt; lia).
        destruct (baked_positions_refused s) as [err Herr]; [right; lia|]. rewrite Herr. eexists; reflexivity. }
  destruct Hex as [err Herr]. rewrite Herr. eexists; reflexivity.
Qed.
