(* C16 — the file bulletin board is an append-only, gap-free, totally ordered log. *)
From Coq Require Import List NArith ZArith Bool.
Require Import Board.File Board.FileProofs Board.Raw Board.RawProofs.
From Coq Require Import Sorted.
Require Gen.Skeletons.
Import ListNotations.
Local Open Scope Z_scope.

(* the step list of `send` regenerated from the source is Lock; Seek; Count; Marshal; Write; Unlock
   and both scanners use the same 1 MiB limit *)
Theorem C16_send_steps : Gen.Skeletons.file_send_steps = expected_send.
Proof. exact send_steps_ok. Qed.
Theorem C16_limits : Gen.Skeletons.count_limit = LIMIT /\ Gen.Skeletons.read_limit = LIMIT.
Proof. exact limits_ok. Qed.

(* any number of concurrent writers, any schedule of their atomic steps: every entry's offset is its
   position (0,1,2,... without gaps or repeats) and no line exceeds the limit; the invariant
   holds initially for any well-formed file and idle writers with admissible messages *)
Theorem C16_concurrent_offsets_are_positions :
  forall limit wd sched, Inv limit wd -> Inv limit (run_sched expected_send limit wd sched).
Proof. exact concurrent_sends_ok. Qed.
Print Assumptions C16_concurrent_offsets_are_positions.

Theorem C16_initial_world :
  forall limit f todo, positions_ok f -> lines_ok limit f -> Forall (Forall (fun m => snd m <= limit)) todo ->
  Inv limit {| file := f; lock := None;
               writers := map (fun t => {| w_pc := []; w_todo := t; w_cur := None; w_off := 0 |}) todo |}.
Proof. exact initial_inv. Qed.

(* previously written entries never change, whatever the step list and schedule *)
Theorem C16_append_only :
  forall prog limit wd sched, exists tail, file (run_sched prog limit wd sched) = file wd ++ tail.
Proof. exact append_only. Qed.
Print Assumptions C16_append_only.

(* sequential sends: offsets are positions, the sent messages appear exactly once and in order *)
Theorem C16_sequential :
  forall limit ms f, positions_ok f -> lines_ok limit f -> Forall (fun m => snd m <= limit) ms ->
  let f' := fold_left (send_seq limit) ms f in
  positions_ok f' /\ lines_ok limit f' /\ map e_tag f' = map e_tag f ++ map (fun m => fst (fst m)) ms /\
  exists tail, f' = f ++ tail.
Proof. exact sends_seq_ok. Qed.

(* reading from offset k: exactly the entries from position k on, minus the ignored ones *)
Theorem C16_read_from_k :
  forall limit f k ign_ids ign_offs, lines_ok limit f -> 0 <= k ->
  get_messages limit f k ign_ids ign_offs =
    Some (filter (fun e => negb (existsb (N.eqb (e_id e)) ign_ids) && negb (existsb (Z.eqb (e_offset e)) ign_offs))
                 (skipn (Z.to_nat k) f)).
Proof. exact read_from_k. Qed.
Print Assumptions C16_read_from_k.

(* ---- an ARBITRARY board file: anybody who can write to it may append a line that does not decode
   or that claims any offset (the reader of the repaired tree: fixes 296c60b, 17fbb2c) ---- *)

(* every entry handed out carries the POSITION of the line it was decoded from, at or after the
   requested offset; tag and id are that line's; it is not on an ignore list *)
Theorem C16_raw_offsets_are_positions :
  forall pos k ids offs l e, In e (read_from pos k ids offs l) ->
  exists i x, nth_error l i = Some (LEntry x) /\ e_offset e = pos + Z.of_nat i /\ k <= e_offset e /\
              e_tag e = e_tag x /\ e_id e = e_id x /\
              existsb (N.eqb (e_id x)) ids = false /\ existsb (Z.eqb (e_offset e)) offs = false.
Proof. exact read_from_sound. Qed.
Print Assumptions C16_raw_offsets_are_positions.

(* every decodable line at or after the requested offset that is not ignored IS handed out: a line
   that does not decode hides nothing but itself *)
Theorem C16_raw_nothing_hidden :
  forall pos k ids offs l i x,
  nth_error l i = Some (LEntry x) -> k <= pos + Z.of_nat i ->
  existsb (N.eqb (e_id x)) ids = false -> existsb (Z.eqb (pos + Z.of_nat i)) offs = false ->
  In {| e_tag := e_tag x; e_offset := pos + Z.of_nat i; e_id := e_id x; e_len := e_len x |} (read_from pos k ids offs l).
Proof. exact read_from_complete. Qed.

(* the offsets handed out are strictly increasing: totally ordered, no repeats *)
Theorem C16_raw_totally_ordered :
  forall pos k ids offs l, StronglySorted (fun a b => e_offset a < e_offset b) (read_from pos k ids offs l).
Proof. exact read_from_increasing. Qed.

(* resuming at k gives exactly what a reader from the start was given at offsets >= k: a poller that
   resumes at (the last offset it was given) + 1 misses nothing and sees nothing twice *)
Theorem C16_raw_resume :
  forall pos k ids offs l,
  read_from pos k ids offs l = filter (fun e => k <=? e_offset e) (read_from pos pos ids offs l).
Proof. exact read_from_resume. Qed.
Print Assumptions C16_raw_resume.

(* on a file that only `send` has written the two readers are one *)
Theorem C16_raw_reader_on_sent_file :
  forall limit f k ids offs, positions_ok f -> lines_ok limit f -> 0 <= k ->
  get_messages_raw limit (map LEntry f) k ids offs = get_messages limit f k ids offs.
Proof. exact raw_reader_on_sent_file. Qed.
