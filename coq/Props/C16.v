(* C16 — the file bulletin board is an append-only, gap-free, totally ordered log. *)
From Coq Require Import List NArith ZArith Bool.
Require Import Board.File Board.FileProofs.
Require Gen.Skeletons.
Import ListNotations.
Local Open Scope Z_scope.

(* the step list of `send` regenerated from the source is Lock; Seek; Count; Marshal; Write; Unlock
   and both scanners use the same 1 MiB limit *)
Theorem C16_send_steps : Gen.Skeletons.file_send_steps = expected_send.
Proof. exact send_steps_ok. Qed.
Theorem C16_limits : Gen.Skeletons.count_limit = LIMIT /\ Gen.Skeletons.read_limit = LIMIT.
Proof. exact limits_ok. Qed.

(* any number of concurrent writers, any schedule of their atomic steps: every entry's offset is its
   position (0,1,2,... without gaps or repeats) and no line exceeds the limit; the invariant
   holds initially for any well-formed file and idle writers with admissible messages *)
Theorem C16_concurrent_offsets_are_positions :
  forall limit wd sched, Inv limit wd -> Inv limit (run_sched expected_send limit wd sched).
Proof. exact concurrent_sends_ok. Qed.
Print Assumptions C16_concurrent_offsets_are_positions.

Theorem C16_initial_world :
  forall limit f todo, positions_ok f -> lines_ok limit f -> Forall (Forall (fun m => snd m <= limit)) todo ->
  Inv limit {| file := f; lock := None;
               writers := map (fun t => {| w_pc := []; w_todo := t; w_cur := None; w_off := 0 |}) todo |}.
Proof. exact initial_inv. Qed.

(* previously written entries never change, whatever the step list and schedule *)
Theorem C16_append_only :
  forall prog limit wd sched, exists tail, file (run_sched prog limit wd sched) = file wd ++ tail.
Proof. exact append_only. Qed.
Print Assumptions C16_append_only.

(* sequential sends: offsets are positions, the sent messages appear exactly once and in order *)
Theorem C16_sequential :
  forall limit ms f, positions_ok f -> lines_ok limit f -> Forall (fun m => snd m <= limit) ms ->
  let f' := fold_left (send_seq limit) ms f in
  positions_ok f' /\ lines_ok limit f' /\ map e_tag f' = map e_tag f ++ map (fun m => fst (fst m)) ms /\
  exists tail, f' = f ++ tail.
Proof. exact sends_seq_ok. Qed.

(* reading from offset k: exactly the entries from position k on, minus the ignored ones *)
Theorem C16_read_from_k :
  forall limit f k ign_ids ign_offs, lines_ok limit f -> 0 <= k ->
  get_messages limit f k ign_ids ign_offs =
    Some (filter (fun e => negb (existsb (N.eqb (e_id e)) ign_ids) && negb (existsb (Z.eqb (e_offset e)) ign_offs))
                 (skipn (Z.to_nat k) f)).
Proof. exact read_from_k. Qed.
Print Assumptions C16_read_from_k.
