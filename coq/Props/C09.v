(* C09 — no state change without a valid signature by the claimed sender's registered key. *)
From Coq Require Import String List NArith ZArith Bool.
Require Import Fsm.EngineDefs Fsm.Types Fsm.Actions Fsm.Provider Node.Types Node.Process Node.Facts.
Import ListNotations.

(* for every node state, clock value and board message other than the opening proposal
   (reinitialisation is a separate input): if the signature is not the signature of the key
   registered in that round for the named sender over exactly the message's data — unknown
   sender, altered payload, altered/missing signature, any other key — the message is refused and
   the trace of writes is empty: every round, the operation pool, the signature store and the
   board are exactly as they were *)
Theorem C09_unsigned_message_refused :
  forall now st m,
  ns_skip st = false -> m_event m <> ev_sig_init ->
  (forall p, round_payload st (m_round m) p -> ~ valid_sig p m) ->
  untouched st (node_step now st (InMsg m)).
Proof. exact unsigned_message_refused. Qed.
Print Assumptions C09_unsigned_message_refused.

(* a round nobody opened has no registered keys: nothing but a proposal can be valid for it *)
Theorem C09_unknown_round_has_no_keys :
  forall m i, create = LoadOk i -> ~ valid_sig (i_payload i) m.
Proof. exact fresh_round_no_valid_sig. Qed.
Print Assumptions C09_unknown_round_has_no_keys.

(* regenerated from cmd/dc4bc_d on every run: every option key of the daemon is bound to the command-line
   flag of the same name - the switch that turns signature verification off is its own flag, and no other
   flag (e.g. the one that lists offsets to ignore) sets it *)
Require Gen.Skeletons.
Theorem C09_verification_switch_is_its_own_flag : Gen.Skeletons.daemon_flags_bound_to_themselves = true.
Proof. reflexivity. Qed.
