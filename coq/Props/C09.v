(* C09 — no state change without a valid signature by the claimed sender's registered key. *)
From Coq Require Import String List NArith ZArith Bool.
Require Import Fsm.EngineDefs Fsm.Types Fsm.Actions Fsm.Provider Node.Types Node.Process Node.Facts.
Import ListNotations.

(* for every node state, clock value and board message other than the opening proposal
   (reinitialisation is a separate input): if the signature is not the signature of the key
   registered in that round for the named sender over exactly the message's data — unknown
   sender, altered payload, altered/missing signature, any other key — the message is refused and
   the trace of writes is empty: every round, the operation pool, the signature store and the
   board are exactly as they were *)
Theorem C09_unsigned_message_refused :
  forall now st m,
  ns_skip st = false -> m_event m <> ev_sig_init ->
  (forall p, round_payload st (m_round m) p -> ~ valid_sig p m) ->
  untouched st (node_step now st (InMsg m)).
Proof. exact unsigned_message_refused. Qed.
Print Assumptions C09_unsigned_message_refused.

(* a round nobody opened has no registered keys: nothing but a proposal can be valid for it *)
Theorem C09_unknown_round_has_no_keys :
  forall m i, create = LoadOk i -> ~ valid_sig (i_payload i) m.
Proof. exact fresh_round_no_valid_sig. Qed.
Print Assumptions C09_unknown_round_has_no_keys.

(* the four deviations the property names, each for every node state, clock value and message other
   than the opening proposal (Node/Deviations.v, corollaries of the theorem above): a missing or
   garbled signature ... *)
Require Import Node.Deviations.
Theorem C09_missing_signature_refused :
  forall now st m, ns_skip st = false -> m_event m <> ev_sig_init ->
  (m_sig m = SigNone \/ m_sig m = SigJunk) -> untouched st (node_step now st (InMsg m)).
Proof. exact missing_signature_refused. Qed.

(* ... an altered payload under a genuine signature ... *)
Theorem C09_altered_payload_refused :
  forall now st m k d, ns_skip st = false -> m_event m <> ev_sig_init ->
  m_sig m = SigBy k d -> d <> m_data m -> untouched st (node_step now st (InMsg m)).
Proof. exact altered_payload_refused. Qed.

(* ... a signature made with any key other than the one registered in that round for the sender ... *)
Theorem C09_other_key_refused :
  forall now st m k d, ns_skip st = false -> m_event m <> ev_sig_init ->
  m_sig m = SigBy k d ->
  (forall p, round_payload st (m_round m) p -> tget (p_pubkeys p) (m_sender m) <> Some k) ->
  untouched st (node_step now st (InMsg m)).
Proof. exact other_key_refused. Qed.

(* ... an unknown or blank sender *)
Theorem C09_unknown_sender_refused :
  forall now st m, ns_skip st = false -> m_event m <> ev_sig_init ->
  (forall p, round_payload st (m_round m) p -> tget (p_pubkeys p) (m_sender m) = None) ->
  untouched st (node_step now st (InMsg m)).
Proof. exact unknown_sender_refused. Qed.
Theorem C09_blank_sender_refused :
  forall now st m, ns_skip st = false -> m_event m <> ev_sig_init -> m_sender m = 0%N ->
  untouched st (node_step now st (InMsg m)).
Proof. exact blank_sender_refused. Qed.
Print Assumptions C09_other_key_refused.

(* non-vacuity on a concrete node: the genuine confirmation is accepted and written; each deviation
   of it is refused with the state and the (empty) trace of writes unchanged *)
Example C09_deviations_example :
  (exists h, node_step 777%Z dv_node (InMsg (dv_with 11%N (SigBy 3%N 11%N) 2%N)) = ROk h tt /\ h_tr h <> []) /\
  dv_refused (dv_with 12%N (SigBy 3%N 11%N) 2%N) /\
  dv_refused (dv_with 11%N (SigBy 6%N 11%N) 2%N) /\
  dv_refused (dv_with 11%N SigNone 2%N) /\
  dv_refused (dv_with 11%N SigJunk 2%N) /\
  dv_refused (dv_with 11%N (SigBy 3%N 11%N) 99%N) /\
  dv_refused (dv_with 11%N (SigBy 3%N 11%N) 0%N).
Proof. exact deviations_example. Qed.

(* regenerated from cmd/dc4bc_d on every run: every option key of the daemon is bound to the command-line
   flag of the same name - the switch that turns signature verification off is its own flag, and no other
   flag (e.g. the one that lists offsets to ignore) sets it *)
Require Gen.Skeletons.
Theorem C09_verification_switch_is_its_own_flag : Gen.Skeletons.daemon_flags_bound_to_themselves = true.
Proof. reflexivity. Qed.
